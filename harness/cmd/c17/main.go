// C17 harness: instrumented graphql.Extension implementations record every hook call (and every resolver
// call) into one global log; each hook can be told to panic with an error, a string or another value. The real
// graphql.Do is run on requests of every outcome class under generated fault assignments and compared with the
// Lean model Ext.run; the specification predicates of Props/C17 are evaluated by the driver on the REAL log.
// Besides graphql.Do on a live context the harness covers: plans obtained through PlanQuery / PlanCache before and
// after Schema.AddExtensions and executed (also repeatedly, with other variable values) through ExecutePlan;
// documents with variable-driven @skip/@include on fields, inline fragments and fragment spreads; and request
// contexts that are cancelled or past their deadline before the call, while a resolver runs, or in a finish hook.
// No defect class is recorded for C17 (D-17a..d are repaired in /repo): every disagreement, every failing
// predicate and every panic escaping graphql.Do is a violation.
package main

import (
	"context"
	"errors"
	"fmt"
	"regexp"
	"runtime"
	"sort"
	"strconv"
	"strings"
	"sync"
	"sync/atomic"
	"time"

	"github.com/graphql-go/graphql"
	"github.com/graphql-go/graphql/gqlerrors"
	"github.com/graphql-go/graphql/language/parser"

	"verif/harness/hx"
)

// hook indices = constructor indices of GqlModel.Ext.Hook
const (
	hInit = iota
	hParseStart
	hParseEnd
	hValStart
	hValEnd
	hExecStart
	hExecEnd
	hResStart
	hResEnd
	hHasResult
	hGetResult
	hResolver
)

var hookNames = []string{"init", "parseStart", "parseEnd", "valStart", "valEnd", "execStart", "execEnd", "resStart", "resEnd", "hasResult", "getResult", "resolver"}

// labels used by the recover blocks of extensions.go -> hook index of the error class
var labelHook = map[string]int{
	"Init": hInit, "ParseDidStart": hParseStart, "ParseFinishFunc": hParseEnd, "ValidationDidStart": hValStart,
	"ValidationFinishFunc": hValEnd, "ExecutionDidStart": hExecStart, "ExecutionFinishFunc": hExecEnd,
	"ResolveFieldDidStart": hResStart, "ResolveFieldFinishFunc": hResEnd, "GetResult": hGetResult,
}

const (
	outNone = 0
	outOk   = 1
	outErr  = 2
)

type extCfg struct {
	Name   int     `json:"name"`
	Beh    [11]int `json:"beh"` // 0 ok, 1 panic(error), 2 panic(string), 3 panic(other value)
	HasRes bool    `json:"hasRes"`
}

type reqT struct {
	Class  string                 `json:"class"`  // syntax | validation | operation | variable | exec
	Fields []int                  `json:"fields"` // exec: outcomes in execution order (0 ok 1 err 2 panic 3 errNN 4 panicNN)
	Query  string                 `json:"query"`
	Vars   map[string]interface{} `json:"vars,omitempty"`
	Shape  string                 `json:"shape"`
	// Table: response key -> [index in Fields, outcome] for the fields that run under Vars; nil = the keys are "k<i>"
	Table map[string][]int `json:"table,omitempty"`
}

// entry points: "" / "do" graphql.Do on a schema built with its extensions; "do-addext" graphql.Do on a schema
// that got its extensions through AddExtensions; "plan" PlanQuery then ExecutePlan; "plan-before" PlanQuery BEFORE
// AddExtensions then ExecutePlan; "cache" / "cache-before" the same through PlanCache.Get (second Get = hit).
// context: "" live; "cancelled-before", "deadline-before" (done before the call); "cancel-in-resolver",
// "deadline-in-resolver" (done while the resolver of executed field CtxAt is running); "cancel-in-finish" (cancelled
// inside the first ExecutionFinishFunc, i.e. after ExecutePlan's select).
type caseT struct {
	Exts  []extCfg `json:"exts"`
	Req   reqT     `json:"req"`
	Entry string   `json:"entry,omitempty"`
	Ctx   string   `json:"ctx,omitempty"`
	CtxAt int      `json:"ctxAt,omitempty"`
	Req2  *reqT    `json:"req2,omitempty"` // entries plan/cache: the same plan executed again with these variables
}

type evT struct {
	idx                         int // registration index (canonicalisation only)
	name, hook, fld, out, fault int
}

func (e evT) wire() []int { return []int{e.name, e.hook, e.fld, e.out, e.fault} }

// ---------------------------------------------------------------- the instrumented world (one case at a time)

var (
	mu      sync.Mutex
	curExts []extCfg
	curTab  map[string][]int // response key -> [index, outcome]
	curLog  []evT
)

func logEv(e evT) {
	mu.Lock()
	curLog = append(curLog, e)
	mu.Unlock()
}

// gate: lets the harness hold the executor goroutine at a chosen point while the request context is done
var gate struct {
	mode    int32 // 0 off; 1 hold the first executor-side event (before it is logged); 2 hold the resolver of field at (after it is logged); 4 cancel inside the first ExecutionFinishFunc
	at      int
	armed   int32
	entered chan struct{}
	release chan struct{}
	ctx     context.Context
	cancel  context.CancelFunc
}

// manualCtx: a context whose deadline "expires" when expire is called
type manualCtx struct {
	done     chan struct{}
	deadline time.Time
	once     sync.Once
	fired    int32
}

func (c *manualCtx) Deadline() (time.Time, bool)   { return c.deadline, true }
func (c *manualCtx) Done() <-chan struct{}         { return c.done }
func (c *manualCtx) Value(interface{}) interface{} { return nil }
func (c *manualCtx) Err() error {
	if atomic.LoadInt32(&c.fired) == 1 {
		return context.DeadlineExceeded
	}
	return nil
}
func (c *manualCtx) expire() {
	c.once.Do(func() {
		atomic.StoreInt32(&c.fired, 1)
		close(c.done)
	})
}

func gateFirst() {
	if atomic.LoadInt32(&gate.mode) == 1 && atomic.CompareAndSwapInt32(&gate.armed, 1, 0) {
		close(gate.entered)
		<-gate.release
	}
}

type tExt struct{ idx int }

func (e *tExt) cfg() extCfg { return curExts[e.idx] }

// call logs the hook call and then shows the configured behaviour
func (e *tExt) call(hook, fld, out int) {
	if hook == hResStart {
		gateFirst()
	}
	if hook == hExecEnd && atomic.LoadInt32(&gate.mode) == 4 && atomic.CompareAndSwapInt32(&gate.armed, 1, 0) {
		gate.cancel()
	}
	c := e.cfg()
	f := c.Beh[hook]
	logEv(evT{idx: e.idx, name: c.Name, hook: hook, fld: fld, out: out, fault: f})
	switch f {
	case 1:
		panic(errors.New("E"))
	case 2:
		panic("S")
	case 3:
		panic(42)
	}
}

func (e *tExt) Name() string { return "x" + strconv.Itoa(e.cfg().Name) }
func (e *tExt) Init(ctx context.Context, p *graphql.Params) context.Context {
	e.call(hInit, 0, outNone)
	return ctx
}
func (e *tExt) ParseDidStart(ctx context.Context) (context.Context, graphql.ParseFinishFunc) {
	e.call(hParseStart, 0, outNone)
	return ctx, func(err error) {
		o := outOk
		if err != nil {
			o = outErr
		}
		e.call(hParseEnd, 0, o)
	}
}
func (e *tExt) ValidationDidStart(ctx context.Context) (context.Context, graphql.ValidationFinishFunc) {
	e.call(hValStart, 0, outNone)
	return ctx, func(errs []gqlerrors.FormattedError) {
		o := outOk
		if len(errs) != 0 {
			o = outErr
		}
		e.call(hValEnd, 0, o)
	}
}
func (e *tExt) ExecutionDidStart(ctx context.Context) (context.Context, graphql.ExecutionFinishFunc) {
	e.call(hExecStart, 0, outNone)
	return ctx, func(r *graphql.Result) {
		o := outOk
		if r == nil || len(r.Errors) != 0 {
			o = outErr
		}
		e.call(hExecEnd, 0, o)
	}
}
func (e *tExt) ResolveFieldDidStart(ctx context.Context, i *graphql.ResolveInfo) (context.Context, graphql.ResolveFieldFinishFunc) {
	fld := keyIndex(i.Path)
	e.call(hResStart, fld, outNone)
	return ctx, func(v interface{}, err error) {
		o := outOk
		if err != nil {
			o = outErr
		}
		e.call(hResEnd, fld, o)
	}
}
func (e *tExt) HasResult() bool {
	e.call(hHasResult, 0, outNone)
	return e.cfg().HasRes
}
func (e *tExt) GetResult(ctx context.Context) interface{} {
	e.call(hGetResult, 0, outNone)
	return "r"
}

// keyIndex: the index (in the executed-field list handed to the model) of the field with this response key; a key
// that is not in the table belongs to a field that must not run
func keyIndex(p *graphql.ResponsePath) int {
	if p != nil {
		if s, ok := p.Key.(string); ok {
			if e, ok := curTab[s]; ok {
				return e[0]
			}
		}
	}
	return 999
}

func resolve(p graphql.ResolveParams) (interface{}, error) {
	gateFirst()
	key, _ := p.Info.Path.Key.(string)
	fld := keyIndex(p.Info.Path)
	oc := 0
	if e, ok := curTab[key]; ok {
		oc = e[1]
	}
	o, f := outOk, 0
	if oc != 0 {
		o = outErr
	}
	if oc == 2 || oc == 4 {
		f = 3
	}
	logEv(evT{idx: -1, name: 0, hook: hResolver, fld: fld, out: o, fault: f})
	if m := atomic.LoadInt32(&gate.mode); m == 2 && fld == gate.at && atomic.CompareAndSwapInt32(&gate.armed, 1, 0) {
		close(gate.entered)
		<-gate.release
	}
	switch oc {
	case 1, 3:
		return nil, errors.New("field failed")
	case 2, 4:
		panic("resolver boom")
	}
	if _, isObj := graphql.GetNullable(p.Info.ReturnType).(*graphql.Object); isObj {
		return map[string]interface{}{}, nil
	}
	return "v", nil
}

const maxExt = 4

var (
	pool    [maxExt]*tExt
	schemas [maxExt + 1]graphql.Schema
)

func newSchema(exts []graphql.Extension) (graphql.Schema, error) {
	var objT *graphql.Object
	objT = graphql.NewObject(graphql.ObjectConfig{Name: "Obj", Fields: (graphql.FieldsThunk)(func() graphql.Fields {
		return graphql.Fields{
			"c": &graphql.Field{Type: graphql.String, Resolve: resolve},
			"o": &graphql.Field{Type: objT, Resolve: resolve},
		}
	})})
	rootFields := func() graphql.Fields {
		return graphql.Fields{
			"f": &graphql.Field{Type: graphql.String, Resolve: resolve},
			"g": &graphql.Field{Type: graphql.NewNonNull(graphql.String), Resolve: resolve},
			"o": &graphql.Field{Type: objT, Resolve: resolve},
			"h": &graphql.Field{Type: graphql.String, Args: graphql.FieldConfigArgument{"a": &graphql.ArgumentConfig{Type: graphql.Int}}, Resolve: resolve},
		}
	}
	return graphql.NewSchema(graphql.SchemaConfig{
		Query:      graphql.NewObject(graphql.ObjectConfig{Name: "Query", Fields: rootFields()}),
		Mutation:   graphql.NewObject(graphql.ObjectConfig{Name: "Mutation", Fields: rootFields()}),
		Extensions: exts,
	})
}

func poolExts(n int) []graphql.Extension {
	exts := []graphql.Extension{}
	for i := 0; i < n; i++ {
		exts = append(exts, pool[i])
	}
	return exts
}

func buildSchemas() error {
	for i := range pool {
		pool[i] = &tExt{idx: i}
	}
	curExts = make([]extCfg, maxExt) // Name() may be called while a schema is built
	for n := 0; n <= maxExt; n++ {
		s, err := newSchema(poolExts(n))
		if err != nil {
			return err
		}
		schemas[n] = s
	}
	return nil
}

// ---------------------------------------------------------------- request shapes

// fieldSpec: kind f (String), g (String!, root only), o (Obj with children): a field with resolver outcome 0..4;
// kind "inline" / "spread": an inline fragment / a spread of a named fragment wrapping Children (same parent type).
// Dir: 0 none, 1 @include, 2 @skip; DirVar >= 0: `if: $w<DirVar>`, else the literal DirLit.
type fieldSpec struct {
	Kind     string
	Outcome  int
	Children []fieldSpec
	Dir      int
	DirVar   int
	DirLit   bool
}

func (f fieldSpec) active(vars map[string]interface{}) bool {
	if f.Dir == 0 {
		return true
	}
	v := f.DirLit
	if f.DirVar >= 0 {
		v, _ = vars["w"+strconv.Itoa(f.DirVar)].(bool)
	}
	if f.Dir == 1 {
		return v
	}
	return !v
}

func (f fieldSpec) dirText(used map[int]bool) string {
	if f.Dir == 0 {
		return ""
	}
	name := "@include"
	if f.Dir == 2 {
		name = "@skip"
	}
	if f.DirVar >= 0 {
		used[f.DirVar] = true
		return " " + name + "(if: $w" + strconv.Itoa(f.DirVar) + ")"
	}
	return " " + name + "(if: " + strconv.FormatBool(f.DirLit) + ")"
}

// render produces the document (every field under its own response key "a<n>", n in text order) and, for the given
// variable values, the list of fields that run in execution order (depth first; not: fields excluded by a
// directive, children of a failing parent) with the table response key -> [index, outcome].
func render(fs []fieldSpec, mutation bool, vars map[string]interface{}) (query string, flat []int, table map[string][]int) {
	table = map[string][]int{}
	used := map[int]bool{}
	nKey, nFrag := 0, 0
	frags := ""
	rootType := "Query"
	if mutation {
		rootType = "Mutation"
	}
	var sel func(fs []fieldSpec, live bool, root bool, typ string) string
	sel = func(fs []fieldSpec, live bool, root bool, typ string) string {
		var b strings.Builder
		b.WriteString("{ ")
		for _, f := range fs {
			act := live && f.active(vars)
			switch f.Kind {
			case "inline":
				b.WriteString("... on " + typ + f.dirText(used) + " " + sel(f.Children, act, root, typ))
			case "spread":
				name := "F" + strconv.Itoa(nFrag)
				nFrag++
				b.WriteString("..." + name + f.dirText(used) + " ")
				body := sel(f.Children, act, root, typ)
				frags += "fragment " + name + " on " + typ + " " + body
			default:
				key := "a" + strconv.Itoa(nKey)
				nKey++
				if act {
					table[key] = []int{len(flat), f.Outcome}
					flat = append(flat, f.Outcome)
				}
				name := f.Kind
				if !root && name == "f" {
					name = "c"
				}
				b.WriteString(key + ": " + name + f.dirText(used) + " ")
				if f.Kind == "o" {
					b.WriteString(sel(f.Children, act && f.Outcome == 0, false, "Obj"))
				}
			}
		}
		b.WriteString("} ")
		return b.String()
	}
	body := sel(fs, true, true, rootType)
	op := "query Q"
	if mutation {
		op = "mutation Q"
	}
	if len(used) > 0 {
		ids := []int{}
		for i := range used {
			ids = append(ids, i)
		}
		sort.Ints(ids)
		decl := []string{}
		for _, i := range ids {
			decl = append(decl, "$w"+strconv.Itoa(i)+": Boolean!")
		}
		op += "(" + strings.Join(decl, ", ") + ")"
	}
	if flat == nil {
		flat = []int{}
	}
	return op + " " + body + frags, flat, table
}

func execReqV(shape string, fs []fieldSpec, mutation bool, vars map[string]interface{}) reqT {
	q, flat, table := render(fs, mutation, vars)
	r := reqT{Class: "exec", Fields: flat, Query: q, Shape: shape, Table: table}
	if len(vars) > 0 {
		// only the variables the document declares
		r.Vars = map[string]interface{}{}
		for k, v := range vars {
			if strings.Contains(q, "$"+k+":") {
				r.Vars[k] = v
			}
		}
	}
	return r
}

func execReq(shape string, fs []fieldSpec, mutation bool) reqT {
	return execReqV(shape, fs, mutation, nil)
}

// tableOf: the resolver table of a request (older replay files name the keys "k<i>")
func tableOf(r reqT) map[string][]int {
	if r.Table != nil {
		return r.Table
	}
	m := map[string][]int{}
	for i, o := range r.Fields {
		m["k"+strconv.Itoa(i)] = []int{i, o}
	}
	return m
}

func leafs(outs ...int) []fieldSpec {
	var fs []fieldSpec
	for _, o := range outs {
		k := "f"
		if o >= 3 {
			k = "g"
		}
		fs = append(fs, fieldSpec{Kind: k, Outcome: o, DirVar: -1})
	}
	return fs
}

var syntaxTexts = []string{"{ k0: f ", "query { k0: f k1 : }", "}", "{ k0: f(a: ) }", "query Q( { f }", "{ k0: f } }"}
var validationTexts = []string{"{ nope }", "{ k0: f { x } }", "{ k0: o }", "{ k0: h(a: \"str\") }", "query($v: Int) { k0: f }", "{ ...Missing }", "fragment F on Query { f }"}
var operationTexts = []string{"query A { k0: f } query B { k1: f }", "query A { k0: f } mutation B { k1: f }", "query A { k0: f } query B { k1: g } query C { k2: f }"}
var variableTexts = []string{"query($v: Int!) { k0: h(a: $v) }", "query($v: Int) { k0: h(a: $v) }"}

func fixedReq(class string, variant int) reqT {
	switch class {
	case "syntax":
		return reqT{Class: class, Query: syntaxTexts[variant%len(syntaxTexts)], Shape: class, Fields: []int{}}
	case "validation":
		return reqT{Class: class, Query: validationTexts[variant%len(validationTexts)], Shape: class, Fields: []int{}}
	case "operation":
		return reqT{Class: class, Query: operationTexts[variant%len(operationTexts)], Shape: class, Fields: []int{}}
	default:
		v := variant % len(variableTexts)
		r := reqT{Class: "variable", Query: variableTexts[v], Shape: "variable", Fields: []int{}}
		if v == 1 {
			r.Vars = map[string]interface{}{"v": "not-an-int"}
		}
		return r
	}
}

// ---------------------------------------------------------------- running the real code

type goResult struct {
	Log      [][]int  `json:"log"`  // what was logged when the entry point returned
	Late     [][]int  `json:"late"` // what the executor goroutine logged afterwards (context-done cases)
	Errors   [][]int  `json:"errors"`
	Messages []string `json:"messages"`
	Keys     []int    `json:"keys"`
	HasData  bool     `json:"hasData"`
	Escaped  string   `json:"escaped,omitempty"`
}

var errRe = regexp.MustCompile(`^x(\d+)\.(\w+): (E|S|42)$`)

func classify(msg string) []int {
	if m := errRe.FindStringSubmatch(msg); m != nil {
		if h, ok := labelHook[m[2]]; ok {
			n, _ := strconv.Atoi(m[1])
			k := map[string]int{"E": 1, "S": 2, "42": 3}[m[3]]
			return []int{1, n, h, k}
		}
	}
	return []int{0, 0, 0, 0}
}

// wireLog: since 537e26f the finish functions of a phase run in registration order, so the log is compared as is
func wireLog(l []evT) [][]int {
	w := make([][]int, 0, len(l))
	for _, e := range l {
		w = append(w, e.wire())
	}
	return w
}

// prepared: everything that happens before the measured call (schema, AddExtensions, planning)
type prepared struct {
	schema *graphql.Schema
	plan   *graphql.Plan
	synth  map[string]interface{}
	err    string
}

func prepare(c caseT) prepared {
	n := len(c.Exts)
	switch c.Entry {
	case "", "do":
		return prepared{schema: &schemas[n]}
	case "do-addext":
		s, err := newSchema(nil)
		if err != nil {
			return prepared{err: err.Error()}
		}
		s.AddExtensions(poolExts(n)...)
		return prepared{schema: &s}
	case "plan", "plan-before":
		doc, err := parser.Parse(parser.ParseParams{Source: c.Req.Query})
		if err != nil {
			return prepared{err: "parse: " + err.Error()}
		}
		sp := &schemas[n]
		if c.Entry == "plan-before" {
			s, err := newSchema(nil)
			if err != nil {
				return prepared{err: err.Error()}
			}
			sp = &s
		}
		plan, err := graphql.PlanQuery(sp, doc, "")
		if err != nil {
			return prepared{err: "PlanQuery: " + err.Error()}
		}
		if c.Entry == "plan-before" {
			sp.AddExtensions(poolExts(n)...)
		}
		return prepared{schema: sp, plan: plan}
	case "cache", "cache-before":
		cache := graphql.NewPlanCache(graphql.PlanCacheOptions{})
		sp := &schemas[n]
		if c.Entry == "cache-before" {
			s, err := newSchema(nil)
			if err != nil {
				return prepared{err: err.Error()}
			}
			sp = &s
		}
		pr := cache.Get(sp, c.Req.Query, "")
		if pr.Plan == nil {
			return prepared{err: fmt.Sprintf("PlanCache.Get: %v", pr.Errors)}
		}
		if c.Entry == "cache-before" {
			sp.AddExtensions(poolExts(n)...)
		}
		pr2 := cache.Get(sp, c.Req.Query, "") // the hit every later request gets
		if pr2.Plan == nil {
			return prepared{err: fmt.Sprintf("PlanCache.Get (2nd): %v", pr2.Errors)}
		}
		return prepared{schema: sp, plan: pr2.Plan, synth: pr2.SynthArgs}
	}
	return prepared{err: "unknown entry " + c.Entry}
}

// runGo performs one measured call (graphql.Do or ExecutePlan) for request rq of case c.
func runGo(c caseT, pp prepared, rq reqT) goResult {
	mu.Lock()
	curExts = make([]extCfg, maxExt)
	copy(curExts, c.Exts)
	curTab = tableOf(rq)
	curLog = nil
	mu.Unlock()

	ctx := context.Background()
	cancel := func() {}
	mode := int32(0)
	switch c.Ctx {
	case "cancelled-before":
		ctx, cancel = context.WithCancel(ctx)
		cancel()
		mode = 1
	case "deadline-before":
		ctx, cancel = context.WithDeadline(ctx, time.Now().Add(-time.Second))
		mode = 1
	case "cancel-in-resolver":
		ctx, cancel = context.WithCancel(ctx)
		mode = 2
	case "deadline-in-resolver":
		// a deadline that expires exactly when the harness says so (a real timer would race with the executor)
		mc := &manualCtx{done: make(chan struct{}), deadline: time.Now()}
		ctx, cancel = mc, mc.expire
		mode = 2
	case "cancel-in-finish":
		ctx, cancel = context.WithCancel(ctx)
		mode = 4
	}
	defer cancel()
	gate.at = c.CtxAt
	gate.entered = make(chan struct{})
	gate.release = make(chan struct{})
	gate.ctx, gate.cancel = ctx, cancel
	atomic.StoreInt32(&gate.armed, 1)
	atomic.StoreInt32(&gate.mode, mode)
	baseline := runtime.NumGoroutine()

	var res *graphql.Result
	var escaped interface{}
	done := make(chan struct{})
	go func() {
		defer close(done)
		defer func() {
			if r := recover(); r != nil {
				escaped = r
			}
		}()
		vars := rq.Vars
		if pp.plan != nil {
			if len(pp.synth) > 0 {
				merged := map[string]interface{}{}
				for k, v := range vars {
					merged[k] = v
				}
				for k, v := range pp.synth {
					merged[k] = v
				}
				vars = merged
			}
			res = graphql.ExecutePlan(pp.plan, graphql.ExecuteParams{Schema: *pp.schema, Args: vars, Context: ctx})
		} else {
			res = graphql.Do(graphql.Params{Schema: *pp.schema, RequestString: rq.Query, VariableValues: vars, Context: ctx})
		}
	}()
	watchdog := time.NewTimer(10 * time.Second)
	defer watchdog.Stop()
	timedOut := false
	if mode == 2 {
		select {
		case <-gate.entered:
			cancel()
		case <-done:
		case <-watchdog.C:
			timedOut = true
		}
	}
	if !timedOut {
		select {
		case <-done:
		case <-watchdog.C:
			timedOut = true
		}
	}
	mu.Lock()
	nNow := len(curLog)
	mu.Unlock()
	atomic.StoreInt32(&gate.mode, 0)
	close(gate.release)
	if timedOut {
		return goResult{Escaped: "timeout: the call did not return within 10 s"}
	}
	drained := true
	if mode != 0 {
		// the executor goroutine is not waited for by ExecutePlan when the context is done: let it finish
		deadline := time.Now().Add(10 * time.Second)
		for runtime.NumGoroutine() > baseline {
			if time.Now().After(deadline) {
				drained = false
				break
			}
			time.Sleep(20 * time.Microsecond)
		}
	}
	mu.Lock()
	all := wireLog(curLog)
	mu.Unlock()
	g := goResult{Log: all[:nNow], Late: all[nNow:], Errors: [][]int{}, Keys: []int{}, Messages: []string{}}
	if !drained {
		g.Escaped = "the executor goroutine did not finish within 10 s after the call returned"
		return g
	}
	if escaped != nil {
		g.Escaped = fmt.Sprintf("panic escaped the call: %v", escaped)
		return g
	}
	if res == nil {
		g.Escaped = "the call returned nil"
		return g
	}
	for _, e := range res.Errors {
		g.Errors = append(g.Errors, classify(e.Message))
		g.Messages = append(g.Messages, e.Message)
	}
	for k := range res.Extensions {
		n, err := strconv.Atoi(strings.TrimPrefix(k, "x"))
		if err != nil {
			n = -1
		}
		g.Keys = append(g.Keys, n)
	}
	sort.Ints(g.Keys)
	g.HasData = res.Data != nil
	return g
}

// ---------------------------------------------------------------- model side

type specT struct {
	Order    bool `json:"order"`
	Balanced bool `json:"balanced"`
	Nested   bool `json:"nested"`
	Reported bool `json:"reported"`
	Isolated bool `json:"isolated"`
}

func (s specT) ok() bool { return s.Order && s.Balanced && s.Nested && s.Reported && s.Isolated }

type modelResp struct {
	M struct {
		Log     [][]int `json:"log"`
		Late    [][]int `json:"late"`
		Errors  [][]int `json:"errors"`
		Keys    []int   `json:"keys"`
		HasData bool    `json:"hasData"`
	} `json:"M"`
	SpecM      specT `json:"specM"`
	SpecG      specT `json:"specG"`
	SharedName bool  `json:"sharedName"`
}

func sortedErrs(e [][]int) string {
	s := make([]string, 0, len(e))
	for _, x := range e {
		s = append(s, fmt.Sprint(x))
	}
	sort.Strings(s)
	return strings.Join(s, "")
}

func sortedInts(a []int) string {
	b := append([]int{}, a...)
	sort.Ints(b)
	return fmt.Sprint(b)
}

func fld(kind string, outcome int, children ...fieldSpec) fieldSpec {
	return fieldSpec{Kind: kind, Outcome: outcome, Children: children, DirVar: -1}
}
func inc(f fieldSpec, v int) fieldSpec { f.Dir, f.DirVar = 1, v; return f }
func skp(f fieldSpec, v int) fieldSpec { f.Dir, f.DirVar = 2, v; return f }
func lit(f fieldSpec, dir int, val bool) fieldSpec {
	f.Dir, f.DirVar, f.DirLit = dir, -1, val
	return f
}

func boolVars(vals ...bool) map[string]interface{} {
	m := map[string]interface{}{}
	for i, v := range vals {
		m["w"+strconv.Itoa(i)] = v
	}
	return m
}

// nExecuted: how many entries of the executed-field list really run (up to and including the first fatal one)
func nExecuted(fields []int) int {
	for i, o := range fields {
		if o >= 3 {
			return i + 1
		}
	}
	return len(fields)
}

type dirShape struct {
	name     string
	fs       []fieldSpec
	mutation bool
	varsA    map[string]interface{}
	varsB    map[string]interface{}
}

func directiveShapes() []dirShape {
	return []dirShape{
		{"dir-field", []fieldSpec{fld("f", 0), inc(fld("f", 0), 0)}, false, boolVars(true), boolVars(false)},
		{"dir-nested", []fieldSpec{skp(fld("f", 0), 0), inc(fld("o", 0, fld("f", 0), skp(fld("f", 1), 0)), 1)}, false, boolVars(false, true), boolVars(true, true)},
		{"dir-inline", []fieldSpec{inc(fld("inline", 0, fld("f", 0), fld("f", 1)), 0), fld("f", 2)}, false, boolVars(true), boolVars(false)},
		{"dir-spread", []fieldSpec{skp(fld("spread", 0, fld("f", 0), fld("o", 0, inc(fld("f", 0), 1))), 0), fld("g", 0)}, false, boolVars(false, true), boolVars(false, false)},
		{"dir-in-fragment", []fieldSpec{fld("spread", 0, inc(fld("f", 0), 0), fld("f", 0)), fld("f", 1)}, false, boolVars(true), boolVars(false)},
		{"dir-literal", []fieldSpec{lit(fld("f", 0), 1, true), lit(fld("f", 0), 2, true), fld("f", 0)}, false, nil, nil},
		{"dir-mutation", []fieldSpec{inc(fld("f", 0), 0), skp(fld("g", 3), 1), fld("f", 0)}, true, boolVars(true, false), boolVars(true, true)},
	}
}

func main() {
	run := hx.Begin("C17")
	run.Res.Rule = "0-4 instrumented extensions x request of every outcome class (syntax, validation, operation selection, variable coercion, executed fields ok/err/panic incl. non-null root failures, nested selections, variable-driven and literal @skip/@include on fields / inline fragments / fragment spreads, queries and mutations) x fault assignment (each of the 11 hooks per extension: ok or panic with error/string/int) x entry point (graphql.Do; Do after AddExtensions; PlanQuery or PlanCache.Get before or after AddExtensions followed by ExecutePlan, the plan executed again with other variable values) x request context (live; cancelled or past its deadline before the call; cancelled / deadline expiring while a resolver runs; cancelled inside a finish hook). All single and double faults for 1 and 2 extensions are enumerated over the fixed request shapes on Do with a live context; no fault and all single faults over the directive shapes x entry points and over the context states; the rest is random. non-trivial = at least one extension and (a faulty hook, or a request that is not a plain success, or a directive, or an entry other than Do, or a context that is not live); distinct by (extension configs, request text, variables, entry, context state)"
	if err := buildSchemas(); err != nil {
		run.CheckError("cannot build schemas: " + err.Error())
		run.Finish()
		return
	}
	drv, err := hx.StartDriver(run.DriverBin)
	if err != nil {
		run.CheckError("cannot start driver: " + err.Error())
		run.Finish()
		return
	}
	defer drv.Close()

	oneExec := func(c caseT, pp prepared, rq reqT, origin string, nth int) {
		g := runGo(c, pp, rq)
		var m modelResp
		wire := map[string]interface{}{"exts": c.Exts, "req": map[string]interface{}{"class": rq.Class, "fields": rq.Fields}, "log": g.Log, "late": g.Late, "errors": g.Errors}
		if g.Log == nil {
			wire["log"] = [][]int{}
		}
		if g.Late == nil {
			wire["late"] = [][]int{}
		}
		if g.Errors == nil {
			wire["errors"] = [][]int{}
		}
		if pp.plan != nil {
			wire["entry"] = "plan"
		}
		if rq.Class == "exec" {
			switch c.Ctx {
			case "cancelled-before", "deadline-before":
				wire["ctx"] = -1
			case "cancel-in-resolver", "deadline-in-resolver":
				wire["ctx"] = c.CtxAt
			}
		}
		if err := drv.Ask(wire, &m); err != nil {
			run.CheckError(err.Error())
			return
		}
		nFault := 0
		for _, e := range c.Exts {
			for _, b := range e.Beh {
				if b != 0 {
					nFault++
				}
			}
		}
		plainSuccess := rq.Class == "exec"
		for _, o := range rq.Fields {
			if o != 0 {
				plainSuccess = false
			}
		}
		entry := c.Entry
		if entry == "" {
			entry = "do"
		}
		ctxMode := c.Ctx
		if ctxMode == "" {
			ctxMode = "live"
		}
		run.Tag("origin:" + origin)
		run.Tag("class:" + rq.Class)
		run.Tag("shape:" + rq.Shape)
		run.Tag("exts:" + strconv.Itoa(len(c.Exts)))
		run.Tag("entry:" + entry)
		run.Tag("ctx:" + ctxMode)
		if nth == 2 {
			run.Tag("plan-reused-with-other-variables")
		}
		if strings.Contains(rq.Query, "(if: $") {
			run.Tag("variable-driven-directive")
		}
		switch {
		case nFault == 0:
			run.Tag("faults:0")
		case nFault <= 2:
			run.Tag("faults:" + strconv.Itoa(nFault))
		default:
			run.Tag("faults:3+")
		}
		if strings.HasPrefix(rq.Query, "mutation") {
			run.Tag("mutation")
		}
		for _, e := range g.Log {
			if e[4] != 0 && e[1] != hResolver {
				run.Tag("hook-panicked:" + hookNames[e[1]])
			}
		}
		if len(g.Late) > 0 {
			run.Tag("executor-outlived-the-call")
		}
		key := hx.Canon(c.Exts) + "|" + rq.Query + "|" + hx.Canon(rq.Vars) + "|" + entry + "|" + ctxMode + "|" + strconv.Itoa(c.CtxAt)
		sample := map[string]interface{}{"exts": c.Exts, "query": rq.Query, "vars": rq.Vars, "class": rq.Class, "entry": entry, "ctx": ctxMode, "events": len(g.Log), "late_events": len(g.Late), "errors": len(g.Errors)}
		run.Case(key, len(c.Exts) > 0 && (nFault > 0 || !plainSuccess || entry != "do" || ctxMode != "live" || strings.Contains(rq.Query, "@")), sample)
		replay := map[string]interface{}{"case": c, "execution": nth, "request": rq, "go": g, "model": m.M, "spec_on_real_log": m.SpecG, "spec_on_model_log": m.SpecM, "shared_name": m.SharedName}

		if g.Escaped != "" {
			run.Violation("the request was taken down: "+g.Escaped, replay, false)
			return
		}
		same := func(a, b [][]int) bool {
			if len(a) == 0 && len(b) == 0 {
				return true
			}
			return hx.Canon(a) == hx.Canon(b)
		}
		corr := same(g.Log, m.M.Log) && same(g.Late, m.M.Late) && sortedErrs(g.Errors) == sortedErrs(m.M.Errors) &&
			sortedInts(g.Keys) == sortedInts(m.M.Keys) && g.HasData == m.M.HasData
		if m.SharedName {
			// the property (and the theorems) speak about extensions with distinct names: only the correspondence is checked
			run.Tag("shared-name")
			if !m.SpecG.ok() {
				run.Tag("shared-name:spec-fails-on-real-log")
			}
			if !corr {
				run.Violation("real hook log / result differs from the model (extensions sharing a name)", replay, false)
			}
			return
		}
		s := m.SpecG
		where := "entry " + entry + ", context " + ctxMode
		if s.ok() {
			if !corr {
				run.Violation("real hook log / result differs from the model although the log satisfies the specification: the pipeline no longer calls the hooks the way Ext.run describes ("+where+")", replay, false)
			}
			run.Tag("spec:holds")
			return
		}
		// The specification fails on the real log. No defect class is recorded for C17 (D-17a..d are repaired in
		// /repo), so every such case is a violation; the note says which predicate fails and whether the real log
		// still equals the model (if it does, the theorems of Props/C17 are contradicted: model/driver fault).
		switch {
		case !s.Order:
			run.Violation(fmt.Sprintf("PhaseOrder fails on the real log: an extension does not see init, parse, validation, execution, one resolve notification per executed field, result collection in this order (%s; log equals model: %v)", where, corr), replay, false)
		case !s.Balanced || !s.Nested:
			run.Violation(fmt.Sprintf("Balanced/Nested fails on the real log: a started phase is not finished exactly once with its outcome, or phases of one extension overlap (balanced=%v nested=%v; %s; log equals model: %v)", s.Balanced, s.Nested, where, corr), replay, false)
		case !s.Reported:
			run.Violation(fmt.Sprintf("a panicking hook is not reported in Result.Errors (%s; log equals model: %v)", where, corr), replay, false)
		default:
			run.Violation(fmt.Sprintf("panic isolation fails on the real log (isolated=%v; %s; log equals model: %v)", s.Isolated, where, corr), replay, false)
		}
	}

	one := func(c caseT, origin string) {
		pp := prepare(c)
		if pp.err != "" {
			run.CheckError("cannot prepare case (" + c.Entry + "): " + pp.err + " for " + c.Req.Query)
			return
		}
		oneExec(c, pp, c.Req, origin, 1)
		if c.Req2 != nil && pp.plan != nil {
			oneExec(c, pp, *c.Req2, origin, 2)
		}
	}

	if run.ReplayIn != "" {
		var rp struct {
			Case caseT `json:"case"`
		}
		if err := hx.LoadReplay(run.ReplayIn, &rp); err != nil {
			run.CheckError(err.Error())
		} else {
			one(rp.Case, "replay")
		}
		run.Finish()
		return
	}

	// ---- 1. complete enumeration of single and double faults for 1 and 2 extensions over fixed request shapes
	shapes := []reqT{
		fixedReq("syntax", 0), fixedReq("validation", 0), fixedReq("operation", 0), fixedReq("variable", 0),
		execReq("ok", leafs(0), false),
		execReq("ok-err", leafs(0, 1), false),
		execReq("panic", leafs(2), false),
		execReq("ok-panic-ok", leafs(0, 2, 0), false),
		execReq("ok-errNN-ok", leafs(0, 3, 0), false),
		execReq("panicNN", leafs(4), false),
		execReq("nested", []fieldSpec{{Kind: "o", Outcome: 0, Children: leafs(0, 1)}, {Kind: "f", Outcome: 0}}, false),
	}
	if run.Thorough() {
		shapes = append(shapes,
			execReq("err-ok-panic", leafs(1, 0, 2), true),
			execReq("ok-ok-panicNN", leafs(0, 0, 4), false),
			execReq("nested-fail", []fieldSpec{{Kind: "o", Outcome: 2, Children: leafs(0)}, {Kind: "o", Outcome: 0, Children: leafs(2, 0)}}, false),
			fixedReq("syntax", 3), fixedReq("validation", 4), fixedReq("operation", 1), fixedReq("variable", 1))
	}
	enumerated := 0
	for nExt := 1; nExt <= 2 && !run.TooManyViolations(); nExt++ {
		slots := nExt * 11
		base := func() []extCfg {
			xs := make([]extCfg, nExt)
			for i := range xs {
				xs[i] = extCfg{Name: i + 1, HasRes: true}
			}
			return xs
		}
		for _, rq := range shapes {
			one(caseT{Exts: base(), Req: rq}, "enum-0")
			enumerated++
			for s1 := 0; s1 < slots; s1++ {
				for k1 := 1; k1 <= 3; k1++ {
					xs := base()
					xs[s1/11].Beh[s1%11] = k1
					one(caseT{Exts: xs, Req: rq}, "enum-1")
					enumerated++
				}
			}
			for s1 := 0; s1 < slots; s1++ {
				for s2 := s1 + 1; s2 < slots; s2++ {
					for k1 := 1; k1 <= 3; k1++ {
						for k2 := 1; k2 <= 3; k2++ {
							if !run.Thorough() && (k1+k2+s1+s2)%3 != 0 {
								// quick tier: every slot pair, with 3 of the 9 panic-value pairs (the value never changes
								// control flow; every value occurs at every slot); the thorough tier enumerates all 9
								continue
							}
							xs := base()
							xs[s1/11].Beh[s1%11] = k1
							xs[s2/11].Beh[s2%11] = k2
							one(caseT{Exts: xs, Req: rq}, "enum-2")
							enumerated++
						}
					}
				}
			}
		}
	}
	run.Res.Extra["enumerated_single_double_fault_cases"] = enumerated
	run.Res.Extra["enumeration"] = "all (hook slot) singles x 3 panic values and all slot pairs (quick: 3 of the 9 panic-value pairs per slot pair, thorough: all 9) for 1 and 2 extensions over the fixed request shapes"

	// ---- 1b. entry points, variable-driven directives and context states: no fault and every single fault, for 1 and 2
	// extensions. Plans are obtained through PlanQuery / PlanCache before or after Schema.AddExtensions and executed
	// twice with different variable values; contexts are done before the call, while a resolver runs, or in a finish hook.
	special := 0
	entries := []string{"do", "do-addext", "plan", "plan-before", "cache", "cache-before"}
	ctxShapes := []struct {
		name string
		fs   []fieldSpec
		at   []int
	}{
		{"ctx-ok-ok", leafs(0, 0), []int{0, 1}},
		{"ctx-err-panic-ok", leafs(1, 2, 0), []int{0, 1, 2}},
		{"ctx-nested", []fieldSpec{fld("o", 0, fld("f", 0), fld("f", 1)), fld("g", 3), fld("f", 0)}, []int{1, 3}},
	}
	for nExt := 1; nExt <= 2 && !run.TooManyViolations(); nExt++ {
		slots := nExt * 11
		base := func() []extCfg {
			xs := make([]extCfg, nExt)
			for i := range xs {
				xs[i] = extCfg{Name: i + 1, HasRes: true}
			}
			return xs
		}
		faulted := func(f func(xs []extCfg)) {
			f(base())
			for s1 := 0; s1 < slots; s1++ {
				xs := base()
				xs[s1/11].Beh[s1%11] = 1 + s1%3
				f(xs)
			}
		}
		for _, ds := range directiveShapes() {
			for _, en := range entries {
				if !run.Thorough() && nExt == 2 && (en == "do-addext" || en == "cache") {
					continue // quick tier: these two entries with one extension only
				}
				ds, en := ds, en
				faulted(func(xs []extCfg) {
					c := caseT{Exts: xs, Req: execReqV(ds.name, ds.fs, ds.mutation, ds.varsA), Entry: en}
					if ds.varsB != nil {
						r2 := execReqV(ds.name, ds.fs, ds.mutation, ds.varsB)
						if en == "do" || en == "do-addext" {
							one(c, "enum-special")
							special++
							c = caseT{Exts: xs, Req: r2, Entry: en}
						} else {
							c.Req2 = &r2
						}
					}
					one(c, "enum-special")
					special++
				})
			}
		}
		for _, cs := range ctxShapes {
			for _, en := range []string{"do", "plan"} {
				cs, en := cs, en
				rq := execReq(cs.name, cs.fs, false)
				for _, mode := range []string{"cancelled-before", "deadline-before", "cancel-in-finish"} {
					mode := mode
					faulted(func(xs []extCfg) {
						one(caseT{Exts: xs, Req: rq, Entry: en, Ctx: mode}, "enum-special")
						special++
					})
				}
				for _, at := range cs.at {
					at := at
					faulted(func(xs []extCfg) {
						one(caseT{Exts: xs, Req: rq, Entry: en, Ctx: "cancel-in-resolver", CtxAt: at}, "enum-special")
						special++
					})
				}
				// a deadline that expires while the resolver runs: fault-free and a few faults
				one(caseT{Exts: base(), Req: rq, Entry: en, Ctx: "deadline-in-resolver", CtxAt: cs.at[0]}, "enum-special")
				special++
				for _, h := range []int{hExecEnd, hResStart, hResEnd, hGetResult} {
					xs := base()
					xs[nExt-1].Beh[h] = 2
					one(caseT{Exts: xs, Req: rq, Entry: en, Ctx: "deadline-in-resolver", CtxAt: cs.at[len(cs.at)-1]}, "enum-special")
					special++
				}
			}
			// a context that is done does not matter for requests that never reach ExecutePlan's select
			for _, cl := range []string{"syntax", "validation", "operation", "variable"} {
				one(caseT{Exts: base(), Req: fixedReq(cl, 0), Ctx: "cancelled-before"}, "enum-special")
				special++
			}
		}
	}
	run.Res.Extra["enumerated_entry_directive_context_cases"] = special

	// ---- 2. random: 0-4 extensions, random names (sometimes shared), densities, requests, entries, contexts
	n := run.N(6000, 400000)
	for i := 0; i < n && !run.TooManyViolations(); i++ {
		r := hx.Fork(run.Seed, i)
		nExt := r.Intn(maxExt + 1)
		xs := make([]extCfg, nExt)
		shared := r.Chance(1, 12)
		den := []int{0, 1, 2, 6}[r.Intn(4)] // expected faulty hooks per 11
		for j := range xs {
			xs[j].Name = j + 1
			if shared && j > 0 && r.Chance(1, 2) {
				xs[j].Name = xs[r.Intn(j)].Name
			}
			xs[j].HasRes = r.Chance(2, 3)
			for h := 0; h < 11; h++ {
				if r.Chance(den, 11) {
					xs[j].Beh[h] = 1 + r.Intn(3)
				}
			}
		}
		c := caseT{Exts: xs}
		switch r.Intn(10) {
		case 0:
			c.Req = fixedReq("syntax", r.Intn(100))
		case 1:
			c.Req = fixedReq("validation", r.Intn(100))
		case 2:
			if r.Chance(1, 2) {
				c.Req = fixedReq("operation", r.Intn(100))
			} else {
				c.Req = fixedReq("variable", r.Intn(100))
				if r.Chance(1, 2) {
					c.Entry = []string{"plan", "plan-before", "cache", "cache-before"}[r.Intn(4)]
				}
			}
		default:
			pFail := []int{0, 1, 3}[r.Intn(3)]
			pDir := []int{0, 0, 2, 4}[r.Intn(4)] // of 8: how often a selection carries @include/@skip
			nVar := 0
			dir := func(f fieldSpec) fieldSpec {
				if !r.Chance(pDir, 8) {
					return f
				}
				f.Dir = 1 + r.Intn(2)
				if r.Chance(1, 5) {
					f.DirVar, f.DirLit = -1, r.Chance(1, 2)
				} else {
					f.DirVar = r.Intn(3)
					if f.DirVar >= nVar {
						nVar = f.DirVar + 1
					}
				}
				return f
			}
			var gen func(depth int, root bool, wraps int) []fieldSpec
			gen = func(depth int, root bool, wraps int) []fieldSpec {
				k := r.Range(1, 3)
				fs := make([]fieldSpec, 0, k)
				for j := 0; j < k; j++ {
					f := fld("f", 0)
					if r.Chance(pFail, 6) {
						f.Outcome = 1 + r.Intn(2)
					}
					switch {
					case pDir > 0 && wraps < 2 && r.Chance(1, 5):
						f = fld([]string{"inline", "spread"}[r.Intn(2)], 0, gen(depth, root, wraps+1)...)
					case depth < 2 && r.Chance(1, 4):
						f.Kind = "o"
						f.Children = gen(depth+1, false, wraps)
					case root && r.Chance(1, 5):
						f.Kind = "g"
						if f.Outcome != 0 {
							f.Outcome += 2
						}
					}
					fs = append(fs, dir(f))
				}
				return fs
			}
			fs := gen(0, true, 0)
			mutation := r.Chance(1, 4)
			rv := func() map[string]interface{} {
				return boolVars(r.Chance(1, 2), r.Chance(1, 2), r.Chance(1, 2))
			}
			c.Req = execReqV("random", fs, mutation, rv())
			if r.Chance(2, 5) {
				c.Entry = entries[r.Intn(len(entries))]
				if (c.Entry != "do" && c.Entry != "do-addext") && r.Chance(2, 3) {
					r2 := execReqV("random", fs, mutation, rv())
					c.Req2 = &r2
				}
			}
			// context states: only with distinct names, at least one field that runs, and no second execution
			if !shared && c.Req2 == nil && nExecuted(c.Req.Fields) >= 1 && r.Chance(1, 4) {
				switch r.Intn(8) {
				case 0, 1:
					c.Ctx = "cancelled-before"
				case 2:
					c.Ctx = "deadline-before"
				case 3:
					c.Ctx = "cancel-in-finish"
				default:
					c.Ctx = "cancel-in-resolver"
					c.CtxAt = r.Intn(nExecuted(c.Req.Fields))
					if r.Chance(1, 30) {
						c.Ctx = "deadline-in-resolver"
					}
				}
			}
		}
		one(c, "random")
	}
	run.Finish()
}
