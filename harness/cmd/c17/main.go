// C17 harness: instrumented graphql.Extension implementations record every hook call (and every resolver
// call) into one global log; each hook can be told to panic with an error, a string or another value. The real
// graphql.Do is run on requests of every outcome class under generated fault assignments and compared with the
// Lean model Ext.run; the specification predicates of Props/C17 are evaluated by the driver on the REAL log.
// No defect class is recorded for C17 (D-17a..d are repaired in /repo): every disagreement, every failing
// predicate and every panic escaping graphql.Do is a violation.
package main

import (
	"context"
	"errors"
	"fmt"
	"regexp"
	"sort"
	"strconv"
	"strings"
	"sync"
	"time"

	"github.com/graphql-go/graphql"
	"github.com/graphql-go/graphql/gqlerrors"

	"verif/harness/hx"
)

// hook indices = constructor indices of GqlModel.Ext.Hook
const (
	hInit = iota
	hParseStart
	hParseEnd
	hValStart
	hValEnd
	hExecStart
	hExecEnd
	hResStart
	hResEnd
	hHasResult
	hGetResult
	hResolver
)

var hookNames = []string{"init", "parseStart", "parseEnd", "valStart", "valEnd", "execStart", "execEnd", "resStart", "resEnd", "hasResult", "getResult", "resolver"}

// labels used by the recover blocks of extensions.go -> hook index of the error class
var labelHook = map[string]int{
	"Init": hInit, "ParseDidStart": hParseStart, "ParseFinishFunc": hParseEnd, "ValidationDidStart": hValStart,
	"ValidationFinishFunc": hValEnd, "ExecutionDidStart": hExecStart, "ExecutionFinishFunc": hExecEnd,
	"ResolveFieldDidStart": hResStart, "ResolveFieldFinishFunc": hResEnd, "GetResult": hGetResult,
}

const (
	outNone = 0
	outOk   = 1
	outErr  = 2
)

type extCfg struct {
	Name   int     `json:"name"`
	Beh    [11]int `json:"beh"` // 0 ok, 1 panic(error), 2 panic(string), 3 panic(other value)
	HasRes bool    `json:"hasRes"`
}

type reqT struct {
	Class  string                 `json:"class"`  // syntax | validation | operation | variable | exec
	Fields []int                  `json:"fields"` // exec: outcomes in execution order (0 ok 1 err 2 panic 3 errNN 4 panicNN)
	Query  string                 `json:"query"`
	Vars   map[string]interface{} `json:"vars,omitempty"`
	Shape  string                 `json:"shape"`
}

type caseT struct {
	Exts []extCfg `json:"exts"`
	Req  reqT     `json:"req"`
}

type evT struct {
	idx                         int // registration index (canonicalisation only)
	name, hook, fld, out, fault int
}

func (e evT) wire() []int { return []int{e.name, e.hook, e.fld, e.out, e.fault} }

// ---------------------------------------------------------------- the instrumented world (one case at a time)

var (
	mu       sync.Mutex
	curExts  []extCfg
	curOut   map[string]int // response key -> resolver outcome
	curLog   []evT
	unlisted int
)

func logEv(e evT) {
	mu.Lock()
	curLog = append(curLog, e)
	mu.Unlock()
}

type tExt struct{ idx int }

func (e *tExt) cfg() extCfg { return curExts[e.idx] }

// call logs the hook call and then shows the configured behaviour
func (e *tExt) call(hook, fld, out int) {
	c := e.cfg()
	f := c.Beh[hook]
	logEv(evT{idx: e.idx, name: c.Name, hook: hook, fld: fld, out: out, fault: f})
	switch f {
	case 1:
		panic(errors.New("E"))
	case 2:
		panic("S")
	case 3:
		panic(42)
	}
}

func (e *tExt) Name() string { return "x" + strconv.Itoa(e.cfg().Name) }
func (e *tExt) Init(ctx context.Context, p *graphql.Params) context.Context {
	e.call(hInit, 0, outNone)
	return ctx
}
func (e *tExt) ParseDidStart(ctx context.Context) (context.Context, graphql.ParseFinishFunc) {
	e.call(hParseStart, 0, outNone)
	return ctx, func(err error) {
		o := outOk
		if err != nil {
			o = outErr
		}
		e.call(hParseEnd, 0, o)
	}
}
func (e *tExt) ValidationDidStart(ctx context.Context) (context.Context, graphql.ValidationFinishFunc) {
	e.call(hValStart, 0, outNone)
	return ctx, func(errs []gqlerrors.FormattedError) {
		o := outOk
		if len(errs) != 0 {
			o = outErr
		}
		e.call(hValEnd, 0, o)
	}
}
func (e *tExt) ExecutionDidStart(ctx context.Context) (context.Context, graphql.ExecutionFinishFunc) {
	e.call(hExecStart, 0, outNone)
	return ctx, func(r *graphql.Result) {
		o := outOk
		if r == nil || len(r.Errors) != 0 {
			o = outErr
		}
		e.call(hExecEnd, 0, o)
	}
}
func (e *tExt) ResolveFieldDidStart(ctx context.Context, i *graphql.ResolveInfo) (context.Context, graphql.ResolveFieldFinishFunc) {
	fld := keyIndex(i.Path)
	e.call(hResStart, fld, outNone)
	return ctx, func(v interface{}, err error) {
		o := outOk
		if err != nil {
			o = outErr
		}
		e.call(hResEnd, fld, o)
	}
}
func (e *tExt) HasResult() bool {
	e.call(hHasResult, 0, outNone)
	return e.cfg().HasRes
}
func (e *tExt) GetResult(ctx context.Context) interface{} {
	e.call(hGetResult, 0, outNone)
	return "r"
}

// keyIndex: response keys of fields the model expects to run are "k<i>"; anything else is a field that must not run
func keyIndex(p *graphql.ResponsePath) int {
	if p != nil {
		if s, ok := p.Key.(string); ok && strings.HasPrefix(s, "k") {
			if n, err := strconv.Atoi(s[1:]); err == nil {
				return n
			}
		}
	}
	return 999
}

func resolve(p graphql.ResolveParams) (interface{}, error) {
	key, _ := p.Info.Path.Key.(string)
	fld := keyIndex(p.Info.Path)
	oc, ok := curOut[key]
	if !ok {
		oc = 0
	}
	o, f := outOk, 0
	if oc != 0 {
		o = outErr
	}
	if oc == 2 || oc == 4 {
		f = 3
	}
	logEv(evT{idx: -1, name: 0, hook: hResolver, fld: fld, out: o, fault: f})
	switch oc {
	case 1, 3:
		return nil, errors.New("field failed")
	case 2, 4:
		panic("resolver boom")
	}
	if _, isObj := graphql.GetNullable(p.Info.ReturnType).(*graphql.Object); isObj {
		return map[string]interface{}{}, nil
	}
	return "v", nil
}

const maxExt = 4

var (
	pool    [maxExt]*tExt
	schemas [maxExt + 1]graphql.Schema
)

func buildSchemas() error {
	for i := range pool {
		pool[i] = &tExt{idx: i}
	}
	for n := 0; n <= maxExt; n++ {
		var objT *graphql.Object
		objT = graphql.NewObject(graphql.ObjectConfig{Name: "Obj", Fields: (graphql.FieldsThunk)(func() graphql.Fields {
			return graphql.Fields{
				"c": &graphql.Field{Type: graphql.String, Resolve: resolve},
				"o": &graphql.Field{Type: objT, Resolve: resolve},
			}
		})})
		rootFields := func() graphql.Fields {
			return graphql.Fields{
				"f": &graphql.Field{Type: graphql.String, Resolve: resolve},
				"g": &graphql.Field{Type: graphql.NewNonNull(graphql.String), Resolve: resolve},
				"o": &graphql.Field{Type: objT, Resolve: resolve},
				"h": &graphql.Field{Type: graphql.String, Args: graphql.FieldConfigArgument{"a": &graphql.ArgumentConfig{Type: graphql.Int}}, Resolve: resolve},
			}
		}
		exts := []graphql.Extension{}
		for i := 0; i < n; i++ {
			exts = append(exts, pool[i])
		}
		curExts = make([]extCfg, maxExt) // Name() may be called while the schema is built
		s, err := graphql.NewSchema(graphql.SchemaConfig{
			Query:      graphql.NewObject(graphql.ObjectConfig{Name: "Query", Fields: rootFields()}),
			Mutation:   graphql.NewObject(graphql.ObjectConfig{Name: "Mutation", Fields: rootFields()}),
			Extensions: exts,
		})
		if err != nil {
			return err
		}
		schemas[n] = s
	}
	return nil
}

// ---------------------------------------------------------------- request shapes

// fieldSpec: kind f (String), g (String!, root only), o (Obj with children); outcome 0..4
type fieldSpec struct {
	Kind     string
	Outcome  int
	Children []fieldSpec
}

// render assigns the response keys: "k<i>" for the i-th entry of the flattened list handed to the model (root fields
// and children of succeeding parents, depth first), "u<j>" for children of a failing parent (must never run).
func render(fs []fieldSpec, mutation bool) (query string, flat []int, outcomes map[string]int) {
	outcomes = map[string]int{}
	u := 0
	var sel func(fs []fieldSpec, live bool, root bool) string
	sel = func(fs []fieldSpec, live bool, root bool) string {
		var b strings.Builder
		b.WriteString("{ ")
		for _, f := range fs {
			var key string
			if live {
				key = "k" + strconv.Itoa(len(flat))
				flat = append(flat, f.Outcome)
			} else {
				key = "u" + strconv.Itoa(u)
				u++
			}
			outcomes[key] = f.Outcome
			name := f.Kind
			if !root && name == "f" {
				name = "c"
			}
			b.WriteString(key + ": " + name + " ")
			if f.Kind == "o" {
				b.WriteString(sel(f.Children, live && f.Outcome == 0, false))
			}
		}
		b.WriteString("} ")
		return b.String()
	}
	body := sel(fs, true, true)
	if mutation {
		return "mutation " + body, flat, outcomes
	}
	return body, flat, outcomes
}

func execReq(shape string, fs []fieldSpec, mutation bool) reqT {
	q, flat, _ := render(fs, mutation)
	return reqT{Class: "exec", Fields: flat, Query: q, Shape: shape}
}

// outcomesOf re-derives the resolver table from the query text of an exec request (so a replay needs only the case)
func outcomesOf(r reqT) map[string]int {
	m := map[string]int{}
	for i, o := range r.Fields {
		m["k"+strconv.Itoa(i)] = o
	}
	return m // "u…" keys default to outcome ok: if they run, the log shows fld 999
}

func leafs(outs ...int) []fieldSpec {
	var fs []fieldSpec
	for _, o := range outs {
		k := "f"
		if o >= 3 {
			k = "g"
		}
		fs = append(fs, fieldSpec{Kind: k, Outcome: o})
	}
	return fs
}

var syntaxTexts = []string{"{ k0: f ", "query { k0: f k1 : }", "}", "{ k0: f(a: ) }", "query Q( { f }", "{ k0: f } }"}
var validationTexts = []string{"{ nope }", "{ k0: f { x } }", "{ k0: o }", "{ k0: h(a: \"str\") }", "query($v: Int) { k0: f }", "{ ...Missing }", "fragment F on Query { f }"}
var operationTexts = []string{"query A { k0: f } query B { k1: f }", "query A { k0: f } mutation B { k1: f }", "query A { k0: f } query B { k1: g } query C { k2: f }"}
var variableTexts = []string{"query($v: Int!) { k0: h(a: $v) }", "query($v: Int) { k0: h(a: $v) }"}

func fixedReq(class string, variant int) reqT {
	switch class {
	case "syntax":
		return reqT{Class: class, Query: syntaxTexts[variant%len(syntaxTexts)], Shape: class, Fields: []int{}}
	case "validation":
		return reqT{Class: class, Query: validationTexts[variant%len(validationTexts)], Shape: class, Fields: []int{}}
	case "operation":
		return reqT{Class: class, Query: operationTexts[variant%len(operationTexts)], Shape: class, Fields: []int{}}
	default:
		v := variant % len(variableTexts)
		r := reqT{Class: "variable", Query: variableTexts[v], Shape: "variable", Fields: []int{}}
		if v == 1 {
			r.Vars = map[string]interface{}{"v": "not-an-int"}
		}
		return r
	}
}

// ---------------------------------------------------------------- running the real code

type goResult struct {
	Log      [][]int  `json:"log"`
	Errors   [][]int  `json:"errors"`
	Messages []string `json:"messages"`
	Keys     []int    `json:"keys"`
	HasData  bool     `json:"hasData"`
	Escaped  string   `json:"escaped,omitempty"`
}

var errRe = regexp.MustCompile(`^x(\d+)\.(\w+): (E|S|42)$`)

func classify(msg string) []int {
	if m := errRe.FindStringSubmatch(msg); m != nil {
		if h, ok := labelHook[m[2]]; ok {
			n, _ := strconv.Atoi(m[1])
			k := map[string]int{"E": 1, "S": 2, "42": 3}[m[3]]
			return []int{1, n, h, k}
		}
	}
	return []int{0, 0, 0, 0}
}

// wireLog: since 537e26f the finish functions of a phase run in registration order, so the log is compared as is
func wireLog(l []evT) [][]int {
	w := make([][]int, 0, len(l))
	for _, e := range l {
		w = append(w, e.wire())
	}
	return w
}

func runGo(c caseT) goResult {
	mu.Lock()
	curExts = make([]extCfg, maxExt)
	copy(curExts, c.Exts)
	curOut = outcomesOf(c.Req)
	curLog = nil
	mu.Unlock()
	var res *graphql.Result
	var escaped interface{}
	done := make(chan struct{})
	go func() {
		defer close(done)
		defer func() {
			if r := recover(); r != nil {
				escaped = r
			}
		}()
		res = graphql.Do(graphql.Params{Schema: schemas[len(c.Exts)], RequestString: c.Req.Query, VariableValues: c.Req.Vars, Context: context.Background()})
	}()
	watchdog := time.NewTimer(10 * time.Second)
	select {
	case <-done:
		watchdog.Stop()
	case <-watchdog.C:
		return goResult{Escaped: "timeout: graphql.Do did not return within 10 s"}
	}
	mu.Lock()
	log := wireLog(curLog)
	mu.Unlock()
	g := goResult{Log: log, Errors: [][]int{}, Keys: []int{}, Messages: []string{}}
	if escaped != nil {
		g.Escaped = fmt.Sprintf("panic escaped graphql.Do: %v", escaped)
		return g
	}
	if res == nil {
		g.Escaped = "graphql.Do returned nil"
		return g
	}
	for _, e := range res.Errors {
		g.Errors = append(g.Errors, classify(e.Message))
		g.Messages = append(g.Messages, e.Message)
	}
	for k := range res.Extensions {
		n, err := strconv.Atoi(strings.TrimPrefix(k, "x"))
		if err != nil {
			n = -1
		}
		g.Keys = append(g.Keys, n)
	}
	sort.Ints(g.Keys)
	g.HasData = res.Data != nil
	return g
}

// ---------------------------------------------------------------- model side

type specT struct {
	Order    bool `json:"order"`
	Balanced bool `json:"balanced"`
	Nested   bool `json:"nested"`
	Reported bool `json:"reported"`
	Isolated bool `json:"isolated"`
}

func (s specT) ok() bool { return s.Order && s.Balanced && s.Nested && s.Reported && s.Isolated }

type modelResp struct {
	M struct {
		Log     [][]int `json:"log"`
		Errors  [][]int `json:"errors"`
		Keys    []int   `json:"keys"`
		HasData bool    `json:"hasData"`
	} `json:"M"`
	SpecM specT `json:"specM"`
	SpecG specT `json:"specG"`
	SharedName bool `json:"sharedName"`
}

func sortedErrs(e [][]int) string {
	s := make([]string, 0, len(e))
	for _, x := range e {
		s = append(s, fmt.Sprint(x))
	}
	sort.Strings(s)
	return strings.Join(s, "")
}

func sortedInts(a []int) string {
	b := append([]int{}, a...)
	sort.Ints(b)
	return fmt.Sprint(b)
}

func main() {
	run := hx.Begin("C17")
	run.Res.Rule = "0-4 instrumented extensions x request of every outcome class (syntax, validation, operation selection, variable coercion, executed fields ok/err/panic incl. non-null root failures, nested selections, queries and mutations) x fault assignment (each of the 11 hooks per extension: ok or panic with error/string/int); all single and double faults for 1 and 2 extensions are enumerated over the fixed request shapes, the rest is random. non-trivial = at least one extension and (at least one faulty hook or a request that is not a plain success); distinct by (extension configs, request text, variables)"
	if err := buildSchemas(); err != nil {
		run.CheckError("cannot build schemas: " + err.Error())
		run.Finish()
		return
	}
	drv, err := hx.StartDriver(run.DriverBin)
	if err != nil {
		run.CheckError("cannot start driver: " + err.Error())
		run.Finish()
		return
	}
	defer drv.Close()

	one := func(c caseT, origin string) {
		g := runGo(c)
		var m modelResp
		wire := map[string]interface{}{"exts": c.Exts, "req": map[string]interface{}{"class": c.Req.Class, "fields": c.Req.Fields}, "log": g.Log, "errors": g.Errors}
		if g.Log == nil {
			wire["log"] = [][]int{}
		}
		if g.Errors == nil {
			wire["errors"] = [][]int{}
		}
		if err := drv.Ask(wire, &m); err != nil {
			run.CheckError(err.Error())
			return
		}
		nFault := 0
		for _, e := range c.Exts {
			for _, b := range e.Beh {
				if b != 0 {
					nFault++
				}
			}
		}
		plainSuccess := c.Req.Class == "exec"
		for _, o := range c.Req.Fields {
			if o != 0 {
				plainSuccess = false
			}
		}
		run.Tag("origin:" + origin)
		run.Tag("class:" + c.Req.Class)
		run.Tag("shape:" + c.Req.Shape)
		run.Tag("exts:" + strconv.Itoa(len(c.Exts)))
		switch {
		case nFault == 0:
			run.Tag("faults:0")
		case nFault <= 2:
			run.Tag("faults:" + strconv.Itoa(nFault))
		default:
			run.Tag("faults:3+")
		}
		if strings.HasPrefix(c.Req.Query, "mutation") {
			run.Tag("mutation")
		}
		for _, e := range g.Log {
			if e[4] != 0 && e[1] != hResolver {
				run.Tag("hook-panicked:" + hookNames[e[1]])
			}
		}
		key := hx.Canon(c.Exts) + "|" + c.Req.Query + "|" + hx.Canon(c.Req.Vars)
		sample := map[string]interface{}{"exts": c.Exts, "query": c.Req.Query, "class": c.Req.Class, "events": len(g.Log), "errors": len(g.Errors)}
		run.Case(key, len(c.Exts) > 0 && (nFault > 0 || !plainSuccess), sample)
		replay := map[string]interface{}{"case": c, "go": g, "model": m.M, "spec_on_real_log": m.SpecG, "spec_on_model_log": m.SpecM, "shared_name": m.SharedName}

		if g.Escaped != "" {
			run.Violation("the request was taken down: "+g.Escaped, replay, false)
			return
		}
		corr := hx.Canon(g.Log) == hx.Canon(m.M.Log) && sortedErrs(g.Errors) == sortedErrs(m.M.Errors) &&
			sortedInts(g.Keys) == sortedInts(m.M.Keys) && g.HasData == m.M.HasData
		if len(g.Log) == 0 && len(m.M.Log) == 0 {
			corr = sortedErrs(g.Errors) == sortedErrs(m.M.Errors) && sortedInts(g.Keys) == sortedInts(m.M.Keys) && g.HasData == m.M.HasData
		}
		if m.SharedName {
			// the property (and the theorems) speak about extensions with distinct names: only the correspondence is checked
			run.Tag("shared-name")
			if !m.SpecG.ok() {
				run.Tag("shared-name:spec-fails-on-real-log")
			}
			if !corr {
				run.Violation("real hook log / result differs from the model (extensions sharing a name)", replay, false)
			}
			return
		}
		s := m.SpecG
		if s.ok() {
			if !corr {
				run.Violation("real hook log / result differs from the model although the log satisfies the specification: the pipeline no longer calls the hooks the way Ext.run describes", replay, false)
			}
			run.Tag("spec:holds")
			return
		}
		// The specification fails on the real log. No defect class is recorded for C17 any more (D-17a..d are
		// repaired in /repo), so every such case is a violation; the note says which predicate fails and whether the
		// real log still equals the model (if it does, the theorems of Props/C17 are contradicted: model/driver fault).
		switch {
		case !s.Order:
			run.Violation(fmt.Sprintf("PhaseOrder fails on the real log: an extension does not see init, parse, validation, execution, one resolve notification per executed field, result collection in this order (log equals model: %v)", corr), replay, false)
		case !s.Balanced || !s.Nested:
			run.Violation(fmt.Sprintf("Balanced/Nested fails on the real log: a started phase is not finished exactly once with its outcome, or phases of one extension overlap (balanced=%v nested=%v; log equals model: %v)", s.Balanced, s.Nested, corr), replay, false)
		case !s.Reported:
			run.Violation(fmt.Sprintf("a panicking hook is not reported in Result.Errors (log equals model: %v)", corr), replay, false)
		default:
			run.Violation(fmt.Sprintf("panic isolation fails on the real log (isolated=%v; log equals model: %v)", s.Isolated, corr), replay, false)
		}
	}

	if run.ReplayIn != "" {
		var rp struct {
			Case caseT `json:"case"`
		}
		if err := hx.LoadReplay(run.ReplayIn, &rp); err != nil {
			run.CheckError(err.Error())
		} else {
			one(rp.Case, "replay")
		}
		run.Finish()
		return
	}

	// ---- 1. complete enumeration of single and double faults for 1 and 2 extensions over fixed request shapes
	shapes := []reqT{
		fixedReq("syntax", 0), fixedReq("validation", 0), fixedReq("operation", 0), fixedReq("variable", 0),
		execReq("ok", leafs(0), false),
		execReq("ok-err", leafs(0, 1), false),
		execReq("panic", leafs(2), false),
		execReq("ok-panic-ok", leafs(0, 2, 0), false),
		execReq("ok-errNN-ok", leafs(0, 3, 0), false),
		execReq("panicNN", leafs(4), false),
		execReq("nested", []fieldSpec{{Kind: "o", Outcome: 0, Children: leafs(0, 1)}, {Kind: "f", Outcome: 0}}, false),
	}
	if run.Thorough() {
		shapes = append(shapes,
			execReq("err-ok-panic", leafs(1, 0, 2), true),
			execReq("ok-ok-panicNN", leafs(0, 0, 4), false),
			execReq("nested-fail", []fieldSpec{{Kind: "o", Outcome: 2, Children: leafs(0)}, {Kind: "o", Outcome: 0, Children: leafs(2, 0)}}, false),
			fixedReq("syntax", 3), fixedReq("validation", 4), fixedReq("operation", 1), fixedReq("variable", 1))
	}
	enumerated := 0
	for nExt := 1; nExt <= 2 && !run.TooManyViolations(); nExt++ {
		slots := nExt * 11
		base := func() []extCfg {
			xs := make([]extCfg, nExt)
			for i := range xs {
				xs[i] = extCfg{Name: i + 1, HasRes: true}
			}
			return xs
		}
		for _, rq := range shapes {
			one(caseT{Exts: base(), Req: rq}, "enum-0")
			enumerated++
			for s1 := 0; s1 < slots; s1++ {
				for k1 := 1; k1 <= 3; k1++ {
					xs := base()
					xs[s1/11].Beh[s1%11] = k1
					one(caseT{Exts: xs, Req: rq}, "enum-1")
					enumerated++
				}
			}
			for s1 := 0; s1 < slots; s1++ {
				for s2 := s1 + 1; s2 < slots; s2++ {
					for k1 := 1; k1 <= 3; k1++ {
						for k2 := 1; k2 <= 3; k2++ {
							if !run.Thorough() && (k1+k2+s1+s2)%3 != 0 {
								// quick tier: every slot pair, with 3 of the 9 panic-value pairs (the value never changes
								// control flow; every value occurs at every slot); the thorough tier enumerates all 9
								continue
							}
							xs := base()
							xs[s1/11].Beh[s1%11] = k1
							xs[s2/11].Beh[s2%11] = k2
							one(caseT{Exts: xs, Req: rq}, "enum-2")
							enumerated++
						}
					}
				}
			}
		}
	}
	run.Res.Extra["enumerated_single_double_fault_cases"] = enumerated
	run.Res.Extra["enumeration"] = "all (hook slot) singles x 3 panic values and all slot pairs (quick: 3 of the 9 panic-value pairs per slot pair, thorough: all 9) for 1 and 2 extensions over the fixed request shapes"

	// ---- 2. random: 0-4 extensions, random names (sometimes shared), densities, requests
	n := run.N(6000, 400000)
	for i := 0; i < n && !run.TooManyViolations(); i++ {
		r := hx.Fork(run.Seed, i)
		nExt := r.Intn(maxExt + 1)
		xs := make([]extCfg, nExt)
		shared := r.Chance(1, 12)
		den := []int{0, 1, 2, 6}[r.Intn(4)] // expected faulty hooks per 11
		for j := range xs {
			xs[j].Name = j + 1
			if shared && j > 0 && r.Chance(1, 2) {
				xs[j].Name = xs[r.Intn(j)].Name
			}
			xs[j].HasRes = r.Chance(2, 3)
			for h := 0; h < 11; h++ {
				if r.Chance(den, 11) {
					xs[j].Beh[h] = 1 + r.Intn(3)
				}
			}
		}
		var rq reqT
		switch r.Intn(10) {
		case 0:
			rq = fixedReq("syntax", r.Intn(100))
		case 1:
			rq = fixedReq("validation", r.Intn(100))
		case 2:
			if r.Chance(1, 2) {
				rq = fixedReq("operation", r.Intn(100))
			} else {
				rq = fixedReq("variable", r.Intn(100))
			}
		default:
			pFail := []int{0, 1, 3}[r.Intn(3)]
			var gen func(depth int, root bool) []fieldSpec
			gen = func(depth int, root bool) []fieldSpec {
				k := r.Range(1, 3)
				fs := make([]fieldSpec, 0, k)
				for j := 0; j < k; j++ {
					f := fieldSpec{Kind: "f"}
					if r.Chance(pFail, 6) {
						f.Outcome = 1 + r.Intn(2)
					}
					switch {
					case depth < 2 && r.Chance(1, 4):
						f.Kind = "o"
						f.Children = gen(depth+1, false)
					case root && r.Chance(1, 5):
						f.Kind = "g"
						if f.Outcome != 0 {
							f.Outcome += 2
						}
					}
					fs = append(fs, f)
				}
				return fs
			}
			rq = execReq("random", gen(0, true), r.Chance(1, 4))
		}
		one(caseT{Exts: xs, Req: rq}, "random")
	}
	run.Finish()
}
