// C17 harness: instrumented graphql.Extension implementations record every hook call (and every resolver
// call) into one global log; each hook can be told to panic with an error, a string or another value. The real
// graphql.Do is run on requests of every outcome class under generated fault assignments and compared with the
// Lean model Ext.run; the specification predicates of Props/C17 are evaluated by the driver on the REAL log.
// Besides graphql.Do on a live context the harness covers: plans obtained through PlanQuery / PlanCache before and
// after Schema.AddExtensions and executed (also repeatedly, with other variable values) through ExecutePlan;
// documents with variable-driven @skip/@include on fields, inline fragments and fragment spreads; and request
// contexts that are cancelled or past their deadline before the call, while a resolver runs, or in a finish hook.
// Meta fields (__typename, __schema, __type and the introspection fields selected below them) are executed fields like
// any other: the harness wraps the resolve functions of the library's exported definitions so that they log the
// "resolver" pseudo event too (instrumentMeta), and -- independently of model and resolver log -- compares the resolve
// notifications of every extension with the field positions of the response data (treeOracle).
// No defect class is recorded for C17 (D-17a..d are repaired in /repo): every disagreement, every failing
// predicate and every panic escaping graphql.Do is a violation.
package main

import (
	"context"
	"errors"
	"fmt"
	"reflect"
	"regexp"
	"runtime"
	"sort"
	"strconv"
	"strings"
	"sync"
	"sync/atomic"
	"time"

	"github.com/graphql-go/graphql"
	"github.com/graphql-go/graphql/gqlerrors"
	"github.com/graphql-go/graphql/language/parser"

	"verif/harness/hx"
)

// hook indices = constructor indices of GqlModel.Ext.Hook
const (
	hInit = iota
	hParseStart
	hParseEnd
	hValStart
	hValEnd
	hExecStart
	hExecEnd
	hResStart
	hResEnd
	hHasResult
	hGetResult
	hResolver
)

var hookNames = []string{"init", "parseStart", "parseEnd", "valStart", "valEnd", "execStart", "execEnd", "resStart", "resEnd", "hasResult", "getResult", "resolver"}

// labels used by the recover blocks of extensions.go -> hook index of the error class
var labelHook = map[string]int{
	"Init": hInit, "ParseDidStart": hParseStart, "ParseFinishFunc": hParseEnd, "ValidationDidStart": hValStart,
	"ValidationFinishFunc": hValEnd, "ExecutionDidStart": hExecStart, "ExecutionFinishFunc": hExecEnd,
	"ResolveFieldDidStart": hResStart, "ResolveFieldFinishFunc": hResEnd, "GetResult": hGetResult,
}

const (
	outNone = 0
	outOk   = 1
	outErr  = 2
)

type extCfg struct {
	Name   int     `json:"name"`
	Beh    [11]int `json:"beh"` // 0 ok, 1 panic(error), 2 panic(string), 3 panic(other value)
	HasRes bool    `json:"hasRes"`
}

type reqT struct {
	Class  string                 `json:"class"`  // syntax | validation | operation | variable | exec
	Fields []int                  `json:"fields"` // exec: outcomes in execution order (0 ok 1 err 2 panic 3 errNN 4 panicNN)
	Query  string                 `json:"query"`
	Vars   map[string]interface{} `json:"vars,omitempty"`
	Shape  string                 `json:"shape"`
	// Table: response key -> [index in Fields, outcome] for the fields that run under Vars; nil = the keys are "k<i>"
	// (since the __typename round: path or response key -> [index, outcome, runtime type, list length, meta], see tabEntry)
	Table map[string][]int `json:"table,omitempty"`
	Feat  []string         `json:"feat,omitempty"` // features of the document (histogram only)
}

// entry points: "" / "do" graphql.Do on a schema built with its extensions; "do-addext" graphql.Do on a schema
// that got its extensions through AddExtensions; "plan" PlanQuery then ExecutePlan; "plan-before" PlanQuery BEFORE
// AddExtensions then ExecutePlan; "cache" / "cache-before" the same through PlanCache.Get (second Get = hit).
// context: "" live; "cancelled-before", "deadline-before" (done before the call); "cancel-in-resolver",
// "deadline-in-resolver" (done while the resolver of executed field CtxAt is running); "cancel-in-finish" (cancelled
// inside the first ExecutionFinishFunc, i.e. after ExecutePlan's select).
type caseT struct {
	Exts  []extCfg `json:"exts"`
	Req   reqT     `json:"req"`
	Entry string   `json:"entry,omitempty"`
	Ctx   string   `json:"ctx,omitempty"`
	CtxAt int      `json:"ctxAt,omitempty"`
	Req2  *reqT    `json:"req2,omitempty"` // entries plan/cache: the same plan executed again with these variables
}

type evT struct {
	idx                         int // registration index (canonicalisation only)
	name, hook, fld, out, fault int
	path                        string // resolve hooks: the response path of the field (response-tree oracle only)
	val                         string // resEnd: canonical rendering of the VALUE argument of ResolveFieldFinishFunc (finish-value oracle only)
}

func (e evT) wire() []int { return []int{e.name, e.hook, e.fld, e.out, e.fault} }

// ---------------------------------------------------------------- the instrumented world (one case at a time)

var (
	mu      sync.Mutex
	curExts []extCfg
	curTab  map[string][]int // response key -> [index, outcome]
	curLog  []evT
	curRet  map[string]string // response path -> rendering of the value the resolve function of that position RETURNED (absent: it panicked / never ran)
)

// renderVal: canonical rendering of a value handed to / returned by a resolve function: "nil", JSON (sorted keys) for
// scalars, maps and lists, "func" for thunks, the Go type (and Name(), if any) for everything else. No addresses.
func renderVal(v interface{}) string {
	switch x := v.(type) {
	case nil:
		return "nil"
	case string, bool, int, map[string]interface{}, []interface{}:
		return hx.Canon(x)
	}
	if rv := reflect.ValueOf(v); rv.Kind() == reflect.Func {
		return "func"
	} else if (rv.Kind() == reflect.Ptr || rv.Kind() == reflect.Map || rv.Kind() == reflect.Slice || rv.Kind() == reflect.Interface) && rv.IsNil() {
		return fmt.Sprintf("%T(nil)", v)
	}
	if n, ok := v.(interface{ Name() string }); ok {
		return fmt.Sprintf("%T(%s)", v, n.Name())
	}
	return fmt.Sprintf("%T", v)
}

// returned records what the resolve function of the field at path p returned (the expected value argument of every
// extension's ResolveFieldFinishFunc for that position; a resolve function that panics records nothing: expected nil)
func returned(p *graphql.ResponsePath, v interface{}) {
	mu.Lock()
	if curRet != nil {
		curRet[pathStr(p)] = renderVal(v)
	}
	mu.Unlock()
}

func logEv(e evT) {
	mu.Lock()
	curLog = append(curLog, e)
	mu.Unlock()
}

// gate: lets the harness hold the executor goroutine at a chosen point while the request context is done
var gate struct {
	mode    int32 // 0 off; 1 hold the first executor-side event (before it is logged); 2 hold the resolver of field at (after it is logged); 4 cancel inside the first ExecutionFinishFunc
	at      int
	armed   int32
	entered chan struct{}
	release chan struct{}
	ctx     context.Context
	cancel  context.CancelFunc
}

// manualCtx: a context whose deadline "expires" when expire is called
type manualCtx struct {
	done     chan struct{}
	deadline time.Time
	once     sync.Once
	fired    int32
}

func (c *manualCtx) Deadline() (time.Time, bool)   { return c.deadline, true }
func (c *manualCtx) Done() <-chan struct{}         { return c.done }
func (c *manualCtx) Value(interface{}) interface{} { return nil }
func (c *manualCtx) Err() error {
	if atomic.LoadInt32(&c.fired) == 1 {
		return context.DeadlineExceeded
	}
	return nil
}
func (c *manualCtx) expire() {
	c.once.Do(func() {
		atomic.StoreInt32(&c.fired, 1)
		close(c.done)
	})
}

func gateFirst() {
	if atomic.LoadInt32(&gate.mode) == 1 && atomic.CompareAndSwapInt32(&gate.armed, 1, 0) {
		close(gate.entered)
		<-gate.release
	}
}

type tExt struct{ idx int }

func (e *tExt) cfg() extCfg { return curExts[e.idx] }

// call logs the hook call and then shows the configured behaviour
func (e *tExt) call(hook, fld, out int) { e.callP(hook, fld, out, "") }

func (e *tExt) callP(hook, fld, out int, path string) { e.callV(hook, fld, out, path, "") }

func (e *tExt) callV(hook, fld, out int, path, val string) {
	if hook == hResStart {
		gateFirst()
	}
	if hook == hExecEnd && atomic.LoadInt32(&gate.mode) == 4 && atomic.CompareAndSwapInt32(&gate.armed, 1, 0) {
		gate.cancel()
	}
	c := e.cfg()
	f := c.Beh[hook]
	logEv(evT{idx: e.idx, name: c.Name, hook: hook, fld: fld, out: out, fault: f, path: path, val: val})
	switch f {
	case 1:
		panic(errors.New("E"))
	case 2:
		panic("S")
	case 3:
		panic(42)
	}
}

func (e *tExt) Name() string { return "x" + strconv.Itoa(e.cfg().Name) }
func (e *tExt) Init(ctx context.Context, p *graphql.Params) context.Context {
	e.call(hInit, 0, outNone)
	return ctx
}
func (e *tExt) ParseDidStart(ctx context.Context) (context.Context, graphql.ParseFinishFunc) {
	e.call(hParseStart, 0, outNone)
	return ctx, func(err error) {
		o := outOk
		if err != nil {
			o = outErr
		}
		e.call(hParseEnd, 0, o)
	}
}
func (e *tExt) ValidationDidStart(ctx context.Context) (context.Context, graphql.ValidationFinishFunc) {
	e.call(hValStart, 0, outNone)
	return ctx, func(errs []gqlerrors.FormattedError) {
		o := outOk
		if len(errs) != 0 {
			o = outErr
		}
		e.call(hValEnd, 0, o)
	}
}
func (e *tExt) ExecutionDidStart(ctx context.Context) (context.Context, graphql.ExecutionFinishFunc) {
	e.call(hExecStart, 0, outNone)
	return ctx, func(r *graphql.Result) {
		o := outOk
		if r == nil || len(r.Errors) != 0 {
			o = outErr
		}
		e.call(hExecEnd, 0, o)
	}
}
func (e *tExt) ResolveFieldDidStart(ctx context.Context, i *graphql.ResolveInfo) (context.Context, graphql.ResolveFieldFinishFunc) {
	fld := keyIndex(i.Path)
	ps := pathStr(i.Path)
	e.callP(hResStart, fld, outNone, ps)
	return ctx, func(v interface{}, err error) {
		o := outOk
		if err != nil {
			o = outErr
		}
		e.callV(hResEnd, fld, o, ps, renderVal(v))
	}
}
func (e *tExt) HasResult() bool {
	e.call(hHasResult, 0, outNone)
	return e.cfg().HasRes
}
func (e *tExt) GetResult(ctx context.Context) interface{} {
	e.call(hGetResult, 0, outNone)
	return "r"
}

// pathStr: a response path as text: keys and list indices joined by "/"
func pathStr(p *graphql.ResponsePath) string {
	parts := []string{}
	for _, k := range p.AsArray() {
		parts = append(parts, fmt.Sprint(k))
	}
	return strings.Join(parts, "/")
}

// tabEntry: the table entry [index, outcome, runtime type, list length, meta] of the field at this response path. The
// table is keyed by the full path for positions below a list and for unaliased fields, by the response key alone
// otherwise (every aliased field has its own response key); nil = the field must not run.
func tabEntry(p *graphql.ResponsePath) []int {
	if p == nil {
		return nil
	}
	if e, ok := curTab[pathStr(p)]; ok {
		return e
	}
	if s, ok := p.Key.(string); ok {
		if e, ok := curTab[s]; ok {
			return e
		}
	}
	return nil
}

func entryAt(e []int, i int) int {
	if i < len(e) {
		return e[i]
	}
	return 0
}

// keyIndex: the index (in the executed-field list handed to the model) of the field at this response path; a path
// that is not in the table belongs to a field that must not run
func keyIndex(p *graphql.ResponsePath) int {
	if e := tabEntry(p); e != nil {
		return e[0]
	}
	return 999
}

// enterResolver is what every resolve function of the harness does first -- the user resolvers of the test schema and
// the wrappers put around the library's own meta-field resolve functions (instrumentMeta): log the pseudo event
// "resolver" for the field, and let the gate hold the executor here if the case asks for it.
func enterResolver(p *graphql.ResponsePath) (entry []int) {
	gateFirst()
	entry = tabEntry(p)
	fld := keyIndex(p)
	oc := entryAt(entry, 1)
	o, f := outOk, 0
	if oc != 0 {
		o = outErr
	}
	if oc == 2 || oc == 4 {
		f = 3
	}
	logEv(evT{idx: -1, name: 0, hook: hResolver, fld: fld, out: o, fault: f})
	if m := atomic.LoadInt32(&gate.mode); m == 2 && fld == gate.at && atomic.CompareAndSwapInt32(&gate.armed, 1, 0) {
		close(gate.entered)
		<-gate.release
	}
	return entry
}

var typeNames = []string{"Obj", "Alt"}

// value: what a resolver returns for a field of type t; rt = runtime type of an abstract value (0 Obj, 1 Alt; the
// elements of a list of abstract values alternate, starting with rt), n = length of a list
func value(t graphql.Type, rt, n int) interface{} {
	switch tt := graphql.GetNullable(t).(type) {
	case *graphql.Object:
		return map[string]interface{}{}
	case *graphql.Interface, *graphql.Union:
		return map[string]interface{}{"__t": typeNames[rt%2]}
	case *graphql.List:
		l := make([]interface{}, 0, n)
		for j := 0; j < n; j++ {
			l = append(l, value(tt.OfType, rt+j, 0))
		}
		return l
	}
	return "v"
}

func resolve(p graphql.ResolveParams) (interface{}, error) {
	entry := enterResolver(p.Info.Path)
	var v interface{}
	var err error
	switch entryAt(entry, 1) {
	case 1, 3:
		err = errors.New("field failed")
		if entryAt(entry, 5) == retValueAndError {
			// a (partial) value TOGETHER WITH the error: the response is the same as for (nil, err)
			v = value(p.Info.ReturnType, entryAt(entry, 2), entryAt(entry, 3))
		}
	case 2, 4:
		panic("resolver boom")
	default:
		v = value(p.Info.ReturnType, entryAt(entry, 2), entryAt(entry, 3))
		if entryAt(entry, 5) == retThunk {
			inner := v
			v = func() (interface{}, error) { return inner, nil }
		}
	}
	returned(p.Info.Path, v)
	return v, err
}

// instrumentMeta wraps the resolve functions of the library's meta fields (__typename, __schema, __type) and of the
// two introspection fields the requests select below them (__Schema.queryType, __Type.name): the wrapper logs the
// pseudo event "resolver" like the resolvers of the test schema do and then calls the library's function (a nil
// Resolve means DefaultResolveFn, plan.go resolvePlannedField). The FieldDefinition objects stay the same, so the
// library sees its own definitions.
func instrumentMeta() error {
	defs := []*graphql.FieldDefinition{graphql.TypeNameMetaFieldDef, graphql.SchemaMetaFieldDef, graphql.TypeMetaFieldDef,
		graphql.SchemaType.Fields()["queryType"], graphql.TypeType.Fields()["name"]}
	for _, fd := range defs {
		if fd == nil {
			return errors.New("a meta field definition is missing")
		}
		orig := fd.Resolve
		if orig == nil {
			orig = graphql.DefaultResolveFn
		}
		fd.Resolve = func(p graphql.ResolveParams) (interface{}, error) {
			enterResolver(p.Info.Path)
			v, err := orig(p)
			returned(p.Info.Path, v)
			return v, err
		}
	}
	return nil
}

const maxExt = 4

var (
	pool    [maxExt]*tExt
	schemas [maxExt + 1]graphql.Schema
)

// the test schema: Query / Mutation { f g o h i u l li }, Obj implements I { c o i u l li }, Alt implements I { c d o },
// interface I { c }, union U = Obj | Alt, l: [Obj], li: [I]
func newSchema(exts []graphql.Extension) (graphql.Schema, error) {
	var objT, altT *graphql.Object
	var ifT *graphql.Interface
	var unT *graphql.Union
	resolveType := func(p graphql.ResolveTypeParams) *graphql.Object {
		if m, ok := p.Value.(map[string]interface{}); ok && m["__t"] == "Alt" {
			return altT
		}
		return objT
	}
	ifT = graphql.NewInterface(graphql.InterfaceConfig{Name: "I", ResolveType: resolveType,
		Fields: graphql.Fields{"c": &graphql.Field{Type: graphql.String}}})
	composite := func(fs graphql.Fields) graphql.Fields {
		fs["o"] = &graphql.Field{Type: objT, Resolve: resolve}
		fs["i"] = &graphql.Field{Type: ifT, Resolve: resolve}
		fs["u"] = &graphql.Field{Type: unT, Resolve: resolve}
		fs["l"] = &graphql.Field{Type: graphql.NewList(objT), Resolve: resolve}
		fs["li"] = &graphql.Field{Type: graphql.NewList(ifT), Resolve: resolve}
		return fs
	}
	objT = graphql.NewObject(graphql.ObjectConfig{Name: "Obj", Interfaces: []*graphql.Interface{ifT}, Fields: (graphql.FieldsThunk)(func() graphql.Fields {
		return composite(graphql.Fields{
			"c": &graphql.Field{Type: graphql.String, Resolve: resolve},
		})
	})})
	altT = graphql.NewObject(graphql.ObjectConfig{Name: "Alt", Interfaces: []*graphql.Interface{ifT}, Fields: (graphql.FieldsThunk)(func() graphql.Fields {
		return graphql.Fields{
			"c": &graphql.Field{Type: graphql.String, Resolve: resolve},
			"d": &graphql.Field{Type: graphql.String, Resolve: resolve},
			"o": &graphql.Field{Type: objT, Resolve: resolve},
		}
	})})
	unT = graphql.NewUnion(graphql.UnionConfig{Name: "U", Types: []*graphql.Object{objT, altT}, ResolveType: resolveType})
	rootFields := func() graphql.Fields {
		return composite(graphql.Fields{
			"f": &graphql.Field{Type: graphql.String, Resolve: resolve},
			"g": &graphql.Field{Type: graphql.NewNonNull(graphql.String), Resolve: resolve},
			"h": &graphql.Field{Type: graphql.String, Args: graphql.FieldConfigArgument{"a": &graphql.ArgumentConfig{Type: graphql.Int}}, Resolve: resolve},
		})
	}
	return graphql.NewSchema(graphql.SchemaConfig{
		Query:      graphql.NewObject(graphql.ObjectConfig{Name: "Query", Fields: rootFields()}),
		Mutation:   graphql.NewObject(graphql.ObjectConfig{Name: "Mutation", Fields: rootFields()}),
		Types:      []graphql.Type{altT},
		Extensions: exts,
	})
}

func poolExts(n int) []graphql.Extension {
	exts := []graphql.Extension{}
	for i := 0; i < n; i++ {
		exts = append(exts, pool[i])
	}
	return exts
}

func buildSchemas() error {
	if err := instrumentMeta(); err != nil {
		return err
	}
	for i := range pool {
		pool[i] = &tExt{idx: i}
	}
	curExts = make([]extCfg, maxExt) // Name() may be called while a schema is built
	for n := 0; n <= maxExt; n++ {
		s, err := newSchema(poolExts(n))
		if err != nil {
			return err
		}
		schemas[n] = s
	}
	return nil
}

// ---------------------------------------------------------------- request shapes

// fieldSpec: kind f (String; named c below the root), g (String!, root only), d (String, Alt only), t (__typename),
// o (Obj), i (interface I), u (union U), l ([Obj]), li ([I]) with children: a field with resolver outcome 0..4;
// kind "schema" / "type": `__schema { queryType { name } }` / `__type(name: "Obj") { name }` (query root only; every
// field of the introspection sub-tree is an executed field);
// kind "inline" / "spread": an inline fragment / a spread of a named fragment wrapping Children, with type condition
// On ("" = the enclosing type).
// Dir: 0 none, 1 @include, 2 @skip; DirVar >= 0: `if: $w<DirVar>`, else the literal DirLit.
// RT (i, u, li): runtime type of the value, 0 Obj, 1 Alt (list elements alternate starting with RT); N (l, li): length.
// NoAlias: the field is selected without an alias (its response key is its name). Dup (leaf kinds): the field is
// selected twice under the same response key -- 1: both occurrences carry the directive, 2: the second one carries
// none (so the merged field always runs).
type fieldSpec struct {
	Kind     string
	Outcome  int
	Children []fieldSpec
	Dir      int
	DirVar   int
	DirLit   bool
	On       string
	RT       int
	N        int
	NoAlias  bool
	Dup      int
	Ret      int // what the resolver hands back besides the outcome: retValueAndError (outcomes 1, 3), retThunk (outcome 0, leaf kinds)
}

func (f fieldSpec) active(vars map[string]interface{}) bool {
	if f.Dir == 0 {
		return true
	}
	v := f.DirLit
	if f.DirVar >= 0 {
		v, _ = vars["w"+strconv.Itoa(f.DirVar)].(bool)
	}
	if f.Dir == 1 {
		return v
	}
	return !v
}

func (f fieldSpec) dirText(used map[int]bool) string {
	if f.Dir == 0 {
		return ""
	}
	name := "@include"
	if f.Dir == 2 {
		name = "@skip"
	}
	if f.DirVar >= 0 {
		used[f.DirVar] = true
		return " " + name + "(if: $w" + strconv.Itoa(f.DirVar) + ")"
	}
	return " " + name + "(if: " + strconv.FormatBool(f.DirLit) + ")"
}

func isRootType(typ string) bool { return typ == "Query" || typ == "Mutation" }

// condApplies: does a fragment with type condition on apply to an object of concrete type rt (I and U both contain
// Obj and Alt; a root type only ever meets its own name)
func condApplies(on, rt string) bool { return on == rt || on == "I" || on == "U" }

// table entry: [index in the executed-field list, outcome, runtime type, list length, meta (1 __typename, 2 another
// meta / introspection field)]
const (
	metaTypename = 1
	metaOther    = 2
)

// sixth slot of a table entry: how the resolver returns its outcome. The model does not see it (the hook trace and
// the response are the same); it only changes the VALUE the finish hooks must be told (finish-value oracle, runGo).
const (
	retPlain         = 0
	retValueAndError = 1 // outcome err / errNN: a non-nil value together with the error
	retThunk         = 2 // outcome ok, leaf field: func() (interface{}, error) returning the value
)

// render produces the document (every aliased field under its own response key "a<n>", n in text order) and, for the
// given variable values, the list of fields that run in execution order (depth first, once per list element; not:
// fields excluded by a directive or by a type condition, children of a failing parent, a second selection of a
// response key already collected for the same object) with the table path -> entry, and the features of the document.
func render(fs []fieldSpec, mutation bool, vars map[string]interface{}) (query string, flat []int, table map[string][]int, feats []string) {
	table = map[string][]int{}
	used := map[int]bool{}
	featSet := map[string]bool{}
	nKey, nFrag := 0, 0
	frags := ""
	rootType := "Query"
	if mutation {
		rootType = "Mutation"
	}
	keys := map[*fieldSpec]string{}      // response key of a field
	subKeys := map[*fieldSpec][]string{} // schema / type: response keys of the introspection sub-tree
	newKey := func() string {
		k := "a" + strconv.Itoa(nKey)
		nKey++
		return k
	}
	// ---- pass 1: the text
	var text func(fs []fieldSpec, typ string, inList bool) string
	text = func(fs []fieldSpec, typ string, inList bool) string {
		var b strings.Builder
		b.WriteString("{ ")
		for i := range fs {
			f := &fs[i]
			switch f.Kind {
			case "inline", "spread":
				on := f.On
				if on == "" {
					on = typ
				}
				if f.Kind == "inline" {
					b.WriteString("... on " + on + f.dirText(used) + " " + text(f.Children, on, inList))
				} else {
					name := "F" + strconv.Itoa(nFrag)
					nFrag++
					b.WriteString("..." + name + f.dirText(used) + " ")
					body := text(f.Children, on, inList)
					frags += "fragment " + name + " on " + on + " " + body
				}
				if f.On != "" && f.On != typ {
					featSet["type-condition"] = true
				}
			default:
				name := f.Kind
				switch f.Kind {
				case "f":
					if !isRootType(typ) {
						name = "c"
					}
				case "t":
					name = "__typename"
				case "schema":
					name = "__schema"
				case "type":
					name = "__type"
				}
				sel := name
				if f.NoAlias {
					keys[f] = name
				} else {
					keys[f] = newKey()
					sel = keys[f] + ": " + name
				}
				if f.Kind == "type" {
					sel += "(name: \"Obj\")"
				}
				b.WriteString(sel + f.dirText(used) + " ")
				switch f.Dup {
				case 1:
					b.WriteString(sel + f.dirText(used) + " ")
				case 2:
					b.WriteString(sel + " ")
				}
				if f.Kind == "t" {
					featSet["typename"] = true
					switch {
					case isRootType(typ):
						featSet["typename:root"] = true
					case typ == "I" || typ == "U":
						featSet["typename:abstract-parent"] = true
					default:
						featSet["typename:object-parent"] = true
					}
					if inList {
						featSet["typename:under-list"] = true
					}
					if f.NoAlias {
						featSet["typename:unaliased"] = true
					} else {
						featSet["typename:aliased"] = true
					}
					if f.Dup != 0 {
						featSet["typename:duplicated"] = true
					}
					if f.Dir != 0 {
						if f.DirVar >= 0 {
							featSet["typename:variable-directive"] = true
						} else {
							featSet["typename:literal-directive"] = true
						}
					}
				}
				switch f.Kind {
				case "o":
					b.WriteString(text(f.Children, "Obj", inList))
				case "i":
					b.WriteString(text(f.Children, "I", inList))
				case "u":
					b.WriteString(text(f.Children, "U", inList))
				case "l":
					b.WriteString(text(f.Children, "Obj", true))
				case "li":
					b.WriteString(text(f.Children, "I", true))
				case "schema":
					k1, k2 := newKey(), newKey()
					subKeys[f] = []string{k1, k2}
					b.WriteString("{ " + k1 + ": queryType { " + k2 + ": name } } ")
					featSet["meta:__schema"] = true
				case "type":
					k1 := newKey()
					subKeys[f] = []string{k1}
					b.WriteString("{ " + k1 + ": name } ")
					featSet["meta:__type"] = true
				}
				if f.Kind == "i" || f.Kind == "u" || f.Kind == "li" {
					featSet["abstract-field"] = true
				}
				if f.Kind == "l" || f.Kind == "li" {
					featSet["list-field"] = true
				}
			}
		}
		b.WriteString("} ")
		return b.String()
	}
	body := text(fs, rootType, false)
	// ---- pass 2: what runs (typ = the concrete type of the object the selection is executed for)
	add := func(tk string, outcome, rt, n, meta, ret int) bool {
		if _, dup := table[tk]; dup {
			return false
		}
		table[tk] = []int{len(flat), outcome, rt, n, meta, ret}
		flat = append(flat, outcome)
		return true
	}
	var walk func(fs []fieldSpec, typ string, prefix string, inList bool)
	walk = func(fs []fieldSpec, typ string, prefix string, inList bool) {
		for i := range fs {
			f := &fs[i]
			switch f.Kind {
			case "inline", "spread":
				if f.active(vars) && (f.On == "" || condApplies(f.On, typ)) {
					walk(f.Children, typ, prefix, inList)
				}
			default:
				if !(f.active(vars) || f.Dup == 2) {
					continue
				}
				path := prefix + keys[f]
				tk := keys[f]
				if inList || f.NoAlias {
					tk = path
				}
				meta := 0
				switch f.Kind {
				case "t":
					meta = metaTypename
				case "schema", "type":
					meta = metaOther
				}
				if f.Ret == retValueAndError {
					featSet["resolver:value-and-error"] = true
				} else if f.Ret == retThunk {
					featSet["resolver:thunk"] = true
				}
				if !add(tk, f.Outcome, f.RT, f.N, meta, f.Ret) {
					continue // this response key is already collected for this object: the selections merge
				}
				if meta == metaTypename {
					featSet["typename:runs"] = true
				}
				if f.Outcome != 0 {
					continue
				}
				switch f.Kind {
				case "o":
					walk(f.Children, "Obj", path+"/", inList)
				case "i", "u":
					walk(f.Children, typeNames[f.RT%2], path+"/", inList)
				case "l":
					for j := 0; j < f.N; j++ {
						walk(f.Children, "Obj", path+"/"+strconv.Itoa(j)+"/", true)
					}
				case "li":
					for j := 0; j < f.N; j++ {
						walk(f.Children, typeNames[(f.RT+j)%2], path+"/"+strconv.Itoa(j)+"/", true)
					}
				case "schema", "type":
					for _, k := range subKeys[f] {
						add(k, 0, 0, 0, metaOther, 0)
					}
				}
			}
		}
	}
	walk(fs, rootType, "", false)
	op := "query Q"
	if mutation {
		op = "mutation Q"
	}
	if len(used) > 0 {
		ids := []int{}
		for i := range used {
			ids = append(ids, i)
		}
		sort.Ints(ids)
		decl := []string{}
		for _, i := range ids {
			decl = append(decl, "$w"+strconv.Itoa(i)+": Boolean!")
		}
		op += "(" + strings.Join(decl, ", ") + ")"
	}
	if flat == nil {
		flat = []int{}
	}
	for k := range featSet {
		feats = append(feats, k)
	}
	sort.Strings(feats)
	return op + " " + body + frags, flat, table, feats
}

func execReqV(shape string, fs []fieldSpec, mutation bool, vars map[string]interface{}) reqT {
	q, flat, table, feats := render(fs, mutation, vars)
	r := reqT{Class: "exec", Fields: flat, Query: q, Shape: shape, Table: table, Feat: feats}
	if len(vars) > 0 {
		// only the variables the document declares
		r.Vars = map[string]interface{}{}
		for k, v := range vars {
			if strings.Contains(q, "$"+k+":") {
				r.Vars[k] = v
			}
		}
	}
	return r
}

func execReq(shape string, fs []fieldSpec, mutation bool) reqT {
	return execReqV(shape, fs, mutation, nil)
}

// tableOf: the resolver table of a request (older replay files name the keys "k<i>")
func tableOf(r reqT) map[string][]int {
	if r.Table != nil {
		return r.Table
	}
	m := map[string][]int{}
	for i, o := range r.Fields {
		m["k"+strconv.Itoa(i)] = []int{i, o}
	}
	return m
}

func leafs(outs ...int) []fieldSpec {
	var fs []fieldSpec
	for _, o := range outs {
		k := "f"
		if o >= 3 {
			k = "g"
		}
		fs = append(fs, fieldSpec{Kind: k, Outcome: o, DirVar: -1})
	}
	return fs
}

var syntaxTexts = []string{"{ k0: f ", "query { k0: f k1 : }", "}", "{ k0: f(a: ) }", "query Q( { f }", "{ k0: f } }"}
var validationTexts = []string{"{ nope }", "{ k0: f { x } }", "{ k0: o }", "{ k0: h(a: \"str\") }", "query($v: Int) { k0: f }", "{ ...Missing }", "fragment F on Query { f }"}
var operationTexts = []string{"query A { k0: f } query B { k1: f }", "query A { k0: f } mutation B { k1: f }", "query A { k0: f } query B { k1: g } query C { k2: f }"}
var variableTexts = []string{"query($v: Int!) { k0: h(a: $v) }", "query($v: Int) { k0: h(a: $v) }"}

func fixedReq(class string, variant int) reqT {
	switch class {
	case "syntax":
		return reqT{Class: class, Query: syntaxTexts[variant%len(syntaxTexts)], Shape: class, Fields: []int{}}
	case "validation":
		return reqT{Class: class, Query: validationTexts[variant%len(validationTexts)], Shape: class, Fields: []int{}}
	case "operation":
		return reqT{Class: class, Query: operationTexts[variant%len(operationTexts)], Shape: class, Fields: []int{}}
	default:
		v := variant % len(variableTexts)
		r := reqT{Class: "variable", Query: variableTexts[v], Shape: "variable", Fields: []int{}}
		if v == 1 {
			r.Vars = map[string]interface{}{"v": "not-an-int"}
		}
		return r
	}
}

// ---------------------------------------------------------------- running the real code

type goResult struct {
	Log      [][]int  `json:"log"`  // what was logged when the entry point returned
	Late     [][]int  `json:"late"` // what the executor goroutine logged afterwards (context-done cases)
	Errors   [][]int  `json:"errors"`
	Messages []string `json:"messages"`
	Keys     []int    `json:"keys"`
	HasData  bool     `json:"hasData"`
	Escaped  string   `json:"escaped,omitempty"`
	// response-tree oracle (only when the response has data): the field positions of the response data, the paths each
	// extension was notified of, and what is wrong ("" = one notification per field position, each finished once)
	Tree *treeT `json:"tree,omitempty"`
	// finish-value oracle: what every ResolveFieldFinishFunc call was told as VALUE against what the resolve function of
	// that position returned
	Finish *finT `json:"finish,omitempty"`
}

// finT: "finished WITH THE OUTCOME OF THAT PHASE", value part. The outcome of a resolve phase is what the field's
// resolve function returned: (value, nil), (nil, err), (value, err) -- a partial value together with an error --, a
// thunk (the func itself: it is called after the phase), or a panic (no value: nil). Every finish call of every
// extension for the position must carry exactly that value (the error class is compared through the model). The
// expectation comes from the harness's own resolvers / the wrappers around the library's meta-field resolvers
// (`returned`), not from the library's executor.
type finT struct {
	Returned      map[string]string `json:"resolverReturned"` // path -> rendering of the returned value (panicking resolver: absent = nil)
	Told          []string          `json:"finishTold"`       // "x<name>#<idx> <path> value=<rendering> err=<0|1>" per finish call, in call order
	Checked       int               `json:"checked"`
	ValueAndError int               `json:"valueAndError"` // finish calls for a resolver that returned a non-nil value together with an error
	Thunks        int               `json:"thunks"`
	Panicked      int               `json:"panicked"` // finish calls for a resolver that panicked (expected value nil)
	Mismatch      string            `json:"mismatch,omitempty"`
}

func finishOracle(log []evT, ret map[string]string, tab map[string][]int) *finT {
	t := &finT{Returned: ret, Told: []string{}}
	for _, e := range log {
		if e.hook != hResEnd {
			continue
		}
		want, did := ret[e.path]
		if !did {
			want = "nil"
			t.Panicked++
		}
		t.Told = append(t.Told, fmt.Sprintf("x%d#%d %s value=%s err=%d", e.name, e.idx, e.path, e.val, e.out-outOk))
		t.Checked++
		if did && want != "nil" && e.out == outErr {
			t.ValueAndError++
		}
		if want == "func" {
			t.Thunks++
		}
		if e.val != want && t.Mismatch == "" {
			t.Mismatch = fmt.Sprintf("extension x%d (registration index %d): ResolveFieldFinishFunc of field %s was told value %s, the resolve function of that field returned %s", e.name, e.idx, e.path, e.val, want)
			if !did {
				t.Mismatch += " (it panicked or did not run: no value)"
			}
		}
	}
	return t
}

// treeT: "one resolve notification per executed field", decided against the RESPONSE alone: every (object value,
// response key) position present in Result.Data is a field that was executed for that object, so every registered
// extension must have got exactly one ResolveFieldDidStart carrying that path -- and no other -- and, if the start
// hook returned, exactly one call of the finish function it returned. Needs neither the model nor the resolver log,
// so it also speaks about fields that have no resolver of the test schema (__typename, __schema, __type, ...).
type treeT struct {
	Positions      []string            `json:"positions"`
	Started        map[string][]string `json:"started"`  // "x<name>#<registration index>" -> paths of its ResolveFieldDidStart calls
	Finished       map[string][]string `json:"finished"` // ... of the finish calls
	Mismatch       string              `json:"mismatch,omitempty"`
	TypenameFields int                 `json:"typenameFields"`        // __typename positions in the response
	TypenameNotifs int                 `json:"typenameNotifications"` // ResolveFieldDidStart calls for them (all extensions)
}

// positions lists the path of every field position of the response data (list indices are part of the path)
func positions(prefix string, v interface{}, out *[]string) {
	switch val := v.(type) {
	case map[string]interface{}:
		for k, sub := range val {
			p := k
			if prefix != "" {
				p = prefix + "/" + k
			}
			*out = append(*out, p)
			positions(p, sub, out)
		}
	case []interface{}:
		for i, sub := range val {
			positions(prefix+"/"+strconv.Itoa(i), sub, out)
		}
	}
}

func sameStrings(a, b []string) bool {
	if len(a) != len(b) {
		return false
	}
	for i := range a {
		if a[i] != b[i] {
			return false
		}
	}
	return true
}

func treeOracle(c caseT, data interface{}, log []evT, tab map[string][]int) *treeT {
	t := &treeT{Positions: []string{}, Started: map[string][]string{}, Finished: map[string][]string{}}
	positions("", data, &t.Positions)
	sort.Strings(t.Positions)
	isTypename := func(path string) bool {
		e, ok := tab[path]
		if !ok {
			e, ok = tab[path[strings.LastIndex(path, "/")+1:]]
		}
		return ok && entryAt(e, 4) == metaTypename
	}
	for _, p := range t.Positions {
		if isTypename(p) {
			t.TypenameFields++
		}
	}
	nameCount := map[int]int{}
	for _, x := range c.Exts {
		nameCount[x.Name]++
	}
	for i, x := range c.Exts {
		id := "x" + strconv.Itoa(x.Name) + "#" + strconv.Itoa(i)
		started, returned, finished := []string{}, []string{}, []string{}
		for _, e := range log {
			if e.idx != i {
				continue
			}
			switch e.hook {
			case hResStart:
				started = append(started, e.path)
				if e.fault == 0 {
					returned = append(returned, e.path)
				}
				if isTypename(e.path) {
					t.TypenameNotifs++
				}
			case hResEnd:
				finished = append(finished, e.path)
			}
		}
		sort.Strings(started)
		sort.Strings(returned)
		sort.Strings(finished)
		t.Started[id], t.Finished[id] = started, finished
		if t.Mismatch != "" {
			continue
		}
		if !sameStrings(started, t.Positions) {
			t.Mismatch = fmt.Sprintf("extension %s got ResolveFieldDidStart for %d fields %v, the response data has the %d field positions %v", id, len(started), started, len(t.Positions), t.Positions)
		} else if nameCount[x.Name] == 1 && !sameStrings(finished, returned) {
			// (of extensions sharing a name only one finish function survives: outside the property)
			t.Mismatch = fmt.Sprintf("extension %s: resolve phases started (hook returned) for %v, finished for %v", id, returned, finished)
		}
	}
	return t
}

var errRe = regexp.MustCompile(`^x(\d+)\.(\w+): (E|S|42)$`)

func classify(msg string) []int {
	if m := errRe.FindStringSubmatch(msg); m != nil {
		if h, ok := labelHook[m[2]]; ok {
			n, _ := strconv.Atoi(m[1])
			k := map[string]int{"E": 1, "S": 2, "42": 3}[m[3]]
			return []int{1, n, h, k}
		}
	}
	return []int{0, 0, 0, 0}
}

// wireLog: since 537e26f the finish functions of a phase run in registration order, so the log is compared as is
func wireLog(l []evT) [][]int {
	w := make([][]int, 0, len(l))
	for _, e := range l {
		w = append(w, e.wire())
	}
	return w
}

// prepared: everything that happens before the measured call (schema, AddExtensions, planning)
type prepared struct {
	schema *graphql.Schema
	plan   *graphql.Plan
	synth  map[string]interface{}
	err    string
}

func prepare(c caseT) prepared {
	n := len(c.Exts)
	switch c.Entry {
	case "", "do":
		return prepared{schema: &schemas[n]}
	case "do-addext":
		s, err := newSchema(nil)
		if err != nil {
			return prepared{err: err.Error()}
		}
		s.AddExtensions(poolExts(n)...)
		return prepared{schema: &s}
	case "plan", "plan-before":
		doc, err := parser.Parse(parser.ParseParams{Source: c.Req.Query})
		if err != nil {
			return prepared{err: "parse: " + err.Error()}
		}
		sp := &schemas[n]
		if c.Entry == "plan-before" {
			s, err := newSchema(nil)
			if err != nil {
				return prepared{err: err.Error()}
			}
			sp = &s
		}
		plan, err := graphql.PlanQuery(sp, doc, "")
		if err != nil {
			return prepared{err: "PlanQuery: " + err.Error()}
		}
		if c.Entry == "plan-before" {
			sp.AddExtensions(poolExts(n)...)
		}
		return prepared{schema: sp, plan: plan}
	case "cache", "cache-before":
		cache := graphql.NewPlanCache(graphql.PlanCacheOptions{})
		sp := &schemas[n]
		if c.Entry == "cache-before" {
			s, err := newSchema(nil)
			if err != nil {
				return prepared{err: err.Error()}
			}
			sp = &s
		}
		pr := cache.Get(sp, c.Req.Query, "")
		if pr.Plan == nil {
			return prepared{err: fmt.Sprintf("PlanCache.Get: %v", pr.Errors)}
		}
		if c.Entry == "cache-before" {
			sp.AddExtensions(poolExts(n)...)
		}
		pr2 := cache.Get(sp, c.Req.Query, "") // the hit every later request gets
		if pr2.Plan == nil {
			return prepared{err: fmt.Sprintf("PlanCache.Get (2nd): %v", pr2.Errors)}
		}
		return prepared{schema: sp, plan: pr2.Plan, synth: pr2.SynthArgs}
	}
	return prepared{err: "unknown entry " + c.Entry}
}

// runGo performs one measured call (graphql.Do or ExecutePlan) for request rq of case c.
func runGo(c caseT, pp prepared, rq reqT) goResult {
	mu.Lock()
	curExts = make([]extCfg, maxExt)
	copy(curExts, c.Exts)
	curTab = tableOf(rq)
	curLog = nil
	curRet = map[string]string{}
	mu.Unlock()

	ctx := context.Background()
	cancel := func() {}
	mode := int32(0)
	switch c.Ctx {
	case "cancelled-before":
		ctx, cancel = context.WithCancel(ctx)
		cancel()
		mode = 1
	case "deadline-before":
		ctx, cancel = context.WithDeadline(ctx, time.Now().Add(-time.Second))
		mode = 1
	case "cancel-in-resolver":
		ctx, cancel = context.WithCancel(ctx)
		mode = 2
	case "deadline-in-resolver":
		// a deadline that expires exactly when the harness says so (a real timer would race with the executor)
		mc := &manualCtx{done: make(chan struct{}), deadline: time.Now()}
		ctx, cancel = mc, mc.expire
		mode = 2
	case "cancel-in-finish":
		ctx, cancel = context.WithCancel(ctx)
		mode = 4
	}
	defer cancel()
	gate.at = c.CtxAt
	gate.entered = make(chan struct{})
	gate.release = make(chan struct{})
	gate.ctx, gate.cancel = ctx, cancel
	atomic.StoreInt32(&gate.armed, 1)
	atomic.StoreInt32(&gate.mode, mode)
	baseline := runtime.NumGoroutine()

	var res *graphql.Result
	var escaped interface{}
	done := make(chan struct{})
	go func() {
		defer close(done)
		defer func() {
			if r := recover(); r != nil {
				escaped = r
			}
		}()
		vars := rq.Vars
		if pp.plan != nil {
			if len(pp.synth) > 0 {
				merged := map[string]interface{}{}
				for k, v := range vars {
					merged[k] = v
				}
				for k, v := range pp.synth {
					merged[k] = v
				}
				vars = merged
			}
			res = graphql.ExecutePlan(pp.plan, graphql.ExecuteParams{Schema: *pp.schema, Args: vars, Context: ctx})
		} else {
			res = graphql.Do(graphql.Params{Schema: *pp.schema, RequestString: rq.Query, VariableValues: vars, Context: ctx})
		}
	}()
	watchdog := time.NewTimer(10 * time.Second)
	defer watchdog.Stop()
	timedOut := false
	if mode == 2 {
		select {
		case <-gate.entered:
			cancel()
		case <-done:
		case <-watchdog.C:
			timedOut = true
		}
	}
	if !timedOut {
		select {
		case <-done:
		case <-watchdog.C:
			timedOut = true
		}
	}
	mu.Lock()
	nNow := len(curLog)
	mu.Unlock()
	atomic.StoreInt32(&gate.mode, 0)
	close(gate.release)
	if timedOut {
		return goResult{Escaped: "timeout: the call did not return within 10 s"}
	}
	drained := true
	if mode != 0 {
		// the executor goroutine is not waited for by ExecutePlan when the context is done: let it finish
		deadline := time.Now().Add(10 * time.Second)
		for runtime.NumGoroutine() > baseline {
			if time.Now().After(deadline) {
				drained = false
				break
			}
			time.Sleep(20 * time.Microsecond)
		}
	}
	mu.Lock()
	all := wireLog(curLog)
	rawLog := append([]evT{}, curLog...)
	ret := curRet
	curRet = nil
	mu.Unlock()
	g := goResult{Log: all[:nNow], Late: all[nNow:], Errors: [][]int{}, Keys: []int{}, Messages: []string{}}
	if !drained {
		g.Escaped = "the executor goroutine did not finish within 10 s after the call returned"
		return g
	}
	if escaped != nil {
		g.Escaped = fmt.Sprintf("panic escaped the call: %v", escaped)
		return g
	}
	if res == nil {
		g.Escaped = "the call returned nil"
		return g
	}
	for _, e := range res.Errors {
		g.Errors = append(g.Errors, classify(e.Message))
		g.Messages = append(g.Messages, e.Message)
	}
	for k := range res.Extensions {
		n, err := strconv.Atoi(strings.TrimPrefix(k, "x"))
		if err != nil {
			n = -1
		}
		g.Keys = append(g.Keys, n)
	}
	sort.Ints(g.Keys)
	g.Finish = finishOracle(rawLog, ret, tableOf(rq))
	g.HasData = res.Data != nil
	if data, ok := res.Data.(map[string]interface{}); ok {
		g.Tree = treeOracle(c, data, rawLog, tableOf(rq))
	}
	return g
}

// ---------------------------------------------------------------- model side

type specT struct {
	Order    bool `json:"order"`
	Balanced bool `json:"balanced"`
	Nested   bool `json:"nested"`
	Reported bool `json:"reported"`
	Isolated bool `json:"isolated"`
}

func (s specT) ok() bool { return s.Order && s.Balanced && s.Nested && s.Reported && s.Isolated }

type modelResp struct {
	M struct {
		Log     [][]int `json:"log"`
		Late    [][]int `json:"late"`
		Errors  [][]int `json:"errors"`
		Keys    []int   `json:"keys"`
		HasData bool    `json:"hasData"`
	} `json:"M"`
	SpecM      specT `json:"specM"`
	SpecG      specT `json:"specG"`
	SharedName bool  `json:"sharedName"`
}

func sortedErrs(e [][]int) string {
	s := make([]string, 0, len(e))
	for _, x := range e {
		s = append(s, fmt.Sprint(x))
	}
	sort.Strings(s)
	return strings.Join(s, "")
}

func sortedInts(a []int) string {
	b := append([]int{}, a...)
	sort.Ints(b)
	return fmt.Sprint(b)
}

func fld(kind string, outcome int, children ...fieldSpec) fieldSpec {
	return fieldSpec{Kind: kind, Outcome: outcome, Children: children, DirVar: -1}
}
func withRet(f fieldSpec, ret int) fieldSpec { f.Ret = ret; return f }
func inc(f fieldSpec, v int) fieldSpec { f.Dir, f.DirVar = 1, v; return f }
func skp(f fieldSpec, v int) fieldSpec { f.Dir, f.DirVar = 2, v; return f }
func lit(f fieldSpec, dir int, val bool) fieldSpec {
	f.Dir, f.DirVar, f.DirLit = dir, -1, val
	return f
}

// __typename selections: tn aliased, tnu unaliased; dup: selected twice under one response key (see fieldSpec.Dup)
func tn() fieldSpec                        { return fld("t", 0) }
func tnu() fieldSpec                       { f := fld("t", 0); f.NoAlias = true; return f }
func dup(f fieldSpec, d int) fieldSpec     { f.Dup = d; return f }
func on(f fieldSpec, typ string) fieldSpec { f.On = typ; return f }
func abs(kind string, rt int, children ...fieldSpec) fieldSpec {
	f := fld(kind, 0, children...)
	f.RT = rt
	return f
}
func list(kind string, rt, n int, children ...fieldSpec) fieldSpec {
	f := fld(kind, 0, children...)
	f.RT, f.N = rt, n
	return f
}

func boolVars(vals ...bool) map[string]interface{} {
	m := map[string]interface{}{}
	for i, v := range vals {
		m["w"+strconv.Itoa(i)] = v
	}
	return m
}

// nExecuted: how many entries of the executed-field list really run (up to and including the first fatal one)
func nExecuted(fields []int) int {
	for i, o := range fields {
		if o >= 3 {
			return i + 1
		}
	}
	return len(fields)
}

type dirShape struct {
	name     string
	fs       []fieldSpec
	mutation bool
	varsA    map[string]interface{}
	varsB    map[string]interface{}
}

func directiveShapes() []dirShape {
	return []dirShape{
		{"dir-field", []fieldSpec{fld("f", 0), inc(fld("f", 0), 0)}, false, boolVars(true), boolVars(false)},
		{"dir-nested", []fieldSpec{skp(fld("f", 0), 0), inc(fld("o", 0, fld("f", 0), skp(fld("f", 1), 0)), 1)}, false, boolVars(false, true), boolVars(true, true)},
		{"dir-inline", []fieldSpec{inc(fld("inline", 0, fld("f", 0), withRet(fld("f", 1), retValueAndError)), 0), fld("f", 2)}, false, boolVars(true), boolVars(false)},
		{"dir-spread", []fieldSpec{skp(fld("spread", 0, fld("f", 0), fld("o", 0, inc(fld("f", 0), 1))), 0), fld("g", 0)}, false, boolVars(false, true), boolVars(false, false)},
		{"dir-in-fragment", []fieldSpec{fld("spread", 0, inc(fld("f", 0), 0), fld("f", 0)), fld("f", 1)}, false, boolVars(true), boolVars(false)},
		{"dir-literal", []fieldSpec{lit(fld("f", 0), 1, true), lit(fld("f", 0), 2, true), fld("f", 0)}, false, nil, nil},
		{"dir-mutation", []fieldSpec{inc(fld("f", 0), 0), skp(fld("g", 3), 1), fld("f", 0)}, true, boolVars(true, false), boolVars(true, true)},
	}
}

// typenameShapes: __typename (a field without a resolver of the schema, executed by the library's own definition) at
// the root of a query and of a mutation, below object / interface / union values, aliased and not, selected twice
// (merged), inside fragments with and without type conditions, below lists, with literal and variable-driven
// directives; and the other meta fields __schema / __type with an introspection sub-tree.
func typenameShapes() []dirShape {
	return []dirShape{
		{"tn-root", []fieldSpec{tnu(), fld("f", 0), tn()}, false, nil, nil},
		{"tn-root-mutation", []fieldSpec{fld("f", 1), tn(), fld("g", 0), tnu()}, true, nil, nil},
		{"tn-object", []fieldSpec{fld("o", 0, tn(), fld("f", 0), fld("o", 0, tnu())), fld("o", 2, tn()), tn()}, false, nil, nil},
		{"tn-abstract", []fieldSpec{
			abs("i", 1, tnu(), fld("f", 0), on(fld("inline", 0, fld("d", 0), tn()), "Alt"), on(fld("inline", 0, tn(), fld("o", 0, tn())), "Obj")),
			abs("u", 0, tn(), on(fld("spread", 0, fld("f", 1), tnu()), "Obj"), on(fld("inline", 0, tn()), "Alt"), on(fld("inline", 0, tn(), tnu()), "I")),
			abs("u", 1, tnu()),
		}, false, nil, nil},
		{"tn-list", []fieldSpec{
			list("l", 0, 2, tn(), fld("f", 0)),
			list("li", 1, 3, tnu(), on(fld("inline", 0, fld("d", 0)), "Alt"), on(fld("spread", 0, tn(), list("l", 0, 1, tnu())), "Obj")),
			list("l", 0, 0, tn()),
		}, false, nil, nil},
		{"tn-merged", []fieldSpec{dup(tnu(), 1), fld("spread", 0, tnu(), fld("f", 0)), fld("inline", 0, tnu()), dup(tn(), 1), fld("o", 0, dup(tnu(), 1), fld("inline", 0, tnu()))}, false, nil, nil},
		{"tn-dir", []fieldSpec{inc(tn(), 0), skp(tn(), 0), dup(skp(tn(), 1), 1), dup(inc(tn(), 1), 2), lit(tn(), 1, false), lit(tn(), 2, false),
			inc(fld("inline", 0, tn(), fld("f", 0)), 0), skp(fld("spread", 0, tn()), 1),
			abs("i", 0, inc(tn(), 1), skp(on(fld("inline", 0, tn()), "Obj"), 0))}, false, boolVars(true, false), boolVars(false, true)},
		{"tn-dir-mutation", []fieldSpec{skp(tnu(), 0), fld("f", 0), list("l", 0, 2, inc(tn(), 0), fld("f", 0))}, true, boolVars(false), boolVars(true)},
		{"meta-schema-type", []fieldSpec{fld("schema", 0), tn(), fld("type", 0), fld("f", 0)}, false, nil, nil},
		{"meta-dir", []fieldSpec{inc(fld("schema", 0), 0), skp(fld("type", 0), 0), tnu()}, false, boolVars(true), boolVars(false)},
	}
}

func main() {
	run := hx.Begin("C17")
	run.Res.Rule = "0-4 instrumented extensions x request of every outcome class (syntax, validation, operation selection, variable coercion, executed fields ok/err/panic incl. non-null root failures, nested selections below object / interface / union values and below lists (executed once per element), fragments with type conditions, variable-driven and literal @skip/@include on fields / inline fragments / fragment spreads, the meta fields __typename (root of query and mutation, object / abstract parents, below lists, aliased and not, selected twice under one response key, with directives) and __schema / __type with an introspection sub-tree, queries and mutations) x fault assignment (each of the 11 hooks per extension: ok or panic with error/string/int) x entry point (graphql.Do; Do after AddExtensions; PlanQuery or PlanCache.Get before or after AddExtensions followed by ExecutePlan, the plan executed again with other variable values) x request context (live; cancelled or past its deadline before the call; cancelled / deadline expiring while a resolver runs; cancelled inside a finish hook). All single and double faults for 1 and 2 extensions are enumerated over the fixed request shapes on Do with a live context; no fault and all single faults over the directive shapes and the __typename / meta-field shapes x entry points and over the context states; the rest is random. Besides the comparison with the model, whenever the response has data the resolve notifications of every extension are compared with the field positions of Result.Data (one ResolveFieldDidStart with that path per (object value, response key) position, no other, each started phase finished once): an oracle that needs neither the model nor a resolver log. Finish-value oracle: resolvers return (value, nil), (nil, err), a non-nil value TOGETHER WITH an error (scalar / object / list values, nullable and non-null fields), a thunk (leaf fields) or panic; every ResolveFieldFinishFunc call of every extension must be told exactly the value the resolve function of that position returned (nil after a panic), compared against the harness's own record of what its resolvers / the wrapped meta-field resolvers returned. non-trivial = at least one extension and (a faulty hook, or a request that is not a plain success, or a directive, or an entry other than Do, or a context that is not live); distinct by (extension configs, request text, variables, entry, context state)"
	if err := buildSchemas(); err != nil {
		run.CheckError("cannot build schemas: " + err.Error())
		run.Finish()
		return
	}
	drv, err := hx.StartDriver(run.DriverBin)
	if err != nil {
		run.CheckError("cannot start driver: " + err.Error())
		run.Finish()
		return
	}
	defer drv.Close()

	typenameNotifs, treePositions := 0, 0
	finishValues, valueAndError := 0, 0
	oneExec := func(c caseT, pp prepared, rq reqT, origin string, nth int) {
		g := runGo(c, pp, rq)
		var m modelResp
		wire := map[string]interface{}{"exts": c.Exts, "req": map[string]interface{}{"class": rq.Class, "fields": rq.Fields}, "log": g.Log, "late": g.Late, "errors": g.Errors}
		if g.Log == nil {
			wire["log"] = [][]int{}
		}
		if g.Late == nil {
			wire["late"] = [][]int{}
		}
		if g.Errors == nil {
			wire["errors"] = [][]int{}
		}
		if pp.plan != nil {
			wire["entry"] = "plan"
		}
		if rq.Class == "exec" {
			switch c.Ctx {
			case "cancelled-before", "deadline-before":
				wire["ctx"] = -1
			case "cancel-in-resolver", "deadline-in-resolver":
				wire["ctx"] = c.CtxAt
			}
		}
		if err := drv.Ask(wire, &m); err != nil {
			run.CheckError(err.Error())
			return
		}
		nFault := 0
		for _, e := range c.Exts {
			for _, b := range e.Beh {
				if b != 0 {
					nFault++
				}
			}
		}
		plainSuccess := rq.Class == "exec"
		for _, o := range rq.Fields {
			if o != 0 {
				plainSuccess = false
			}
		}
		entry := c.Entry
		if entry == "" {
			entry = "do"
		}
		ctxMode := c.Ctx
		if ctxMode == "" {
			ctxMode = "live"
		}
		run.Tag("origin:" + origin)
		run.Tag("class:" + rq.Class)
		run.Tag("shape:" + rq.Shape)
		run.Tag("exts:" + strconv.Itoa(len(c.Exts)))
		run.Tag("entry:" + entry)
		run.Tag("ctx:" + ctxMode)
		if nth == 2 {
			run.Tag("plan-reused-with-other-variables")
		}
		if strings.Contains(rq.Query, "(if: $") {
			run.Tag("variable-driven-directive")
		}
		switch {
		case nFault == 0:
			run.Tag("faults:0")
		case nFault <= 2:
			run.Tag("faults:" + strconv.Itoa(nFault))
		default:
			run.Tag("faults:3+")
		}
		if strings.HasPrefix(rq.Query, "mutation") {
			run.Tag("mutation")
		}
		for _, e := range g.Log {
			if e[4] != 0 && e[1] != hResolver {
				run.Tag("hook-panicked:" + hookNames[e[1]])
			}
		}
		if len(g.Late) > 0 {
			run.Tag("executor-outlived-the-call")
		}
		for _, f := range rq.Feat {
			run.Tag("doc:" + f)
			if f == "typename" {
				run.Tag("typenameSelected")
			}
		}
		if g.Tree != nil {
			run.Tag("response-tree-oracle")
			if g.Tree.TypenameFields > 0 {
				run.Tag("typenameInResponse")
			}
			if g.Tree.TypenameNotifs > 0 {
				run.Tag("typenameNotifications")
				typenameNotifs += g.Tree.TypenameNotifs
			}
			treePositions += len(g.Tree.Positions)
		}
		if g.Finish != nil && g.Finish.Checked > 0 {
			run.Tag("finishValueChecked")
			finishValues += g.Finish.Checked
			if g.Finish.ValueAndError > 0 {
				run.Tag("valueAndError")
				valueAndError += g.Finish.ValueAndError
			}
			if g.Finish.Thunks > 0 {
				run.Tag("finishValue:thunk")
			}
			if g.Finish.Panicked > 0 {
				run.Tag("finishValue:nil-after-resolver-panic")
			}
		}
		key := hx.Canon(c.Exts) + "|" + rq.Query + "|" + hx.Canon(rq.Vars) + "|" + entry + "|" + ctxMode + "|" + strconv.Itoa(c.CtxAt)
		sample := map[string]interface{}{"exts": c.Exts, "query": rq.Query, "vars": rq.Vars, "class": rq.Class, "entry": entry, "ctx": ctxMode, "events": len(g.Log), "late_events": len(g.Late), "errors": len(g.Errors)}
		run.Case(key, len(c.Exts) > 0 && (nFault > 0 || !plainSuccess || entry != "do" || ctxMode != "live" || strings.Contains(rq.Query, "@")), sample)
		replay := map[string]interface{}{"case": c, "execution": nth, "request": rq, "go": g, "model": m.M, "spec_on_real_log": m.SpecG, "spec_on_model_log": m.SpecM, "shared_name": m.SharedName}

		if g.Escaped != "" {
			run.Violation("the request was taken down: "+g.Escaped, replay, false)
			return
		}
		if g.Finish != nil && g.Finish.Mismatch != "" {
			run.Violation("a resolve phase is not finished with the outcome of that phase: "+g.Finish.Mismatch+" ("+"entry "+entry+", context "+ctxMode+")", replay, false)
			return
		}
		if g.Tree != nil && g.Tree.Mismatch != "" {
			run.Violation("one resolve notification per executed field fails against the response data: "+g.Tree.Mismatch+" ("+"entry "+entry+", context "+ctxMode+")", replay, false)
			return
		}
		same := func(a, b [][]int) bool {
			if len(a) == 0 && len(b) == 0 {
				return true
			}
			return hx.Canon(a) == hx.Canon(b)
		}
		corr := same(g.Log, m.M.Log) && same(g.Late, m.M.Late) && sortedErrs(g.Errors) == sortedErrs(m.M.Errors) &&
			sortedInts(g.Keys) == sortedInts(m.M.Keys) && g.HasData == m.M.HasData
		if m.SharedName {
			// the property (and the theorems) speak about extensions with distinct names: only the correspondence is checked
			run.Tag("shared-name")
			if !m.SpecG.ok() {
				run.Tag("shared-name:spec-fails-on-real-log")
			}
			if !corr {
				run.Violation("real hook log / result differs from the model (extensions sharing a name)", replay, false)
			}
			return
		}
		s := m.SpecG
		where := "entry " + entry + ", context " + ctxMode
		if s.ok() {
			if !corr {
				run.Violation("real hook log / result differs from the model although the log satisfies the specification: the pipeline no longer calls the hooks the way Ext.run describes ("+where+")", replay, false)
			}
			run.Tag("spec:holds")
			return
		}
		// The specification fails on the real log. No defect class is recorded for C17 (D-17a..d are repaired in
		// /repo), so every such case is a violation; the note says which predicate fails and whether the real log
		// still equals the model (if it does, the theorems of Props/C17 are contradicted: model/driver fault).
		switch {
		case !s.Order:
			run.Violation(fmt.Sprintf("PhaseOrder fails on the real log: an extension does not see init, parse, validation, execution, one resolve notification per executed field, result collection in this order (%s; log equals model: %v)", where, corr), replay, false)
		case !s.Balanced || !s.Nested:
			run.Violation(fmt.Sprintf("Balanced/Nested fails on the real log: a started phase is not finished exactly once with its outcome, or phases of one extension overlap (balanced=%v nested=%v; %s; log equals model: %v)", s.Balanced, s.Nested, where, corr), replay, false)
		case !s.Reported:
			run.Violation(fmt.Sprintf("a panicking hook is not reported in Result.Errors (%s; log equals model: %v)", where, corr), replay, false)
		default:
			run.Violation(fmt.Sprintf("panic isolation fails on the real log (isolated=%v; %s; log equals model: %v)", s.Isolated, where, corr), replay, false)
		}
	}

	one := func(c caseT, origin string) {
		pp := prepare(c)
		if pp.err != "" {
			run.CheckError("cannot prepare case (" + c.Entry + "): " + pp.err + " for " + c.Req.Query)
			return
		}
		oneExec(c, pp, c.Req, origin, 1)
		if c.Req2 != nil && pp.plan != nil {
			oneExec(c, pp, *c.Req2, origin, 2)
		}
	}

	if run.ReplayIn != "" {
		var rp struct {
			Case caseT `json:"case"`
		}
		if err := hx.LoadReplay(run.ReplayIn, &rp); err != nil {
			run.CheckError(err.Error())
		} else {
			one(rp.Case, "replay")
		}
		run.Finish()
		return
	}

	// ---- 1. complete enumeration of single and double faults for 1 and 2 extensions over fixed request shapes
	shapes := []reqT{
		fixedReq("syntax", 0), fixedReq("validation", 0), fixedReq("operation", 0), fixedReq("variable", 0),
		execReq("ok", leafs(0), false),
		execReq("ok-err", leafs(0, 1), false),
		execReq("panic", leafs(2), false),
		execReq("ok-panic-ok", leafs(0, 2, 0), false),
		execReq("ok-errNN-ok", leafs(0, 3, 0), false),
		execReq("panicNN", leafs(4), false),
		execReq("nested", []fieldSpec{{Kind: "o", Outcome: 0, Children: leafs(0, 1)}, {Kind: "f", Outcome: 0}}, false),
		// resolvers that return a non-nil value TOGETHER WITH an error (scalar, object, non-null scalar) and a thunk
		execReq("thunk-errval-errvalNN", []fieldSpec{withRet(fld("f", 0), retThunk), withRet(fld("f", 1), retValueAndError), withRet(fld("o", 1, fld("f", 0)), retValueAndError), withRet(fld("g", 3), retValueAndError)}, false),
	}
	if run.Thorough() {
		shapes = append(shapes,
			execReq("err-ok-panic", leafs(1, 0, 2), true),
			execReq("ok-ok-panicNN", leafs(0, 0, 4), false),
			execReq("nested-fail", []fieldSpec{{Kind: "o", Outcome: 2, Children: leafs(0)}, {Kind: "o", Outcome: 0, Children: leafs(2, 0)}}, false),
			fixedReq("syntax", 3), fixedReq("validation", 4), fixedReq("operation", 1), fixedReq("variable", 1))
	}
	enumerated := 0
	for nExt := 1; nExt <= 2 && !run.TooManyViolations(); nExt++ {
		slots := nExt * 11
		base := func() []extCfg {
			xs := make([]extCfg, nExt)
			for i := range xs {
				xs[i] = extCfg{Name: i + 1, HasRes: true}
			}
			return xs
		}
		for _, rq := range shapes {
			one(caseT{Exts: base(), Req: rq}, "enum-0")
			enumerated++
			for s1 := 0; s1 < slots; s1++ {
				for k1 := 1; k1 <= 3; k1++ {
					xs := base()
					xs[s1/11].Beh[s1%11] = k1
					one(caseT{Exts: xs, Req: rq}, "enum-1")
					enumerated++
				}
			}
			for s1 := 0; s1 < slots; s1++ {
				for s2 := s1 + 1; s2 < slots; s2++ {
					for k1 := 1; k1 <= 3; k1++ {
						for k2 := 1; k2 <= 3; k2++ {
							if !run.Thorough() && (k1+k2+s1+s2)%3 != 0 {
								// quick tier: every slot pair, with 3 of the 9 panic-value pairs (the value never changes
								// control flow; every value occurs at every slot); the thorough tier enumerates all 9
								continue
							}
							xs := base()
							xs[s1/11].Beh[s1%11] = k1
							xs[s2/11].Beh[s2%11] = k2
							one(caseT{Exts: xs, Req: rq}, "enum-2")
							enumerated++
						}
					}
				}
			}
		}
	}
	run.Res.Extra["enumerated_single_double_fault_cases"] = enumerated
	run.Res.Extra["enumeration"] = "all (hook slot) singles x 3 panic values and all slot pairs (quick: 3 of the 9 panic-value pairs per slot pair, thorough: all 9) for 1 and 2 extensions over the fixed request shapes"

	// ---- 1b. entry points, variable-driven directives and context states: no fault and every single fault, for 1 and 2
	// extensions. Plans are obtained through PlanQuery / PlanCache before or after Schema.AddExtensions and executed
	// twice with different variable values; contexts are done before the call, while a resolver runs, or in a finish hook.
	special := 0
	entries := []string{"do", "do-addext", "plan", "plan-before", "cache", "cache-before"}
	ctxShapes := []struct {
		name string
		fs   []fieldSpec
		at   []int
	}{
		{"ctx-ok-ok", leafs(0, 0), []int{0, 1}},
		{"ctx-err-panic-ok", leafs(1, 2, 0), []int{0, 1, 2}},
		{"ctx-nested", []fieldSpec{fld("o", 0, fld("f", 0), withRet(fld("f", 1), retValueAndError)), withRet(fld("g", 3), retValueAndError), fld("f", 0)}, []int{1, 3}},
		{"ctx-typename", []fieldSpec{tn(), list("l", 0, 2, tnu(), fld("f", 0)), fld("f", 0)}, []int{0, 2, 4}},
	}
	for nExt := 1; nExt <= 2 && !run.TooManyViolations(); nExt++ {
		slots := nExt * 11
		base := func() []extCfg {
			xs := make([]extCfg, nExt)
			for i := range xs {
				xs[i] = extCfg{Name: i + 1, HasRes: true}
			}
			return xs
		}
		faulted := func(f func(xs []extCfg)) {
			f(base())
			for s1 := 0; s1 < slots; s1++ {
				xs := base()
				xs[s1/11].Beh[s1%11] = 1 + s1%3
				f(xs)
			}
		}
		for _, ds := range append(directiveShapes(), typenameShapes()...) {
			for _, en := range entries {
				if !run.Thorough() && nExt == 2 && (en == "do-addext" || en == "cache") {
					continue // quick tier: these two entries with one extension only
				}
				ds, en := ds, en
				faulted(func(xs []extCfg) {
					c := caseT{Exts: xs, Req: execReqV(ds.name, ds.fs, ds.mutation, ds.varsA), Entry: en}
					if ds.varsB != nil {
						r2 := execReqV(ds.name, ds.fs, ds.mutation, ds.varsB)
						if en == "do" || en == "do-addext" {
							one(c, "enum-special")
							special++
							c = caseT{Exts: xs, Req: r2, Entry: en}
						} else {
							c.Req2 = &r2
						}
					}
					one(c, "enum-special")
					special++
				})
			}
		}
		for _, cs := range ctxShapes {
			for _, en := range []string{"do", "plan"} {
				cs, en := cs, en
				rq := execReq(cs.name, cs.fs, false)
				for _, mode := range []string{"cancelled-before", "deadline-before", "cancel-in-finish"} {
					mode := mode
					faulted(func(xs []extCfg) {
						one(caseT{Exts: xs, Req: rq, Entry: en, Ctx: mode}, "enum-special")
						special++
					})
				}
				for _, at := range cs.at {
					at := at
					faulted(func(xs []extCfg) {
						one(caseT{Exts: xs, Req: rq, Entry: en, Ctx: "cancel-in-resolver", CtxAt: at}, "enum-special")
						special++
					})
				}
				// a deadline that expires while the resolver runs: fault-free and a few faults
				one(caseT{Exts: base(), Req: rq, Entry: en, Ctx: "deadline-in-resolver", CtxAt: cs.at[0]}, "enum-special")
				special++
				for _, h := range []int{hExecEnd, hResStart, hResEnd, hGetResult} {
					xs := base()
					xs[nExt-1].Beh[h] = 2
					one(caseT{Exts: xs, Req: rq, Entry: en, Ctx: "deadline-in-resolver", CtxAt: cs.at[len(cs.at)-1]}, "enum-special")
					special++
				}
			}
			// a context that is done does not matter for requests that never reach ExecutePlan's select
			for _, cl := range []string{"syntax", "validation", "operation", "variable"} {
				one(caseT{Exts: base(), Req: fixedReq(cl, 0), Ctx: "cancelled-before"}, "enum-special")
				special++
			}
		}
	}
	run.Res.Extra["enumerated_entry_directive_context_cases"] = special

	// ---- 2. random: 0-4 extensions, random names (sometimes shared), densities, requests, entries, contexts
	n := run.N(6000, 400000)
	for i := 0; i < n && !run.TooManyViolations(); i++ {
		r := hx.Fork(run.Seed, i)
		nExt := r.Intn(maxExt + 1)
		xs := make([]extCfg, nExt)
		shared := r.Chance(1, 12)
		den := []int{0, 1, 2, 6}[r.Intn(4)] // expected faulty hooks per 11
		for j := range xs {
			xs[j].Name = j + 1
			if shared && j > 0 && r.Chance(1, 2) {
				xs[j].Name = xs[r.Intn(j)].Name
			}
			xs[j].HasRes = r.Chance(2, 3)
			for h := 0; h < 11; h++ {
				if r.Chance(den, 11) {
					xs[j].Beh[h] = 1 + r.Intn(3)
				}
			}
		}
		c := caseT{Exts: xs}
		switch r.Intn(10) {
		case 0:
			c.Req = fixedReq("syntax", r.Intn(100))
		case 1:
			c.Req = fixedReq("validation", r.Intn(100))
		case 2:
			if r.Chance(1, 2) {
				c.Req = fixedReq("operation", r.Intn(100))
			} else {
				c.Req = fixedReq("variable", r.Intn(100))
				if r.Chance(1, 2) {
					c.Entry = []string{"plan", "plan-before", "cache", "cache-before"}[r.Intn(4)]
				}
			}
		default:
			pFail := []int{0, 1, 3}[r.Intn(3)]
			pDir := []int{0, 0, 2, 4}[r.Intn(4)] // of 8: how often a selection carries @include/@skip
			nVar := 0
			dir := func(f fieldSpec) fieldSpec {
				if !r.Chance(pDir, 8) {
					return f
				}
				f.Dir = 1 + r.Intn(2)
				if r.Chance(1, 5) {
					f.DirVar, f.DirLit = -1, r.Chance(1, 2)
				} else {
					f.DirVar = r.Intn(3)
					if f.DirVar >= nVar {
						nVar = f.DirVar + 1
					}
				}
				return f
			}
			mutation := r.Chance(1, 4)
			pTn := []int{0, 1, 2, 3}[r.Intn(4)] // of 8: how often a selection is __typename
			pAbs := []int{0, 1, 2}[r.Intn(3)]   // of 2: how often a composite field is abstract / a list rather than o
			// gen: a selection set for an object of static type typ; tnUsed: an unaliased __typename is already selected
			// for this object (directly or through a fragment; a second one only as an adjacent duplicate, so that the
			// position of the merged field does not depend on the directives)
			var gen func(depth int, typ string, wraps int, tnUsed *bool) []fieldSpec
			gen = func(depth int, typ string, wraps int, tnUsed *bool) []fieldSpec {
				root := isRootType(typ)
				abstract := typ == "I" || typ == "U"
				typename := func() fieldSpec {
					f := tn()
					if !*tnUsed && r.Chance(1, 3) {
						f.NoAlias, *tnUsed = true, true
					}
					if r.Chance(1, 6) {
						f.Dup = 1 + r.Intn(2)
					}
					return f
				}
				k := r.Range(1, 3)
				fs := make([]fieldSpec, 0, k)
				for j := 0; j < k; j++ {
					f := fld("f", 0)
					if r.Chance(pFail, 6) {
						f.Outcome = 1 + r.Intn(2)
						if f.Outcome == 1 && r.Chance(1, 2) {
							f.Ret = retValueAndError // kept when the field becomes g / o / i / u / l / li: a partial object or list with an error
						}
					} else if r.Chance(1, 8) {
						f.Ret = retThunk
					}
					switch {
					case r.Chance(pTn, 8) || (typ == "U" && wraps >= 2):
						f = typename()
					case wraps < 2 && ((pDir > 0 && r.Chance(1, 5)) || (abstract && r.Chance(1, 2)) || typ == "U"):
						cond := ""
						if abstract && r.Chance(3, 4) {
							cond = []string{"Obj", "Alt", "I", "U"}[r.Intn(4)]
							if cond == "U" && typ == "I" {
								cond = "Obj"
							}
						}
						ctyp := typ
						if cond != "" {
							ctyp = cond
						}
						f = fld([]string{"inline", "spread"}[r.Intn(2)], 0, gen(depth, ctyp, wraps+1, tnUsed)...)
						f.On = cond
					case depth < 2 && !abstract && r.Chance(1, 4):
						f.Kind = "o"
						if typ != "Alt" && r.Chance(pAbs, 2) {
							f.Kind = []string{"i", "u", "l", "li"}[r.Intn(4)]
							f.RT, f.N = r.Intn(2), r.Intn(3)
						}
						ctyp := map[string]string{"o": "Obj", "l": "Obj", "i": "I", "li": "I", "u": "U"}[f.Kind]
						f.Children = gen(depth+1, ctyp, wraps, new(bool))
					case root && r.Chance(1, 5):
						f.Kind = "g"
						if f.Outcome != 0 {
							f.Outcome += 2
						}
					case root && !mutation && pTn > 0 && r.Chance(1, 8):
						f = fld([]string{"schema", "type"}[r.Intn(2)], 0)
					case typ == "Alt" && r.Chance(1, 2):
						f.Kind = "d"
					}
					if f.Ret == retThunk && f.Kind != "f" && f.Kind != "g" && f.Kind != "d" {
						f.Ret = retPlain // thunks only for leaf fields (a composite thunk would defer its sub-selection)
					}
					fs = append(fs, dir(f))
				}
				return fs
			}
			fs := gen(0, map[bool]string{false: "Query", true: "Mutation"}[mutation], 0, new(bool))
			rv := func() map[string]interface{} {
				return boolVars(r.Chance(1, 2), r.Chance(1, 2), r.Chance(1, 2))
			}
			c.Req = execReqV("random", fs, mutation, rv())
			if r.Chance(2, 5) {
				c.Entry = entries[r.Intn(len(entries))]
				if (c.Entry != "do" && c.Entry != "do-addext") && r.Chance(2, 3) {
					r2 := execReqV("random", fs, mutation, rv())
					c.Req2 = &r2
				}
			}
			// context states: only with distinct names, at least one field that runs, and no second execution
			if !shared && c.Req2 == nil && nExecuted(c.Req.Fields) >= 1 && r.Chance(1, 4) {
				switch r.Intn(8) {
				case 0, 1:
					c.Ctx = "cancelled-before"
				case 2:
					c.Ctx = "deadline-before"
				case 3:
					c.Ctx = "cancel-in-finish"
				default:
					c.Ctx = "cancel-in-resolver"
					c.CtxAt = r.Intn(nExecuted(c.Req.Fields))
					if r.Chance(1, 30) {
						c.Ctx = "deadline-in-resolver"
					}
				}
			}
		}
		one(c, "random")
	}
	run.Res.Extra["typename_resolve_notifications"] = typenameNotifs
	run.Res.Extra["response_field_positions_checked"] = treePositions
	run.Res.Extra["finish_values_checked"] = finishValues
	run.Res.Extra["finish_values_checked_value_and_error"] = valueAndError
	run.Finish()
}
