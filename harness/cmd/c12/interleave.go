package main

// Phase D — history independence through shared plan caches.
//
// A probe request R is answered (a) from scratch by graphql.Do and (b) through shared PlanCaches (Normalize off / on,
// capacity 2 / default) AFTER a random prefix of OTHER requests that are NEAR MISSES of R — they differ from R in
// exactly one of: a variable's default value, one literal (argument value, list element, input-object field), one
// directive or a directive argument, an alias, the argument order, the operation name, a fragment body — mixed with
// R itself. Every answer for R must be byte-identical to (a).
//
// One recorded finding of the unchanged tree is met here (D-18e, class normalisedPlanCacheKeepsFirstLayoutPositions):
// with Normalize:true, layout/literal variants share one entry that keeps the FIRST variant's positions, so R's error
// `locations` can be those of an earlier variant. Exactly that situation — Normalize:true, data + error messages +
// paths + error order equal, only `locations` differ, and they equal the correct locations of an earlier request of
// the same sequence — is routed through run.KnownFinding; everything else is a violation.

import (
	"context"
	"encoding/json"
	"fmt"
	"reflect"
	"sort"
	"strings"

	"github.com/graphql-go/graphql"

	"verif/harness/hx"
)

const classKeepsFirstPositions = "normalisedPlanCacheKeepsFirstLayoutPositions"

type slotT struct {
	Name string
	What string // which kind of near miss a change of this slot is
	Vals []string
}

type familyT struct {
	Name  string
	Tmpl  string
	Slots []slotT
	Vars  []map[string]interface{}
}

// Values of one slot come in different widths (1 vs 12345: every later token moves) and in equal widths (1 vs 2:
// identical token positions).
var families = []familyT{
	{Name: "query", Tmpl: `query {OP}($n: Int = {D}, $t: String = {DT}) { {A}: echo(term: $t, limit: $n, tags: [{L1}, "b"], opts: {a: {L2}, b: 2}) g({ORD}) a {DIR} h(c: {E}) node { ...F } }
fragment F on Node { {FB} }`,
		Slots: []slotT{
			{"OP", "operation name", []string{"Q", "R", "Quite"}},
			{"D", "variable default value", []string{"1", "2", "12345", "7"}},
			{"DT", "variable default value", []string{`"x"`, `"y"`, `"longer text"`}},
			{"A", "alias", []string{"e1", "e2", "anotherAlias"}},
			{"L1", "list element literal", []string{`"a"`, `"c"`, `"abcdef"`}},
			{"L2", "input-object field literal", []string{"1", "7", "123456"}},
			{"ORD", "argument order / argument literal", []string{"p: 1, q: 2, r: 3, s: 4", "q: 2, p: 1, s: 4, r: 3", "p: 5, q: 2, r: 3, s: 4", "p: 55555, q: 2, r: 3, s: 4", `p: "str", q: 2, r: 3, s: 4`}},
			{"DIR", "directive / directive argument", []string{"", "@skip(if: false)", "@include(if: true)", "@skip(if: true)", "@d(p: 1, q: 2, r: 3, s: 4)", "@d(p: 1, q: 2, r: 3, s: 44444)"}},
			{"E", "enum literal", []string{"RED", "BLUE", "GREEN", "ALPHA"}},
			{"FB", "fragment body", []string{"w x", "w y", "x", "w z { w }", "w zzz"}},
		},
		Vars: []map[string]interface{}{nil, {"t": "tv"}, {"n": 9}, {"n": 4, "t": "u"}}},
	{Name: "mutation", Tmpl: `mutation {OP}($t: String = {DT}, $o: In = {DO}) { {A}: echoM(term: $t, opts: $o, tags: [{L1}]) m3 { __typename ... on T1 { me {DIR} } ...F } m2 again: echoM(limit: {L2}) }
fragment F on Node { {FB} }`,
		Slots: []slotT{
			{"OP", "operation name", []string{"M", "N", "Mutate"}},
			{"DT", "variable default value", []string{`"x"`, `"y"`, `"longer text"`}},
			{"DO", "variable default value", []string{"{a: 1}", "{a: 2}", "{a: 1, e: {b: 22222}}", "{b: 1}"}},
			{"A", "alias", []string{"e1", "e2", "anotherAlias"}},
			{"L1", "list element literal", []string{`"a"`, `"c"`, `"abcdef", "g"`}},
			{"L2", "argument literal", []string{"1", "2", "123456"}},
			{"DIR", "directive / directive argument", []string{"", "@skip(if: false)", "@skip(if: true)", "@include(if: false)"}},
			{"FB", "fragment body", []string{"w x", "w y", "y", "w nn"}},
		},
		Vars: []map[string]interface{}{nil, {"t": "tv"}, {"o": map[string]interface{}{"a": 3}}}},
}

type assignT map[string]int

func (f *familyT) render(a assignT) (query, op string) {
	q := f.Tmpl
	for _, s := range f.Slots {
		q = strings.ReplaceAll(q, "{"+s.Name+"}", s.Vals[a[s.Name]])
		if s.Name == "OP" {
			op = s.Vals[a[s.Name]]
		}
	}
	return q, op
}

type ireq struct {
	Query  string                 `json:"query"`
	Op     string                 `json:"op"`
	Vars   map[string]interface{} `json:"vars,omitempty"`
	Differ string                 `json:"differs_from_probe_in,omitempty"` // "" = the probe itself
}

type iseq struct {
	Family    string `json:"family"`
	Mode      modeT  `json:"mode"`
	Normalize bool   `json:"normalize"`
	Capacity  int    `json:"capacity"` // 0 = default
	Probe     ireq   `json:"probe"`
	Steps     []ireq `json:"steps"` // executed in this order through ONE cache; answers of probe steps are compared
}

func cacheAnswer(cache *graphql.PlanCache, s *graphql.Schema, r ireq) string {
	return guard(func() string {
		pr := cache.Get(s, r.Query, r.Op)
		if len(pr.Errors) > 0 {
			return marshal(&graphql.Result{Errors: pr.Errors})
		}
		args := map[string]interface{}{}
		if r.Vars != nil {
			args = copyVars(r.Vars).(map[string]interface{})
		}
		for k, v := range pr.SynthArgs {
			args[k] = v
		}
		return marshal(graphql.ExecutePlan(pr.Plan, graphql.ExecuteParams{Schema: *s, Args: args, Context: context.Background()}))
	})
}

func doAnswer(s *graphql.Schema, r ireq) string {
	return guard(func() string {
		var vars map[string]interface{}
		if r.Vars != nil {
			vars = copyVars(r.Vars).(map[string]interface{})
		}
		return marshal(graphql.Do(graphql.Params{Schema: *s, RequestString: r.Query, OperationName: r.Op, VariableValues: vars, Context: context.Background()}))
	})
}

// splitLocations parses a response and returns it with every error's `locations` removed, plus the list of the
// removed locations (one entry per error, in order).
func splitLocations(s string) (stripped string, locs []interface{}, ok bool) {
	var m map[string]interface{}
	if json.Unmarshal([]byte(s), &m) != nil {
		return "", nil, false
	}
	es, _ := m["errors"].([]interface{})
	for _, e := range es {
		em, isMap := e.(map[string]interface{})
		if !isMap {
			return "", nil, false
		}
		locs = append(locs, em["locations"])
		delete(em, "locations")
	}
	return marshal(m), locs, true
}

// keepsFirstPositions is the predicate of the known finding: want/got are equal but for error locations, and got's
// locations are the correct locations (as answered by Do) of an earlier request of the sequence.
func keepsFirstPositions(want, got string, earlierDo []string) bool {
	ws, wl, ok1 := splitLocations(want)
	gs, gl, ok2 := splitLocations(got)
	if !ok1 || !ok2 || ws != gs || len(wl) != len(gl) || len(gl) == 0 {
		return false
	}
	for _, e := range earlierDo {
		_, el, ok := splitLocations(e)
		if ok && reflect.DeepEqual(el, gl) {
			return true
		}
	}
	return false
}

type interleaveStats struct {
	executions int
	probes     int
}

// runSequence executes one sequence on a fresh cache over the given schema; returns "" or the description of the
// first probe answer that differs from Do, the expected and the observed answer, and whether it is the known class.
func runSequence(s *graphql.Schema, q iseq, st *interleaveStats) (note, want, got string, known bool, at int) {
	want = doAnswer(s, q.Probe)
	st.executions++
	cache := graphql.NewPlanCache(graphql.PlanCacheOptions{Normalize: q.Normalize, MaxEntries: q.Capacity})
	var earlierDo []string
	for i, r := range q.Steps {
		ans := cacheAnswer(cache, s, r)
		st.executions++
		if r.Differ != "" {
			if q.Normalize {
				earlierDo = append(earlierDo, doAnswer(s, r))
			}
			continue
		}
		if ans == want {
			continue
		}
		if q.Normalize && keepsFirstPositions(want, ans, earlierDo) {
			return "error locations are those of an earlier variant sharing the normalised cache entry", want, ans, true, i
		}
		var prev []string
		for _, p := range q.Steps[:i] {
			if p.Differ != "" {
				prev = append(prev, p.Differ)
			}
		}
		return fmt.Sprintf("a request answered through a shared PlanCache{Normalize:%v, MaxEntries:%d} after %d other requests (near misses differing in: %s) differs from its answer by graphql.Do (%s)",
			q.Normalize, q.Capacity, i, strings.Join(uniq(prev), "; "), diffClass(want, ans)), want, ans, false, i
	}
	return "", want, "", false, -1
}

func uniq(xs []string) []string {
	seen := map[string]bool{}
	var out []string
	for _, x := range xs {
		if !seen[x] {
			seen[x] = true
			out = append(out, x)
		}
	}
	sort.Strings(out)
	return out
}

// (document, operation name) pairs that a careless cache key confuses: the naive joins of operation name and request text
// coincide — plain concatenation (the operation name is a prefix of the other request's text: "query", "query Q", "{"), a
// NUL or ":" separator that the name itself contains, names with digits and ":" that mimic a length prefix.
var keyCollisionPairs = [][2]ireq{
	{{Query: `query{a}`}, {Query: `{a}`, Op: "query"}},
	{{Query: `query Q{a}`}, {Query: `{a}`, Op: "query Q"}},
	{{Query: `query Q{a}`}, {Query: ` Q{a}`, Op: "query"}},
	{{Query: `query Q{a}`, Op: "Q"}, {Query: `uery Q{a}`, Op: "Qq"}},
	{{Query: `{a b}`}, {Query: `a b}`, Op: "{"}},
	{{Query: `query Q{a} query R{b}`, Op: "Q"}, {Query: `Qquery Q{a} query R{b}`}},
	{{Query: `query Q{a} query R{b}`, Op: "R"}, {Query: `query Q{a} query R{b}`, Op: "Q"}},
	{{Query: `{a}`, Op: "x\x00y"}, {Query: "y\x00{a}", Op: "x"}},
	{{Query: `{a}`, Op: "x:y"}, {Query: `y:{a}`, Op: "x"}},
	{{Query: `{a}`, Op: "1:Q"}, {Query: `1:Q{a}`}},
	{{Query: `query Q{a}`, Op: "0:"}, {Query: `0:query Q{a}`}},
	{{Query: `Q{a}`, Op: "1:"}, {Query: `{a}`, Op: "1:Q"}},
	{{Query: `query Q{a}`, Op: "Q"}, {Query: `1:Qquery Q{a}`}},
	{{Query: `query Q{aa}`, Op: "Q"}, {Query: `query Q{aa}`, Op: "1:Q"}},
	{{Query: `query A{a} query AB{b}`, Op: "A"}, {Query: `query A{a} query AB{b}`, Op: "AB"}},
	{{Query: `{a}`, Op: "\x00"}, {Query: "\x00{a}"}},
}

// collisionSequences: both orders, plain and normalising caches, small and default capacity.
func collisionSequences() []iseq {
	var out []iseq
	for _, pr := range keyCollisionPairs {
		for _, order := range [][2]int{{0, 1}, {1, 0}} {
			other, probe := pr[order[0]], pr[order[1]]
			other.Differ = fmt.Sprintf("(document, operation name) = (%q, %q) whose naive key joins coincide with the probe's", other.Query, other.Op)
			for _, norm := range []bool{false, true} {
				for _, capa := range []int{2, 0} {
					out = append(out, iseq{Family: "keyCollision", Normalize: norm, Capacity: capa, Probe: probe, Steps: []ireq{other, probe, other, probe}})
				}
			}
		}
	}
	return out
}

// mkSequences draws probes and their near-miss prefixes.
func mkSequences(seed uint64, nProbes int) []iseq {
	out := collisionSequences()
	modes := []modeT{{}, {Errors: true}, {Errors: true, Thunks: true}, {FailLeaves: true}}
	for p := 0; p < nProbes; p++ {
		r := hx.Fork(seed, 700000+p)
		f := &families[p%len(families)]
		a := assignT{}
		for _, s := range f.Slots {
			a[s.Name] = r.Intn(len(s.Vals))
		}
		vars := f.Vars[r.Intn(len(f.Vars))]
		pq, pop := f.render(a)
		probe := ireq{Query: pq, Op: pop, Vars: vars}
		// near misses: exactly one slot changed
		var misses []ireq
		for _, s := range f.Slots {
			for v := range s.Vals {
				if v == a[s.Name] {
					continue
				}
				b := assignT{}
				for k, x := range a {
					b[k] = x
				}
				b[s.Name] = v
				q, op := f.render(b)
				misses = append(misses, ireq{Query: q, Op: op, Vars: vars, Differ: fmt.Sprintf("%s (%s → %s)", s.What, s.Vals[a[s.Name]], s.Vals[v])})
			}
		}
		mode := modes[r.Intn(len(modes))]
		for _, norm := range []bool{false, true} {
			for _, capa := range []int{2, 0} {
				sq := iseq{Family: f.Name, Mode: mode, Normalize: norm, Capacity: capa, Probe: probe}
				n := r.Range(1, 6)
				for k := 0; k < n; k++ {
					sq.Steps = append(sq.Steps, misses[r.Intn(len(misses))])
					if r.Chance(1, 3) {
						sq.Steps = append(sq.Steps, probe)
					}
				}
				sq.Steps = append(sq.Steps, probe, probe)
				// sometimes the probe populates the entry first, then variants, then the probe again
				if r.Chance(1, 3) {
					sq.Steps = append([]ireq{probe}, sq.Steps...)
				}
				out = append(out, sq)
			}
		}
	}
	return out
}
