package main

// Phase H — one plan, different data ("dataVariedSharedPlan").
//
// Phases A–G send every request with ONE fixed resolver world: a plan that is shared between requests (PlanCache entry,
// a *Plan the caller holds on to) always meets the same runtime types. Whatever a plan learns lazily at execute time
// (the sub-selection of an abstract field per concrete runtime type, of an object field on first use) then depends only on
// the document. Here the DATA varies between requests that share a plan: the schema takes everything from the request's
// ROOT VALUE (`pet: Pet` with members Dog / Cat / Bird, `pets: [Pet]`, union `Animal`, `Person` with `pets` / `pet` /
// `best`; runtime type = the "kind" entry of the value), and one and the same (document, variables) is issued with
// different root values: runtime types alternate, parents are null, lists mix types.
//
// Documents: fragments on the abstract type, inline fragments on concrete types, nested combinations and fragments
// spread in several places select the same response keys (`owner`, `o: owner`, `friend`, `pets` …) with DIFFERENT
// sub-selections that have to be merged per concrete type, two to four levels deep; most without variable-driven
// directives (one shared plan), some with them (re-specialised per request: control), some with constant directives.
//
// Every answer — through a shared PlanCache (Normalize off / on, capacity 2 / default) or through a plan prepared once
// with PlanQuery — must be byte-identical to graphql.Do of the same (document, variables, root value) on a second,
// separately built schema that never sees a shared plan.
//
//	H1  fixed sweep: hand-written documents × every ordered pair (root served before, probe root) of a fixed set of
//	    root values × entry point; steps [before, probe, probe];
//	H2  generated: scenarios of 1–3 generated documents, 3–6 root values (a random one, the same with all kinds
//	    rotated, with only the top-level kinds changed, with null parents, an unrelated one) and 6–16 requests in
//	    seeded random order over both entry points.

import (
	"context"
	"fmt"
	"strings"

	"github.com/graphql-go/graphql"
	"github.com/graphql-go/graphql/language/parser"
	"github.com/graphql-go/graphql/language/source"

	"verif/harness/hx"
)

// ---------------------------------------------------------------- schema (all data from the root value)

func buildPetSchema(thunks bool) (*graphql.Schema, error) {
	get := func(p graphql.ResolveParams) (interface{}, error) {
		m, _ := p.Source.(map[string]interface{})
		if m == nil {
			return nil, nil
		}
		return m[p.Info.FieldName], nil
	}
	getComposite := get
	if thunks {
		getComposite = func(p graphql.ResolveParams) (interface{}, error) {
			v, _ := get(p)
			return func() (interface{}, error) { return v, nil }, nil
		}
	}
	var dog, cat, bird, person *graphql.Object
	byKind := func(v interface{}) *graphql.Object {
		m, _ := v.(map[string]interface{})
		switch m["kind"] {
		case "dog":
			return dog
		case "cat":
			return cat
		case "bird":
			return bird
		case "person":
			return person // never a possible type of Pet / Animal: a deterministic runtime-type error
		}
		return nil
	}
	var pet *graphql.Interface
	var animal *graphql.Union
	petFields := func(extra string, extraType graphql.Output) graphql.FieldsThunk {
		return func() graphql.Fields {
			f := graphql.Fields{
				"name":   &graphql.Field{Type: graphql.String, Resolve: get},
				"age":    &graphql.Field{Type: graphql.Int, Resolve: get},
				"owner":  &graphql.Field{Type: person, Resolve: getComposite},
				"friend": &graphql.Field{Type: pet, Resolve: getComposite},
			}
			if extra != "" {
				f[extra] = &graphql.Field{Type: extraType, Resolve: get}
			}
			return f
		}
	}
	pet = graphql.NewInterface(graphql.InterfaceConfig{Name: "Pet", Fields: petFields("", nil),
		ResolveType: func(p graphql.ResolveTypeParams) *graphql.Object { return byKind(p.Value) }})
	dog = graphql.NewObject(graphql.ObjectConfig{Name: "Dog", Interfaces: []*graphql.Interface{pet}, Fields: petFields("barks", graphql.Boolean)})
	cat = graphql.NewObject(graphql.ObjectConfig{Name: "Cat", Interfaces: []*graphql.Interface{pet}, Fields: petFields("lives", graphql.Int)})
	bird = graphql.NewObject(graphql.ObjectConfig{Name: "Bird", Interfaces: []*graphql.Interface{pet}, Fields: petFields("wingspan", graphql.Int)})
	animal = graphql.NewUnion(graphql.UnionConfig{Name: "Animal", Types: []*graphql.Object{dog, cat, bird},
		ResolveType: func(p graphql.ResolveTypeParams) *graphql.Object { return byKind(p.Value) }})
	person = graphql.NewObject(graphql.ObjectConfig{Name: "Person", Fields: graphql.FieldsThunk(func() graphql.Fields {
		return graphql.Fields{
			"id":   &graphql.Field{Type: graphql.String, Resolve: get},
			"city": &graphql.Field{Type: graphql.String, Resolve: get},
			"name": &graphql.Field{Type: graphql.String, Resolve: get},
			"pets": &graphql.Field{Type: graphql.NewList(pet), Resolve: getComposite},
			"pet":  &graphql.Field{Type: pet, Resolve: getComposite},
			"best": &graphql.Field{Type: animal, Resolve: getComposite},
		}
	})})
	query := graphql.NewObject(graphql.ObjectConfig{Name: "Query", Fields: graphql.Fields{
		"pet":     &graphql.Field{Type: pet, Resolve: getComposite},
		"pets":    &graphql.Field{Type: graphql.NewList(pet), Resolve: getComposite},
		"animal":  &graphql.Field{Type: animal, Resolve: getComposite},
		"animals": &graphql.Field{Type: graphql.NewList(animal), Resolve: getComposite},
		"person":  &graphql.Field{Type: person, Resolve: getComposite},
	}})
	s, err := graphql.NewSchema(graphql.SchemaConfig{Query: query, Types: []graphql.Type{dog, cat, bird, animal, person}})
	return &s, err
}

// ---------------------------------------------------------------- root values

var dvKinds = []string{"dog", "cat", "bird"}

func dvPet(r *hx.Rng, depth int, n *int) interface{} {
	if r.Chance(1, 9) {
		return nil
	}
	*n++
	kind := dvKinds[r.Intn(len(dvKinds))]
	if r.Chance(1, 40) {
		kind = []string{"person", "fish"}[r.Intn(2)] // not a possible type / no type at all
	}
	m := map[string]interface{}{"kind": kind, "name": fmt.Sprintf("%s-%d", kind[:1], *n), "age": r.Intn(20),
		"barks": r.Chance(1, 2), "lives": r.Range(1, 9), "wingspan": r.Range(10, 99), "owner": nil, "friend": nil}
	if depth > 0 {
		if !r.Chance(1, 6) {
			m["owner"] = dvPerson(r, depth-1, n)
		}
		if r.Chance(1, 2) {
			m["friend"] = dvPet(r, depth-1, n)
		}
	}
	return m
}

func dvPerson(r *hx.Rng, depth int, n *int) interface{} {
	*n++
	m := map[string]interface{}{"kind": "owner", "id": fmt.Sprintf("o%d", *n), "city": []string{"Paris", "Oslo", "Lima", "Pune"}[r.Intn(4)],
		"name": fmt.Sprintf("N%d", *n), "pets": nil, "pet": nil, "best": nil}
	if depth > 0 {
		if !r.Chance(1, 8) {
			pets := []interface{}{}
			for i, k := 0, r.Intn(4); i < k; i++ {
				pets = append(pets, dvPet(r, depth-1, n))
			}
			m["pets"] = pets
		}
		if r.Chance(1, 2) {
			m["pet"] = dvPet(r, depth-1, n)
		}
		if r.Chance(1, 2) {
			m["best"] = dvPet(r, depth-1, n)
		}
	}
	return m
}

func dvRoot(r *hx.Rng, depth int) map[string]interface{} {
	n := 0
	pets, animals := []interface{}{}, []interface{}{}
	for i, k := 0, r.Intn(4); i < k; i++ {
		pets = append(pets, dvPet(r, depth-1, &n))
	}
	for i, k := 0, r.Intn(4); i < k; i++ {
		animals = append(animals, dvPet(r, depth-1, &n))
	}
	return map[string]interface{}{"pet": dvPet(r, depth, &n), "pets": pets, "animal": dvPet(r, depth, &n), "animals": animals, "person": dvPerson(r, depth, &n)}
}

// dvRekind returns a deep copy of v in which the kinds of pets are mapped by f (deep: at every level; otherwise only
// at the top: the values of the root fields and the elements of the root lists).
func dvRekind(v interface{}, f func(string) string, deep bool, level int) interface{} {
	switch x := v.(type) {
	case map[string]interface{}:
		out := make(map[string]interface{}, len(x))
		for k, e := range x {
			out[k] = dvRekind(e, f, deep, level+1)
		}
		if k, ok := x["kind"].(string); ok && k != "owner" && (deep || level <= 2) {
			out["kind"] = f(k)
		}
		return out
	case []interface{}:
		out := make([]interface{}, len(x))
		for i, e := range x {
			out[i] = dvRekind(e, f, deep, level) // list elements stay on the level of the list
		}
		return out
	}
	return v
}

func dvRotate(by int) func(string) string {
	return func(k string) string {
		for i, n := range dvKinds {
			if n == k {
				return dvKinds[(i+by)%len(dvKinds)]
			}
		}
		return k
	}
}

// dvSig lists the runtime kinds a root value holds, in a fixed order: two requests with different signatures make a shared
// plan meet different runtime types.
func dvSig(v interface{}) string {
	var sb strings.Builder
	var walk func(v interface{})
	walk = func(v interface{}) {
		switch x := v.(type) {
		case nil:
			sb.WriteString("-")
		case map[string]interface{}:
			if k, ok := x["kind"].(string); ok {
				sb.WriteString(k[:1])
			}
			for _, f := range []string{"pet", "pets", "animal", "animals", "person", "owner", "friend", "best"} {
				if e, ok := x[f]; ok {
					walk(e)
				}
			}
		case []interface{}:
			sb.WriteString("[")
			for _, e := range x {
				walk(e)
			}
			sb.WriteString("]")
		}
	}
	walk(v)
	return sb.String()
}

// dvTopSig: the kinds at the top of a root value only (for the reader of a replay).
func dvTopSig(root map[string]interface{}) string {
	kind := func(v interface{}) string {
		if m, ok := v.(map[string]interface{}); ok {
			return fmt.Sprint(m["kind"])
		}
		return "null"
	}
	list := func(v interface{}) string {
		l, _ := v.([]interface{})
		ks := []string{}
		for _, e := range l {
			ks = append(ks, kind(e))
		}
		return "[" + strings.Join(ks, ",") + "]"
	}
	return fmt.Sprintf("pet=%s pets=%s animal=%s animals=%s", kind(root["pet"]), list(root["pets"]), kind(root["animal"]), list(root["animals"]))
}

// fixed roots of the sweep H1: one shape, the top-level kinds varied
func dvFixedRoots() []map[string]interface{} {
	owner := func(id string) map[string]interface{} {
		return map[string]interface{}{"kind": "owner", "id": id, "city": "Paris", "name": "N" + id, "pet": nil, "best": nil,
			"pets": []interface{}{
				map[string]interface{}{"kind": "cat", "name": "inner-cat", "age": 2, "lives": 7, "barks": false, "wingspan": 0, "friend": nil,
					"owner": map[string]interface{}{"kind": "owner", "id": id + "c", "city": "Oslo", "name": "Inner", "pets": []interface{}{}, "pet": nil, "best": nil}},
				map[string]interface{}{"kind": "dog", "name": "inner-dog", "age": 3, "lives": 1, "barks": true, "wingspan": 0, "friend": nil,
					"owner": map[string]interface{}{"kind": "owner", "id": id + "d", "city": "Lima", "name": "Inner", "pets": []interface{}{}, "pet": nil, "best": nil}},
			}}
	}
	mk := func(kind, name string) map[string]interface{} {
		return map[string]interface{}{"kind": kind, "name": name, "age": 4, "barks": true, "lives": 9, "wingspan": 30, "owner": owner("o-" + name),
			"friend": map[string]interface{}{"kind": "bird", "name": "friend-of-" + name, "age": 1, "barks": false, "lives": 1, "wingspan": 12, "owner": owner("f-" + name), "friend": nil}}
	}
	root := func(petKind string, listKinds ...string) map[string]interface{} {
		r := map[string]interface{}{"pet": nil, "animal": nil}
		if petKind != "" {
			r["pet"], r["animal"] = mk(petKind, "p"), mk(petKind, "a")
		}
		l := []interface{}{}
		for i, k := range listKinds {
			l = append(l, mk(k, fmt.Sprintf("l%d", i)))
		}
		r["pets"], r["animals"] = l, copyVars(l)
		p := owner("root")
		if petKind != "" {
			p["pet"], p["best"] = mk(petKind, "pp"), mk(petKind, "pb")
		}
		r["person"] = p
		return r
	}
	return []map[string]interface{}{
		root("dog", "dog", "cat"), root("cat", "cat", "dog"), root("bird", "bird"), root("", "cat"), root("cat"), root("dog", "bird", "dog", "cat"),
	}
}

// ---------------------------------------------------------------- documents

type dvDoc struct {
	Query   string                   `json:"query"`
	Op      string                   `json:"op,omitempty"`
	Dynamic bool                     `json:"variable_driven_directives,omitempty"`
	Vars    []map[string]interface{} `json:"-"` // assignments worth trying (nil entry = none)
}

var dvNoVars = []map[string]interface{}{nil}
var dvDynVars = []map[string]interface{}{nil, {"c": false}, {"d": true}, {"c": true, "d": false}, {"c": false, "d": true}}

var dvHandDocs = []dvDoc{
	{Query: `query Q { pet { name ...F ... on Cat { owner { city } } } } fragment F on Pet { owner { id } }`, Op: "Q"},
	{Query: `{ pet { ...F ... on Dog { owner { pets { name } } } ... on Cat { owner { city } } } pets { ...F ... on Bird { owner { name } } ... on Cat { owner { city name } } } } fragment F on Pet { owner { id } }`},
	{Query: `{ animal { __typename ... on Pet { ...F } ... on Cat { o: owner { city } } } animals { ...F ... on Dog { o: owner { city } } } } fragment F on Pet { o: owner { id } }`},
	{Query: `{ person { pets { ...F ... on Cat { friend { ...F owner { city } } } } pet { ...F owner { name } } best { ...F ... on Dog { owner { city } } } } } fragment F on Pet { name owner { id } }`},
	{Query: `{ pet { ... on Dog { ...G } } person { pet { ...G friend { age } } } } fragment G on Pet { friend { name } }`},
	{Query: `{ pets { ...F ... on Cat { owner { pets { age } } } ... on Dog { owner { pets { owner { city } } } } } } fragment F on Pet { owner { pets { name } } }`},
	{Query: `{ pet { ...A ...B } pets { ...B ... on Cat { ...A } } } fragment A on Pet { owner { id pets { name } } } fragment B on Pet { owner { city pets { ... on Cat { lives } } } }`},
	{Query: `{ pet { owner { id } ... on Pet { ... on Cat { owner { city } ... on Pet { owner { name } } } } } animal { ... on Dog { owner { id } } ... on Cat { owner { id city } } ... on Bird { owner { name } } } }`},
	{Query: `{ pet { ...F @include(if: true) ... on Cat @skip(if: false) { owner { city } } ... on Dog @skip(if: true) { owner { name } } } } fragment F on Pet { owner { id } }`},
	{Query: `query Q($c: Boolean = true) { pet { name ...F ... on Cat @include(if: $c) { owner { city } } } } fragment F on Pet { owner { id } }`, Op: "Q", Dynamic: true, Vars: dvDynVars[:2]},
	{Query: `query Q($d: Boolean = false) { pets { ...F ... on Dog { owner @skip(if: $d) { city } } } pet { ...F } } fragment F on Pet { owner { id } }`, Op: "Q", Dynamic: true, Vars: []map[string]interface{}{nil, {"d": true}}},
}

// dvGen draws one valid document: response keys determine field names document-wide (aliases n / o / f / ps / p2 are
// fixed to name / owner / friend / pets / pet), member-only scalars occur only under their member, named fragments are
// spread only where their type condition can apply and only once complete (no cycles).
type dvGen struct {
	r       *hx.Rng
	dynamic bool // may place variable-driven directives
	usedC   bool
	usedD   bool
	frags   []dvFrag
	budget  int // composite pieces (fields with a sub-selection, inline fragments, new fragments) still to place: keeps documents small
}

func (g *dvGen) take() bool {
	if g.budget <= 0 {
		return false
	}
	g.budget--
	return true
}

type dvFrag struct {
	name, on, body string
	done           bool
}

func (g *dvGen) dir() string {
	switch {
	case g.dynamic && g.r.Chance(1, 4):
		if g.r.Chance(1, 2) {
			g.usedC = true
			return " @include(if: $c)"
		}
		g.usedD = true
		return " @skip(if: $d)"
	case g.r.Chance(1, 25):
		return []string{" @include(if: true)", " @skip(if: false)", " @skip(if: true)"}[g.r.Intn(3)]
	}
	return ""
}

// overlap: can a fragment on type `on` apply where the static type is ctx?
func dvOverlap(on, ctx string) bool {
	abstract := func(t string) bool { return t == "Pet" || t == "Animal" }
	return on == ctx || abstract(on) || abstract(ctx)
}

var dvMemberScalar = map[string]string{"Dog": "barks", "Cat": "lives", "Bird": "wingspan"}

func (g *dvGen) spread(ctx string, depth int, gen func(ctx string, depth int) string, candidates []string) string {
	// reuse a complete fragment that can apply here, or define a new one
	var usable []int
	for i, f := range g.frags {
		if f.done && dvOverlap(f.on, ctx) && (f.on == "Person") == (ctx == "Person") {
			usable = append(usable, i)
		}
	}
	if len(usable) > 0 && g.r.Chance(2, 3) {
		return "..." + g.frags[usable[g.r.Intn(len(usable))]].name + g.dir()
	}
	if len(g.frags) >= 5 {
		return ""
	}
	on := candidates[g.r.Intn(len(candidates))]
	idx := len(g.frags)
	g.frags = append(g.frags, dvFrag{name: fmt.Sprintf("F%d", idx), on: on})
	body := gen(on, depth)
	g.frags[idx].body, g.frags[idx].done = body, true
	return "..." + g.frags[idx].name + g.dir()
}

// cluster: ONE response key with a sub-selection, selected two or three times for the same parent along different routes —
// directly, inside an inline fragment on a concrete member (applies to one runtime type only), inside an inline fragment
// on Pet, inside a (new or already complete) named fragment — each time with its own sub-selection: what has to be merged
// below the key differs per concrete runtime type of the parent.
func (g *dvGen) cluster(ctx string, depth int) []string {
	r := g.r
	key := []string{"owner", "owner", "o: owner", "friend"}[r.Intn(4)]
	one := func() string {
		if key == "friend" {
			return key + g.dir() + " { " + g.petSel("Pet", depth-1) + " }"
		}
		return key + g.dir() + " { " + g.personSel(depth-1) + " }"
	}
	members := []string{"Dog", "Cat", "Bird"}
	if ctx != "Pet" {
		members = []string{ctx}
	}
	var parts []string
	routes := []int{0, 1, 1, 2, 3}
	for i, k := 0, r.Range(2, 3); i < k; i++ {
		switch routes[r.Intn(len(routes))] {
		case 0:
			parts = append(parts, one())
		case 1:
			m := members[r.Intn(len(members))]
			parts = append(parts, "... on "+m+g.dir()+" { "+dvMemberScalar[m]+" "+one()+" }")
		case 2:
			parts = append(parts, "... on Pet"+g.dir()+" { "+one()+" }")
		default:
			if len(g.frags) >= 5 {
				parts = append(parts, one())
				continue
			}
			idx := len(g.frags)
			g.frags = append(g.frags, dvFrag{name: fmt.Sprintf("F%d", idx), on: "Pet"})
			g.frags[idx].body = []string{"name ", "age ", ""}[r.Intn(3)] + one()
			g.frags[idx].done = true
			parts = append(parts, "..."+g.frags[idx].name+g.dir())
		}
	}
	return parts
}

// petSel: a selection set (without braces) where the static type is ctx ∈ Pet | Dog | Cat | Bird.
func (g *dvGen) petSel(ctx string, depth int) string {
	r := g.r
	parts := []string{[]string{"name", "age", "n: name", "__typename"}[r.Intn(4)]}
	if ms, ok := dvMemberScalar[ctx]; ok && r.Chance(1, 2) {
		parts = append(parts, ms)
	}
	for i, k := 0, r.Range(1, 4); i < k && depth > 0 && g.take(); i++ {
		switch x := r.Intn(16); {
		case x >= 12:
			parts = append(parts, g.cluster(ctx, depth)...)
		case x < 4:
			key := []string{"owner", "owner", "o: owner"}[r.Intn(3)]
			parts = append(parts, key+g.dir()+" { "+g.personSel(depth-1)+" }")
		case x < 5:
			key := []string{"friend", "f: friend"}[r.Intn(2)]
			parts = append(parts, key+g.dir()+" { "+g.petSel("Pet", depth-1)+" }")
		case x < 8:
			on := []string{"Dog", "Cat", "Bird", "Pet"}[r.Intn(4)]
			if !dvOverlap(on, ctx) {
				on = ctx
			}
			parts = append(parts, "... on "+on+g.dir()+" { "+g.petSel(on, depth)+" }")
		case x < 12:
			cands := []string{"Pet", "Pet", ctx}
			if ctx == "Pet" {
				cands = []string{"Pet", "Pet", "Pet", "Cat", "Dog"}
			}
			if s := g.spread(ctx, depth, g.petSel, cands); s != "" {
				parts = append(parts, s)
			}
		}
	}
	return strings.Join(parts, " ")
}

// animalSel: where the static type is the union Animal (no fields but __typename).
func (g *dvGen) animalSel(depth int) string {
	r := g.r
	parts := []string{"__typename"}
	for i, k := 0, r.Range(1, 3); i < k && (i == 0 || g.take()); i++ {
		if r.Chance(1, 3) {
			if s := g.spread("Animal", depth, g.petSel, []string{"Pet", "Pet", "Cat", "Dog"}); s != "" {
				parts = append(parts, s)
				continue
			}
		}
		on := []string{"Dog", "Cat", "Bird", "Pet", "Pet"}[r.Intn(5)]
		parts = append(parts, "... on "+on+g.dir()+" { "+g.petSel(on, depth)+" }")
	}
	return strings.Join(parts, " ")
}

func (g *dvGen) personSel(depth int) string {
	r := g.r
	parts := []string{[]string{"id", "city", "name", "c: city", "id city"}[r.Intn(5)]}
	for i, k := 0, r.Intn(3); i < k && depth > 0 && g.take(); i++ {
		switch x := r.Intn(10); {
		case x < 4:
			key := []string{"pets", "ps: pets"}[r.Intn(2)]
			parts = append(parts, key+g.dir()+" { "+g.petSel("Pet", depth-1)+" }")
		case x < 6:
			parts = append(parts, "pet"+g.dir()+" { "+g.petSel("Pet", depth-1)+" }")
		case x < 7:
			parts = append(parts, "best"+g.dir()+" { "+g.animalSel(depth-1)+" }")
		case x < 8:
			parts = append(parts, "... on Person"+g.dir()+" { "+g.personSel(depth)+" }")
		default:
			if s := g.spread("Person", depth, func(_ string, d int) string { return g.personSel(d) }, []string{"Person"}); s != "" {
				parts = append(parts, s)
			}
		}
	}
	return strings.Join(parts, " ")
}

func dvGenDoc(r *hx.Rng) dvDoc {
	g := &dvGen{r: r, dynamic: r.Chance(1, 5), budget: r.Range(5, 14)}
	depth := r.Range(2, 4)
	var parts []string
	// the same abstract field in the operation once or twice (merged at the root), plus other roots
	for i, k := 0, r.Range(1, 3); i < k; i++ {
		switch r.Intn(8) {
		case 0, 1, 2:
			parts = append(parts, "pet"+g.dir()+" { "+g.petSel("Pet", depth)+" }")
		case 3, 4:
			parts = append(parts, "pets"+g.dir()+" { "+g.petSel("Pet", depth)+" }")
		case 5:
			parts = append(parts, []string{"animal", "animals"}[r.Intn(2)]+g.dir()+" { "+g.animalSel(depth)+" }")
		case 6:
			parts = append(parts, "person"+g.dir()+" { "+g.personSel(depth)+" }")
		default:
			parts = append(parts, "p2: pet"+g.dir()+" { "+g.petSel("Pet", depth)+" }")
		}
	}
	var vs []string
	if g.usedC {
		vs = append(vs, "$c: Boolean = true")
	}
	if g.usedD {
		vs = append(vs, "$d: Boolean = false")
	}
	d := dvDoc{Vars: dvNoVars}
	head := ""
	if len(vs) > 0 {
		head, d.Op, d.Dynamic, d.Vars = "query Q("+strings.Join(vs, ", ")+") ", "Q", true, dvDynVars
	} else if r.Chance(1, 3) {
		head, d.Op = "query Q ", "Q"
	}
	var sb strings.Builder
	sb.WriteString(head + "{ " + strings.Join(parts, " ") + " }")
	for _, f := range g.frags {
		sb.WriteString(" fragment " + f.name + " on " + f.on + " { " + f.body + " }")
	}
	d.Query = sb.String()
	return d
}

// ---------------------------------------------------------------- scenarios

type dvReq struct {
	Doc   int                    `json:"doc"`
	Root  int                    `json:"root"`
	Vars  map[string]interface{} `json:"vars,omitempty"`
	Entry int                    `json:"entry_point"` // pathCache | pathReplan
}

type dvScenario struct {
	Name      string                   `json:"name"`
	Thunks    bool                     `json:"composite_fields_resolve_to_thunks"`
	Normalize bool                     `json:"normalize"`
	Capacity  int                      `json:"capacity"`
	Docs      []dvDoc                  `json:"docs"`
	Roots     []map[string]interface{} `json:"roots"`
	Steps     []dvReq                  `json:"steps"`
}

type dvStats struct {
	executions, requests, alternations, dynamicReqs, withErrors, nullParent, rejected int
}

func dvExec(s *graphql.Schema, cache *graphql.PlanCache, plans map[int]*graphql.Plan, sc *dvScenario, q dvReq, entry int) string {
	d := sc.Docs[q.Doc]
	root := copyVars(sc.Roots[q.Root]).(map[string]interface{})
	vars := map[string]interface{}{}
	if q.Vars != nil {
		vars = copyVars(q.Vars).(map[string]interface{})
	}
	return guard(func() string {
		switch entry {
		case pathCache:
			pr := cache.Get(s, d.Query, d.Op)
			if len(pr.Errors) > 0 {
				return marshal(&graphql.Result{Errors: pr.Errors})
			}
			for k, v := range pr.SynthArgs {
				vars[k] = v
			}
			return marshal(graphql.ExecutePlan(pr.Plan, graphql.ExecuteParams{Schema: *s, Root: root, OperationName: d.Op, Args: vars, Context: context.Background()}))
		case pathReplan:
			p, seen := plans[q.Doc]
			if !seen {
				if doc, perr := parser.Parse(parser.ParseParams{Source: source.NewSource(&source.Source{Body: []byte(d.Query), Name: "GraphQL request"})}); perr == nil {
					if graphql.ValidateDocument(s, doc, nil).IsValid {
						p, _ = graphql.PlanQuery(s, doc, d.Op)
					}
				}
				plans[q.Doc] = p
			}
			if p != nil {
				return marshal(graphql.ExecutePlan(p, graphql.ExecuteParams{Schema: *s, Root: root, OperationName: d.Op, Args: vars, Context: context.Background()}))
			}
		}
		return marshal(graphql.Do(graphql.Params{Schema: *s, RequestString: d.Query, OperationName: d.Op, VariableValues: vars, RootObject: root, Context: context.Background()}))
	})
}

// runDataVaried serves the scenario's requests in order through one shared cache / one held plan per document and
// compares every answer with graphql.Do on a separately built schema. Returns the index of the first differing step or -1.
func runDataVaried(sc *dvScenario, st *dvStats) (at int, want, got string, err error) {
	s, err := buildPetSchema(sc.Thunks)
	if err != nil {
		return -1, "", "", err
	}
	ref, err := buildPetSchema(sc.Thunks)
	if err != nil {
		return -1, "", "", err
	}
	cache := graphql.NewPlanCache(graphql.PlanCacheOptions{Normalize: sc.Normalize, MaxEntries: sc.Capacity})
	plans := map[int]*graphql.Plan{}
	lastSig := map[[2]int]string{}
	for i, q := range sc.Steps {
		want = dvExec(ref, nil, nil, sc, q, pathDo)
		got = dvExec(s, cache, plans, sc, q, q.Entry)
		st.executions += 2
		st.requests++
		if sc.Docs[q.Doc].Dynamic {
			st.dynamicReqs++
		}
		if strings.Contains(want, `"errors"`) {
			st.withErrors++
		}
		if strings.HasPrefix(want, `{"data":null`) {
			st.rejected++ // the request as a whole was rejected (a generated document that does not validate, a null root)
		}
		if strings.Contains(want, `:null`) {
			st.nullParent++
		}
		sig := dvSig(sc.Roots[q.Root])
		k := [2]int{q.Entry, q.Doc}
		if prev, ok := lastSig[k]; ok && prev != sig {
			st.alternations++
		}
		lastSig[k] = sig
		if got != want {
			return i, want, got, nil
		}
	}
	return -1, "", "", nil
}

var dvEntryNames = map[int]string{pathCache: "PlanCache.Get+ExecutePlan", pathReplan: "PlanQuery once+ExecutePlan"}

func dvReport(run *hx.Run, sc *dvScenario, at int, want, got string) {
	q := sc.Steps[at]
	var before []string
	for _, p := range sc.Steps[:at] {
		before = append(before, fmt.Sprintf("doc %d, root %d (%s), vars %v, via %s", p.Doc, p.Root, dvTopSig(sc.Roots[p.Root]), p.Vars, dvEntryNames[p.Entry]))
	}
	run.Violation(fmt.Sprintf("the same request (document, variables, root value) answers differently through a shared plan (%s, Normalize:%v) after %d earlier requests with other root values than graphql.Do from scratch (%s)",
		dvEntryNames[q.Entry], sc.Normalize, at, diffClass(want, got)),
		map[string]interface{}{"dataVaried": sc, "failing_step": at, "request": map[string]interface{}{"query": sc.Docs[q.Doc].Query, "op": sc.Docs[q.Doc].Op, "vars": q.Vars, "root": sc.Roots[q.Root], "entry_point": dvEntryNames[q.Entry]},
			"history_so_far": before, "expected_by_Do_from_scratch": want, "got_through_shared_plan": got}, false)
}

func dvSweep() []dvScenario {
	var out []dvScenario
	roots := dvFixedRoots()
	type cfg struct {
		entry     int
		normalize bool
		thunks    bool
	}
	cfgs := []cfg{{pathCache, false, false}, {pathCache, true, false}, {pathReplan, false, false}, {pathReplan, false, true}}
	for di, d := range dvHandDocs {
		vars := d.Vars
		if vars == nil {
			vars = dvNoVars
		}
		for b := range roots {
			for p := range roots {
				if b == p {
					continue
				}
				c := cfgs[(di+b*len(roots)+p)%len(cfgs)]
				v := vars[(b+p)%len(vars)]
				sc := dvScenario{Name: fmt.Sprintf("sweep|%d|%d|%d", di, b, p), Thunks: c.thunks, Normalize: c.normalize, Docs: []dvDoc{d}, Roots: []map[string]interface{}{roots[b], roots[p]},
					Steps: []dvReq{{Doc: 0, Root: 0, Vars: v, Entry: c.entry}, {Doc: 0, Root: 1, Vars: v, Entry: c.entry}, {Doc: 0, Root: 1, Vars: v, Entry: c.entry}, {Doc: 0, Root: 0, Vars: v, Entry: c.entry}}}
				out = append(out, sc)
			}
		}
	}
	return out
}

func dvRandomScenario(seed uint64, i int) dvScenario {
	r := hx.Fork(seed, 900000+i)
	sc := dvScenario{Name: fmt.Sprintf("gen|%d", i), Thunks: r.Chance(1, 4), Normalize: r.Chance(1, 2), Capacity: []int{0, 0, 2}[r.Intn(3)]}
	for k, n := 0, r.Range(1, 3); k < n; k++ {
		sc.Docs = append(sc.Docs, dvGenDoc(r))
	}
	base := dvRoot(r, r.Range(2, 3))
	sc.Roots = append(sc.Roots, base,
		dvRekind(base, dvRotate(1), true, 0).(map[string]interface{}),
		dvRekind(base, dvRotate(r.Range(1, 2)), false, 0).(map[string]interface{}))
	if r.Chance(1, 2) {
		sc.Roots = append(sc.Roots, dvRekind(base, dvRotate(2), true, 0).(map[string]interface{}))
	}
	if r.Chance(1, 2) {
		nulled := copyVars(base).(map[string]interface{})
		nulled[[]string{"pet", "animal", "person"}[r.Intn(3)]] = nil
		nulled["pets"] = []interface{}{nil}
		sc.Roots = append(sc.Roots, nulled)
	}
	if r.Chance(1, 2) {
		sc.Roots = append(sc.Roots, dvRoot(r, 3))
	}
	for k, n := 0, r.Range(6, 16); k < n; k++ {
		d := r.Intn(len(sc.Docs))
		q := dvReq{Doc: d, Root: r.Intn(len(sc.Roots)), Entry: []int{pathCache, pathReplan}[r.Intn(2)]}
		q.Vars = sc.Docs[d].Vars[r.Intn(len(sc.Docs[d].Vars))]
		sc.Steps = append(sc.Steps, q)
	}
	return sc
}

// phaseDataVaried: H.
func phaseDataVaried(run *hx.Run) (executions int) {
	st := &dvStats{}
	one := func(sc *dvScenario, generated bool) {
		before := *st
		at, want, got, err := runDataVaried(sc, st)
		if err != nil {
			run.CheckError("phase H schema: " + err.Error())
			return
		}
		run.Tag("kind=dataVariedSharedPlan")
		for _, d := range sc.Docs {
			if d.Dynamic {
				run.Tag("phaseH:doc-with-variable-driven-directives")
			} else {
				run.Tag("phaseH:doc-one-shared-plan")
			}
		}
		alt := st.alternations - before.alternations
		var smp interface{}
		if generated {
			smp = map[string]interface{}{"phase": "H", "docs": sc.Docs, "roots": len(sc.Roots), "steps": len(sc.Steps), "type_alternations": alt}
		}
		run.Case("dataVaried|"+sc.Name+"|"+hx.Canon(sc.Docs)+"|"+hx.Canon(sc.Steps), alt > 0 && st.withErrors-before.withErrors < len(sc.Steps), smp)
		if at >= 0 {
			dvReport(run, sc, at, want, got)
		}
	}
	sweep := dvSweep()
	for i := range sweep {
		if run.TooManyViolations() {
			break
		}
		one(&sweep[i], false)
		run.Tag("phaseH:sweep-scenarios")
	}
	for i, n := 0, run.N(250, 6000); i < n && !run.TooManyViolations(); i++ {
		sc := dvRandomScenario(run.Seed, i)
		one(&sc, i < 40)
		run.Tag("phaseH:generated-scenarios")
	}
	for tag, n := range map[string]int{"phaseH:requests": st.requests, "phaseH:type-alternations": st.alternations, "phaseH:requests-with-variable-driven-directives": st.dynamicReqs,
		"phaseH:requests-answered-with-errors": st.withErrors, "phaseH:requests-with-a-null-in-data": st.nullParent, "phaseH:requests-rejected-as-a-whole": st.rejected} {
		run.Res.Histogram[tag] += n
	}
	return st.executions
}
