package main

// Phase E — requests do not change what later (or enclosing) requests see.
//
// E1 "introspection is read-only": a structural dump of every schema the phases share (type map order-insensitive;
// order-sensitive wherever the library exposes an order: union members, implementations of an interface, interfaces of
// an object, enum values, arguments, directives) must be the same before and after all requests of phases A–D; and for
// the wide schema (which has a union and an interface WITHOUT ResolveType over objects with OVERLAPPING IsTypeOf, declared
// in non-alphabetical order, enums and fields with deprecated members, arguments with defaults) targeted sequences
//
//	data request → introspection request (full or partial) → the same data request
//
// through Do / PlanCache / a re-executed plan: the data request's bytes and the dump must not change.
//
// E2 "nested requests": a resolver of an OUTER request issues an INNER request — same plan (ExecutePlan), same cache
// (PlanCache.Get + ExecutePlan) or same schema (Do) — with different variable values, from a root resolver, a nested
// object resolver or the resolver of a field of a list item, before the outer request's sub-selections below that
// point are planned. The outer response must equal the outer request run alone.

import (
	"context"
	"fmt"
	"sort"
	"strings"

	"github.com/graphql-go/graphql"
	"github.com/graphql-go/graphql/language/parser"
	"github.com/graphql-go/graphql/language/source"

	"verif/harness/hx"
)

// ---------------------------------------------------------------- E1: schema dump

func typeString(t graphql.Type) string {
	if t == nil {
		return "<nil>"
	}
	return t.String()
}

func argsString(args []*graphql.Argument) string {
	var b strings.Builder
	for _, a := range args { // slice order is what introspection and validation expose
		fmt.Fprintf(&b, "%s:%s=%v;", a.Name(), typeString(a.Type), a.DefaultValue)
	}
	return b.String()
}

func fieldsString(fm graphql.FieldDefinitionMap) string {
	names := make([]string, 0, len(fm))
	for n := range fm {
		names = append(names, n)
	}
	sort.Strings(names)
	var b strings.Builder
	for _, n := range names {
		f := fm[n]
		fmt.Fprintf(&b, "  %s(%s):%s dep=%q\n", n, argsString(f.Args), typeString(f.Type), f.DeprecationReason)
	}
	return b.String()
}

// dumpSchema renders everything of a schema that requests can observe and that has an order.
func dumpSchema(s *graphql.Schema) string {
	names := make([]string, 0, len(s.TypeMap()))
	for n := range s.TypeMap() {
		names = append(names, n)
	}
	sort.Strings(names)
	var b strings.Builder
	for _, n := range names {
		switch t := s.TypeMap()[n].(type) {
		case *graphql.Object:
			fmt.Fprintf(&b, "object %s implements", n)
			for _, i := range t.Interfaces() {
				b.WriteString(" " + i.Name())
			}
			b.WriteString("\n" + fieldsString(t.Fields()))
		case *graphql.Interface:
			fmt.Fprintf(&b, "interface %s possible", n)
			for _, o := range s.PossibleTypes(t) {
				b.WriteString(" " + o.Name())
			}
			b.WriteString("\n" + fieldsString(t.Fields()))
		case *graphql.Union:
			fmt.Fprintf(&b, "union %s =", n)
			for _, o := range t.Types() {
				b.WriteString(" " + o.Name())
			}
			b.WriteString(" | possible")
			for _, o := range s.PossibleTypes(t) {
				b.WriteString(" " + o.Name())
			}
			b.WriteString("\n")
		case *graphql.Enum:
			fmt.Fprintf(&b, "enum %s", n)
			for _, v := range t.Values() {
				fmt.Fprintf(&b, " %s=%v dep=%q", v.Name, v.Value, v.DeprecationReason)
			}
			b.WriteString("\n")
		case *graphql.InputObject:
			fns := make([]string, 0, len(t.Fields()))
			for fn := range t.Fields() {
				fns = append(fns, fn)
			}
			sort.Strings(fns)
			fmt.Fprintf(&b, "input %s", n)
			for _, fn := range fns {
				f := t.Fields()[fn]
				fmt.Fprintf(&b, " %s:%s=%v", fn, typeString(f.Type), f.DefaultValue)
			}
			b.WriteString("\n")
		default:
			fmt.Fprintf(&b, "type %s %T\n", n, t)
		}
	}
	for _, d := range s.Directives() {
		fmt.Fprintf(&b, "directive @%s(%s) on %v\n", d.Name, argsString(d.Args), d.Locations)
	}
	return b.String()
}

func firstDiffLine(a, b string) string {
	la, lb := strings.Split(a, "\n"), strings.Split(b, "\n")
	for i := 0; i < len(la) && i < len(lb); i++ {
		if la[i] != lb[i] {
			return fmt.Sprintf("before: %s | after: %s", la[i], lb[i])
		}
	}
	return fmt.Sprintf("%d vs %d lines", len(la), len(lb))
}

// partial introspection requests (the full one is fullIntrospection)
var introspectionRequests = []string{
	`{ __type(name: "Staff") { possibleTypes { name } } }`,
	`{ __type(name: "U") { possibleTypes { name } } r: __type(name: "Role") { possibleTypes { name } } n: __type(name: "Node") { possibleTypes { name } } }`,
	`{ __schema { types { name possibleTypes { name } } } }`,
	`{ __type(name: "Color") { enumValues { name } } }`,
	`{ __type(name: "Color") { enumValues(includeDeprecated: true) { name isDeprecated deprecationReason } } a: __type(name: "Alias") { enumValues(includeDeprecated: false) { name } } }`,
	`{ __type(name: "T1") { fields { name } interfaces { name } } z: __type(name: "Zeta") { fields(includeDeprecated: true) { name isDeprecated } interfaces { name } } }`,
	`{ __type(name: "Q") { fields { name args { name defaultValue type { name kind ofType { name } } } } } }`,
	`{ __type(name: "In") { inputFields { name defaultValue } } __schema { directives { name locations args { name defaultValue } } } }`,
}

var readOnlyDataRequests = []string{
	`{ staff { __typename ... on Zeta { name reports } ... on AnyStaff { name desk } } staffs { __typename ... on Zeta { reports } ... on AnyStaff { desk } } role { __typename name } zeta { name } zetaStaff { __typename ... on Zeta { reports } ... on AnyStaff { desk } } zetaStaffs { __typename } zetaRole { __typename } }`,
	`{ u { __typename ... on T1 { me } ... on Node { w y } } us { __typename } typed { __typename w } node { __typename y } h(c: RED) alias aliases }`,
	`{ staffs { __typename } nodes { __typename y kids { __typename } } echo(term: "x") g(p: 1, q: 2, r: 3, s: 4) }`,
}

// phaseReadOnly: E1. dumps0 holds the dump of every shared schema taken right after it was built.
func phaseReadOnly(run *hx.Run, specs []schemaSpec, shared *env, dumps0 map[builtKey]string) (executions int) {
	// (i) after all requests of the earlier phases, every shared schema still looks the same
	keys := make([]builtKey, 0, len(shared.built))
	for k := range shared.built {
		keys = append(keys, k)
	}
	sort.Slice(keys, func(i, j int) bool {
		if keys[i].schema != keys[j].schema {
			return keys[i].schema < keys[j].schema
		}
		return keys[i].mode.String() < keys[j].mode.String()
	})
	for _, k := range keys {
		before, ok := dumps0[k]
		if !ok {
			continue
		}
		after := dumpSchema(shared.built[k])
		run.Tag("kind=schemaDump")
		run.Case(fmt.Sprintf("dump|%s|%s", specs[k.schema].Name, k.mode), true, nil)
		if after != before {
			run.Violation(fmt.Sprintf("serving requests changed the schema value (%s, world %s): %s", specs[k.schema].Name, k.mode, firstDiffLine(before, after)),
				map[string]interface{}{"schema": specs[k.schema].Desc, "mode": k.mode, "dump_before": before, "dump_after": after}, false)
		}
	}
	// (ii) targeted sequences on fresh wide schemas: data → introspection → data
	intros := append([]string{fullIntrospection}, introspectionRequests...)
	for _, mode := range []modeT{{}, {Errors: true, Thunks: true}} {
		for ii, intro := range intros {
			for path := 0; path < 3; path++ {
				if run.TooManyViolations() {
					return
				}
				e := newEnv(specs)
				var cs []caseT
				for di, d := range readOnlyDataRequests {
					cs = append(cs, caseT{ID: fmt.Sprintf("ro-data-%d", di), Schema: 0, Mode: mode, Kind: "readonly:data", Query: d})
				}
				ic := caseT{ID: "ro-intro", Schema: 0, Mode: mode, Kind: "readonly:introspection", Query: intro}
				if ii == 0 {
					ic.Op = "Intro"
				}
				s, _, err := e.schema(&cs[0])
				if err != nil {
					run.CheckError("schema: " + err.Error())
					return
				}
				dump0 := dumpSchema(s)
				var base []obs
				for i := range cs {
					base = append(base, e.run(&cs[i], path))
				}
				i1 := e.run(&ic, path)
				i2 := e.run(&ic, path)
				executions += 2*len(cs) + 2
				run.Tag("kind=readonly")
				run.Case(fmt.Sprintf("readonly|%s|%d|%d", mode, ii, path), true, map[string]interface{}{"phase": "E1", "introspection": intro[:min(len(intro), 120)], "entry_point": path})
				rep := map[string]interface{}{"mode": mode, "entry_point": []string{"Do", "PlanCache.Get+ExecutePlan", "PlanQuery once+ExecutePlan"}[path],
					"introspection_request": intro, "schema": specs[0].Desc}
				if i1.Do != i2.Do {
					rep["output_1"], rep["output_2"] = i1.Do, i2.Do
					run.Violation("the same introspection request answered differently the second time ("+diffClass(i1.Do, i2.Do)+")", rep, false)
					continue
				}
				note := ""
				if d := dumpSchema(s); d != dump0 {
					rep["dump_before"], rep["dump_after"] = dump0, d
					note = "an introspection request changed the schema value: " + firstDiffLine(dump0, d)
				}
				for i := range cs {
					again := e.run(&cs[i], path)
					if again.Do != base[i].Do {
						rep["data_request"], rep["output_before_introspection"], rep["output_after_introspection"] = cs[i].Query, base[i].Do, again.Do
						if note != "" {
							note += "; and "
						}
						note += "a data request answers differently after an introspection request was served (" + diffClass(base[i].Do, again.Do) + ")"
						break
					}
				}
				if note != "" {
					run.Violation(note, rep, false)
				}
			}
		}
	}
	return
}

// ---------------------------------------------------------------- E2: nested requests

type nestKey struct{}

type nestSpec struct {
	Where string // "root" | "object" | "item": which resolver issues the inner request
	How   string // "execPlan" | "cache" | "do"
	Inner map[string]interface{}
	fired *bool
	issue func(how string, vars map[string]interface{}) string
}

type boxV struct{ depth, idx int }

const nestedQuery = `query Q($v: Boolean!, $w: Boolean = true) { box { x y @include(if: $v) inner { x y @skip(if: $v) items { x y @include(if: $v) z @skip(if: $w) } } } boxes { x y @include(if: $v) inner { y @include(if: $w) } } leaf @include(if: $w) ...F }
fragment F on Q { side: box @skip(if: $v) { x } }`

func buildNestedSchema() (*graphql.Schema, error) {
	maybeNest := func(p graphql.ResolveParams, where string) {
		ns, _ := p.Context.Value(nestKey{}).(*nestSpec)
		if ns == nil || ns.Where != where || *ns.fired {
			return
		}
		*ns.fired = true
		ns.issue(ns.How, ns.Inner)
	}
	var box *graphql.Object
	box = graphql.NewObject(graphql.ObjectConfig{Name: "Box", Fields: graphql.FieldsThunk(func() graphql.Fields {
		num := func(k int) graphql.FieldResolveFn {
			return func(p graphql.ResolveParams) (interface{}, error) {
				b := p.Source.(*boxV)
				if b.idx > 0 {
					maybeNest(p, "item") // resolver of a field of a list item
				}
				return k + 10*b.depth + 100*b.idx, nil
			}
		}
		return graphql.Fields{
			"x": &graphql.Field{Type: graphql.Int, Resolve: num(1)},
			"y": &graphql.Field{Type: graphql.Int, Resolve: num(2)},
			"z": &graphql.Field{Type: graphql.Int, Resolve: num(3)},
			"inner": &graphql.Field{Type: box, Resolve: func(p graphql.ResolveParams) (interface{}, error) {
				maybeNest(p, "object") // nested object resolver, before its own sub-selection is planned
				b := p.Source.(*boxV)
				return &boxV{b.depth + 1, b.idx}, nil
			}},
			"items": &graphql.Field{Type: graphql.NewList(box), Resolve: func(p graphql.ResolveParams) (interface{}, error) {
				b := p.Source.(*boxV)
				return []interface{}{&boxV{b.depth + 1, 1}, &boxV{b.depth + 1, 2}}, nil
			}},
		}
	})})
	q := graphql.NewObject(graphql.ObjectConfig{Name: "Q", Fields: graphql.Fields{
		"box": &graphql.Field{Type: box, Resolve: func(p graphql.ResolveParams) (interface{}, error) {
			maybeNest(p, "root") // root resolver
			return &boxV{0, 0}, nil
		}},
		"boxes": &graphql.Field{Type: graphql.NewList(box), Resolve: func(p graphql.ResolveParams) (interface{}, error) {
			return []interface{}{&boxV{0, 1}, &boxV{0, 2}, &boxV{0, 3}}, nil
		}},
		"leaf": &graphql.Field{Type: graphql.Int, Resolve: func(p graphql.ResolveParams) (interface{}, error) { return 7, nil }},
	}})
	s, err := graphql.NewSchema(graphql.SchemaConfig{Query: q})
	return &s, err
}

// phaseNested: E2.
func phaseNested(run *hx.Run) (executions int) {
	varSets := []map[string]interface{}{{"v": true}, {"v": false}, {"v": true, "w": false}, {"v": false, "w": false}}
	for _, outerHow := range []string{"execPlan", "cache", "do"} {
		for _, where := range []string{"root", "object", "item"} {
			for _, innerHow := range []string{"execPlan", "cache", "do"} {
				for oi, outerVars := range varSets {
					if run.TooManyViolations() {
						return
					}
					innerVars := varSets[(oi+1)%len(varSets)]
					if oi%2 == 1 {
						innerVars = varSets[(oi+3)%len(varSets)]
					}
					s, err := buildNestedSchema()
					if err != nil {
						run.CheckError("nested schema: " + err.Error())
						return
					}
					doc, perr := parser.Parse(parser.ParseParams{Source: source.NewSource(&source.Source{Body: []byte(nestedQuery), Name: "GraphQL request"})})
					if perr != nil || !graphql.ValidateDocument(s, doc, nil).IsValid {
						run.CheckError("nested query does not parse / validate")
						return
					}
					plan, err := graphql.PlanQuery(s, doc, "Q")
					if err != nil {
						run.CheckError("nested plan: " + err.Error())
						return
					}
					cache := graphql.NewPlanCache(graphql.PlanCacheOptions{})
					issue := func(ctx context.Context) func(how string, vars map[string]interface{}) string {
						return func(how string, vars map[string]interface{}) string {
							executions++
							v := copyVars(vars).(map[string]interface{})
							switch how {
							case "execPlan":
								return marshal(graphql.ExecutePlan(plan, graphql.ExecuteParams{Schema: *s, Args: v, Context: ctx}))
							case "cache":
								pr := cache.Get(s, nestedQuery, "Q")
								if len(pr.Errors) > 0 {
									return marshal(&graphql.Result{Errors: pr.Errors})
								}
								return marshal(graphql.ExecutePlan(pr.Plan, graphql.ExecuteParams{Schema: *s, Args: v, Context: ctx}))
							}
							return marshal(graphql.Do(graphql.Params{Schema: *s, RequestString: nestedQuery, OperationName: "Q", VariableValues: v, Context: ctx}))
						}
					}
					plain := issue(context.Background())
					alone := guard(func() string { return plain(outerHow, outerVars) })
					innerAlone := guard(func() string { return plain(innerHow, innerVars) })
					fired := false
					innerGot := ""
					ns := &nestSpec{Where: where, How: innerHow, Inner: innerVars, fired: &fired}
					ns.issue = func(how string, vars map[string]interface{}) string {
						innerGot = plain(how, vars) // the inner request carries no nest spec: it does not nest further
						return innerGot
					}
					outer := guard(func() string {
						return issue(context.WithValue(context.Background(), nestKey{}, ns))(outerHow, outerVars)
					})
					again := guard(func() string { return plain(outerHow, outerVars) })
					run.Tag("kind=nested")
					run.Case(fmt.Sprintf("nested|%s|%s|%s|%d", outerHow, where, innerHow, oi), fired, map[string]interface{}{"phase": "E2", "outer": outerHow, "inner": innerHow, "where": where})
					rep := map[string]interface{}{"query": nestedQuery, "outer_entry_point": outerHow, "outer_variables": outerVars, "inner_entry_point": innerHow,
						"inner_variables": innerVars, "inner_issued_by": where + " resolver", "outer_alone": alone, "outer_with_nested_request": outer,
						"inner_alone": innerAlone, "inner_nested": innerGot, "outer_afterwards": again}
					switch {
					case !fired:
						run.CheckError(fmt.Sprintf("nested request was not issued (%s/%s/%s)", outerHow, where, innerHow))
					case outer != alone:
						run.Violation(fmt.Sprintf("a request whose %s resolver issues another request (%s, other variables) on the same %s answers differently from the request run alone (%s)",
							where, innerHow, map[string]string{"execPlan": "plan", "cache": "plan cache", "do": "schema"}[outerHow], diffClass(alone, outer)), rep, false)
					case innerGot != innerAlone:
						run.Violation("a request issued from inside a resolver of another request answers differently from the same request run alone ("+diffClass(innerAlone, innerGot)+")", rep, false)
					case again != alone:
						run.Violation("a request answers differently after a nested pair of requests was served ("+diffClass(alone, again)+")", rep, false)
					}
				}
			}
		}
	}
	return
}
