package main

// Phase F — shared, long-lived error values.
//
// Resolvers commonly report failures with sentinel error VALUES that live as long as the process. The library treats
// several kinds specially (*gqlerrors.Error is passed through as "already located", gqlerrors.FormattedError is taken as
// is, errors with an Extensions() method contribute extensions); whatever it does with them, it must not write into
// them: the same request must answer the same whatever was served before. Here several fields, at different paths and
// list indices, fail with ONE sentinel of each kind — returned, panicked, or returned from a thunk; through nullable and
// non-null fields — and for every ordered pair (other request, probe) of differently shaped requests the probe's bytes
// after the other request must equal the probe's bytes on a fresh schema (fresh sentinels); the sentinel objects
// themselves are snapshotted before and compared after.

import (
	"context"
	"errors"
	"fmt"
	"strings"

	"github.com/graphql-go/graphql"
	"github.com/graphql-go/graphql/gqlerrors"
	"github.com/graphql-go/graphql/language/location"
	"github.com/graphql-go/graphql/language/parser"
	"github.com/graphql-go/graphql/language/source"

	"verif/harness/hx"
)

type extErr struct {
	msg string
	ext map[string]interface{}
}

func (e *extErr) Error() string                      { return e.msg }
func (e *extErr) Extensions() map[string]interface{} { return e.ext }

var sentinelKinds = []string{
	"*gqlerrors.Error without path and locations",
	"*gqlerrors.Error with preset path and locations",
	"gqlerrors.FormattedError value without path",
	"gqlerrors.FormattedError value with preset path, locations, extensions",
	"error with Extensions() (ExtendedError)",
	"*gqlerrors.Error whose OriginalError has Extensions()",
	"plain errors.New value",
}

type sentinels struct {
	errs []error
}

func newSentinels() *sentinels {
	withPath := gqlerrors.NewError("located elsewhere", nil, "", nil, nil, nil)
	withPath.Path = []interface{}{"preset", 1}
	withPath.Locations = []location.SourceLocation{{Line: 3, Column: 4}}
	ext := &extErr{"extended failure", map[string]interface{}{"code": "E4", "list": []interface{}{1, 2}}}
	return &sentinels{errs: []error{
		gqlerrors.NewError("backend unavailable", nil, "", nil, nil, nil),
		withPath,
		gqlerrors.FormattedError{Message: "formatted failure", Locations: []location.SourceLocation{}},
		gqlerrors.FormattedError{Message: "formatted and placed", Locations: []location.SourceLocation{{Line: 9, Column: 9}}, Path: []interface{}{"elsewhere"},
			Extensions: map[string]interface{}{"code": "E3"}},
		ext,
		gqlerrors.NewError("wrapped extended", nil, "", nil, nil, &extErr{"inner", map[string]interface{}{"code": "E5"}}),
		errors.New("plain sentinel"),
	}}
}

// snapshot renders everything a sentinel holds (a deep copy as text).
func (s *sentinels) snapshot() []string {
	var out []string
	for _, e := range s.errs {
		switch x := e.(type) {
		case *gqlerrors.Error:
			orig := ""
			if x.OriginalError != nil {
				orig = x.OriginalError.Error()
				if ee, ok := x.OriginalError.(*extErr); ok {
					orig += marshal(ee.ext)
				}
			}
			out = append(out, fmt.Sprintf("msg=%q stack=%q nodes=%d source=%v positions=%v locations=%v path=%s orig=%s", x.Message, x.Stack, len(x.Nodes), x.Source != nil, x.Positions, x.Locations, marshal(x.Path), orig))
		case gqlerrors.FormattedError:
			out = append(out, fmt.Sprintf("%s path=%s locations=%v ext=%s", marshal(x), marshal(x.Path), x.Locations, marshal(x.Extensions)))
		case *extErr:
			out = append(out, x.msg+marshal(x.ext))
		default:
			out = append(out, e.Error())
		}
	}
	return out
}

type sObj struct{ depth, idx int }

func buildSentinelSchema(sn *sentinels) (*graphql.Schema, error) {
	fail := func(p graphql.ResolveParams) (interface{}, error) {
		k, _ := p.Args["kind"].(int)
		how, _ := p.Args["how"].(int)
		e := sn.errs[k%len(sn.errs)]
		switch how {
		case 1:
			panic(e)
		case 2:
			return func() (interface{}, error) { return nil, e }, nil
		}
		return nil, e
	}
	args := graphql.FieldConfigArgument{"kind": &graphql.ArgumentConfig{Type: graphql.NewNonNull(graphql.Int)}, "how": &graphql.ArgumentConfig{Type: graphql.Int, DefaultValue: 0}}
	var obj *graphql.Object
	common := func() graphql.Fields {
		return graphql.Fields{
			"fail":   &graphql.Field{Type: graphql.Int, Args: args, Resolve: fail},
			"failNN": &graphql.Field{Type: graphql.NewNonNull(graphql.Int), Args: args, Resolve: fail},
			"ok":     &graphql.Field{Type: graphql.Int, Resolve: func(p graphql.ResolveParams) (interface{}, error) { return 1, nil }},
			"obj": &graphql.Field{Type: obj, Resolve: func(p graphql.ResolveParams) (interface{}, error) {
				d := 0
				if o, ok := p.Source.(*sObj); ok {
					d = o.depth + 1
				}
				return &sObj{d, 0}, nil
			}},
			"objs": &graphql.Field{Type: graphql.NewList(obj), Resolve: func(p graphql.ResolveParams) (interface{}, error) {
				return []interface{}{&sObj{1, 0}, &sObj{1, 1}}, nil
			}},
		}
	}
	obj = graphql.NewObject(graphql.ObjectConfig{Name: "Obj", Fields: graphql.FieldsThunk(common)})
	q := graphql.NewObject(graphql.ObjectConfig{Name: "Q", Fields: graphql.FieldsThunk(common)})
	s, err := graphql.NewSchema(graphql.SchemaConfig{Query: q})
	return &s, err
}

// request shapes that fail with the same sentinel at different paths
var sentinelShapes = []string{
	`{ b: fail(F) ok }`,
	`{ ok a: fail(F) }`,
	`{ obj { fail(F) obj { x: fail(F) } } }`,
	`{ objs { objs { fail(F) } } ok }`,
	`{ obj { failNN(F) } ok }`,
	`{ first: fail(F) second: fail(F) obj { third: fail(F) } }`,
}

func sentinelRun(s *graphql.Schema, cache *graphql.PlanCache, plans map[string]*graphql.Plan, q string, path int) string {
	return guard(func() string {
		switch path {
		case pathCache:
			pr := cache.Get(s, q, "")
			if len(pr.Errors) > 0 {
				return marshal(&graphql.Result{Errors: pr.Errors})
			}
			return marshal(graphql.ExecutePlan(pr.Plan, graphql.ExecuteParams{Schema: *s, Args: pr.SynthArgs, Context: context.Background()}))
		case pathReplan:
			p, ok := plans[q]
			if !ok {
				if doc, err := parser.Parse(parser.ParseParams{Source: source.NewSource(&source.Source{Body: []byte(q), Name: "GraphQL request"})}); err == nil {
					if graphql.ValidateDocument(s, doc, nil).IsValid {
						p, _ = graphql.PlanQuery(s, doc, "")
					}
				}
				plans[q] = p
			}
			if p != nil {
				return marshal(graphql.ExecutePlan(p, graphql.ExecuteParams{Schema: *s, Context: context.Background()}))
			}
		}
		return marshal(graphql.Do(graphql.Params{Schema: *s, RequestString: q, Context: context.Background()}))
	})
}

// phaseSentinels: F.
func phaseSentinels(run *hx.Run) (executions int) {
	entry := []string{"Do", "PlanCache.Get+ExecutePlan", "PlanQuery once+ExecutePlan"}
	n := 0
	for kind := range sentinelKinds {
		for how := 0; how < 3; how++ {
			f := fmt.Sprintf("kind: %d, how: %d", kind, how)
			for oi, oShape := range sentinelShapes {
				for pi, pShape := range sentinelShapes {
					if oi == pi {
						continue
					}
					if run.TooManyViolations() {
						return
					}
					n++
					path := n % 3
					other, probe := strings.ReplaceAll(oShape, "F", f), strings.ReplaceAll(pShape, "F", f)
					// the probe alone, fresh sentinels
					sn0 := newSentinels()
					s0, err := buildSentinelSchema(sn0)
					if err != nil {
						run.CheckError("sentinel schema: " + err.Error())
						return
					}
					want := sentinelRun(s0, graphql.NewPlanCache(graphql.PlanCacheOptions{}), map[string]*graphql.Plan{}, probe, path)
					// the probe after the other request, on another fresh schema with its own sentinels
					sn := newSentinels()
					s, _ := buildSentinelSchema(sn)
					before := sn.snapshot()
					cache, plans := graphql.NewPlanCache(graphql.PlanCacheOptions{}), map[string]*graphql.Plan{}
					sentinelRun(s, cache, plans, other, path)
					got := sentinelRun(s, cache, plans, probe, path)
					again := sentinelRun(s, cache, plans, probe, path)
					after := sn.snapshot()
					executions += 4
					run.Tag("kind=sentinelError")
					run.Case(fmt.Sprintf("sentinel|%d|%d|%d|%d", kind, how, oi, pi), strings.Contains(want, `"errors"`),
						map[string]interface{}{"phase": "F", "sentinel": sentinelKinds[kind], "probe": probe, "served_before": other})
					rep := map[string]interface{}{"sentinel_kind": sentinelKinds[kind], "delivered": []string{"returned", "panicked", "returned from a thunk"}[how],
						"entry_point": entry[path], "served_before": other, "probe": probe, "probe_alone": want, "probe_after_other_request": got, "probe_again": again}
					switch {
					case got != want:
						run.Violation(fmt.Sprintf("a request failing with a shared sentinel error (%s) answers differently after another request failed with the same sentinel at another path (%s)", sentinelKinds[kind], diffClass(want, got)), rep, false)
					case again != want:
						run.Violation(fmt.Sprintf("a request failing with a shared sentinel error (%s) answers differently when repeated (%s)", sentinelKinds[kind], diffClass(want, again)), rep, false)
					default:
						for i := range before {
							if before[i] != after[i] {
								rep["sentinel_before"], rep["sentinel_after"] = before[i], after[i]
								run.Violation(fmt.Sprintf("the library modified a resolver's error value (%s)", sentinelKinds[i]), rep, false)
								break
							}
						}
					}
				}
			}
		}
	}
	return
}
