package main

// Phase G — the caller's variables are the caller's.
//
// Phases A–F hand every execution its own deep copy of the request's variables. A server that keeps one decoded variables
// map and sends the request again (a retry, a persisted query with default variables, a test) passes the SAME object
// every time. Here every case that has variables is executed repeatedly through each entry point with ONE shared variables
// map object: the library must not modify caller-owned input (deep comparison with a snapshot after every request), and
// the bytes must equal what the request answers with a private copy. Variables of list / nested-list / input-object-with-
// list type over enums whose internal values are not their names and over a custom scalar whose coercion is not
// idempotent are the sensitive ones ("one" → 1: coerced in place, the second request would see 1 and be rejected).

import (
	"fmt"
	"reflect"

	"verif/harness/hx"
)

var sharedVarRequests = []struct {
	q    string
	vars map[string]interface{}
}{
	{`query ($c: [Color!], $k: [Code!]) { echoCodes(colors: $c, codes: $k) }`,
		map[string]interface{}{"c": []interface{}{"RED", "BLUE", "ALPHA"}, "k": []interface{}{"one", "three", "two"}}},
	{`query ($g: [[Code]], $a: [Alias]) { echoCodes(grid: $g, aliases: $a) h(cs: [RED]) }`,
		map[string]interface{}{"g": []interface{}{[]interface{}{"one", nil, "two"}, []interface{}{}, nil, []interface{}{"three"}}, "a": []interface{}{"CRIMSON", "AZURE", nil, "RED"}}},
	{`query ($i: CodeIn, $is: [CodeIn]) { echoCodes(in: $i, ins: $is) }`,
		map[string]interface{}{
			"i": map[string]interface{}{"colors": []interface{}{"GREEN", "RED"}, "codes": []interface{}{"two", nil}, "grid": []interface{}{[]interface{}{"BLUE"}},
				"inner": map[string]interface{}{"codes": []interface{}{"one"}, "more": []interface{}{map[string]interface{}{"colors": []interface{}{"ALPHA"}}}}},
			"is": []interface{}{map[string]interface{}{"codes": []interface{}{"three"}}, nil, map[string]interface{}{"colors": []interface{}{"BLUE", "BLUE"}}}}},
	{`query ($c: Color, $cs: [Color!]) { h(c: $c, cs: $cs) echoCodes(colors: $cs) }`, map[string]interface{}{"c": "GREEN", "cs": []interface{}{"GREEN", "OLD"}}},
	{`query ($k: [Code!]) { echoCodes(codes: $k) }`, map[string]interface{}{"k": "two"}}, // a single value coerced to a list of one
	{`query ($o: In, $tags: [String]) { echo(opts: $o, tags: $tags, ins: [$o]) }`, map[string]interface{}{"o": map[string]interface{}{"a": 1, "d": "RED", "e": map[string]interface{}{"d": "BLUE"}}, "tags": []interface{}{"q", "p"}}},
	{`query ($c: [Color!]) { echoCodes(colors: $c) }`, map[string]interface{}{"c": []interface{}{"RED", "NOPE"}}}, // invalid: rejected every time, the same way
	{`mutation ($k: [Code!], $t: String) { echoM(term: $t) m2 }`, map[string]interface{}{"k": []interface{}{"one"}, "t": "x"}},
}

func phaseSharedVars(run *hx.Run, specs []schemaSpec, cases []caseT, first map[string]obs) (executions int) {
	entry := []string{"Do", "PlanCache.Get+ExecutePlan", "PlanQuery once+ExecutePlan"}
	var todo []caseT
	for i, r := range sharedVarRequests {
		for _, m := range []modeT{{}, {Mut: true}} {
			todo = append(todo, caseT{ID: fmt.Sprintf("sharedvars-%d-%s", i, m), Schema: 0, Mode: m, Kind: "hand:sharedVariables", Query: r.q, Vars: r.vars})
		}
	}
	for _, c := range cases {
		if len(c.Vars) > 0 && !c.Mode.Exts {
			todo = append(todo, c)
		}
	}
	e := newEnv(specs)
	for i := range todo {
		c := todo[i]
		if run.TooManyViolations() {
			return
		}
		// reference: the request with a private copy of its variables (phase A's answer when the case ran there)
		want, ok := first[c.ID]
		if !ok {
			want = e.run(&c, pathDo) // run() deep-copies
			executions++
		}
		sharedVars := copyVars(c.Vars).(map[string]interface{})
		snapshot := copyVars(c.Vars)
		run.Tag("kind=sharedVariables")
		run.Case("sharedvars|"+c.ID, true, map[string]interface{}{"phase": "G", "query": c.Query[:min(len(c.Query), 200)]})
	paths:
		for rep := 0; rep < 3; rep++ {
			for path := 0; path < 3; path++ {
				got := e.runWithVars(&c, path, sharedVars)
				executions++
				rep_ := map[string]interface{}{"case": c, "schema": specs[c.Schema].Desc, "entry_point": entry[path], "repetition": rep,
					"variables_before": snapshot, "variables_after": sharedVars, "answer_with_private_copy": want.Do, "answer": got}
				if !reflect.DeepEqual(sharedVars, snapshot) {
					run.Violation(fmt.Sprintf("serving a request modified the caller's variables map (%s, request %d with the same map)", entry[path], rep*3+path+1), rep_, false)
					break paths
				}
				if got != want.Do {
					run.Violation(fmt.Sprintf("a request sent again with the SAME variables map answers differently (%s, request %d; %s)", entry[path], rep*3+path+1, diffClass(want.Do, got)), rep_, false)
					break paths
				}
			}
		}
	}
	return
}
