// C12 — the same request always produces the same response.
//
// Every case (schema, world mode, request) is executed
//
//	A. 50× in this process on ONE shared schema value, interleaved with all other cases in a different order per
//	   round, in turn through graphql.Do, PlanCache.Get + ExecutePlan (cached plans) and one PlanQuery'd plan per case
//	   that is executed again and again;
//	B. 10× in this process on FRESHLY BUILT schemas (orders frozen at schema construction show up here);
//	C. once in each of 8 FRESH PROCESSES (the harness re-executes itself with --child; different map seeds);
//	D. (interleave.go) probe requests through shared plan caches (Normalize off/on, capacity 2/default) after random
//	   prefixes of near misses (one default value / literal / directive / alias / argument order / operation name /
//	   fragment body changed): every answer must equal the one graphql.Do gives from scratch;
//	E. (stateful.go) introspection is read-only (schema dump before/after everything; data → introspection → data on a
//	   schema with overlapping IsTypeOf and no ResolveType), and a request whose resolver issues another request on the
//	   same plan / cache / schema with other variables answers as it does alone;
//	F. (sentinel.go) shared long-lived error values of every kind the library treats specially, returned by several fields
//	   at different paths across requests: the probe's bytes do not depend on what failed before, the values are unchanged;
//	G. (sharedvars.go) every request with variables sent repeatedly with ONE shared variables map object: the map is left
//	   deep-equal to its snapshot and the bytes equal those answered with a private copy;
//	H. (datavaried.go) one (document, variables) issued with DIFFERENT ROOT VALUES (runtime types of abstract fields, nulls,
//	   lists mixing types all come from the root value) through one shared PlanCache / one plan prepared once: every answer
//	   equals graphql.Do of the same (document, variables, root value) on a separately built schema.
//
// Observables: json.Marshal of the *graphql.Result (bytes), json.Marshal of ValidateDocument(...).Errors (bytes), the
// first result of a subscription. All must be byte-identical across A, B and C. There is no Lean driver: the
// theorems of Props/C12.lean are about iteration-order patterns and regenerated tables; this harness samples the
// real binary for what the tables cannot show (a site classified wrongly, an unstable sort, state leaking from
// earlier requests).
package main

import (
	"context"
	"crypto/sha256"
	"encoding/json"
	"errors"
	"flag"
	"fmt"
	"os"
	"os/exec"
	"sort"
	"strings"
	"sync"
	"time"

	"github.com/graphql-go/graphql"
	"github.com/graphql-go/graphql/gqlerrors"
	"github.com/graphql-go/graphql/language/parser"
	"github.com/graphql-go/graphql/language/source"

	"verif/harness/detworld"
	"verif/harness/gen"
	"verif/harness/gq"
	"verif/harness/hx"
)

// ---------------------------------------------------------------- cases

type schemaSpec struct {
	Name string
	Desc *gq.SchemaDesc
}

type modeT struct {
	Errors, Thunks, AllThunks, Exts, FailLeaves, Mut bool
}

func (m modeT) String() string {
	s := ""
	for _, p := range []struct {
		b bool
		n string
	}{{m.Errors, "err"}, {m.Thunks, "thunk"}, {m.AllThunks, "allthunk"}, {m.Exts, "ext"}, {m.FailLeaves, "failleaves"}, {m.Mut, "mutargs"}} {
		if p.b {
			s += "+" + p.n
		}
	}
	if s == "" {
		return "plain"
	}
	return s[1:]
}

type caseT struct {
	ID     string                 `json:"id"`
	Schema int                    `json:"schema"`
	Mode   modeT                  `json:"mode"`
	Kind   string                 `json:"kind"` // valid | invalid:<mutation> | exec-fail | introspection | thunks | hand:<what> | subscription | garbage
	Query  string                 `json:"query"`
	Op     string                 `json:"op"`
	Vars   map[string]interface{} `json:"vars,omitempty"`
	Sub    bool                   `json:"sub,omitempty"`
}

const fullIntrospection = `query Intro { __schema { queryType { name } mutationType { name } subscriptionType { name }
 types { ...FullType } directives { name description locations args { ...InputValue } } } }
fragment FullType on __Type { kind name description fields(includeDeprecated: true) { name description args { ...InputValue } type { ...TypeRef } isDeprecated deprecationReason }
 inputFields { ...InputValue } interfaces { ...TypeRef } enumValues(includeDeprecated: true) { name description isDeprecated deprecationReason } possibleTypes { ...TypeRef } }
fragment InputValue on __InputValue { name description type { ...TypeRef } defaultValue }
fragment TypeRef on __Type { kind name ofType { kind name ofType { kind name ofType { kind name } } } }`

// hand-written requests for the wide schema: one or more per pattern that has leaked before (D-12a … D-12i)
var wideRequests = []struct{ kind, q string }{
	{"hand:literalFieldOrder", `{ f(o: {a:"x", b:"y", c:"z", d:"w"}) }`},
	{"hand:literalFieldOrder", `{ f(o: {e: {a:"x", b:"y", d: 1, zz: 2}, a: 1.5, b: true, d: PURPLE, yy: 1}) }`},
	{"hand:introspectionOrder", `{ __schema { types { name } } }`},
	{"hand:introspectionOrder", `{ __type(name:"Node") { fields { name } fields2: fields(includeDeprecated: true) { name } possibleTypes { name } } }`},
	{"hand:introspectionOrder", `{ __type(name:"In") { inputFields { name defaultValue } } }`},
	{"hand:introspectionOrder", `{ __type(name:"Color") { enumValues { name } all: enumValues(includeDeprecated: true) { name } } }`},
	{"hand:introspectionOrder", `{ __type(name:"T3") { fields { name args { name } } interfaces { name } } u: __type(name:"U") { possibleTypes { name } } }`},
	{"hand:introspectionOrder", `{ __type(name:"Q") { fields { name args { name defaultValue } } } }`},
	{"hand:dethunkOrder", `{ a b c d }`},
	{"hand:dethunkOrder", `{ d c b a node { z { w x } w x y } nodes { w x z { w } } }`},
	{"hand:dethunkOrder", `mutation { m1 { w x u { ... on T2 { w x } } } m2 m3 { w x y } m4 }`},
	{"hand:implementationsOrder", `{ typed { w ... on T1 { me } ... on T2 { me } ... on T3 { me } ... on T4 { me } } }`},
	{"hand:implementationsOrder", `{ node { bogus } }`},
	{"hand:implementationsOrder", `{ typed { me } }`},
	{"hand:directiveArgOrder", `{ a @d }`},
	{"hand:directiveArgOrder", `{ __schema { directives { name args { name } } } }`},
	{"hand:directiveArgOrder", `{ a @d(p: "x", q: "y", r: "z", s: "w", t: 1) }`},
	{"hand:directiveArgOrder", `{ a @cfg(o: {p: "x", q: "y", r: Z, s: "w"}, e: Q) }`},
	{"hand:argOrder", `{ g }`},
	{"hand:argOrder", `{ g(p: "a", q: "b", r: "c", s: "d") }`},
	{"hand:argOrder", `{ g(zz: 1, yy: 2, xx: 3, ww: 4) }`},
	{"hand:suggestions", `{ aaa }`},
	{"hand:suggestions", `{ aa2 ab2 }`},
	{"hand:suggestions", `{ node { w ... on T5 { w } ... on T { w } } }`},
	{"hand:suggestions", `query ($v: Colour, $w: Im, $x: T) { a }`},
	{"hand:enum", `{ h(c: RED, cs: [GREEN, BLUE, ALPHA]) x: h(c: PINK, cs: [RED, 1, "x", null]) }`},
	{"hand:variables", `query ($o: In, $cs: [Color!]) { f(o: $o) h(cs: $cs) }`},
	{"hand:nonNull", `{ strict { nn w } t1 { nn kids { nn w } } }`},
	// resolvers that mutate what they received in place (mode mutargs): composite DEFAULT values next to a sibling argument
	// supplied through a variable (arguments coerced per request), all-literal arguments (pre-coerced at plan time),
	// composite literals, composite variables; query and mutation roots, nested object fields
	{"hand:mutatingResolver", `query ($t: String) { echo(term: $t) }`},
	{"hand:mutatingResolver", `query ($t: String, $l: Int) { echo(term: $t, limit: $l) t1 { echoT(term: $t) } node { ... on T2 { echoT(term: $t, limit: 1) } } }`},
	{"hand:mutatingResolver", `{ echo(term: "lit") t1 { echoT } }`},
	{"hand:mutatingResolver", `query ($t: String) { echo(term: $t, tags: ["z", "y", "x"], opts: {a: 9, e: {b: 1}}, grid: [[9, 8], [7]]) }`},
	{"hand:mutatingResolver", `query ($o: In, $tags: [String], $t: String) { echo(opts: $o, tags: $tags, ins: [$o, {a: 4}]) e2: echo(term: $t, ins: [{a: 1, e: {a: 2}}]) }`},
	{"hand:mutatingResolver", `mutation ($t: String) { echoM(term: $t) again: echoM(term: $t, tags: ["k"]) }`},
	{"hand:aliasEnum", `{ alias aliases a2: alias(x: CRIMSON) a3: alias(x: AZURE) node { ... on T1 { al als } ... on T2 { al als } ... on T3 { al } ... on T4 { als } } nodes { ... on Typed { w } } }`},
	// abstract types without ResolveType over objects with overlapping IsTypeOf: the answer depends on the order of the
	// possible types, which nothing (an introspection request, say) may change
	{"hand:overlappingIsTypeOf", `{ staff { __typename ... on Zeta { name reports } ... on AnyStaff { name desk } } staffs { __typename ... on Zeta { reports } ... on AnyStaff { desk } } role { __typename name } zetaStaff { __typename ... on Zeta { reports } ... on AnyStaff { desk } } zetaStaffs { __typename } zetaRole { __typename name } }`},
	{"hand:introspectionOrder", `{ __type(name: "Staff") { possibleTypes { name } } r: __type(name: "Role") { possibleTypes { name } } }`},
	{"hand:abstract", `{ u { __typename ... on T1 { me u { __typename ... on Node { w } } } ... on Node { x z { __typename w } } } us { ... on T2 { kids { w } } ... on T4 { me } } }`},
}

var wideVars = map[string]interface{}{
	"o":  map[string]interface{}{"a": "x", "b": "y", "c": "z", "d": "w", "zz": 1, "yy": 2},
	"cs": []interface{}{"RED", "NOPE", "ALSO", 3},
	"t":  "x", "l": 3, "tags": []interface{}{"q", "p"},
}

func buildCases(seed uint64, thorough bool) ([]schemaSpec, []caseT) {
	specs := []schemaSpec{{"wide", detworld.Wide()}}
	nGen := 6
	docsPer := 5
	if thorough {
		nGen, docsPer = 40, 14
	}
	for i := 0; i < nGen; i++ {
		r := hx.Fork(seed, 1000+i)
		g := &gen.SchemaGen{R: r, Size: 1 + i%5}
		specs = append(specs, schemaSpec{fmt.Sprintf("gen%d", i), g.Schema()})
	}
	var cases []caseT
	add := func(c caseT) {
		c.ID = fmt.Sprintf("%03d:%s:%s:%s", len(cases), specs[c.Schema].Name, c.Mode, c.Kind)
		cases = append(cases, c)
	}
	modes := []modeT{{}, {Errors: true}, {Thunks: true}, {Errors: true, Thunks: true}, {Errors: true, AllThunks: true}, {FailLeaves: true, AllThunks: true}, {FailLeaves: true, Thunks: true}}
	// hand-written requests on the wide schema, in every world mode that matters for them
	for _, wr := range wideRequests {
		ms := []modeT{{}}
		switch wr.kind {
		case "hand:dethunkOrder", "hand:nonNull", "hand:abstract":
			ms = modes
		case "hand:implementationsOrder", "hand:overlappingIsTypeOf":
			ms = []modeT{{}, {Errors: true, Thunks: true}}
		case "hand:mutatingResolver":
			ms = []modeT{{Mut: true}, {Mut: true, AllThunks: true}, {}}
		case "hand:aliasEnum":
			ms = []modeT{{}, {Mut: true, Thunks: true}}
		}
		for _, m := range ms {
			add(caseT{Schema: 0, Mode: m, Kind: wr.kind, Query: wr.q, Vars: wideVars})
		}
	}
	add(caseT{Schema: 0, Mode: modeT{Exts: true}, Kind: "hand:extFinishOrder", Query: `{ a b node { w } }`})
	add(caseT{Schema: 0, Mode: modeT{Exts: true, Errors: true, AllThunks: true}, Kind: "hand:extFinishOrder", Query: `{ a b c d node { w x } }`})
	add(caseT{Schema: 0, Mode: modeT{Exts: true}, Kind: "hand:extFinishOrder", Query: `{ a b `})
	add(caseT{Schema: 0, Mode: modeT{Exts: true}, Kind: "hand:extFinishOrder", Query: `{ zz }`})
	add(caseT{Schema: 0, Kind: "introspection", Query: fullIntrospection, Op: "Intro"})
	add(caseT{Schema: 0, Kind: "garbage", Query: `{ a ` + "\x00" + ` }`})
	add(caseT{Schema: 0, Kind: "garbage", Query: ``})
	add(caseT{Schema: 0, Kind: "hand:operationName", Query: `query A { a } query B { b }`, Op: "C"})
	add(caseT{Schema: 0, Kind: "hand:operationName", Query: `query A { a } query B { b }`})
	// generated schemas: valid, invalid, exec-failing, thunks, introspection
	kinds := gen.MutationKindNames()
	for si := 1; si < len(specs); si++ {
		view := gen.NewSchemaView(specs[si].Desc)
		add(caseT{Schema: si, Kind: "introspection", Query: fullIntrospection, Op: "Intro"})
		for d := 0; d < docsPer; d++ {
			r := hx.Fork(seed, 100000+si*1000+d)
			text, meta := gen.ValidDocWith(r, specs[si].Desc, 1+d%4, gen.ValidDocOpts{AvoidBareInlineUnderWrapped: true})
			ops := []string{}
			for _, o := range meta.Doc.Ops {
				ops = append(ops, o.Name)
			}
			op := ""
			if len(ops) > 0 {
				op = ops[r.Intn(len(ops))]
			}
			vars := map[string]interface{}{}
			for k, v := range meta.Variables[op] {
				vars[k] = gq.FromWire(v)
			}
			m := modes[d%len(modes)]
			m.Mut = (d/2)%2 == 0 // half of the generated requests run against argument-mutating resolvers
			kind := "valid"
			if m.Errors || m.FailLeaves {
				kind = "exec-fail"
			} else if m.Thunks {
				kind = "thunks"
			}
			add(caseT{Schema: si, Mode: m, Kind: kind, Query: text, Op: op, Vars: vars})
			// an invalid sibling: one typed mutation of the valid document
			k := kinds[r.Intn(len(kinds))]
			if gen.Mutate(r, view, meta.Doc, k) {
				add(caseT{Schema: si, Mode: modeT{}, Kind: "invalid:" + k, Query: meta.Doc.Render(), Op: op, Vars: vars})
			}
			// and a second, stacked mutation (several errors of different rules in one document)
			k2 := kinds[r.Intn(len(kinds))]
			if gen.Mutate(r, view, meta.Doc, k2) {
				add(caseT{Schema: si, Mode: modeT{}, Kind: "invalid2", Query: meta.Doc.Render(), Op: op, Vars: vars})
			}
		}
	}
	return specs, cases
}

// ---------------------------------------------------------------- extensions (deterministic)

type ext struct {
	name  string
	panic bool
}

func (e *ext) Init(ctx context.Context, p *graphql.Params) context.Context { return ctx }
func (e *ext) Name() string                                                { return e.name }
func (e *ext) boom(what string) {
	if e.panic {
		panic(errors.New(e.name + " " + what))
	}
}
func (e *ext) ParseDidStart(ctx context.Context) (context.Context, graphql.ParseFinishFunc) {
	return ctx, func(error) { e.boom("parse") }
}
func (e *ext) ValidationDidStart(ctx context.Context) (context.Context, graphql.ValidationFinishFunc) {
	return ctx, func([]gqlerrors.FormattedError) { e.boom("validation") }
}
func (e *ext) ExecutionDidStart(ctx context.Context) (context.Context, graphql.ExecutionFinishFunc) {
	return ctx, func(*graphql.Result) { e.boom("execution") }
}
func (e *ext) ResolveFieldDidStart(ctx context.Context, i *graphql.ResolveInfo) (context.Context, graphql.ResolveFieldFinishFunc) {
	return ctx, func(interface{}, error) { e.boom("field " + i.FieldName) }
}
func (e *ext) HasResult() bool                       { return true }
func (e *ext) GetResult(context.Context) interface{} { return e.name }

// ---------------------------------------------------------------- execution

type builtKey struct {
	schema int
	mode   modeT
}

type env struct {
	specs     []schemaSpec
	built     map[builtKey]*graphql.Schema
	caches    map[builtKey]*graphql.PlanCache
	plans     map[string]*graphql.Plan // case id → plan prepared once with PlanQuery and executed again and again (nil: none)
	dumps     map[builtKey]string      // structural dump of each schema right after it was built (phase E1)
	keepDumps bool
}

func newEnv(specs []schemaSpec) *env {
	return &env{specs: specs, built: map[builtKey]*graphql.Schema{}, caches: map[builtKey]*graphql.PlanCache{}, plans: map[string]*graphql.Plan{}, dumps: map[builtKey]string{}}
}

func (e *env) schema(c *caseT) (*graphql.Schema, *graphql.PlanCache, error) {
	k := builtKey{c.Schema, c.Mode}
	if s, ok := e.built[k]; ok {
		return s, e.caches[k], nil
	}
	w := detworld.New(e.specs[c.Schema].Desc, 7)
	w.Errors, w.Thunks, w.AllThunks, w.FailLeaves = c.Mode.Errors, c.Mode.Thunks, c.Mode.AllThunks, c.Mode.FailLeaves
	w.MutateArgs = c.Mode.Mut
	hooks := w.Hooks()
	if e.specs[c.Schema].Name == "wide" {
		hooks.Subscribe = nil
	}
	b, err := gq.Build(e.specs[c.Schema].Desc, hooks)
	if err != nil {
		return nil, nil, err
	}
	s := b.Schema
	if c.Mode.Exts {
		s.AddExtensions(&ext{"e1", true}, &ext{"e2", false}, &ext{"e3", true}, &ext{"e4", true}, &ext{"e5", false})
	}
	e.built[k] = &s
	if e.keepDumps {
		e.dumps[k] = dumpSchema(&s)
	}
	e.caches[k] = graphql.NewPlanCache(graphql.PlanCacheOptions{MaxEntries: 64})
	return &s, e.caches[k], nil
}

type obs struct {
	Do       string `json:"do"`
	Validate string `json:"validate"`
}

func guard(f func() string) (out string) {
	done := make(chan string, 1)
	go func() {
		defer func() {
			if r := recover(); r != nil {
				done <- fmt.Sprintf("PANIC: %v", r)
			}
		}()
		done <- f()
	}()
	select {
	case s := <-done:
		return s
	case <-time.After(20 * time.Second):
		return "TIMEOUT"
	}
}

func marshal(v interface{}) string {
	b, err := json.Marshal(v)
	if err != nil {
		return "MARSHAL-ERROR: " + err.Error()
	}
	return string(b)
}

// copyVars gives every execution its own copy of the request's variables: the request must be the same request even if
// the library handed parts of the caller's maps to a resolver that modifies them.
func copyVars(v interface{}) interface{} {
	switch x := v.(type) {
	case map[string]interface{}:
		out := make(map[string]interface{}, len(x))
		for k, e := range x {
			out[k] = copyVars(e)
		}
		return out
	case []interface{}:
		out := make([]interface{}, len(x))
		for i, e := range x {
			out[i] = copyVars(e)
		}
		return out
	}
	return v
}

const (
	pathDo     = 0 // graphql.Do
	pathCache  = 1 // PlanCache.Get + ExecutePlan
	pathReplan = 2 // one PlanQuery per case, the same *Plan executed every time
)

// run executes one case once through the given entry point.
func (e *env) run(c *caseT, path int) obs {
	var vars map[string]interface{}
	if c.Vars != nil {
		vars = copyVars(c.Vars).(map[string]interface{})
	}
	var o obs
	o.Do = e.runWithVars(c, path, vars)
	if strings.HasPrefix(o.Do, "SCHEMA-ERROR") {
		return o
	}
	s, _, _ := e.schema(c)
	o.Validate = guard(func() string {
		doc, perr := parser.Parse(parser.ParseParams{Source: source.NewSource(&source.Source{Body: []byte(c.Query), Name: "GraphQL request"})})
		if perr != nil {
			return "PARSE-ERROR: " + perr.Error()
		}
		return marshal(graphql.ValidateDocument(s, doc, nil).Errors)
	})
	return o
}

// runWithVars executes the request with exactly the given variables object (no copy is made).
func (e *env) runWithVars(c *caseT, path int, vars map[string]interface{}) string {
	s, cache, err := e.schema(c)
	if err != nil {
		return "SCHEMA-ERROR: " + err.Error()
	}
	return guard(func() string {
		if c.Mode.Exts {
			path = pathDo // the plan entry points do not run the parse/validation hooks
		}
		switch path {
		case pathCache:
			pr := cache.Get(s, c.Query, c.Op)
			if len(pr.Errors) > 0 {
				return marshal(&graphql.Result{Errors: pr.Errors})
			}
			return marshal(graphql.ExecutePlan(pr.Plan, graphql.ExecuteParams{Schema: *s, Args: vars, Context: context.Background()}))
		case pathReplan:
			plan, seen := e.plans[c.ID]
			if !seen {
				if doc, perr := parser.Parse(parser.ParseParams{Source: source.NewSource(&source.Source{Body: []byte(c.Query), Name: "GraphQL request"})}); perr == nil {
					if graphql.ValidateDocument(s, doc, nil).IsValid {
						if p, err := graphql.PlanQuery(s, doc, c.Op); err == nil {
							plan = p
						}
					}
				}
				e.plans[c.ID] = plan
			}
			if plan != nil {
				return marshal(graphql.ExecutePlan(plan, graphql.ExecuteParams{Schema: *s, Args: vars, Context: context.Background()}))
			}
		}
		return marshal(graphql.Do(graphql.Params{Schema: *s, RequestString: c.Query, OperationName: c.Op, VariableValues: vars, Context: context.Background()}))
	})
}

// ---------------------------------------------------------------- classification of a difference

// sortedErrors re-marshals a result with its top-level errors sorted: equal outputs after this differ only in the
// order of the error list.
func sortedErrors(s string) string {
	var m map[string]interface{}
	if json.Unmarshal([]byte(s), &m) != nil {
		var arr []interface{}
		if json.Unmarshal([]byte(s), &arr) != nil {
			return s
		}
		sortArr(arr)
		return marshal(arr)
	}
	if es, ok := m["errors"].([]interface{}); ok {
		sortArr(es)
	}
	return marshal(m)
}

func sortArr(a []interface{}) {
	sort.Slice(a, func(i, j int) bool { return marshal(a[i]) < marshal(a[j]) })
}

// sortedLists sorts every JSON array anywhere in the value.
func sortedLists(s string) string {
	var v interface{}
	if json.Unmarshal([]byte(s), &v) != nil {
		return s
	}
	var walk func(x interface{})
	walk = func(x interface{}) {
		switch t := x.(type) {
		case []interface{}:
			for _, e := range t {
				walk(e)
			}
			sortArr(t)
		case map[string]interface{}:
			for _, e := range t {
				walk(e)
			}
		}
	}
	walk(v)
	return marshal(v)
}

// linesSorted: messages that differ only in the order of their "\n"-separated lines (isValidLiteralValue).
func linesSorted(s string) string {
	var v interface{}
	if json.Unmarshal([]byte(s), &v) != nil {
		return s
	}
	var walk func(x interface{}) interface{}
	walk = func(x interface{}) interface{} {
		switch t := x.(type) {
		case string:
			ls := strings.Split(t, "\n")
			sort.Strings(ls)
			return strings.Join(ls, "\n")
		case []interface{}:
			for i := range t {
				t[i] = walk(t[i])
			}
		case map[string]interface{}:
			for k := range t {
				t[k] = walk(t[k])
			}
		}
		return x
	}
	return marshal(walk(v))
}

// diffClass names the way two outputs differ: the classes the order-leak theorems predict, or "other".
func diffClass(a, b string) string {
	switch {
	case sortedErrors(a) == sortedErrors(b):
		return "errorOrderOnly"
	case sortedLists(a) == sortedLists(b):
		return "listOrderOnly"
	case linesSorted(sortedLists(a)) == linesSorted(sortedLists(b)):
		return "messageLineOrderOnly"
	}
	return "other"
}

// finding classes listed in KNOWN_FINDINGS.txt that this harness routes through run.KnownFinding (none today:
// D-12a … D-12i were all repaired in /repo). key = kind prefix of the case + "/" + diffClass.
var knownClasses = map[string]string{}

// ---------------------------------------------------------------- main

type childOut struct {
	Obs map[string]obs `json:"obs"`
}

func main() {
	child := flag.Bool("child", false, "run every case once and print the observations (fresh-process phase)")
	only := flag.String("only", "", "restrict to the case with this id (replay)")
	run := hx.Begin("C12")
	specs, cases := buildCases(run.Seed, run.Thorough())
	if run.ReplayIn != "" {
		var rp struct {
			Case                 caseT       `json:"case"`
			Interleave           *iseq       `json:"interleave"`
			IntrospectionRequest string      `json:"introspection_request"`
			OuterEntry           string      `json:"outer_entry_point"`
			DumpBefore           string      `json:"dump_before"`
			SentinelKind         string      `json:"sentinel_kind"`
			VariablesBefore      interface{} `json:"variables_before"`
			DataVaried           *dvScenario `json:"dataVaried"`
		}
		if err := hx.LoadReplay(run.ReplayIn, &rp); err != nil {
			run.CheckError("cannot load replay: " + err.Error())
			run.Finish()
			return
		}
		if rp.DataVaried != nil {
			// replay of a phase-H scenario: fresh schemas, fresh cache and plans, the recorded requests in order
			st := &dvStats{}
			at, want, got, err := runDataVaried(rp.DataVaried, st)
			run.Case("replay", true, nil)
			if err != nil {
				run.CheckError("phase H schema: " + err.Error())
			} else if at >= 0 {
				dvReport(run, rp.DataVaried, at, want, got)
			}
			run.Res.Evaluations = st.executions
			run.Finish()
			return
		}
		if rp.IntrospectionRequest != "" || rp.OuterEntry != "" || rp.DumpBefore != "" || rp.SentinelKind != "" || rp.VariablesBefore != nil {
			// replay of a phase-E finding: the targeted sequences are cheap and deterministic, run them all again
			n := phaseReadOnly(run, specs, newEnv(specs), map[builtKey]string{})
			n += phaseNested(run)
			n += phaseSentinels(run)
			n += phaseSharedVars(run, specs, cases, map[string]obs{})
			run.Res.Evaluations = n
			run.Finish()
			return
		}
		if rp.Interleave != nil {
			// replay of a phase-D sequence: fresh schema, fresh cache, the recorded order
			e := newEnv(specs)
			s, _, err := e.schema(&caseT{Schema: 0, Mode: rp.Interleave.Mode})
			if err != nil {
				run.CheckError("schema: " + err.Error())
			} else {
				st := &interleaveStats{}
				note, want, got, known, at := runSequence(s, *rp.Interleave, st)
				run.Case("replay", true, nil)
				if known {
					run.KnownFinding(classKeepsFirstPositions, note)
				} else if note != "" {
					run.Violation(note, map[string]interface{}{"interleave": rp.Interleave, "failing_step": at, "expected_by_Do": want, "got_through_cache": got}, false)
				}
			}
			run.Finish()
			return
		}
		*only = rp.Case.ID
	}
	if *only != "" {
		var sel []caseT
		for _, c := range cases {
			if c.ID == *only {
				sel = append(sel, c)
			}
		}
		cases = sel
	}
	if *child {
		e := newEnv(specs)
		out := childOut{Obs: map[string]obs{}}
		for i := range cases {
			out.Obs[cases[i].ID] = e.run(&cases[i], pathDo)
		}
		json.NewEncoder(os.Stdout).Encode(out)
		return
	}

	reps, freshReps, procs := 50, 10, 8
	if run.ReplayIn != "" {
		reps, freshReps = 200, 50
	}
	first := map[string]obs{}
	bad := map[string]bool{}
	report := func(c *caseT, phase, what, a, b string) {
		if bad[c.ID+what] {
			return
		}
		bad[c.ID+what] = true
		cls := diffClass(a, b)
		key := strings.SplitN(c.Kind, ":", 2)[0] + "/" + cls
		if kc, ok := knownClasses[key]; ok {
			run.KnownFinding(kc, "outputs of one request differ only as the class predicts ("+cls+")")
			return
		}
		run.Violation(fmt.Sprintf("the same request produced different %s (phase %s, difference: %s)", what, phase, cls),
			map[string]interface{}{"case": c, "schema": specs[c.Schema].Desc, "phase": phase, "observable": what, "difference": cls, "output_1": a, "output_2": b}, false)
	}
	compare := func(c *caseT, phase string, o obs) {
		f, ok := first[c.ID]
		if !ok {
			first[c.ID] = o
			return
		}
		if o.Do != f.Do {
			report(c, phase, "json.Marshal(result)", f.Do, o.Do)
		}
		if o.Validate != f.Validate {
			report(c, phase, "ValidateDocument(...).Errors", f.Validate, o.Validate)
		}
	}

	// ---- C. fresh processes: started now, they run while phases A and B execute; compared afterwards
	self, err := os.Executable()
	if err != nil {
		run.CheckError("os.Executable: " + err.Error())
	}
	childOuts := make([]*childOut, procs)
	var mu sync.Mutex
	var wg sync.WaitGroup
	sem := make(chan struct{}, 3)
	for p := 0; p < procs && err == nil; p++ {
		wg.Add(1)
		go func(p int) {
			defer wg.Done()
			sem <- struct{}{}
			defer func() { <-sem }()
			args := []string{"--child", "--tier", run.Tier, "--seed", fmt.Sprint(run.Seed)}
			if *only != "" {
				args = append(args, "--only", *only)
			}
			cmd := exec.Command(self, args...)
			cmd.Stderr = os.Stderr
			b, cerr := cmd.Output()
			mu.Lock()
			defer mu.Unlock()
			if cerr != nil {
				run.CheckError(fmt.Sprintf("child process %d failed: %v", p, cerr))
				return
			}
			var co childOut
			if jerr := json.Unmarshal(b, &co); jerr != nil {
				run.CheckError(fmt.Sprintf("child process %d: bad output: %v", p, jerr))
				return
			}
			childOuts[p] = &co
		}(p)
	}

	// ---- A. shared schema, interleaved; Do / cached plan / one prepared plan re-executed, in turn
	shared := newEnv(specs)
	shared.keepDumps = true
	for rep := 0; rep < reps; rep++ {
		order := hx.Fork(run.Seed, 5000+rep)
		idx := make([]int, len(cases))
		for i := range idx {
			idx[i] = i
		}
		for i := len(idx) - 1; i > 0; i-- {
			j := order.Intn(i + 1)
			idx[i], idx[j] = idx[j], idx[i]
		}
		for _, i := range idx {
			compare(&cases[i], fmt.Sprintf("A(shared schema, repetition %d, entry point %s)", rep, []string{"Do", "PlanCache.Get+ExecutePlan", "PlanQuery once+ExecutePlan"}[rep%3]), shared.run(&cases[i], rep%3))
		}
		if run.TooManyViolations() {
			break
		}
	}
	// ---- B. fresh schemas in this process
	for rep := 0; rep < freshReps && !run.TooManyViolations(); rep++ {
		e := newEnv(specs)
		for i := range cases {
			compare(&cases[i], fmt.Sprintf("B(fresh schema %d, same process)", rep), e.run(&cases[i], pathDo))
		}
	}
	// ---- D. history independence through shared plan caches: probe after near misses (interleave.go)
	ist := &interleaveStats{}
	if *only == "" {
		for _, sq := range mkSequences(run.Seed, run.N(60, 1500)) {
			if run.TooManyViolations() {
				break
			}
			sq := sq
			s, _, err := shared.schema(&caseT{Schema: 0, Mode: sq.Mode})
			if err != nil {
				run.CheckError("schema: " + err.Error())
				break
			}
			note, want, got, known, at := runSequence(s, sq, ist)
			ist.probes++
			run.Tag("kind=interleave")
			run.Tag(fmt.Sprintf("interleave:normalize=%v", sq.Normalize))
			run.Case(fmt.Sprintf("interleave|%s|%v|%d|%s|%s|%d", sq.Family, sq.Normalize, sq.Capacity, sq.Mode, sq.Probe.Query, len(sq.Steps)), len(sq.Steps) >= 3,
				map[string]interface{}{"phase": "D", "probe": sq.Probe.Query, "normalize": sq.Normalize, "steps": len(sq.Steps)})
			switch {
			case known:
				run.Tag("interleave:known=" + classKeepsFirstPositions)
				run.KnownFinding(classKeepsFirstPositions, "through a Normalize:true plan cache a request's error locations are those of an earlier layout/literal variant that populated the shared entry (data, messages, paths equal)")
			case note != "":
				run.Violation(note, map[string]interface{}{"interleave": sq, "failing_step": at, "expected_by_Do": want, "got_through_cache": got}, false)
			}
		}
	}

	// ---- E. requests do not change what later or enclosing requests see (stateful.go)
	eExec := 0
	if *only == "" {
		eExec += phaseReadOnly(run, specs, shared, shared.dumps)
		eExec += phaseNested(run)
		eExec += phaseSentinels(run)
		eExec += phaseSharedVars(run, specs, cases, first)
		eExec += phaseDataVaried(run)
	}

	// ---- C. compare what the fresh processes (started before phase A) observed
	wg.Wait()
	for p, co := range childOuts {
		if co == nil {
			continue
		}
		for i := range cases {
			o, ok := co.Obs[cases[i].ID]
			if !ok {
				run.CheckError("child did not run case " + cases[i].ID)
				continue
			}
			compare(&cases[i], fmt.Sprintf("C(fresh process %d)", p), o)
		}
	}

	// ---- bookkeeping
	for i := range cases {
		c := &cases[i]
		o := first[c.ID]
		class := "data"
		switch {
		case strings.HasPrefix(o.Do, "PANIC") || strings.HasPrefix(o.Do, "TIMEOUT") || strings.HasPrefix(o.Do, "SCHEMA-ERROR"):
			class = "fault"
			run.Violation("request did not complete: "+o.Do[:min(len(o.Do), 200)], map[string]interface{}{"case": c, "schema": specs[c.Schema].Desc, "output_1": o.Do}, false)
		case strings.HasPrefix(o.Validate, "PARSE-ERROR"):
			class = "syntax-error"
		case o.Validate != "[]" && o.Validate != "null":
			class = "validation-errors"
		case strings.Contains(o.Do, `"errors"`) && strings.Contains(o.Do, `"data":{`):
			class = "data+errors"
		case strings.Contains(o.Do, `"errors"`):
			class = "errors-only"
		}
		kind := strings.SplitN(c.Kind, ":", 2)[0]
		run.Tag("kind=" + kind)
		run.Tag("result=" + class)
		run.Tag("mode=" + c.Mode.String())
		h := sha256.Sum256([]byte(c.Query))
		key := fmt.Sprintf("%s|%s|%x|%s", specs[c.Schema].Name, c.Mode, h[:8], c.Op)
		run.Case(key, len(o.Do) > 2 && class != "fault", map[string]interface{}{"id": c.ID, "query": c.Query[:min(len(c.Query), 300)], "result_class": class, "do": o.Do[:min(len(o.Do), 300)]})
	}
	run.Res.Rule = fmt.Sprintf("a case is one (schema, resolver-world mode, request); it counts as non-trivial when the request completed with data or errors; every case was executed %d× on one shared schema value interleaved with all others (in turn graphql.Do, PlanCache.Get+ExecutePlan, and re-execution of one prepared plan), %d× on freshly built schemas in the same process and once in each of %d fresh processes; both json.Marshal(result) and json.Marshal(ValidateDocument(...).Errors) must be byte-identical throughout; distinctness by (schema, mode, query, operation); phase D: a sequence = a probe request answered through one shared PlanCache after 1-6 near-miss requests (exactly one default value / literal / directive / alias / argument order / operation name / fragment body changed), every probe answer byte-identical to graphql.Do's; phase E: schema dump unchanged by all requests, data request unchanged by an interposed introspection request, outer request unchanged by a nested request issued from its own resolver; phase F: a request failing with a shared sentinel error answers the same after other requests failed with that sentinel elsewhere, and the sentinel values are unchanged; phase G: requests re-sent with one shared variables map leave it unmodified and answer as with a private copy; phase H: a scenario = requests (document, variables, ROOT VALUE) over a schema that takes all data and runtime types from the root value, served in order through one shared PlanCache / one plan prepared once per document, root values alternating the runtime types of abstract fields (also nulls, lists mixing types), documents merging one response key from fragments on the abstract type and inline fragments on concrete types with different sub-selections; every answer byte-identical to graphql.Do of the same (document, variables, root value) on a separately built schema; non-trivial when one plan met two different runtime-type signatures", reps, freshReps, procs)
	run.Res.Evaluations = len(cases)*(reps+freshReps+procs) + ist.executions + eExec // every execution of the real code is compared
	run.Res.Extra["interleave_sequences"] = ist.probes
	run.Res.Extra["interleave_executions"] = ist.executions
	run.Res.Extra["cases"] = len(cases)
	run.Res.Extra["executions_per_case"] = reps + freshReps + procs
	run.Res.Extra["schemas"] = len(specs)
	run.Res.Extra["fresh_processes"] = procs
	run.Res.Assumptions = []string{"byte-identical output of the real binary is sampled (repetitions, fresh schemas, fresh processes), not proved"}
	run.Finish()
}
