// C04 harness: adversarial resolver worlds (wrong kinds, nil, typed nil, NaN/Inf, errors, value+error, panics,
// thunks, failing thunks, non-possible runtime types) at every depth and nullability; the real response must be the
// algorithm's (model) and must conform to schema and query (Conforms evaluated by the Lean driver on the REAL data).
package main

import (
	"verif/harness/execharness"
	"verif/harness/hx"
)

func main() {
	execharness.Main(execharness.Mode{Prop: "C04", Knobs: func(r *hx.Rng) execharness.Knobs {
		k := execharness.AdversarialKnobs
		if r.Chance(1, 3) {
			k.Thunk, k.BadThunk = 0, 0
		}
		return k
	}, Conformance: true}, 1200, 120000)
}
