// C06 harness: histories of Get / ExecutePlan / Reset / schema replacement on the real graphql.PlanCache,
// compared step by step with the Lean model (hit/miss via HitsMisses deltas, VerifKeys/VerifLen against the
// model's MRU key list, identity of the plan a hit hands back) and, independently of the model, with
// graphql.Do from scratch (transparency against the real pipeline). A failing history is shrunk by removing
// operations while a divergence of the same kind persists.
package main

import (
	"encoding/hex"
	"encoding/json"
	"fmt"
	"reflect"
	"runtime/debug"
	"strings"
	"time"

	"github.com/graphql-go/graphql"
	"github.com/graphql-go/graphql/gqlerrors"
	"github.com/graphql-go/graphql/language/ast"
	"github.com/graphql-go/graphql/language/parser"
	"github.com/graphql-go/graphql/language/printer"

	"verif/harness/astjson"
	"verif/harness/gq"
	"verif/harness/hx"
)

// ---------------------------------------------------------------- histories

type opT struct {
	ID   int    `json:"id"`             // stable identity (survives shrinking)
	K    string `json:"k"`              // get | exec | reset | replace
	Slot int    `json:"slot,omitempty"` // get, replace: schema slot
	Q    int    `json:"q,omitempty"`    // get: pool index
	Op   string `json:"op,omitempty"`   // get: operation name, hex
	Vars string `json:"vars,omitempty"` // get, exec: variable assignment (JSON object text), "" = none
	Ref  int    `json:"ref,omitempty"`  // exec: ID of the get whose plan is executed again
}

type historyT struct {
	Mode       string   `json:"mode"` // raw | norm-safe | norm-any
	MaxEntries int      `json:"maxEntries"`
	MaxBytes   int      `json:"maxBytes"`
	Nil        bool     `json:"nil"`
	Pool       []string `json:"pool"`      // hex
	PoolText   []string `json:"pool_text"` // the same, Go-quoted, for the reader
	Ops        []opT    `json:"ops"`
	KeysFinal  bool     `json:"keysFinal,omitempty"` // compare key lists only at the end (very long histories)
}

type divT struct {
	Step  int         `json:"step"`
	Kind  string      `json:"kind"`
	Note  string      `json:"note"`
	Go    interface{} `json:"go"`
	Model interface{} `json:"model"`
}

type stepStats struct {
	hits, misses, bypass, evictions, guardMisses, resets, replaces, execs, execStale, errResults, planResults int
	steps                                                                                                  int
	collReqs, collPairs                                                                                    int // normalised requests with / pairs of SynthArgs that print alike under %v but differ
	otherData                                                                                              int // executions of a plan whose previous execution had other variables ∪ SynthArgs (other data, other runtime types)
}

type modelStep struct {
	O        string   `json:"o"`
	Built    *int     `json:"built"`
	SynthOwn *bool    `json:"synthOwn"`
	Len      int      `json:"len"`
	Hits     uint64   `json:"hits"`
	Misses   uint64   `json:"misses"`
	Keys     []string `json:"keys"`
}
type modelResp struct {
	Steps  []modelStep `json:"steps"`
	Keys   []string    `json:"keys"`
	Len    int         `json:"len"`
	Hits   uint64      `json:"hits"`
	Misses uint64      `json:"misses"`
}

func unhex(s string) string { b, _ := hex.DecodeString(s); return string(b) }

func parseVars(s string) map[string]interface{} {
	if s == "" {
		return nil
	}
	var m map[string]interface{}
	dec := json.NewDecoder(strings.NewReader(s))
	if err := dec.Decode(&m); err != nil {
		return nil
	}
	// JSON numbers arrive as float64; integral ones become int so that Int variables coerce as from a client
	var fix func(v interface{}) interface{}
	fix = func(v interface{}) interface{} {
		switch x := v.(type) {
		case float64:
			if x == float64(int(x)) {
				return int(x)
			}
		case map[string]interface{}:
			for k, e := range x {
				x[k] = fix(e)
			}
		case []interface{}:
			for i, e := range x {
				x[i] = fix(e)
			}
		}
		return v
	}
	for k, v := range m {
		m[k] = fix(v)
	}
	return m
}

func resultJSON(r *graphql.Result) string {
	b, err := json.Marshal(r)
	if err != nil {
		return "!marshal: " + err.Error()
	}
	return string(b)
}

func errorsJSON(es []gqlerrors.FormattedError) string {
	return resultJSON(&graphql.Result{Errors: es})
}

func capOf(h *historyT) int {
	if h.MaxEntries <= 0 {
		return 1024
	}
	return h.MaxEntries
}

func mergeArgs(a, b map[string]interface{}) map[string]interface{} {
	if len(b) == 0 {
		return a
	}
	out := map[string]interface{}{}
	for k, v := range a {
		out[k] = v
	}
	for k, v := range b {
		out[k] = v
	}
	return out
}

type planned struct {
	pr     graphql.PlanResult
	schema *graphql.Schema
	q, op  string
}

// goStep is what the real code showed at one operation
type goStep struct {
	outcome  string // hit | miss | none
	keys     []string
	length   int
	plan     *graphql.Plan
	errs     string
	nInfo    string // norm mode: parse | norm | ok
	nk       string // norm mode: normKey (hex)
	synthOK  bool
	hasSynth bool
}

func safeDo(f func()) (panicked interface{}) {
	defer func() {
		if r := recover(); r != nil {
			panicked = fmt.Sprint(r)
		}
	}()
	f()
	return nil
}

// runHistory runs h on the real cache and on the model and returns the first divergence (nil if none).
func runHistory(h *historyT, drv *hx.Driver, st *stepStats, fpCheck bool) (*divT, error) {
	schemas := []*graphql.Schema{newSchema("A0"), newSchema("B0")}
	gen := []int{0, 0}
	var cache *graphql.PlanCache
	norm := h.Mode != "raw"
	if !h.Nil {
		cache = graphql.NewPlanCache(graphql.PlanCacheOptions{MaxEntries: h.MaxEntries, MaxQueryBytes: h.MaxBytes, Normalize: norm})
	}
	compareJSON := true // since the repairs of D-06b…g every mode is compared with graphql.Do
	pool := make([]string, len(h.Pool))
	for i, p := range h.Pool {
		pool[i] = unhex(p)
	}
	plans := map[int]*planned{} // by op ID
	lastArgs := map[*graphql.Plan]string{}
	sawArgs := func(p *graphql.Plan, args map[string]interface{}) {
		if p == nil {
			return
		}
		a := normMap(args)
		if prev, ok := lastArgs[p]; ok && prev != a {
			st.otherData++
		}
		lastArgs[p] = a
	}
	steps := make([]goStep, len(h.Ops))
	mops := make([]interface{}, len(h.Ops))
	var prevKeys []string

	for i, o := range h.Ops {
		st.steps++
		g := &steps[i]
		g.outcome = "none"
		mops[i] = "noop"
		switch o.K {
		case "reset":
			cache.Reset()
			mops[i] = "reset"
			st.resets++
		case "replace":
			gen[o.Slot]++
			schemas[o.Slot] = newSchema(fmt.Sprintf("%c%d", 'A'+o.Slot, gen[o.Slot]))
			mops[i] = map[string]interface{}{"replace": o.Slot}
			st.replaces++
		case "exec":
			pl := plans[o.Ref]
			if pl == nil || pl.pr.Plan == nil {
				break
			}
			st.execs++
			if pl.schema != schemas[0] && pl.schema != schemas[1] {
				st.execStale++
			}
			vars := parseVars(o.Vars)
			var got, want string
			if p := safeDo(func() {
				// a plan is bound to the schema it was planned against (plan.go: "p.Schema is ignored"): every third
				// re-execution passes whatever schema the slot holds now, and must still answer like the plan's own schema
				ps := pl.schema
				if o.ID%3 == 0 {
					ps = schemas[o.ID%2]
				}
				sawArgs(pl.pr.Plan, mergeArgs(vars, pl.pr.SynthArgs))
				got = resultJSON(graphql.ExecutePlan(pl.pr.Plan, graphql.ExecuteParams{Schema: *ps, Args: mergeArgs(vars, pl.pr.SynthArgs)}))
				want = resultJSON(graphql.Do(graphql.Params{Schema: *pl.schema, RequestString: pl.q, OperationName: pl.op, VariableValues: vars}))
			}); p != nil {
				return &divT{Step: i, Kind: "panic", Note: fmt.Sprint("panic while re-executing a prepared plan: ", p)}, nil
			}
			if compareJSON && got != want {
				return &divT{Step: i, Kind: "json", Note: "re-executing a prepared plan gives a different response than graphql.Do from scratch (plan reuse is not transparent)", Go: got, Model: want}, nil
			}
		case "get":
			schema := schemas[o.Slot]
			q, opn := pool[o.Q], unhex(o.Op)
			vars := parseVars(o.Vars)
			mop := map[string]interface{}{"get": []interface{}{o.Slot, o.Q, o.Op}}
			var ownSynth map[string]interface{}
			if norm {
				// what the parse + normalizeDocument prefix of Get delivers for this request (the model treats it as opaque)
				var info, nk string
				var d *divT
				if p := safeDo(func() {
					doc, perr := parser.Parse(parser.ParseParams{Source: q})
					if perr != nil {
						info = "parse"
						return
					}
					twin, _ := parser.Parse(parser.ParseParams{Source: q})
					before := printer.Print(doc)
					nd, synth, key, nerr := graphql.VerifNormalizeDocument(schema, doc, opn)
					if after := printer.Print(doc); after != before || !reflect.DeepEqual(stripLoc(doc), stripLoc(twin)) {
						d = &divT{Step: i, Kind: "doc-modified", Note: "normalizeDocument modified the caller's document", Go: fmt.Sprint(after), Model: fmt.Sprint(before)}
						return
					}
					if nerr != nil {
						info = "norm"
						if drv != nil {
							d = checkNormaliserModel(drv, i, q, opn, doc, nil, nil, "!rooterr")
						}
						return
					}
					info, nk, ownSynth = "ok", key, synth
					if n := fmtCollidingPairs(synth); n > 0 {
						st.collReqs++
						st.collPairs += n
					}
					if drv != nil {
						if dd := checkNormaliserModel(drv, i, q, opn, doc, nd, synth, key); dd != nil {
							d = dd
							return
						}
					}
					if fpCheck && keyMode == "fnv" && key != "" && drv != nil {
						if req, ok := fpRequest(nd, opn); ok {
							var fr struct {
								Fp    string `json:"fp"`
								Bytes string `json:"bytes"`
							}
							if err := drv.Ask(req, &fr); err != nil {
								d = &divT{Step: i, Kind: "driver", Note: err.Error()}
								return
							}
							if fr.Fp != key {
								d = &divT{Step: i, Kind: "fp", Note: "fingerprintDocument differs from the model's fingerprint of the normalised document", Go: key, Model: map[string]string{"fp": fr.Fp, "bytes": unhex(fr.Bytes)}}
							}
						}
					}
				}); p != nil {
					return &divT{Step: i, Kind: "panic", Note: fmt.Sprint("panic in parse/normalizeDocument: ", p)}, nil
				}
				if d != nil {
					if d.Kind == "driver" {
						return nil, fmt.Errorf("%s", d.Note)
					}
					return d, nil
				}
				g.nInfo, g.nk = info, hex.EncodeToString([]byte(nk))
				mop["n"] = info
				if info == "ok" {
					mop["nk"] = g.nk
				}
			}
			mops[i] = mop

			h0, m0 := cache.HitsMisses()
			var pr graphql.PlanResult
			if p := safeDo(func() { pr = cache.Get(schema, q, opn) }); p != nil {
				return &divT{Step: i, Kind: "panic", Note: fmt.Sprint("PlanCache.Get panicked: ", p)}, nil
			}
			h1, m1 := cache.HitsMisses()
			switch {
			case h1 == h0+1 && m1 == m0:
				g.outcome = "hit"
				st.hits++
			case h1 == h0 && m1 == m0+1:
				g.outcome = "miss"
				st.misses++
			case h1 == h0 && m1 == m0:
				g.outcome = "none"
				st.bypass++
			default:
				return &divT{Step: i, Kind: "outcome", Note: "one Get moved the counters by more than one", Go: []uint64{h0, m0, h1, m1}}, nil
			}
			g.plan, g.errs = pr.Plan, errorsJSON(pr.Errors)
			plans[o.ID] = &planned{pr: pr, schema: schema, q: q, op: opn}
			if pr.Plan != nil {
				st.planResults++
			} else {
				st.errResults++
			}
			if (pr.Plan == nil) == (len(pr.Errors) == 0) {
				return &divT{Step: i, Kind: "shape", Note: "PlanResult must carry exactly one of Plan / Errors", Go: g.errs}, nil
			}
			if norm && pr.Plan != nil && cache != nil && g.outcome != "none" {
				g.hasSynth = true
				g.synthOK = reflect.DeepEqual(normMap(pr.SynthArgs), normMap(ownSynth))
				if !g.synthOK {
					return &divT{Step: i, Kind: "synth", Note: "SynthArgs returned by Get are not the literals of this request", Go: fmt.Sprint(pr.SynthArgs), Model: fmt.Sprint(ownSynth)}, nil
				}
			}
			// transparency against the real pipeline
			if compareJSON {
				var got, want string
				if p := safeDo(func() {
					want = resultJSON(graphql.Do(graphql.Params{Schema: *schema, RequestString: q, OperationName: opn, VariableValues: vars}))
					if pr.Plan != nil {
						sawArgs(pr.Plan, mergeArgs(vars, pr.SynthArgs))
						got = resultJSON(graphql.ExecutePlan(pr.Plan, graphql.ExecuteParams{Schema: *schema, Args: mergeArgs(vars, pr.SynthArgs)}))
					} else {
						got = g.errs
					}
				}); p != nil {
					return &divT{Step: i, Kind: "panic", Note: fmt.Sprint("panic while executing: ", p)}, nil
				}
				if got != want {
					return &divT{Step: i, Kind: "json", Note: "serving through the plan cache gives a different response than graphql.Do from scratch on the same schema (" + g.outcome + ")", Go: got, Model: want}, nil
				}
			}
		}
		if cache != nil {
			g.length = cache.VerifLen()
			if !h.KeysFinal || i == len(h.Ops)-1 {
				for _, k := range cache.VerifKeys() {
					g.keys = append(g.keys, hex.EncodeToString([]byte(k)))
				}
			}
			if g.length > capOf(h) {
				return &divT{Step: i, Kind: "bound", Note: "the cache retains more entries than configured", Go: g.length, Model: capOf(h)}, nil
			}
			if !h.KeysFinal {
				if g.outcome == "miss" && len(prevKeys) > 0 {
					gone := 0
					for _, k := range prevKeys {
						if !contains(g.keys, k) {
							gone++
						}
					}
					if len(g.keys) > 0 && contains(prevKeys, g.keys[0]) {
						st.guardMisses++ // the key was retained, yet the Get missed: schema-pointer guard
					}
					if gone > 0 {
						st.evictions++
					}
				}
				prevKeys = g.keys
			}
		}
	}
	if drv == nil {
		return nil, nil
	}

	// ---- the model
	mode := "raw"
	if norm {
		mode = "norm"
	}
	keysMode := "each"
	if h.KeysFinal {
		keysMode = "final"
	}
	var m modelResp
	req := map[string]interface{}{"mode": mode, "cfg": map[string]interface{}{"maxEntries": h.MaxEntries, "maxBytes": h.MaxBytes, "nil": h.Nil, "keyShape": keyShape},
		"pool": h.Pool, "ops": mops, "keys": keysMode}
	if err := drv.Ask(req, &m); err != nil {
		return nil, err
	}
	if len(m.Steps) != len(h.Ops) {
		return nil, fmt.Errorf("model returned %d steps for %d ops", len(m.Steps), len(h.Ops))
	}
	var hits, misses uint64
	for i := range h.Ops {
		g, ms := &steps[i], &m.Steps[i]
		mo := ms.O
		if mo == "bypass" || mo == "nolookup" || mo == "-" {
			mo = "none"
		}
		if g.outcome != mo {
			return &divT{Step: i, Kind: "outcome", Note: "hit/miss differs from the model", Go: g.outcome, Model: ms.O}, nil
		}
		if g.outcome == "hit" {
			hits++
		} else if g.outcome == "miss" {
			misses++
		}
		if !h.Nil && (ms.Hits != hits || ms.Misses != misses) {
			return &divT{Step: i, Kind: "outcome", Note: "counters differ from the model", Go: []uint64{hits, misses}, Model: []uint64{ms.Hits, ms.Misses}}, nil
		}
		if !h.Nil {
			if g.length != ms.Len {
				return &divT{Step: i, Kind: "keys", Note: "VerifLen differs from the model", Go: g.length, Model: ms.Len}, nil
			}
			if !h.KeysFinal && !reflect.DeepEqual(nz(g.keys), nz(ms.Keys)) {
				return &divT{Step: i, Kind: "keys", Note: "retained keys (most recently used first) differ from the model", Go: unhexAll(g.keys), Model: unhexAll(ms.Keys)}, nil
			}
		}
		if h.Ops[i].K == "get" && g.outcome == "hit" && ms.Built != nil {
			// the model says which earlier operation built the entry that is served now
			b := &steps[*ms.Built]
			if g.plan != b.plan || g.errs != b.errs {
				return &divT{Step: i, Kind: "identity", Note: fmt.Sprintf("a hit must hand back the plan stored by operation %d", *ms.Built), Go: g.errs, Model: b.errs}, nil
			}
		}
	}
	if !h.Nil && h.KeysFinal && len(h.Ops) > 0 {
		if !reflect.DeepEqual(nz(steps[len(h.Ops)-1].keys), nz(m.Keys)) {
			return &divT{Step: len(h.Ops) - 1, Kind: "keys", Note: "final retained keys differ from the model", Go: unhexAll(steps[len(h.Ops)-1].keys), Model: unhexAll(m.Keys)}, nil
		}
	}
	return nil, nil
}

func nz(s []string) []string {
	if s == nil {
		return []string{}
	}
	return s
}
func contains(xs []string, x string) bool {
	for _, y := range xs {
		if y == x {
			return true
		}
	}
	return false
}
func unhexAll(xs []string) []string {
	out := []string{}
	for _, x := range xs {
		out = append(out, fmt.Sprintf("%q", unhex(x)))
	}
	return out
}

// fmtCollidingPairs counts the pairs of SynthArgs of one request whose values are different (JSON) but have the same
// fmt %v text (["a b"] / ["a","b"], [] / [""], map[a:1 b:2]): the inputs on which a dedupe table keyed on a non-injective
// rendering of the value would merge two literals. Histogram only; the verdict comes from the comparisons.
func fmtCollidingPairs(synth map[string]interface{}) int {
	type rv struct{ v, j string }
	var rs []rv
	for _, v := range synth {
		b, _ := json.Marshal(v)
		rs = append(rs, rv{fmt.Sprintf("%v", v), string(b)})
	}
	n := 0
	for i := range rs {
		for j := i + 1; j < len(rs); j++ {
			if rs[i].v == rs[j].v && rs[i].j != rs[j].j {
				n++
			}
		}
	}
	return n
}

// normMap renders synthetic arguments canonically (nil and empty are the same)
func normMap(m map[string]interface{}) string {
	if len(m) == 0 {
		return "{}"
	}
	b, _ := json.Marshal(m)
	return string(b)
}

// stripLoc returns a structural rendering of a document that ignores locations (pointer-bearing)
func stripLoc(d *ast.Document) interface{} {
	var walk func(v reflect.Value) interface{}
	walk = func(v reflect.Value) interface{} {
		switch v.Kind() {
		case reflect.Ptr, reflect.Interface:
			if v.IsNil() {
				return nil
			}
			return walk(v.Elem())
		case reflect.Struct:
			out := map[string]interface{}{"_": v.Type().Name()}
			for i := 0; i < v.NumField(); i++ {
				if v.Type().Field(i).Name == "Loc" {
					continue
				}
				out[v.Type().Field(i).Name] = walk(v.Field(i))
			}
			return out
		case reflect.Slice:
			out := []interface{}{}
			for i := 0; i < v.Len(); i++ {
				out = append(out, walk(v.Index(i)))
			}
			return out
		default:
			return fmt.Sprint(v.Interface())
		}
	}
	return walk(reflect.ValueOf(d))
}

// ---------------------------------------------------------------- the normaliser against its model

var schemaDescJSON = func() interface{} {
	b, _ := json.Marshal(schemaDesc())
	var v interface{}
	json.Unmarshal(b, &v)
	return v
}()

type normModelResp struct {
	Out        string                 `json:"out"`
	Printed    string                 `json:"printed"`
	PrintedKey string                 `json:"printedKey"` // hex of the model's printedKey of the normalised document
	Synth   map[string]interface{} `json:"synth"`
}

var normMemo = map[string]*normModelResp{}

// checkNormaliserModel compares the real normalizeDocument (normalised document as printed text, SynthArgs) with
// GqlModel.Normalize.normalizeDocument on the same document. key "" = not applicable, "!rooterr" = root type error.
func checkNormaliserModel(drv *hx.Driver, step int, q, opn string, doc, nd *ast.Document, synth map[string]interface{}, key string) *divT {
	mk := q + "\x00" + opn
	m := normMemo[mk]
	if m == nil {
		m = &normModelResp{}
		req := map[string]interface{}{"norm": map[string]interface{}{"schema": schemaDescJSON, "doc": astjson.Document(doc), "opName": opn}}
		if err := drv.Ask(req, m); err != nil {
			return &divT{Step: step, Kind: "driver", Note: err.Error()}
		}
		normMemo[mk] = m
	}
	goOut := "ok"
	switch key {
	case "":
		goOut = "na"
	case "!rooterr":
		goOut = "rooterr"
	}
	if goOut != m.Out {
		return &divT{Step: step, Kind: "normaliser", Note: "normalizeDocument: applicability differs from the model", Go: goOut, Model: m.Out}
	}
	if goOut != "ok" {
		return nil
	}
	printed := fmt.Sprint(printer.Print(nd))
	if printed != m.Printed {
		return &divT{Step: step, Kind: "normaliser", Note: "the normalised document differs from the model of the normaliser", Go: printed, Model: m.Printed}
	}
	gs, ms := hx.Canon(gq.ToWire(mapOrEmpty(synth))), hx.Canon(mapOrEmpty(m.Synth))
	if gs != ms {
		return &divT{Step: step, Kind: "normaliser", Note: "SynthArgs differ from the model of the normaliser", Go: gs, Model: ms}
	}
	if keyMode == "printed" && key != unhex(m.PrintedKey) {
		return &divT{Step: step, Kind: "key", Note: "the cache identifier of the normalised document differs from the model's printedKey", Go: key, Model: unhex(m.PrintedKey)}
	}
	return nil
}

// keyMode / keyShape: which of the model's two key constructions the code under test computes, found out on fixed
// requests at start-up (no knowledge of any patch: only the bytes of the keys are looked at).
//   keyMode  "fnv":     normalizeDocument returns the hex FNV-1a-64 hash of the structural fingerprint (model:
//                       Fp.fingerprint, compared by the [fp] check);
//            "printed": it returns "doc:" + the printed normalised document (model: printedKey; notes/fixes/D-06k.diff).
//   keyShape "coded":   cache key = operationName + "\x00" + normKey, and "raw:" + hex FNV-1a-64 of the query for
//                       requests normalisation does not apply to (model: keyShapeCoded);
//            "repaired": the same join, fallback "raw:" + query (model: keyShapeRepaired).
// Anything else the code may do is taken for fnv / coded and shows as a key divergence on the first steps.
var keyMode, keyShape = "fnv", "coded"

func detectKeyModes() {
	s := newSchema("A0")
	if doc, err := parser.Parse(parser.ParseParams{Source: `{ tag }`}); err == nil {
		if nd, _, key, nerr := graphql.VerifNormalizeDocument(s, doc, ""); nerr == nil && key == "doc:"+fmt.Sprint(printer.Print(nd)) {
			keyMode = "printed"
		}
	}
	const q = `query A { tag } query B { tag }`
	c := graphql.NewPlanCache(graphql.PlanCacheOptions{Normalize: true})
	c.Get(s, q, "")
	if ks := c.VerifKeys(); len(ks) == 1 && ks[0] == "\x00raw:"+q {
		keyShape = "repaired"
	}
}

func mapOrEmpty(m map[string]interface{}) map[string]interface{} {
	if m == nil {
		return map[string]interface{}{}
	}
	return m
}

// ---------------------------------------------------------------- shrinking

// shrink removes operations (whole chunks first, then single ones) while a divergence of the same kind
// persists; bounded by a wall-clock budget so that a failing 1000-step history cannot stall the check.
func shrink(h historyT, d *divT, drv *hx.Driver, budget time.Duration) (historyT, *divT) {
	deadline := time.Now().Add(budget)
	still := func(cand *historyT) *divT {
		if time.Now().After(deadline) {
			return nil
		}
		d2, err := runHistory(cand, drv, &stepStats{}, true)
		if err == nil && d2 != nil && d2.Kind == d.Kind {
			return d2
		}
		return nil
	}
	cur, curD := h, d
	cur.Ops = append([]opT(nil), h.Ops[:min(len(h.Ops), d.Step+1)]...)
	if d2 := still(&cur); d2 != nil {
		curD = d2
	} else {
		cur.Ops = append([]opT(nil), h.Ops...)
	}
	for chunk := len(cur.Ops) / 2; chunk >= 1; chunk /= 2 {
		for changed := true; changed; {
			changed = false
			for i := len(cur.Ops) - chunk; i >= 0; i -= chunk {
				if i+chunk > len(cur.Ops) {
					continue
				}
				cand := cur
				cand.Ops = append(append([]opT(nil), cur.Ops[:i]...), cur.Ops[i+chunk:]...)
				if d2 := still(&cand); d2 != nil {
					cur, curD, changed = cand, d2, true
				}
			}
			if chunk > 1 {
				break
			}
		}
	}
	// drop unused pool entries
	used := map[int]int{}
	var np, npt []string
	for i := range cur.Ops {
		if cur.Ops[i].K != "get" {
			continue
		}
		if _, ok := used[cur.Ops[i].Q]; !ok {
			used[cur.Ops[i].Q] = len(np)
			np = append(np, cur.Pool[cur.Ops[i].Q])
			npt = append(npt, cur.PoolText[cur.Ops[i].Q])
		}
	}
	cand := cur
	cand.Ops = append([]opT(nil), cur.Ops...)
	for i := range cand.Ops {
		if cand.Ops[i].K == "get" {
			cand.Ops[i].Q = used[cand.Ops[i].Q]
		}
	}
	cand.Pool, cand.PoolText = np, npt
	deadline = time.Now().Add(5 * time.Second)
	if d2 := still(&cand); d2 != nil {
		cur, curD = cand, d2
	}
	return cur, curD
}

// ---------------------------------------------------------------- generation

func varsText(m map[string]interface{}) string {
	if m == nil {
		return ""
	}
	b, _ := json.Marshal(m)
	return string(b)
}

type genPool struct {
	entries []poolEntry
}

func genHistory(r *hx.Rng, thorough bool) (historyT, *genPool) {
	h := historyT{}
	switch r.Intn(10) {
	case 0, 1, 2, 3, 4, 5:
		h.Mode = "raw"
	case 6, 7:
		h.Mode = "norm-safe"
	default:
		h.Mode = "norm-any"
	}
	h.MaxEntries = []int{1, 2, 3, 1, 2, 3, 5, 0, -1}[r.Intn(9)]
	h.MaxBytes = []int{0, 0, 0, -5, 40, 64}[r.Intn(6)]
	h.Nil = r.Chance(1, 25)

	// pool: 3..15 near-miss pairs drawn from the families
	fams := families()
	gp := &genPool{}
	want := r.Range(6, 30)
	for len(gp.entries) < want {
		f := fams[r.Intn(len(fams))]
		a := r.Intn(len(f))
		b := (a + 1 + r.Intn(len(f)-1)) % len(f)
		for _, e := range []poolEntry{f[a], f[b]} {
			if h.Mode == "norm-safe" && !e.Safe {
				continue
			}
			gp.entries = append(gp.entries, e)
		}
	}
	if r.Chance(1, 3) { // an over-size twin of a pool member
		e := gp.entries[r.Intn(len(gp.entries))]
		limit := h.MaxBytes
		if limit <= 0 {
			limit = 64 * 1024
		}
		if limit < 1000 || r.Chance(1, 6) {
			e.Q = padTo(e.Q, limit+1+r.Intn(3))
			e.oversze = true
			e.Family = "oversize"
			gp.entries = append(gp.entries, e)
			if limit < 1000 { // and one exactly at the limit
				e2 := e
				e2.Q = padTo(gp.entries[0].Q, limit)
				e2.Ops, e2.Vars, e2.Safe = gp.entries[0].Ops, gp.entries[0].Vars, gp.entries[0].Safe
				gp.entries = append(gp.entries, e2)
			}
		}
	}
	for _, e := range gp.entries {
		h.Pool = append(h.Pool, hex.EncodeToString([]byte(e.Q)))
		h.PoolText = append(h.PoolText, fmt.Sprintf("%q", e.Q))
	}

	maxLen := 40
	if thorough {
		maxLen = 400
	}
	n := r.Range(4, maxLen)
	// a working set smaller than the pool makes hits likely; it drifts
	hot := []int{}
	for i := 0; i < r.Range(1, 4); i++ {
		hot = append(hot, r.Intn(len(gp.entries)))
	}
	var gets []int // IDs of gets so far
	for id := 0; id < n; id++ {
		x := r.Intn(100)
		switch {
		case x < 4:
			h.Ops = append(h.Ops, opT{ID: id, K: "reset"})
		case x < 10:
			h.Ops = append(h.Ops, opT{ID: id, K: "replace", Slot: r.Intn(2)})
		case x < 25 && len(gets) > 0:
			ref := gets[r.Intn(len(gets))]
			var e poolEntry
			for _, o := range h.Ops {
				if o.ID == ref {
					e = gp.entries[o.Q]
				}
			}
			h.Ops = append(h.Ops, opT{ID: id, K: "exec", Ref: ref, Vars: varsText(e.Vars[r.Intn(len(e.Vars))])})
		default:
			var qi int
			if r.Chance(3, 4) {
				qi = hot[r.Intn(len(hot))]
			} else {
				qi = r.Intn(len(gp.entries))
				hot[r.Intn(len(hot))] = qi
			}
			e := gp.entries[qi]
			opn := e.Ops[r.Intn(len(e.Ops))]
			if r.Chance(1, 12) && h.Mode != "norm-safe" {
				opn = oddOpNames[r.Intn(len(oddOpNames))]
			}
			slot := 0
			if r.Chance(1, 4) {
				slot = 1
			}
			h.Ops = append(h.Ops, opT{ID: id, K: "get", Slot: slot, Q: qi, Op: hex.EncodeToString([]byte(opn)), Vars: varsText(e.Vars[r.Intn(len(e.Vars))])})
			gets = append(gets, id)
		}
	}
	return h, gp
}

// defaultCapHistory fills a cache with the default capacity past 1024 entries and comes back to the oldest ones.
func defaultCapHistory(mode string) historyT {
	h := historyT{Mode: mode, MaxEntries: 0, MaxBytes: 0, KeysFinal: true}
	n := 1030
	for i := 0; i < n; i++ {
		q := fmt.Sprintf("{ tag x%d: echo(i: %d) }", i, i)
		h.Pool = append(h.Pool, hex.EncodeToString([]byte(q)))
		h.PoolText = append(h.PoolText, fmt.Sprintf("%q", q))
		h.Ops = append(h.Ops, opT{ID: i, K: "get", Q: i})
	}
	id := n
	for _, qi := range []int{1029, 0, 5, 6, 7, 1029, 3} { // hit, miss (evicted), miss, hit (6 survived: 1030+2-1024 = 8 evicted… the model decides), …
		h.Ops = append(h.Ops, opT{ID: id, K: "get", Q: qi})
		id++
	}
	return h
}

// familyHistory serves EVERY member of one family through a normalising cache, deterministically: per member and per
// (operation name, variable assignment) a Get (miss), the same Get again (hit), a re-execution of the first plan; then all
// members once more (hits with the default capacity; with a small capacity the members evict each other and miss again).
func familyHistory(fam string, maxEntries int) historyT {
	h := historyT{Mode: "norm-safe", MaxEntries: maxEntries}
	var members []poolEntry
	for _, f := range families() {
		for _, e := range f {
			if e.Family == fam {
				members = append(members, e)
			}
		}
	}
	for _, e := range members {
		h.Pool = append(h.Pool, hex.EncodeToString([]byte(e.Q)))
		h.PoolText = append(h.PoolText, fmt.Sprintf("%q", e.Q))
	}
	id := 0
	add := func(o opT) int { o.ID = id; id++; h.Ops = append(h.Ops, o); return o.ID }
	for round := 0; round < 2; round++ {
		for qi, e := range members {
			for _, opn := range e.Ops {
				for _, vars := range e.Vars {
					g := opT{K: "get", Q: qi, Op: hex.EncodeToString([]byte(opn)), Vars: varsText(vars)}
					first := add(g)
					if round == 0 {
						add(g)
						add(opT{K: "exec", Ref: first, Vars: varsText(vars)})
					}
				}
			}
		}
	}
	return h
}

// ---------------------------------------------------------------- probes of the recorded normaliser defects

type probe struct {
	Class, First, Second string
	Vars                 map[string]interface{}
}

// runProbes replays the inputs of D-06b…e (and the unextracted-string collision) against a normalising cache and
// reports, per class, whether the defect still reproduces. Informational: no effect on the verdict.
func runProbes() map[string]interface{} {
	out := map[string]interface{}{}
	probes := []probe{
		{"D-06b normDirective", `{ tag @skip(if: true) echo(i: 1) }`, `{ tag echo(i: 1) }`, nil},
		{"D-06b' normDirectiveArgument (N2)", `{ tag @skip(if: 1) }`, `{ tag @skip(if: false) }`, nil},
		{"D-06c normVarDefault", `query Q($x: Int = 1) { echo(i: $x) }`, `query Q($x: Int = 2) { echo(i: $x) }`, nil},
		{"D-06d normEnumOrCustomLiteral", ``, `{ echo(e: GREEN) }`, nil},
		{"D-06d' normInputObjectLiteral", ``, `{ echo(o: {y: 1}) }`, nil},
		{"D-06e normRepeatedKeyWithLiteral", ``, `{ echo(i: 3) echo(i: 3) }`, nil},
		{"D-06f normSynthNameClash", ``, `query Q($__pcv0: Int) { echo(i: $__pcv0, s: "x") }`, map[string]interface{}{"__pcv0": 5}},
		{"D-06h normInvalidNestedLiteral", ``, `{ echo(l: ["5"]) }`, nil},
		{"D-06h' normInvalidNestedLiteral (input object field)", ``, `{ echo(o: {x: true}) }`, nil},
		{"D-06i normMinusZeroID", ``, `{ echo(id: -0) }`, nil},
		{"D-06j normUndefinedVariableCaptured", ``, `{ a: echo(s: $__pcv0) b: echo(s: "x") }`, nil},
		{"D-06k normKeyHashCollision", `{ ...F } fragment F on Query { echo(s: "aajhm2hohpupn") }`, `{ ...F } fragment F on Query { echo(s: "iqrpsqnyk2khb") }`, nil},
		{"D-06l normKeyIgnoresUnselectedDefinitions", `query A { tag } query B { tag }`, `query A { tag } query B { nope }`, nil},
		{"D-06l' normKeyIgnoresUnselectedDefinitions (cached error served to a valid request)", `query A { tag } query B { echo(s: 1) }`, `query A { tag } query B { echo(s: "1") }`, nil},
		{"D-06g normUnextractedString", `{ node(id: 2) { ... on Item { name(prefix: "1,sep=s2") } } }`, `{ node(id: 2) { ... on Item { name(prefix: "1", sep: "2") } } }`, nil},
	}
	for _, p := range probes {
		s := newSchema("A0")
		c := graphql.NewPlanCache(graphql.PlanCacheOptions{Normalize: true})
		opn := ""
		if strings.HasPrefix(p.Second, "query Q") {
			opn = "Q"
		} else if strings.HasPrefix(p.Second, "query A") {
			opn = "A"
		}
		rec := map[string]interface{}{"first": p.First, "second": p.Second}
		func() {
			defer func() {
				if r := recover(); r != nil {
					rec["panic"] = fmt.Sprint(r)
				}
			}()
			if p.First != "" {
				c.Get(s, p.First, opn)
			}
			pr := c.Get(s, p.Second, opn)
			var got string
			if pr.Plan != nil {
				got = resultJSON(graphql.ExecutePlan(pr.Plan, graphql.ExecuteParams{Schema: *s, Args: mergeArgs(p.Vars, pr.SynthArgs)}))
			} else {
				got = errorsJSON(pr.Errors)
			}
			want := resultJSON(graphql.Do(graphql.Params{Schema: *s, RequestString: p.Second, OperationName: opn, VariableValues: p.Vars}))
			h, m := c.HitsMisses()
			rec["observed"], rec["expected"], rec["reproduces"], rec["hits_misses"] = got, want, got != want, []uint64{h, m}
		}()
		out[p.Class] = rec
	}
	return out
}

// ---------------------------------------------------------------- main

func main() {
	debug.SetGCPercent(400) // validation allocates heavily; the default GC pacing doubles the wall time
	run := hx.Begin("C06")
	drv, err := hx.StartDriver(run.DriverBin)
	if err != nil {
		run.CheckError("cannot start driver: " + err.Error())
		run.Finish()
		return
	}
	defer drv.Close()
	detectKeyModes()
	run.Res.Extra["key_mode"] = map[string]string{"normalised_document": keyMode, "key_shape": keyShape}
	run.Tag("key:" + keyMode + "/" + keyShape)
	run.Res.Rule = "histories of Get / ExecutePlan / Reset / schema replacement (two slots, same shape, new pointer per replacement) over a pool of 6-30 requests drawn as near-miss pairs from seventeen families (abstractMerge: one plan executed against different data — node(id: $x) is a Person or an Item depending on the variable (or, normalised, on a literal), a fragment on the interface and inline fragments on its members select the same response key with different sub-selections, one fragment spread at two places one of which only one runtime type reaches; also served member by member with every variable assignment in turn in four fixed histories —, dedupeCollision: two or more different literals of one list / input-object / enum-list argument type in one operation whose coerced Go values have the same fmt %v text, next to equal literals and different spellings of one value — also served member by member in two fixed histories —, duplicate input-object field names inside extractable literals at any depth, one response key with literal arguments in the operation and in a fragment it spreads, second spread of a fragment already spread elsewhere present / absent / with a directive, definitions the selected operation does not reach, equal literals under every wrapper shape of one input type, list / input-object literals for resolvers that mutate their arguments, one literal, one alias, argument order/name, operation names, text imitating the key encodings incl. \\x00 and multi-byte, variables + dynamic directives, object/list/interface/union/fragment shapes, rejected requests, formerly normaliser-unsafe shapes D-06b…g), caps {1,2,3,5,default}, MaxQueryBytes {default,40,64} with over-size and at-limit twins, nil cache 1/25; modes raw 60% / Normalize=true 40% (norm-safe, norm-any = with adversarial operation names); non-trivial = the history has a hit and at least one of eviction, schema-guard miss, reset, bypass, re-execution of a stale plan; distinct by the whole history"
	run.Res.Rule += " || interleaved Gets: a complete Get (and a third one inside it) nested between the lookup and the store of another Get through a custom scalar's ParseLiteral hook; all of Normalize on/off x caps {1,2,default} x nested Get on the same / the other schema pointer x same / other key x pre-populated entry (none, other schema same key, same schema other key) x third Get (none, A, B) x a sibling Get for the other request inside the outer one x which schema asks first afterwards; compared with the model run on the same lookup/store primitives (hit/miss, which Get's plan a hit returns, key list in MRU order + length + counters whenever no Get is in flight) and with graphql.Do on the request's own schema"
	run.Res.Assumptions = []string{
		"Normalize=true is compared with graphql.Do on every history and every pool (the shapes that exhibited D-06b…g are part of the pool since their repair); mode norm-any differs from norm-safe only by also drawing adversarial operation names",
		"the response comparison is byte equality of json.Marshal(result) (data and errors with messages, locations, paths) between ExecutePlan(plan from the cache, args ∪ SynthArgs) and graphql.Do on the same schema object",
	}

	one := func(h historyT, sample bool) *divT {
		st := stepStats{}
		d, err := runHistory(&h, drv, &st, true)
		if err != nil {
			run.CheckError(err.Error())
			return nil
		}
		run.Tag("mode:" + h.Mode)
		run.Tag(fmt.Sprintf("cap:%d", h.MaxEntries))
		if h.Nil {
			run.Tag("nil-cache")
		}
		for tag, n := range map[string]int{"step:hit": st.hits, "step:miss": st.misses, "step:bypass-or-nolookup": st.bypass, "step:eviction": st.evictions,
			"step:schema-guard-miss": st.guardMisses, "step:reset": st.resets, "step:replace": st.replaces, "step:exec": st.execs, "step:exec-of-stale-schema-plan": st.execStale,
			"step:error-result": st.errResults, "step:plan-result": st.planResults, "step:plan-executed-with-other-variables-than-before": st.otherData,
			"dedupeCollision:normalised-request-with-two-different-literals-of-equal-%v-text": st.collReqs, "dedupeCollision:pairs-of-such-literals": st.collPairs} {
			run.Res.Histogram[tag] += n
		}
		nontrivial := st.hits > 0 && (st.evictions+st.guardMisses+st.resets+st.bypass+st.execStale > 0)
		var smp interface{}
		if sample {
			smp = map[string]interface{}{"mode": h.Mode, "cap": h.MaxEntries, "maxBytes": h.MaxBytes, "ops": len(h.Ops), "pool": len(h.Pool),
				"hits": st.hits, "misses": st.misses, "evictions": st.evictions, "guardMisses": st.guardMisses}
		}
		run.Case(hx.Canon(h), nontrivial, smp)
		steps, _ := run.Res.Extra["steps"].(int)
		run.Res.Extra["steps"] = steps + st.steps
		if d != nil {
			sh, sd := shrink(h, d, drv, time.Duration(run.N(12, 60))*time.Second)
			run.Violation(sd.Note+" ["+sd.Kind+"]", map[string]interface{}{"history": sh, "divergence": sd, "original_ops": len(h.Ops)}, false)
		}
		return d
	}

	if run.ReplayIn != "" {
		var rp struct {
			History historyT   `json:"history"`
			Nested  *nestedScn `json:"nested"`
		}
		if err := hx.LoadReplay(run.ReplayIn, &rp); err != nil {
			run.CheckError(err.Error())
		} else if rp.Nested != nil {
			oneNested(run, drv, *rp.Nested)
		} else {
			one(rp.History, true)
		}
		run.Finish()
		return
	}

	run.Res.Extra["probes_known_normaliser_defects"] = runProbes()

	// interleaved Gets (a Get nested inside a Get between its lookup and its store): the whole scenario space
	for _, sc := range nestedScenarios() {
		if run.TooManyViolations() {
			break
		}
		oneNested(run, drv, sc)
	}

	// every member of the family dedupeCollision through a normalising cache (default capacity: second round hits; capacity 2:
	// the members evict each other), before the random histories so that the family runs whatever the seed draws
	for _, capN := range []int{0, 2} {
		if run.TooManyViolations() {
			break
		}
		one(familyHistory("dedupeCollision", capN), false)
		run.Tag("special:dedupeCollision-every-member")
	}

	// every member of the family abstractMerge with every variable assignment in turn (one plan meets Person, Item, Person …):
	// raw and normalising caches, default capacity (second round hits) and capacity 2
	for _, mode := range []string{"raw", "norm-safe"} {
		for _, capN := range []int{0, 2} {
			if run.TooManyViolations() {
				break
			}
			h := familyHistory("abstractMerge", capN)
			h.Mode = mode
			one(h, false)
			run.Tag("special:abstractMerge-every-member")
		}
	}

	n := run.N(1500, 5000)
	for i := 0; i < n && !run.TooManyViolations(); i++ {
		r := hx.Fork(run.Seed, i)
		h, gp := genHistory(r, run.Thorough())
		one(h, true)
		seen := map[string]bool{}
		for _, e := range gp.entries {
			if !seen[e.Family] {
				seen[e.Family] = true
				run.Tag("family:" + e.Family)
				if e.Family == "dedupeCollision" && h.Mode != "raw" {
					run.Tag("dedupeCollision:random-history-normalising")
				}
			}
		}
	}
	// the default capacity: fill past 1024 entries and come back to the oldest ones (long; only when all is well so far)
	if len(run.Res.Violations) == 0 {
		for _, mode := range []string{"raw", "norm-safe"} {
			one(defaultCapHistory(mode), false)
			run.Tag("special:default-cap-boundary")
		}
	}
	run.Res.Extra["normaliser_model_comparisons_distinct"] = len(normMemo)
	run.Finish()
}
