package main

import (
	"encoding/hex"

	"github.com/graphql-go/graphql/language/ast"
)

// Conversion of a (normalised) document to the JSON form of the Lean model's fingerprint AST
// (GqlModel.PlanCache.Fp). Everything the Go writer could look at is passed, including the parts it
// skips (directives, default values); the model decides what participates.

type jmap = map[string]interface{}

func hx_(s string) string { return hex.EncodeToString([]byte(s)) }

func fpType(t ast.Type) interface{} {
	switch tt := t.(type) {
	case *ast.NonNull:
		return jmap{"nn": fpType(tt.Type)}
	case *ast.List:
		return jmap{"l": fpType(tt.Type)}
	case *ast.Named:
		if tt != nil && tt.Name != nil {
			return jmap{"n": hx_(tt.Name.Value)}
		}
	}
	return jmap{"n": ""}
}

func fpValue(v ast.Value) interface{} {
	switch n := v.(type) {
	case *ast.Variable:
		return jmap{"k": "var", "v": hx_(n.Name.Value)}
	case *ast.IntValue:
		return jmap{"k": "int", "v": hx_(n.Value)}
	case *ast.FloatValue:
		return jmap{"k": "float", "v": hx_(n.Value)}
	case *ast.StringValue:
		return jmap{"k": "str", "v": hx_(n.Value)}
	case *ast.BooleanValue:
		return jmap{"k": "bool", "b": n.Value}
	case *ast.EnumValue:
		return jmap{"k": "enum", "v": hx_(n.Value)}
	case *ast.ListValue:
		vs := []interface{}{}
		for _, x := range n.Values {
			vs = append(vs, fpValue(x))
		}
		return jmap{"k": "list", "vs": vs}
	case *ast.ObjectValue:
		fs := []interface{}{}
		for _, f := range n.Fields {
			fs = append(fs, []interface{}{hx_(f.Name.Value), fpValue(f.Value)})
		}
		return jmap{"k": "obj", "fs": fs}
	}
	return jmap{"k": "unsupported"}
}

func fpArgs(args []*ast.Argument) []interface{} {
	out := []interface{}{}
	for _, a := range args {
		out = append(out, []interface{}{hx_(a.Name.Value), fpValue(a.Value)})
	}
	return out
}

func fpDirs(ds []*ast.Directive) []interface{} {
	out := []interface{}{}
	for _, d := range ds {
		out = append(out, jmap{"name": hx_(d.Name.Value), "args": fpArgs(d.Arguments)})
	}
	return out
}

func fpSels(ss *ast.SelectionSet, count *int) []interface{} {
	out := []interface{}{}
	if ss == nil {
		return out
	}
	for _, s := range ss.Selections {
		*count++
		switch n := s.(type) {
		case *ast.Field:
			f := jmap{"k": "field", "name": hx_(n.Name.Value), "args": fpArgs(n.Arguments), "dirs": fpDirs(n.Directives)}
			if n.Alias != nil {
				f["alias"] = hx_(n.Alias.Value)
			}
			if n.SelectionSet != nil {
				f["sub"] = fpSels(n.SelectionSet, count)
			}
			out = append(out, f)
		case *ast.InlineFragment:
			f := jmap{"k": "inline", "dirs": fpDirs(n.Directives), "sub": fpSels(n.SelectionSet, count)}
			if n.TypeCondition != nil && n.TypeCondition.Name != nil {
				f["tc"] = hx_(n.TypeCondition.Name.Value)
			}
			out = append(out, f)
		case *ast.FragmentSpread:
			out = append(out, jmap{"k": "spread", "name": hx_(n.Name.Value), "dirs": fpDirs(n.Directives)})
		}
	}
	return out
}

// fpRequest builds the driver request for the operation `opName` selects in doc (same selection rule as
// normalizeDocument); ok=false if no operation is selected.
func fpRequest(doc *ast.Document, opName string) (req jmap, ok bool) {
	var op *ast.OperationDefinition
	frags := []interface{}{}
	count := 0
	for _, def := range doc.Definitions {
		switch d := def.(type) {
		case *ast.OperationDefinition:
			if opName == "" || (d.GetName() != nil && d.GetName().Value == opName) {
				op = d
			}
		case *ast.FragmentDefinition:
			if d.Name == nil {
				continue
			}
			tc := ""
			if d.TypeCondition != nil && d.TypeCondition.Name != nil {
				tc = d.TypeCondition.Name.Value
			}
			frags = append(frags, jmap{"name": hx_(d.Name.Value), "tc": hx_(tc), "dirs": fpDirs(d.Directives), "sel": fpSels(d.SelectionSet, &count)})
		}
	}
	if op == nil {
		return nil, false
	}
	vds := []interface{}{}
	for _, vd := range op.VariableDefinitions {
		v := jmap{"name": hx_(vd.Variable.Name.Value), "type": fpType(vd.Type)}
		if vd.DefaultValue != nil {
			v["default"] = fpValue(vd.DefaultValue)
		}
		vds = append(vds, v)
	}
	o := jmap{"operation": hx_(op.Operation), "varDefs": vds, "dirs": fpDirs(op.Directives), "sel": fpSels(op.SelectionSet, &count)}
	return jmap{"fp": jmap{"frags": frags, "op": o, "opName": hx_(opName), "fuel": 2*count + 16}}, true
}
