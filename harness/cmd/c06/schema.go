package main

import (
	"encoding/json"
	"errors"
	"fmt"
	"strings"

	"github.com/graphql-go/graphql"

	"verif/harness/gq"
)

// newSchema builds the test schema. Every slot/generation gets its own *graphql.Schema (new pointer, same
// shape); every resolver output carries `tag`, so a plan that belongs to another schema object answers
// visibly differently. Resolvers are stateless and echo their arguments.
//
//	enum Color { RED GREEN BLUE }            (internal values "R","G","B")
//	input Pt { x: Int = 7, y: Int }
//	interface Node { id: Int  kind: String  owner: Person }
//	type Item implements Node { id kind name(prefix: String, sep: String): String tags(first: Int): [String] next: Item owner: Person }
//	type Person implements Node { id kind nick(suffix: String): String owner: Person }
//	union Thing = Item | Person
//	input Nest { p: Pt, l: [Int], ps: [Pt], ll: [[Int]] }
//	type Query { tag echo(s,i,f,b,l,e,o,id) mut(o: Pt, l: [Int], ll: [[Int]], os: [Pt], n: Nest) item(id) items(n, from) node(id) things(n) fail(msg) }
//	enum Mood { HAPPY SAD BOTH } (internal "h","s","h s")   input Pair { a: String, b: String }
//	Query.coll / Query.coll2 / Item.coll (ss: [String], sr: [String!], sss: [[String]], ids: [ID], p: Pair, ps: [Pair], ms: [Mood], fs: [Float], f, id, s)
//	(Item has mut too.)  echo and mut MUTATE the argument values they received, at every nesting level, after
//	computing their answer: a plan that shares pre-coerced literal arguments between executions shows the residue.
//	type Mutation { bump(by: Int): String }
func newSchema(tag string) *graphql.Schema {
	type item struct{ id int }
	type person struct{ id int }

	color := graphql.NewEnum(graphql.EnumConfig{Name: "Color", Values: graphql.EnumValueConfigMap{
		"RED": &graphql.EnumValueConfig{Value: "R"}, "GREEN": &graphql.EnumValueConfig{Value: "G"}, "BLUE": &graphql.EnumValueConfig{Value: "B"},
	}})
	pt := graphql.NewInputObject(graphql.InputObjectConfig{Name: "Pt", Fields: graphql.InputObjectConfigFieldMap{
		"x": &graphql.InputObjectFieldConfig{Type: graphql.Int, DefaultValue: 7},
		"y": &graphql.InputObjectFieldConfig{Type: graphql.Int},
	}})
	nest := graphql.NewInputObject(graphql.InputObjectConfig{Name: "Nest", Fields: graphql.InputObjectConfigFieldMap{
		"p":  &graphql.InputObjectFieldConfig{Type: pt},
		"l":  &graphql.InputObjectFieldConfig{Type: graphql.NewList(graphql.Int)},
		"ps": &graphql.InputObjectFieldConfig{Type: graphql.NewList(pt)},
		"ll": &graphql.InputObjectFieldConfig{Type: graphql.NewList(graphql.NewList(graphql.Int))},
	}})
	mutArgs := graphql.FieldConfigArgument{
		"o": &graphql.ArgumentConfig{Type: pt}, "l": &graphql.ArgumentConfig{Type: graphql.NewList(graphql.Int)},
		"ll": &graphql.ArgumentConfig{Type: graphql.NewList(graphql.NewList(graphql.Int))},
		"os": &graphql.ArgumentConfig{Type: graphql.NewList(pt)}, "n": &graphql.ArgumentConfig{Type: nest},
	}
	// Mood's internal values are chosen so that two different lists of them print alike under fmt %v ([BOTH] and
	// [HAPPY, SAD] are both "[h s]"); Pair has String fields for the same reason ({a: "1 b:2"} / {a: "1", b: "2"}).
	mood := graphql.NewEnum(graphql.EnumConfig{Name: "Mood", Values: graphql.EnumValueConfigMap{
		"HAPPY": &graphql.EnumValueConfig{Value: "h"}, "SAD": &graphql.EnumValueConfig{Value: "s"}, "BOTH": &graphql.EnumValueConfig{Value: "h s"},
	}})
	pair := graphql.NewInputObject(graphql.InputObjectConfig{Name: "Pair", Fields: graphql.InputObjectConfigFieldMap{
		"a": &graphql.InputObjectFieldConfig{Type: graphql.String},
		"b": &graphql.InputObjectFieldConfig{Type: graphql.String},
	}})
	collArgs := graphql.FieldConfigArgument{
		"ss": &graphql.ArgumentConfig{Type: graphql.NewList(graphql.String)}, "sr": &graphql.ArgumentConfig{Type: graphql.NewList(graphql.NewNonNull(graphql.String))},
		"sss": &graphql.ArgumentConfig{Type: graphql.NewList(graphql.NewList(graphql.String))}, "ids": &graphql.ArgumentConfig{Type: graphql.NewList(graphql.ID)},
		"p": &graphql.ArgumentConfig{Type: pair}, "ps": &graphql.ArgumentConfig{Type: graphql.NewList(pair)},
		"ms": &graphql.ArgumentConfig{Type: graphql.NewList(mood)}, "fs": &graphql.ArgumentConfig{Type: graphql.NewList(graphql.Float)},
		"f": &graphql.ArgumentConfig{Type: graphql.Float}, "id": &graphql.ArgumentConfig{Type: graphql.ID}, "s": &graphql.ArgumentConfig{Type: graphql.String},
	}
	// answer first, then scribble over everything that was received
	echoAndMutate := func(p graphql.ResolveParams) (interface{}, error) {
		b, err := json.Marshal(p.Args) // sorted keys
		if err != nil {
			return nil, err
		}
		mutateDeep(p.Args)
		return tag + ":" + string(b), nil
	}
	idOf := func(v interface{}) int {
		switch x := v.(type) {
		case item:
			return x.id
		case person:
			return x.id
		}
		return -1
	}
	var itemT, personT *graphql.Object
	node := graphql.NewInterface(graphql.InterfaceConfig{Name: "Node",
		Fields: graphql.FieldsThunk(func() graphql.Fields {
			return graphql.Fields{"id": &graphql.Field{Type: graphql.Int}, "kind": &graphql.Field{Type: graphql.String}, "owner": &graphql.Field{Type: personT}}
		}),
		ResolveType: func(p graphql.ResolveTypeParams) *graphql.Object {
			if _, ok := p.Value.(item); ok {
				return itemT
			}
			return personT
		}})
	strArg := func(p graphql.ResolveParams, k string) string {
		if v, ok := p.Args[k]; ok && v != nil {
			return fmt.Sprint(v)
		}
		return "~"
	}
	personT = graphql.NewObject(graphql.ObjectConfig{Name: "Person", Interfaces: []*graphql.Interface{node},
		Fields: graphql.FieldsThunk(func() graphql.Fields {
			return graphql.Fields{
				"id":   &graphql.Field{Type: graphql.Int, Resolve: func(p graphql.ResolveParams) (interface{}, error) { return idOf(p.Source), nil }},
				"kind": &graphql.Field{Type: graphql.String, Resolve: func(p graphql.ResolveParams) (interface{}, error) { return tag + ":person", nil }},
				"nick": &graphql.Field{Type: graphql.String, Args: graphql.FieldConfigArgument{"suffix": &graphql.ArgumentConfig{Type: graphql.String}},
					Resolve: func(p graphql.ResolveParams) (interface{}, error) {
						return fmt.Sprintf("%s:p%d%s", tag, idOf(p.Source), strArg(p, "suffix")), nil
					}},
				// a composite field that the interface has too (family abstractMerge): whoever a person belongs to
				"owner": &graphql.Field{Type: personT, Resolve: func(p graphql.ResolveParams) (interface{}, error) { return person{idOf(p.Source)*10 + 1}, nil }},
			}
		})})
	itemT = graphql.NewObject(graphql.ObjectConfig{Name: "Item", Interfaces: []*graphql.Interface{node},
		Fields: graphql.FieldsThunk(func() graphql.Fields {
			return graphql.Fields{
				"id":   &graphql.Field{Type: graphql.Int, Resolve: func(p graphql.ResolveParams) (interface{}, error) { return idOf(p.Source), nil }},
				"kind": &graphql.Field{Type: graphql.String, Resolve: func(p graphql.ResolveParams) (interface{}, error) { return tag + ":item", nil }},
				"name": &graphql.Field{Type: graphql.String,
					Args: graphql.FieldConfigArgument{"prefix": &graphql.ArgumentConfig{Type: graphql.String}, "sep": &graphql.ArgumentConfig{Type: graphql.String}},
					Resolve: func(p graphql.ResolveParams) (interface{}, error) {
						return fmt.Sprintf("%s:%s|%s|i%d", tag, strArg(p, "prefix"), strArg(p, "sep"), idOf(p.Source)), nil
					}},
				"tags": &graphql.Field{Type: graphql.NewList(graphql.String), Args: graphql.FieldConfigArgument{"first": &graphql.ArgumentConfig{Type: graphql.Int, DefaultValue: 2}},
					Resolve: func(p graphql.ResolveParams) (interface{}, error) {
						n, _ := p.Args["first"].(int)
						if n < 0 || n > 8 {
							return nil, errors.New("first out of range")
						}
						out := []interface{}{}
						for i := 0; i < n; i++ {
							out = append(out, fmt.Sprintf("t%d.%d", idOf(p.Source), i))
						}
						return out, nil
					}},
				"mut":   &graphql.Field{Type: graphql.String, Args: mutArgs, Resolve: echoAndMutate},
				"coll":  &graphql.Field{Type: graphql.String, Args: collArgs, Resolve: echoAndMutate},
				"next":  &graphql.Field{Type: itemT, Resolve: func(p graphql.ResolveParams) (interface{}, error) { return item{idOf(p.Source) + 1}, nil }},
				"owner": &graphql.Field{Type: personT, Resolve: func(p graphql.ResolveParams) (interface{}, error) { return person{idOf(p.Source) * 10}, nil }},
			}
		})})
	thing := graphql.NewUnion(graphql.UnionConfig{Name: "Thing", Types: []*graphql.Object{itemT, personT},
		ResolveType: func(p graphql.ResolveTypeParams) *graphql.Object {
			if _, ok := p.Value.(item); ok {
				return itemT
			}
			return personT
		}})
	intArg := func(p graphql.ResolveParams, k string, def int) int {
		if v, ok := p.Args[k].(int); ok {
			return v
		}
		return def
	}
	mkNode := func(id int) interface{} {
		if id%2 == 0 {
			return item{id}
		}
		return person{id}
	}
	query := graphql.NewObject(graphql.ObjectConfig{Name: "Query", Fields: graphql.Fields{
		"tag": &graphql.Field{Type: graphql.String, Resolve: func(p graphql.ResolveParams) (interface{}, error) { return tag, nil }},
		"echo": &graphql.Field{Type: graphql.String, Args: graphql.FieldConfigArgument{
			"s": &graphql.ArgumentConfig{Type: graphql.String}, "i": &graphql.ArgumentConfig{Type: graphql.Int},
			"f": &graphql.ArgumentConfig{Type: graphql.Float}, "b": &graphql.ArgumentConfig{Type: graphql.Boolean},
			"l": &graphql.ArgumentConfig{Type: graphql.NewList(graphql.Int)}, "e": &graphql.ArgumentConfig{Type: color},
			"o": &graphql.ArgumentConfig{Type: pt}, "id": &graphql.ArgumentConfig{Type: graphql.ID},
		}, Resolve: echoAndMutate},
		"mut": &graphql.Field{Type: graphql.String, Args: mutArgs, Resolve: echoAndMutate},
		// list / input-object arguments over strings (family dedupeCollision): different literals of one type whose coerced Go
		// values have the same fmt %v text must still reach their own resolver
		"coll":  &graphql.Field{Type: graphql.String, Args: collArgs, Resolve: echoAndMutate},
		"coll2": &graphql.Field{Type: graphql.String, Args: collArgs, Resolve: echoAndMutate},
		// one named input type under every wrapper shape: equal literals at these positions must not share a variable
		"opt":     &graphql.Field{Type: graphql.String, Args: graphql.FieldConfigArgument{"v": &graphql.ArgumentConfig{Type: graphql.Int}}, Resolve: echoAndMutate},
		"req":     &graphql.Field{Type: graphql.String, Args: graphql.FieldConfigArgument{"v": &graphql.ArgumentConfig{Type: graphql.NewNonNull(graphql.Int)}}, Resolve: echoAndMutate},
		"list":    &graphql.Field{Type: graphql.String, Args: graphql.FieldConfigArgument{"vs": &graphql.ArgumentConfig{Type: graphql.NewList(graphql.Int)}}, Resolve: echoAndMutate},
		"listReq": &graphql.Field{Type: graphql.String, Args: graphql.FieldConfigArgument{"vs": &graphql.ArgumentConfig{Type: graphql.NewList(graphql.NewNonNull(graphql.Int))}}, Resolve: echoAndMutate},
		"reqList": &graphql.Field{Type: graphql.String, Args: graphql.FieldConfigArgument{"vs": &graphql.ArgumentConfig{Type: graphql.NewNonNull(graphql.NewList(graphql.Int))}}, Resolve: echoAndMutate},
		"nested":  &graphql.Field{Type: graphql.String, Args: graphql.FieldConfigArgument{"vs": &graphql.ArgumentConfig{Type: graphql.NewList(graphql.NewList(graphql.Int))}}, Resolve: echoAndMutate},
		"optPt":   &graphql.Field{Type: graphql.String, Args: graphql.FieldConfigArgument{"p": &graphql.ArgumentConfig{Type: pt}}, Resolve: echoAndMutate},
		"reqPt":   &graphql.Field{Type: graphql.String, Args: graphql.FieldConfigArgument{"p": &graphql.ArgumentConfig{Type: graphql.NewNonNull(pt)}}, Resolve: echoAndMutate},
		"listPt":  &graphql.Field{Type: graphql.String, Args: graphql.FieldConfigArgument{"ps": &graphql.ArgumentConfig{Type: graphql.NewList(graphql.NewNonNull(pt))}}, Resolve: echoAndMutate},
		"item": &graphql.Field{Type: itemT, Args: graphql.FieldConfigArgument{"id": &graphql.ArgumentConfig{Type: graphql.Int}},
			Resolve: func(p graphql.ResolveParams) (interface{}, error) { return item{intArg(p, "id", 0)}, nil }},
		"items": &graphql.Field{Type: graphql.NewList(itemT), Args: graphql.FieldConfigArgument{"n": &graphql.ArgumentConfig{Type: graphql.Int}, "from": &graphql.ArgumentConfig{Type: graphql.Int}},
			Resolve: func(p graphql.ResolveParams) (interface{}, error) {
				n, from := intArg(p, "n", 1), intArg(p, "from", 0)
				if n < 0 || n > 8 {
					return nil, errors.New("n out of range")
				}
				out := []interface{}{}
				for i := 0; i < n; i++ {
					out = append(out, item{from + i})
				}
				return out, nil
			}},
		"node": &graphql.Field{Type: node, Args: graphql.FieldConfigArgument{"id": &graphql.ArgumentConfig{Type: graphql.Int}},
			Resolve: func(p graphql.ResolveParams) (interface{}, error) { return mkNode(intArg(p, "id", 0)), nil }},
		"things": &graphql.Field{Type: graphql.NewList(thing), Args: graphql.FieldConfigArgument{"n": &graphql.ArgumentConfig{Type: graphql.Int}},
			Resolve: func(p graphql.ResolveParams) (interface{}, error) {
				n := intArg(p, "n", 2)
				if n < 0 || n > 8 {
					return nil, errors.New("n out of range")
				}
				out := []interface{}{}
				for i := 0; i < n; i++ {
					out = append(out, mkNode(i))
				}
				return out, nil
			}},
		"fail": &graphql.Field{Type: graphql.String, Args: graphql.FieldConfigArgument{"msg": &graphql.ArgumentConfig{Type: graphql.String}},
			Resolve: func(p graphql.ResolveParams) (interface{}, error) { return nil, errors.New(tag + ":" + strArg(p, "msg")) }},
	}})
	mutation := graphql.NewObject(graphql.ObjectConfig{Name: "Mutation", Fields: graphql.Fields{
		"bump": &graphql.Field{Type: graphql.String, Args: graphql.FieldConfigArgument{"by": &graphql.ArgumentConfig{Type: graphql.Int}},
			Resolve: func(p graphql.ResolveParams) (interface{}, error) { return fmt.Sprintf("%s:bump%d", tag, intArg(p, "by", 1)), nil }},
	}})
	s, err := graphql.NewSchema(graphql.SchemaConfig{Query: query, Mutation: mutation, Types: []graphql.Type{itemT, personT, thing, color, pt, nest, mood, pair}})
	if err != nil {
		panic("test schema does not build: " + err.Error())
	}
	return &s
}

// schemaDesc describes the schema of newSchema in the wire format the Lean drivers decode (GqlModel.Schema); it is what
// the model of the normaliser (GqlModel.Normalize) walks. Kept next to newSchema: the two must say the same.
func schemaDesc() *gq.SchemaDesc {
	a := func(name, typ string) gq.ArgDesc { return gq.ArgDesc{Name: name, Type: typ} }
	ad := func(name, typ string, d interface{}) gq.ArgDesc { return gq.ArgDesc{Name: name, Type: typ, Default: d, HasDef: true} }
	mutArgs := []gq.ArgDesc{a("o", "Pt"), a("l", "[Int]"), a("ll", "[[Int]]"), a("os", "[Pt]"), a("n", "Nest")}
	collArgs := []gq.ArgDesc{a("ss", "[String]"), a("sr", "[String!]"), a("sss", "[[String]]"), a("ids", "[ID]"), a("p", "Pair"), a("ps", "[Pair]"),
		a("ms", "[Mood]"), a("fs", "[Float]"), a("f", "Float"), a("id", "ID"), a("s", "String")}
	mutation := "Mutation"
	return &gq.SchemaDesc{Query: "Query", Mutation: &mutation, Types: []gq.TypeDesc{
		{Kind: "ENUM", Name: "Mood", Values: []gq.EnumValDesc{{Name: "HAPPY", Internal: "h"}, {Name: "SAD", Internal: "s"}, {Name: "BOTH", Internal: "h s"}}},
		{Kind: "INPUT_OBJECT", Name: "Pair", InputFields: []gq.ArgDesc{a("a", "String"), a("b", "String")}},
		{Kind: "ENUM", Name: "Color", Values: []gq.EnumValDesc{{Name: "RED", Internal: "R"}, {Name: "GREEN", Internal: "G"}, {Name: "BLUE", Internal: "B"}}},
		{Kind: "INPUT_OBJECT", Name: "Pt", InputFields: []gq.ArgDesc{ad("x", "Int", 7), a("y", "Int")}},
		{Kind: "INPUT_OBJECT", Name: "Nest", InputFields: []gq.ArgDesc{a("p", "Pt"), a("l", "[Int]"), a("ps", "[Pt]"), a("ll", "[[Int]]")}},
		{Kind: "INTERFACE", Name: "Node", ResolveType: true, Fields: []gq.FieldDesc{{Name: "id", Type: "Int"}, {Name: "kind", Type: "String"}, {Name: "owner", Type: "Person"}}},
		{Kind: "OBJECT", Name: "Person", Interfaces: []string{"Node"}, Fields: []gq.FieldDesc{
			{Name: "id", Type: "Int"}, {Name: "kind", Type: "String"}, {Name: "nick", Type: "String", Args: []gq.ArgDesc{a("suffix", "String")}}, {Name: "owner", Type: "Person"}}},
		{Kind: "OBJECT", Name: "Item", Interfaces: []string{"Node"}, Fields: []gq.FieldDesc{
			{Name: "id", Type: "Int"}, {Name: "kind", Type: "String"},
			{Name: "name", Type: "String", Args: []gq.ArgDesc{a("prefix", "String"), a("sep", "String")}},
			{Name: "tags", Type: "[String]", Args: []gq.ArgDesc{ad("first", "Int", 2)}},
			{Name: "mut", Type: "String", Args: mutArgs}, {Name: "coll", Type: "String", Args: collArgs}, {Name: "next", Type: "Item"}, {Name: "owner", Type: "Person"}}},
		{Kind: "UNION", Name: "Thing", Members: []string{"Item", "Person"}, ResolveType: true},
		{Kind: "OBJECT", Name: "Query", Fields: []gq.FieldDesc{
			{Name: "tag", Type: "String"},
			{Name: "echo", Type: "String", Args: []gq.ArgDesc{a("s", "String"), a("i", "Int"), a("f", "Float"), a("b", "Boolean"), a("l", "[Int]"), a("e", "Color"), a("o", "Pt"), a("id", "ID")}},
			{Name: "mut", Type: "String", Args: mutArgs},
			{Name: "coll", Type: "String", Args: collArgs}, {Name: "coll2", Type: "String", Args: collArgs},
			{Name: "opt", Type: "String", Args: []gq.ArgDesc{a("v", "Int")}}, {Name: "req", Type: "String", Args: []gq.ArgDesc{a("v", "Int!")}},
			{Name: "list", Type: "String", Args: []gq.ArgDesc{a("vs", "[Int]")}}, {Name: "listReq", Type: "String", Args: []gq.ArgDesc{a("vs", "[Int!]")}},
			{Name: "reqList", Type: "String", Args: []gq.ArgDesc{a("vs", "[Int]!")}}, {Name: "nested", Type: "String", Args: []gq.ArgDesc{a("vs", "[[Int]]")}},
			{Name: "optPt", Type: "String", Args: []gq.ArgDesc{a("p", "Pt")}}, {Name: "reqPt", Type: "String", Args: []gq.ArgDesc{a("p", "Pt!")}},
			{Name: "listPt", Type: "String", Args: []gq.ArgDesc{a("ps", "[Pt!]")}},
			{Name: "item", Type: "Item", Args: []gq.ArgDesc{a("id", "Int")}},
			{Name: "items", Type: "[Item]", Args: []gq.ArgDesc{a("n", "Int"), a("from", "Int")}},
			{Name: "node", Type: "Node", Args: []gq.ArgDesc{a("id", "Int")}},
			{Name: "things", Type: "[Thing]", Args: []gq.ArgDesc{a("n", "Int")}},
			{Name: "fail", Type: "String", Args: []gq.ArgDesc{a("msg", "String")}}}},
		{Kind: "OBJECT", Name: "Mutation", Fields: []gq.FieldDesc{{Name: "bump", Type: "String", Args: []gq.ArgDesc{a("by", "Int")}}}},
	}}
}

// mutateDeep overwrites list elements, sets, adds and deletes input-object keys, at every nesting level.
func mutateDeep(v interface{}) {
	switch x := v.(type) {
	case map[string]interface{}:
		keys := make([]string, 0, len(x))
		for k := range x {
			keys = append(keys, k)
		}
		for _, k := range keys {
			switch e := x[k].(type) {
			case map[string]interface{}, []interface{}:
				mutateDeep(e)
			case int:
				x[k] = e + 1000
			case nil:
			default:
				delete(x, k)
			}
		}
		delete(x, "y")
		x["zz"] = "residue"
	case []interface{}:
		for i, e := range x {
			switch ee := e.(type) {
			case map[string]interface{}, []interface{}:
				mutateDeep(ee)
			default:
				x[i] = -1
			}
		}
		for i, j := 0, len(x)-1; i < j; i, j = i+1, j-1 {
			x[i], x[j] = x[j], x[i]
		}
	}
}

// poolEntry is a request text with the operation names and variable assignments worth trying on it.
type poolEntry struct {
	Q       string
	Ops     []string                 // operation names to use (besides the adversarial ones drawn separately)
	Vars    []map[string]interface{} // variable assignments
	Safe    bool                     // Normalize=true is compared with graphql.Do on this request (all, since the D-06 repairs)
	Family  string
	oversze bool
}

var noVars = []map[string]interface{}{nil}

// families of near-miss requests: members of one family differ in exactly one thing that must (or must not)
// separate cache entries.
func families() [][]poolEntry {
	e := func(fam, q string, safe bool) poolEntry { return poolEntry{Q: q, Ops: []string{""}, Vars: noVars, Safe: safe, Family: fam} }
	ev := func(fam, q string, safe bool, ops []string, vars ...map[string]interface{}) poolEntry {
		if len(vars) == 0 {
			vars = noVars
		}
		return poolEntry{Q: q, Ops: ops, Vars: vars, Safe: safe, Family: fam}
	}
	V := func(kv ...interface{}) map[string]interface{} {
		m := map[string]interface{}{}
		for i := 0; i+1 < len(kv); i += 2 {
			m[kv[i].(string)] = kv[i+1]
		}
		return m
	}
	return [][]poolEntry{
		{ // one literal
			e("literal", `{ tag echo(i: 1) }`, true), e("literal", `{ tag echo(i: 2) }`, true),
			e("literal", `{ tag echo(s: "a") }`, true), e("literal", `{ tag echo(s: "b") }`, true),
			e("literal", `{ echo(f: 1.5) }`, true), e("literal", `{ echo(f: 2.5) }`, true),
			e("literal", `{ echo(b: true) }`, true), e("literal", `{ echo(b: false) }`, true),
			e("literal", `{ echo(l: [1, 2]) }`, true), e("literal", `{ echo(l: [1, 3]) }`, true), e("literal", `{ echo(l: [1, 2, 3]) }`, true),
			e("literal", `{ echo(id: "x1") }`, true), e("literal", `{ echo(id: 17) }`, true),
		},
		{ // one alias / response key
			e("alias", `{ x: echo(i: 1) }`, true), e("alias", `{ y: echo(i: 1) }`, true), e("alias", `{ echo(i: 1) }`, true),
			e("alias", `{ x: tag y: tag }`, true), e("alias", `{ y: tag x: tag }`, true),
		},
		{ // argument order, argument names
			e("argorder", `{ echo(i: 1, s: "a") }`, true), e("argorder", `{ echo(s: "a", i: 1) }`, true),
			e("argorder", `{ items(n: 2, from: 3) { id } }`, true), e("argorder", `{ items(from: 2, n: 3) { id } }`, true),
			e("argorder", `{ item(id: 4) { name(prefix: "p") } }`, true), e("argorder", `{ item(id: 4) { name(sep: "p") } }`, true),
		},
		{ // operation names
			ev("opname", `query A { tag echo(i: 1) } query B { tag echo(i: 2) }`, true, []string{"A", "B", "", "C"}),
			ev("opname", `query A { tag echo(i: 2) } query B { tag echo(i: 1) }`, true, []string{"A", "B", "", "C"}),
			ev("opname", `query A { tag } mutation B { bump(by: 3) }`, true, []string{"A", "B"}),
			ev("opname", `query B { tag } mutation A { bump(by: 3) }`, true, []string{"A", "B"}),
		},
		{ // duplicate input-object field names inside literals that would otherwise be extracted (UniqueInputFieldNames must
			// still see them): top level, nested object, inside lists, in a list inside an object; valid near-misses
			e("dupfield", `{ echo(o: {x: 1, x: 2}) }`, true), e("dupfield", `{ echo(o: {x: 1, y: 2}) }`, true),
			e("dupfield", `{ echo(o: {y: 1, y: 1}) }`, true), e("dupfield", `{ echo(o: {y: 1}) }`, true),
			e("dupfield", `{ mut(n: {p: {x: 1, x: 2}}) }`, true), e("dupfield", `{ mut(n: {p: {x: 1, y: 2}}) }`, true),
			e("dupfield", `{ mut(os: [{x: 1, x: 1}]) }`, true), e("dupfield", `{ mut(os: [{x: 1}, {x: 1}]) }`, true),
			e("dupfield", `{ mut(n: {ps: [{y: 1}, {y: 2, y: 3}]}) }`, true), e("dupfield", `{ mut(n: {ps: [{y: 1}, {y: 2, x: 3}]}) }`, true),
			e("dupfield", `{ mut(n: {l: [1], l: [1]}) }`, true), e("dupfield", `{ mut(n: {l: [1], ll: [[1]]}) }`, true),
			e("dupfield", `{ tag mut(o: {x: 1, x: 2}) echo(i: 1) }`, true),
		},
		{ // the same response key with literal arguments in the operation AND in a fragment it spreads (the operation's literal
			// is rewritten, the fragment's is not: OverlappingFieldsCanBeMerged compares them): directly, nested, through a
			// second fragment, next to inline fragments; equal / different literals; different aliases (never merge)
			e("fragkey", `{ echo(i: 3) ...F } fragment F on Query { echo(i: 3) }`, true),
			e("fragkey", `{ echo(i: 3) ...F } fragment F on Query { echo(i: 4) }`, true),
			e("fragkey", `{ ...F echo(s: "a") } fragment F on Query { echo(s: "a") }`, true),
			e("fragkey", `{ echo(i: 3) ...F } fragment F on Query { ...G } fragment G on Query { echo(i: 3) }`, true),
			e("fragkey", `{ echo(i: 3) ... on Query { echo(i: 3) } ...F } fragment F on Query { tag }`, true),
			e("fragkey", `{ ... on Query { echo(i: 3) } ...F } fragment F on Query { echo(i: 3) }`, true),
			e("fragkey", `{ ... on Query { echo(i: 3) } ...F } fragment F on Query { ... on Query { echo(i: 3) } }`, true),
			e("fragkey", `{ a: echo(i: 3) ...F } fragment F on Query { b: echo(i: 3) }`, true),
			e("fragkey", `{ a: echo(i: 3) ...F } fragment F on Query { a: echo(i: 3) }`, true),
			e("fragkey", `{ item(id: 1) { name(prefix: "a") ...G } } fragment G on Item { name(prefix: "a") }`, true),
			e("fragkey", `{ item(id: 1) { name(prefix: "a") ...G } } fragment G on Item { name(prefix: "b") }`, true),
			e("fragkey", `{ item(id: 1) { id } ...H } fragment H on Query { item(id: 1) { kind } }`, true),
			e("fragkey", `{ item(id: 1) { next { name(sep: "-") } ...G } } fragment G on Item { next { name(sep: "-") } }`, true),
			e("fragkey", `{ echo(l: [1, 2]) ...F } fragment F on Query { echo(l: [1, 2]) }`, true),
			e("fragkey", `{ echo(o: {y: 1}) ...F } fragment F on Query { echo(o: {y: 1}) }`, true),
			ev("fragkey", `query Q($x: Int) { echo(i: 3) ...F } fragment F on Query { echo(i: $x) }`, true, []string{"Q"}, V("x", 3)),
		},
		{ // a SECOND spread of a fragment that is already spread elsewhere: present / absent / with a directive, in another
			// selection set, in the same one, and under inline fragments (a key function that emits a fragment once per
			// document must still see every spread of it)
			e("respread", `{ item(id: 1) { ...F } items(n: 2) { kind ...F } } fragment F on Item { id }`, true),
			e("respread", `{ item(id: 1) { ...F } items(n: 2) { kind } } fragment F on Item { id }`, true),
			e("respread", `{ item(id: 1) { ...F } items(n: 2) { kind ...F @skip(if: true) } } fragment F on Item { id }`, true),
			e("respread", `{ item(id: 1) { ...F } items(n: 2) { kind ...F @include(if: true) } } fragment F on Item { id }`, true),
			e("respread", `{ item(id: 1) { kind ...F next { ...F } } } fragment F on Item { id }`, true),
			e("respread", `{ item(id: 1) { kind ...F next { kind } } } fragment F on Item { id }`, true),
			e("respread", `{ item(id: 1) { ...F kind ...F @skip(if: true) } } fragment F on Item { id }`, true),
			e("respread", `{ item(id: 1) { ...F kind } } fragment F on Item { id }`, true),
			e("respread", `{ item(id: 1) { kind ...F @skip(if: true) ...F } } fragment F on Item { id }`, true),
			e("respread", `{ node(id: 2) { ... on Item { ...F } ... on Item { kind ...F } } } fragment F on Item { id }`, true),
			e("respread", `{ node(id: 2) { ... on Item { ...F } ... on Item { kind } } } fragment F on Item { id }`, true),
			e("respread", `{ node(id: 2) { ... on Item { ...F } ... on Item { kind ...F @skip(if: true) } } } fragment F on Item { id }`, true),
			e("respread", `{ item(id: 1) { ...F } items(n: 2) { ...G } } fragment F on Item { id } fragment G on Item { kind ...F }`, true),
			e("respread", `{ item(id: 1) { ...F } items(n: 2) { ...G } } fragment F on Item { id } fragment G on Item { kind }`, true),
		},
		{ // definitions the selected operation does not reach (validation looks at the whole document): pairs that differ
			// only there must not share an entry (D-06l)
			ev("otherdefs", `query A { tag } query B { tag }`, true, []string{"A", "B"}),
			ev("otherdefs", `query A { tag } query B { nope }`, true, []string{"A", "B"}),
			ev("otherdefs", `query A { tag } query B { echo(s: 1) }`, true, []string{"A", "B"}),
			ev("otherdefs", `query A { tag } query B { echo(s: "1") }`, true, []string{"A", "B"}),
			ev("otherdefs", `query A { tag ...F } query B { tag } fragment F on Query { echo(i: 1) }`, true, []string{"A", "B"}),
			ev("otherdefs", `query A { tag ...F } query B { tag } fragment F on Query { echo(i: "x") }`, true, []string{"A", "B"}),
			e("otherdefs", `{ tag } fragment F on Query { tag }`, true), e("otherdefs", `{ tag } fragment F on Query { nope }`, true),
			e("otherdefs", `{ tag } fragment F on Nope { tag }`, true), e("otherdefs", `{ tag }`, true),
		},
		{ // text that imitates the key encodings: moving bytes between operation name and query
			ev("keylike", `{tag}`, true, []string{"", " ", "1", "0:", "5:{tag}"}), ev("keylike", ` {tag}`, true, []string{"", " "}),
			ev("keylike", `:{tag}`, true, []string{"", "0"}), ev("keylike", `0:{tag}`, true, []string{"", "1"}),
			ev("keylike", "3:abc{tag}", true, []string{"", "abc", "3:abc"}), ev("keylike", "abc{tag}", true, []string{"", "3:", "abc"}),
			ev("keylike", "\x00{tag}", true, []string{"", "a", "a\x00"}), ev("keylike", "b\x00{tag}", true, []string{"", "a", "a\x00b"}),
			ev("keylike", "{tag}#\x00raw:1", true, []string{"", "\x00"}), ev("keylike", "é{tag}", true, []string{"", "é", "\xc3"}),
			ev("keylike", "\xa9{tag}", true, []string{"", "\xc3"}),
		},
		{ // variables (plan reuse with different values), dynamic directives
			ev("vars", `query Q($x: Int, $s: String) { tag echo(i: $x, s: $s) }`, true, []string{"", "Q"}, nil, V("x", 1), V("x", 2, "s", "z"), V("s", "w")),
			ev("vars", `query Q($x: Int, $s: String) { tag echo(i: $x, s: $s, b: true) }`, true, []string{"", "Q"}, V("x", 1), V("x", 5, "s", "q")),
			ev("vars", `query Q($n: Int) { items(n: $n) { id tags(first: 1) } }`, true, []string{"Q"}, V("n", 0), V("n", 2), V("n", 9)),
			ev("vars", `query Q($o: Pt) { echo(o: $o) }`, true, []string{"Q"}, nil, V("o", map[string]interface{}{"y": 2}), V("o", map[string]interface{}{"x": 1, "y": 2})),
			ev("vars", `query Q($v: Boolean!) { tag @skip(if: $v) echo(i: 1) @include(if: $v) }`, true, []string{"Q"}, V("v", true), V("v", false), nil),
			ev("vars", `query Q($x: Int = 1) { echo(i: $x) }`, true, []string{"Q"}, nil, V("x", 3)),
			ev("vars", `query Q($x: Int = 2) { echo(i: $x) }`, true, []string{"Q"}, nil, V("x", 3)),
			ev("vars", `query Q($x: Int!) { echo(i: $x) }`, true, []string{"Q"}, nil, V("x", 3), V("x", "bad")),
		},
		{ // objects, lists, interface, union, fragments
			e("shape", `{ item(id: 1) { id kind name(prefix: "a", sep: "-") tags(first: 3) next { id owner { nick(suffix: "!") } } } }`, true),
			e("shape", `{ item(id: 2) { id kind name(prefix: "b", sep: "-") tags(first: 1) next { id owner { nick(suffix: "?") } } } }`, true),
			e("shape", `{ items(n: 3) { id tags } }`, true), e("shape", `{ items(n: 2) { id tags } }`, true),
			e("shape", `{ node(id: 1) { id kind ... on Item { tags } ... on Person { nick } } }`, true),
			e("shape", `{ node(id: 2) { id kind ... on Item { tags } ... on Person { nick } } }`, true),
			e("shape", `{ things(n: 4) { __typename ... on Item { id next { id } } ... on Person { nick } } }`, true),
			e("shape", `{ things(n: 3) { __typename ... on Item { id next { id } } ... on Person { nick } } }`, true),
			e("shape", `{ ...F tag } fragment F on Query { item(id: 3) { ...G } } fragment G on Item { id kind }`, true),
			e("shape", `{ ...F tag } fragment F on Query { item(id: 4) { ...G } } fragment G on Item { id kind }`, true),
			e("shape", `{ fail(msg: "m1") tag }`, true), e("shape", `{ fail(msg: "m2") tag }`, true),
			e("shape", `mutation { bump(by: 2) }`, true), e("shape", `mutation { bump(by: 3) }`, true),
		},
		{ // list / input-object literals handed to resolvers that mutate what they receive (plan reuse must not show residue)
			e("mutargs", `{ mut(o: {x: 1, y: 2}, l: [3, 1, 2]) }`, true), e("mutargs", `{ mut(o: {x: 1, y: 3}, l: [3, 1, 2]) }`, true),
			e("mutargs", `{ mut(ll: [[1, 2], [3]], os: [{x: 1, y: 2}, {y: 5}]) }`, true), e("mutargs", `{ mut(ll: [[1, 2], [4]], os: [{x: 1, y: 2}, {y: 5}]) }`, true),
			e("mutargs", `{ mut(n: {p: {x: 1, y: 2}, l: [1, 2], ps: [{y: 1}, {x: 2, y: 2}], ll: [[7], [8, 9]]}) }`, true),
			e("mutargs", `{ mut(n: {p: {x: 1, y: 2}, l: [1, 2], ps: [{y: 1}, {x: 2, y: 3}], ll: [[7], [8, 9]]}) }`, true),
			e("mutargs", `{ a: mut(l: [1, 2]) b: mut(l: [1, 2]) item(id: 1) { mut(os: [{y: 1}]) next { mut(ll: [[1], [2, 3]]) } } }`, true),
			e("mutargs", `{ items(n: 3) { mut(o: {y: 4}, l: [5, 6]) } }`, true), e("mutargs", `{ items(n: 2) { mut(o: {y: 4}, l: [5, 6]) } }`, true),
			e("mutargs", `{ ...F } fragment F on Query { mut(os: [{x: 1, y: 2}], ll: [[1, 2], [3]], n: {l: [4, 5], p: {y: 6}}) echo(l: [9, 8], o: {y: 7}) }`, true),
			e("mutargs", `{ ...F } fragment F on Query { mut(os: [{x: 1, y: 2}], ll: [[1, 2], [3]], n: {l: [4, 5], p: {y: 7}}) echo(l: [9, 8], o: {y: 7}) }`, true),
			e("mutargs", `{ node(id: 2) { ... on Item { mut(l: [3, 1, 2], n: {ps: [{y: 1}]}) } } things(n: 3) { ... on Item { mut(ll: [[1, 2]]) } } }`, true),
			e("mutargs", `{ item(id: 2) { ...G } } fragment G on Item { mut(o: {x: 5, y: 6}, os: [{y: 1}, {y: 2}]) }`, true),
			ev("mutargs", `query Q($o: Pt, $l: [Int], $n: Nest) { mut(o: $o, l: $l, n: $n, ll: [[1], [2]]) }`, true, []string{"Q"},
				V("o", map[string]interface{}{"y": 2}, "l", []interface{}{1, 2, 3}), V("n", map[string]interface{}{"l": []interface{}{1}, "ps": []interface{}{map[string]interface{}{"y": 1}}}), nil),
		},
		{ // the same literal at positions whose types differ only in wrappers (T, T!, [T], [T!], [T]!, [[T]]), both orders, across fragments
			e("wrappers", `{ opt(v: 7) req(v: 7) }`, true), e("wrappers", `{ req(v: 7) opt(v: 7) }`, true),
			e("wrappers", `{ opt(v: 3) list(vs: 3) }`, true), e("wrappers", `{ list(vs: 3) opt(v: 3) }`, true),
			e("wrappers", `{ opt(v: 3) listReq(vs: 3) reqList(vs: 3) nested(vs: 3) req(v: 3) list(vs: 3) }`, true),
			e("wrappers", `{ nested(vs: 3) reqList(vs: 3) list(vs: 3) req(v: 3) listReq(vs: 3) opt(v: 3) }`, true),
			e("wrappers", `{ list(vs: [1, 2]) listReq(vs: [1, 2]) reqList(vs: [1, 2]) nested(vs: [1, 2]) }`, true),
			e("wrappers", `{ nested(vs: [1, 2]) reqList(vs: [1, 2]) listReq(vs: [1, 2]) list(vs: [1, 2]) }`, true),
			e("wrappers", `{ optPt(p: {y: 1}) reqPt(p: {y: 1}) listPt(ps: {y: 1}) }`, true), e("wrappers", `{ listPt(ps: {y: 1}) reqPt(p: {y: 1}) optPt(p: {y: 1}) }`, true),
			e("wrappers", `{ opt(v: 7) ...F } fragment F on Query { req(v: 7) }`, true), e("wrappers", `{ ...F opt(v: 7) } fragment F on Query { req(v: 7) }`, true),
			e("wrappers", `{ a: opt(v: 7) ... on Query { b: req(v: 7) c: list(vs: 7) } d: opt(v: 7) e: req(v: 7) }`, true),
			e("wrappers", `{ a: req(v: 7) ... on Query { b: opt(v: 7) c: reqList(vs: 7) } d: req(v: 7) e: opt(v: 8) }`, true),
			ev("wrappers", `query Q($v: Int!) { opt(v: $v) req(v: $v) a: opt(v: 5) b: req(v: 5) list(vs: [$v, 5]) c: list(vs: 5) }`, true, []string{"Q"}, V("v", 5), V("v", 6)),
		},
		{ // dedupeCollision: two or more arguments of ONE type in one operation whose literals are DIFFERENT values but whose coerced
			// Go values print alike under fmt %v (["a b"] / ["a","b"], [] / [""], {a:"1 b:2"} / {a:"1",b:"2"}, [BOTH] / [HAPPY,SAD],
			// ["1 2"] / [1,2] for [ID]; this parser has no null literal): each must keep its own synthetic variable and reach its own resolver.
			// Next to them: the same literal twice (ONE variable), different spellings of one value (1 / 1.0, 4 / "4", reordered
			// object fields: as many variables as the model of the normaliser says), controls whose renderings differ, the same
			// shapes below item / in inline fragments / next to a user variable / under one response key (must be rejected when
			// the values differ, merged when they are equal).
			e("dedupeCollision", `{ a: coll(ss: ["a b"]) b: coll(ss: ["a", "b"]) }`, true),
			e("dedupeCollision", `{ a: coll(ss: ["a", "b"]) b: coll(ss: ["a b"]) }`, true),
			e("dedupeCollision", `{ a: coll(ss: []) b: coll(ss: [""]) }`, true),
			e("dedupeCollision", `{ a: coll(ss: [""]) b: coll(ss: []) c: coll(ss: [""]) }`, true),
			e("dedupeCollision", `{ a: coll(ss: [" "]) b: coll(ss: ["", ""]) }`, true),
			e("dedupeCollision", `{ coll(ss: ["a b"]) coll2(ss: ["a", "b"]) }`, true),
			e("dedupeCollision", `{ coll(ss: ["a", "b"]) coll2(ss: ["a", "b"]) }`, true),
			e("dedupeCollision", `{ a: coll(ss: ["a b"]) b: coll(ss: ["a b"]) }`, true),
			e("dedupeCollision", `{ a: coll(ss: ["a", "b"]) b: coll(ss: ["a", "c"]) }`, true),
			e("dedupeCollision", `{ a: coll(ss: "a b") b: coll(ss: ["a", "b"]) c: coll(ss: ["a b"]) }`, true),
			e("dedupeCollision", `{ a: coll(ss: ["[a", "b]"]) b: coll(ss: ["[a b]"]) }`, true),
			e("dedupeCollision", `{ a: coll(sr: ["x y z"]) b: coll(sr: ["x", "y z"]) c: coll(sr: ["x y", "z"]) d: coll(sr: ["x", "y", "z"]) }`, true),
			e("dedupeCollision", `{ a: coll(sr: ["x", "y", "z"]) b: coll(sr: ["x y", "z"]) c: coll(sr: ["x", "y", "z"]) }`, true),
			e("dedupeCollision", `{ a: coll(ss: ["a b"], sr: ["a b"]) b: coll(ss: ["a", "b"], sr: ["a", "b"]) }`, true),
			e("dedupeCollision", `{ a: coll(sss: [["a b"]]) b: coll(sss: [["a", "b"]]) }`, true),
			e("dedupeCollision", `{ a: coll(sss: [["a"], ["b"]]) b: coll(sss: [["a] [b"]]) }`, true),
			e("dedupeCollision", `{ a: coll(sss: [[]]) b: coll(sss: [[""]]) c: coll(sss: []) d: coll(sss: [[], []]) e: coll(sss: [[" "]]) }`, true),
			e("dedupeCollision", `{ a: coll(ids: ["1 2"]) b: coll(ids: [1, 2]) }`, true),
			e("dedupeCollision", `{ a: coll(ids: [1, 2]) b: coll(ids: ["1", "2"]) c: coll(ids: ["1 2"]) }`, true),
			e("dedupeCollision", `{ a: coll(p: {a: "1 b:2"}) b: coll(p: {a: "1", b: "2"}) }`, true),
			e("dedupeCollision", `{ coll(p: {a: "1", b: "2"}) coll2(p: {a: "1 b:2"}) }`, true),
			e("dedupeCollision", `{ a: coll(p: {a: "x", b: "y"}) b: coll(p: {b: "y", a: "x"}) }`, true),
			e("dedupeCollision", `{ a: coll(p: {a: "x", b: "y"}) b: coll(p: {a: "x", b: "y"}) }`, true),
			e("dedupeCollision", `{ a: coll(p: {}) b: coll(p: {a: ""}) c: coll(p: {b: ""}) d: coll(p: {a: "", b: ""}) e: coll(p: {a: " b:"}) }`, true),
			e("dedupeCollision", `{ a: coll(ps: [{a: "1"}, {a: "2"}]) b: coll(ps: [{a: "1] map[a:2"}]) }`, true),
			e("dedupeCollision", `{ a: coll(ps: [{a: "1 b:2"}]) b: coll(ps: [{a: "1", b: "2"}]) c: coll(ps: {a: "1", b: "2"}) }`, true),
			e("dedupeCollision", `{ a: coll(ms: [BOTH]) b: coll(ms: [HAPPY, SAD]) }`, true),
			e("dedupeCollision", `{ a: coll(ms: [HAPPY, SAD]) b: coll(ms: [BOTH]) c: coll(ms: [HAPPY, SAD]) }`, true),
			e("dedupeCollision", `{ a: coll(f: 1) b: coll(f: 1.0) }`, true),
			e("dedupeCollision", `{ a: coll(fs: [1, 2]) b: coll(fs: [1.0, 2.0]) c: coll(fs: [1, 2]) }`, true),
			e("dedupeCollision", `{ a: coll(id: 4) b: coll(id: "4") }`, true),
			e("dedupeCollision", `{ a: coll(s: "a b") b: coll(s: "a  b") c: coll(s: "a b") }`, true),
			e("dedupeCollision", `{ item(id: 1) { a: coll(ss: ["a b"]) b: coll(ss: ["a", "b"]) } }`, true),
			e("dedupeCollision", `{ a: coll(ss: ["a b"]) item(id: 2) { coll(ss: ["a", "b"]) next { coll(ss: ["a b"]) } } }`, true),
			e("dedupeCollision", `{ items(n: 2) { a: coll(p: {a: "1 b:2"}) b: coll(p: {a: "1", b: "2"}) } }`, true),
			e("dedupeCollision", `{ a: coll(ss: ["a b"]) ... on Query { b: coll(ss: ["a", "b"]) } }`, true),
			e("dedupeCollision", `{ coll(ss: ["a b"]) coll(ss: ["a", "b"]) }`, true),
			e("dedupeCollision", `{ coll(ss: ["a b"]) coll(ss: ["a b"]) }`, true),
			e("dedupeCollision", `{ coll(p: {a: "1 b:2"}) ... on Query { coll(p: {a: "1", b: "2"}) } }`, true),
			ev("dedupeCollision", `query Q($v: [String]) { a: coll(ss: $v) b: coll(ss: ["a b"]) c: coll(ss: ["a", "b"]) }`, true, []string{"Q"},
				V("v", []interface{}{"a b"}), V("v", []interface{}{"a", "b"}), nil),
			ev("dedupeCollision", `query Q($p: Pair) { a: coll(p: $p) b: coll(p: {a: "1", b: "2"}) c: coll(p: {a: "1 b:2"}) }`, true, []string{"Q"},
				V("p", map[string]interface{}{"a": "1 b:2"}), nil),
		},
		{ // abstractMerge: ONE plan executed against DIFFERENT DATA. node(id) is a Person for odd and an Item for even ids, things(n)
			// mixes both; the id comes from a variable (or, through a normalising cache, from a literal that became one), so one
			// cached / held plan meets both runtime types. A fragment on the interface and inline fragments on its members select
			// the same response key (`owner`, `next`) with different sub-selections: what is merged below the key depends on the
			// concrete parent type, and whatever the plan prepares lazily for one type must not be served to the other. Also: one
			// fragment spread at two places, one of which is only reached for one runtime type; variable-driven directives (control).
			ev("abstractMerge", `query Q($x: Int) { node(id: $x) { kind ...F ... on Item { owner { nick } } } } fragment F on Node { owner { id } }`, true, []string{"Q"}, V("x", 1), V("x", 2), V("x", 1), nil),
			ev("abstractMerge", `query Q($x: Int) { node(id: $x) { kind ...F ... on Person { owner { nick } } } } fragment F on Node { owner { id } }`, true, []string{"Q"}, V("x", 2), V("x", 1), V("x", 4)),
			ev("abstractMerge", `query Q($x: Int) { node(id: $x) { ...F ... on Item { owner { nick(suffix: "!") } } ... on Person { owner { kind owner { nick } } } } } fragment F on Node { owner { id owner { id } } }`, true, []string{"Q"}, V("x", 1), V("x", 2), V("x", 3)),
			ev("abstractMerge", `query Q($x: Int, $y: Int) { a: node(id: $x) { ...F ... on Item { owner { nick } } } b: node(id: $y) { ...F ... on Person { owner { kind } } } } fragment F on Node { owner { id } }`, true, []string{"Q"},
				V("x", 1, "y", 1), V("x", 2, "y", 2), V("x", 1, "y", 2), V("x", 2, "y", 1)),
			ev("abstractMerge", `query Q($n: Int) { things(n: $n) { ... on Node { ...F } ... on Item { owner { nick } } } } fragment F on Node { owner { id } }`, true, []string{"Q"}, V("n", 1), V("n", 3), V("n", 0)),
			ev("abstractMerge", `query Q($x: Int) { a: node(id: $x) { ... on Item { ...G } } b: item(id: 2) { ...G next { kind } } } fragment G on Item { next { id } }`, true, []string{"Q"}, V("x", 1), V("x", 2), V("x", 3)),
			ev("abstractMerge", `query Q($x: Int) { a: node(id: $x) { ... on Item { ...G } } b: item(id: 2) { ...G next { kind } } } fragment G on Item { next { id tags } }`, true, []string{"Q"}, V("x", 2), V("x", 1)),
			e("abstractMerge", `{ node(id: 1) { kind ...F ... on Item { owner { nick } } } } fragment F on Node { owner { id } }`, true),
			e("abstractMerge", `{ node(id: 2) { kind ...F ... on Item { owner { nick } } } } fragment F on Node { owner { id } }`, true),
			e("abstractMerge", `{ node(id: 3) { kind ...F ... on Item { owner { nick } } } } fragment F on Node { owner { id } }`, true),
			ev("abstractMerge", `query Q($x: Int, $v: Boolean!) { node(id: $x) { ...F ... on Item @include(if: $v) { owner { nick } } } } fragment F on Node { owner { id } }`, true, []string{"Q"},
				V("x", 1, "v", true), V("x", 2, "v", true), V("x", 2, "v", false), V("x", 1, "v", false)),
		},
		{ // rejected requests: parse errors, validation errors, wrong literal types (errors are cached too)
			e("invalid", `{ nope }`, true), e("invalid", `{ nope2 }`, true), e("invalid", `{`, true), e("invalid", `{ tag `, true),
			e("invalid", `{ echo(i: "str") }`, true), e("invalid", `{ echo(i: 1.5) }`, true), e("invalid", `{ item { id } item(id: 1) { id } }`, true),
			e("invalid", "c", true), e("invalid", "b\x00c", true),
		},
		{ // shapes on which Normalize=true used to fail (D-06b…g, repaired): now part of the differential comparison
			e("unsafe", `{ tag @skip(if: true) echo(i: 1) }`, true), e("unsafe", `{ tag echo(i: 1) @skip(if: true) }`, true),
			e("unsafe", `{ tag @include(if: false) echo(i: 1) }`, true),
			e("unsafe", `{ echo(e: GREEN) }`, true), e("unsafe", `{ echo(e: RED) }`, true),
			e("unsafe", `{ echo(o: {y: 1}) }`, true), e("unsafe", `{ echo(o: {x: 1, y: 1}) }`, true),
			e("unsafe", `{ echo(i: 3) echo(i: 3) }`, true), e("unsafe", `{ a: echo(i: 3) a: echo(i: 3) }`, true),
			ev("unsafe", `query Q($__pcv0: Int) { echo(i: $__pcv0, s: "x") }`, true, []string{"Q"}, V("__pcv0", 5)),
			e("unsafe", `{ node(id: 2) { ... on Item { name(prefix: "1,sep=s2") } } }`, true),
			e("unsafe", `{ node(id: 2) { ... on Item { name(prefix: "1", sep: "2") } } }`, true),
			e("unsafe", `{ ...F } fragment F on Query { echo(s: "lit") }`, true),
			// D-06h (repaired): nested literals that are invalid for their position must be rejected, not served
			e("unsafe", `{ echo(l: ["5"]) }`, true), e("unsafe", `{ echo(l: [5]) }`, true), e("unsafe", `{ echo(l: [1.5]) }`, true),
			e("unsafe", `{ echo(o: {x: "5"}) }`, true), e("unsafe", `{ echo(o: {x: true}) }`, true), e("unsafe", `{ echo(o: {x: 5}) }`, true),
			e("unsafe", `{ echo(o: {y: 1, zz: 2}) }`, true), e("unsafe", `{ mut(n: {l: [1, "2"]}) }`, true), e("unsafe", `{ mut(os: [{y: 1}, {y: "1"}]) }`, true),
			// D-06i (repaired): integer tokens that do not spell back
			e("unsafe", `{ echo(id: -0) }`, true), e("unsafe", `{ echo(id: 0) }`, true), e("unsafe", `{ echo(i: -0) }`, true), e("unsafe", `{ echo(f: -0) }`, true), e("unsafe", `{ echo(l: [-0, 1]) }`, true),
			// D-06j (repaired): variables the document uses without defining them
			e("unsafe", `{ a: echo(s: $__pcv0) b: echo(s: "x") }`, true), e("unsafe", `{ a: echo(s: "y") b: echo(s: "x") }`, true),
			e("unsafe", `{ ...F b: echo(s: "x") } fragment F on Query { a: echo(s: $__pcv0) }`, true),
			ev("unsafe", `query Q($x: String) { a: echo(s: $x) b: echo(s: "x") c: echo(s: $__pcv1) }`, true, []string{"Q"}, V("x", "v")),
		},
	}
}

// adversarial operation names, usable with any request (most make the request fail: "unknown operation")
var oddOpNames = []string{"3:abc", "\x00", "a\x00b", "é", "0", "12", strings.Repeat("n", 12), strings.Repeat("N", 123), "raw:", ":", "A", "B"}

func padTo(q string, n int) string {
	d := n - len(q)
	switch {
	case d <= 0:
		return q
	case d == 1:
		return q + " "
	}
	return q + " #" + strings.Repeat("p", d-2)
}
