package main

import (
	"bytes"
	"encoding/hex"
	"fmt"
	"os"
	"testing"
	"time"

	"github.com/graphql-go/graphql"
	"github.com/graphql-go/graphql/language/parser"

	"verif/harness/hx"
)

const (
	fnvOff   = 14695981039346656037
	fnvPrime = 1099511628211
)

func fnvFrom(h uint64, b []byte) uint64 {
	for _, c := range b {
		h ^= uint64(c)
		h *= fnvPrime
	}
	return h
}

const alpha = "abcdefghijklmnopqrstuvwxyz012345"

func enc(h uint64, out *[13]byte) {
	for i := 0; i < 13; i++ {
		out[i] = alpha[h&31]
		h >>= 5
	}
}

func TestCollide(t *testing.T) {
	if os.Getenv("C06_COLLIDE") == "" {
		t.Skip()
	}
	mk := func(lit string) string { return `{ ...F } fragment F on Query { echo(s: "` + lit + `") }` }
	s := newSchema("A0")
	drv, err := hx.StartDriver(os.Getenv("C06_DRIVER"))
	if err != nil {
		t.Fatal(err)
	}
	defer drv.Close()
	doc, _ := parser.Parse(parser.ParseParams{Source: mk("AAAAAAAAAAAAA")})
	nd, _, key, _ := graphql.VerifNormalizeDocument(s, doc, "")
	req, _ := fpRequest(nd, "")
	var fr struct {
		Fp    string `json:"fp"`
		Bytes string `json:"bytes"`
	}
	if err := drv.Ask(req, &fr); err != nil {
		t.Fatal(err)
	}
	if fr.Fp != key {
		t.Fatalf("model fingerprint %s != real %s", fr.Fp, key)
	}
	bs, _ := hex.DecodeString(fr.Bytes)
	idx := bytes.Index(bs, []byte("AAAAAAAAAAAAA"))
	if idx < 0 {
		t.Fatal("placeholder not found")
	}
	h0 := fnvFrom(fnvOff, bs[:idx])
	t.Logf("prefix %q", bs[:idx])
	f := func(h uint64) uint64 {
		var b [13]byte
		enc(h, &b)
		return fnvFrom(h0, b[:])
	}
	// Brent's cycle detection, then locate the collision
	start := time.Now()
	x0 := uint64(0x1234567)
	power, lam := uint64(1), uint64(1)
	tort, hare := x0, f(x0)
	for tort != hare {
		if power == lam {
			tort = hare
			power *= 2
			lam = 0
		}
		hare = f(hare)
		lam++
	}
	t.Logf("cycle length %d after %v", lam, time.Since(start))
	tort, hare = x0, x0
	for i := uint64(0); i < lam; i++ {
		hare = f(hare)
	}
	var pt, ph uint64
	for tort != hare {
		pt, ph = tort, hare
		tort = f(tort)
		hare = f(hare)
	}
	var a, b [13]byte
	enc(pt, &a)
	enc(ph, &b)
	t.Logf("collision after %v: %q %q", time.Since(start), a[:], b[:])
	if string(a[:]) == string(b[:]) {
		t.Fatal("degenerate (x0 on the cycle)")
	}
	q1, q2 := mk(string(a[:])), mk(string(b[:]))
	d1, _ := parser.Parse(parser.ParseParams{Source: q1})
	d2, _ := parser.Parse(parser.ParseParams{Source: q2})
	_, _, k1, _ := graphql.VerifNormalizeDocument(s, d1, "")
	_, _, k2, _ := graphql.VerifNormalizeDocument(s, d2, "")
	t.Logf("keys %s %s", k1, k2)
	c := graphql.NewPlanCache(graphql.PlanCacheOptions{Normalize: true})
	c.Get(s, q1, "")
	pr := c.Get(s, q2, "")
	got := resultJSON(graphql.ExecutePlan(pr.Plan, graphql.ExecuteParams{Schema: *s, Args: pr.SynthArgs}))
	want := resultJSON(graphql.Do(graphql.Params{Schema: *s, RequestString: q2}))
	hh, mm := c.HitsMisses()
	fmt.Printf("COLLISION\nq1=%s\nq2=%s\nkey1=%s key2=%s hits=%d misses=%d\nobserved=%s\nexpected=%s\n", q1, q2, k1, k2, hh, mm, got, want)
}
