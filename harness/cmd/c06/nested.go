package main

// Interleaved Gets, deterministically: `Get` takes the cache mutex twice (inside lookup, inside store) and validates /
// plans in between without it. A custom scalar's ParseLiteral runs during that validation, so a hook there can run a
// complete second `Get` (and a third one inside that) on the same goroutine while the outer one sits between its lookup
// and its store - exactly the interleaving two concurrent Gets can produce, without goroutines or timing. The real
// cache is compared (a) with the Lean model run on the same sequence of lookup / store primitives (`prims` request of
// drv_c06; theorem interleaved_transparent is about that function): hit / miss of every lookup, WHICH Get's plan a hit
// hands back, and the final key list and counters; (b) with graphql.Do on the request's own schema, for every Get.

import (
	"encoding/hex"
	"fmt"
	"strconv"

	"github.com/graphql-go/graphql"
	"github.com/graphql-go/graphql/language/ast"
	"github.com/graphql-go/graphql/language/parser"

	"verif/harness/hx"
)

// literalHook is called by Token.ParseLiteral (validation, planning, execution) when non-nil
var literalHook func()

// newHookSchema: type Query { who(t: Token): String  tag: String }, scalar Token. Every answer carries `tag`.
func newHookSchema(tag string) *graphql.Schema {
	token := graphql.NewScalar(graphql.ScalarConfig{
		Name:       "Token",
		Serialize:  func(v interface{}) interface{} { return v },
		ParseValue: func(v interface{}) interface{} { return v },
		ParseLiteral: func(v ast.Value) interface{} {
			if h := literalHook; h != nil {
				h()
			}
			if s, ok := v.(*ast.StringValue); ok {
				return s.Value
			}
			return nil
		},
	})
	q := graphql.NewObject(graphql.ObjectConfig{Name: "Query", Fields: graphql.Fields{
		"who": &graphql.Field{Type: graphql.String, Args: graphql.FieldConfigArgument{"t": &graphql.ArgumentConfig{Type: token}},
			Resolve: func(p graphql.ResolveParams) (interface{}, error) { return fmt.Sprint(tag, ":", p.Args["t"]), nil }},
		"tag": &graphql.Field{Type: graphql.String, Resolve: func(p graphql.ResolveParams) (interface{}, error) { return tag, nil }},
	}})
	s, err := graphql.NewSchema(graphql.SchemaConfig{Query: q})
	if err != nil {
		panic(err)
	}
	return &s
}

// nestedScn: one scenario. Schemas are named "A" (pointer 1 in the model) and "B" (2); queries by index into nestedQueries.
type nestedScn struct {
	Norm   bool   `json:"norm"`
	Cap    int    `json:"cap"`
	QSet   int    `json:"qset"`   // 0: literals at top level (raw mode only), 1: literals inside a fragment definition
	Prepop string `json:"prepop"` // none | other-schema-same-key | same-schema-other-key
	Inner  string `json:"inner"`  // schema of the nested Get: A (the outer's) | B
	InnerQ int    `json:"innerQ"` // 0: the outer's request, 1: another one
	Inner2 string `json:"inner2"` // "" | A | B: a third Get (for the outer's request) nested inside the nested one
	Sib    bool   `json:"sib"`    // after the nested Get, still inside the outer one: a Get for the OTHER request (same schema as the outer)
	Later  string `json:"later"`  // which schema is asked first afterwards: A | B
}

var nestedQueries = [2][2]string{
	{`{ who(t: "x") }`, `{ who(t: "y") tag }`},
	{`{ ...F } fragment F on Query { who(t: "x") }`, `{ tag ...F } fragment F on Query { who(t: "y") }`},
}

type nestedGet struct {
	schema  string
	q       string
	lookup  int // index of the lookup primitive
	outcome string
	pr      graphql.PlanResult
}

// runNested runs one scenario; returns a divergence description ("" if none) and whether a store refreshed an entry in place
func runNested(sc nestedScn, drv *hx.Driver) (kind, note string, detail interface{}, inPlace bool, err error) {
	defer func() { literalHook = nil }()
	schemas := map[string]*graphql.Schema{"A": newHookSchema("A"), "B": newHookSchema("B")}
	ptr := map[string]int{"A": 1, "B": 2}
	cache := graphql.NewPlanCache(graphql.PlanCacheOptions{MaxEntries: sc.Cap, Normalize: sc.Norm})
	qs := nestedQueries[sc.QSet]

	keyOf := func(s *graphql.Schema, q string) (string, error) {
		if !sc.Norm {
			return strconv.Itoa(0) + ":" + q, nil // operation name "" (the raw key construction is checked by the main histories)
		}
		doc, perr := parser.Parse(parser.ParseParams{Source: q})
		if perr != nil {
			return "", perr
		}
		_, _, nk, nerr := graphql.VerifNormalizeDocument(s, doc, "")
		if nerr != nil || nk == "" {
			return "", fmt.Errorf("nested scenario: request not normalisable: %q", q)
		}
		return "\x00" + nk, nil
	}

	var prims []interface{}
	owner := map[int]*graphql.Plan{} // store primitive -> the plan that Get returned
	var gets []*nestedGet
	var firstErr error
	type checkpoint struct {
		prim         int
		keys         []string
		length       int
		hits, misses uint64
	}
	var cps []checkpoint
	depth := 0

	var doGet func(sn, q string, nested func())
	doGet = func(sn, q string, nested func()) {
		s := schemas[sn]
		key, kerr := keyOf(s, q)
		if kerr != nil {
			if firstErr == nil {
				firstErr = kerr
			}
			return
		}
		hk := hex.EncodeToString([]byte(key))
		g := &nestedGet{schema: sn, q: q, lookup: len(prims)}
		gets = append(gets, g)
		prims = append(prims, []interface{}{"lookup", ptr[sn], hk})
		fired := false
		h0, m0 := cache.HitsMisses()
		if nested != nil {
			literalHook = func() { literalHook = nil; fired = true; nested() }
		}
		depth++
		g.pr = cache.Get(s, q, "")
		depth--
		literalHook = nil
		h1, m1 := cache.HitsMisses()
		switch {
		case fired:
			g.outcome = "miss" // validation ran: the lookup had missed
		case nested == nil && h1 == h0+1 && m1 == m0:
			g.outcome = "hit"
		case nested == nil && h1 == h0 && m1 == m0+1:
			g.outcome = "miss"
		case nested != nil && h1 == h0+1 && m1 == m0:
			g.outcome = "hit" // armed, never fired, one hit counted: served from the cache
		default:
			g.outcome = fmt.Sprintf("?(hits %d->%d misses %d->%d fired=%v)", h0, h1, m0, m1, fired)
		}
		if g.outcome == "miss" {
			owner[len(prims)] = g.pr.Plan
			prims = append(prims, []interface{}{"store", ptr[sn], hk})
		}
		if depth == 0 { // no Get in flight: the state must be the model's after the same primitives
			cp := checkpoint{prim: len(prims) - 1, length: cache.VerifLen()}
			for _, k := range cache.VerifKeys() {
				cp.keys = append(cp.keys, hex.EncodeToString([]byte(k)))
			}
			cp.hits, cp.misses = cache.HitsMisses()
			cps = append(cps, cp)
		}
	}

	// ---- the scenario
	switch sc.Prepop {
	case "other-schema-same-key":
		doGet("B", qs[0], nil)
	case "same-schema-other-key":
		doGet("A", qs[1], nil)
	}
	var inner2 func()
	if sc.Inner2 != "" {
		inner2 = func() { doGet(sc.Inner2, qs[0], nil) }
	}
	doGet("A", qs[0], func() {
		doGet(sc.Inner, qs[sc.InnerQ], inner2)
		if sc.Sib {
			doGet("A", qs[1-sc.InnerQ], nil)
		}
	})
	order := []string{"A", "B", "A"}
	if sc.Later == "B" {
		order = []string{"B", "A", "B"}
	}
	for round := 0; round < 2; round++ {
		for _, sn := range order {
			for _, q := range qs {
				doGet(sn, q, nil)
			}
		}
	}
	if firstErr != nil {
		return "", "", nil, false, firstErr
	}

	// ---- (b) every Get against graphql.Do on ITS schema
	for i, g := range gets {
		s := schemas[g.schema]
		want := resultJSON(graphql.Do(graphql.Params{Schema: *s, RequestString: g.q}))
		var got string
		if g.pr.Plan != nil {
			got = resultJSON(graphql.ExecutePlan(g.pr.Plan, graphql.ExecuteParams{Schema: *s, Args: mergeArgs(nil, g.pr.SynthArgs)}))
		} else {
			got = errorsJSON(g.pr.Errors)
		}
		if got != want {
			return "nested-json", "interleaved Gets: a request served through the plan cache is answered differently from graphql.Do on its own schema (" + g.outcome + ")",
				map[string]interface{}{"get": i, "schema": g.schema, "query": g.q, "observed": got, "expected": want}, false, nil
		}
	}

	// ---- (a) the model on the same primitives
	var m modelResp
	if derr := drv.Ask(map[string]interface{}{"prims": map[string]interface{}{"maxEntries": sc.Cap, "ops": prims}}, &m); derr != nil {
		return "", "", nil, false, derr
	}
	if len(m.Steps) != len(prims) {
		return "", "", nil, false, fmt.Errorf("prims: %d steps for %d primitives", len(m.Steps), len(prims))
	}
	for i := 1; i < len(m.Steps); i++ {
		if p, ok := prims[i].([]interface{}); ok && p[0] == "store" && m.Steps[i].Len == m.Steps[i-1].Len && contains(m.Steps[i-1].Keys, p[2].(string)) {
			inPlace = true
		}
	}
	for i, g := range gets {
		ms := m.Steps[g.lookup]
		if ms.O != g.outcome {
			return "nested-outcome", "interleaved Gets: hit/miss differs from the model run on the same lookup/store primitives",
				map[string]interface{}{"get": i, "schema": g.schema, "query": g.q, "go": g.outcome, "model": ms.O, "prims": prims}, inPlace, nil
		}
		if ms.O == "hit" && (ms.Built == nil || owner[*ms.Built] != g.pr.Plan) {
			return "nested-identity", "interleaved Gets: a hit hands back another Get's plan than the model says",
				map[string]interface{}{"get": i, "schema": g.schema, "query": g.q, "model_store_step": ms.Built, "prims": prims}, inPlace, nil
		}
	}
	for _, cp := range cps {
		ms := m.Steps[cp.prim]
		if fmt.Sprint(cp.keys) != fmt.Sprint(ms.Keys) || cp.length != ms.Len || cp.hits != ms.Hits || cp.misses != ms.Misses {
			return "nested-state", "interleaved Gets: key list (most recently used first) / length / counters differ from the model after the same primitives",
				map[string]interface{}{"after_primitive": cp.prim, "go": map[string]interface{}{"keys": unhexAll(cp.keys), "len": cp.length, "hits": cp.hits, "misses": cp.misses},
					"model": map[string]interface{}{"keys": unhexAll(ms.Keys), "len": ms.Len, "hits": ms.Hits, "misses": ms.Misses}, "prims": prims}, inPlace, nil
		}
	}
	return "", "", nil, inPlace, nil
}

// nestedScenarios enumerates the whole space (no sampling)
func nestedScenarios() []nestedScn {
	var out []nestedScn
	for _, norm := range []bool{false, true} {
		for _, cp := range []int{1, 2, 0} {
			for qset := 0; qset < 2; qset++ {
				if norm && qset == 0 {
					continue // a top-level literal is extracted before the lookup: nothing runs between lookup and store
				}
				for _, pre := range []string{"none", "other-schema-same-key", "same-schema-other-key"} {
					for _, in := range []string{"A", "B"} {
						for iq := 0; iq < 2; iq++ {
							for _, in2 := range []string{"", "A", "B"} {
								for _, later := range []string{"A", "B"} {
									for _, sib := range []bool{false, true} {
										out = append(out, nestedScn{Norm: norm, Cap: cp, QSet: qset, Prepop: pre, Inner: in, InnerQ: iq, Inner2: in2, Later: later, Sib: sib})
									}
								}
							}
						}
					}
				}
			}
		}
	}
	return out
}

// oneNested runs a scenario under the run's bookkeeping
func oneNested(run *hx.Run, drv *hx.Driver, sc nestedScn) {
	kind, note, detail, inPlace, err := runNested(sc, drv)
	if err != nil {
		run.CheckError("nested scenario: " + err.Error())
		return
	}
	run.Tag("nested:scenario")
	if inPlace {
		run.Tag("nested:store-refreshes-existing-entry")
	}
	if sc.Inner == "B" && sc.InnerQ == 0 {
		run.Tag("nested:same-key-other-schema")
	}
	run.Case("nested:"+hx.Canon(sc), inPlace, nil)
	if kind != "" {
		run.Violation(note+" ["+kind+"]", map[string]interface{}{"nested": sc, "divergence": detail}, false)
	}
}
