// C16 harness: drives the real graphql.Do / ExecutePlan with resolvers that block on gates the harness
// controls, and cancels the context (or lets a deadline pass) at every resolver boundary: before the call, while
// variable coercion is blocked, while the k-th of n resolvers is blocked, after the last, and racing with
// completion; resolvers ignore or watch the context. The real run is recorded as a sequence of actions of the
// Lean model (GqlModel.Cancel); the compiled model decides whether it is a run of the model and what the
// returned Result must be. Observed: result class and completeness (full data and all errors, or no data and
// exactly the context error), return without releasing the blocked gate, executor goroutines left behind.
// No wall-clock assertions: timers are watchdogs (fire only on a violation) and a bounded settle.
package main

import (
	"bytes"
	"context"
	"encoding/json"
	"errors"
	"fmt"
	"runtime"
	"strings"
	"sync"
	"time"

	"github.com/graphql-go/graphql"
	"github.com/graphql-go/graphql/gqlerrors"
	"github.com/graphql-go/graphql/language/ast"
	"github.com/graphql-go/graphql/language/parser"

	"verif/harness/hx"
)

const watchdog = 5 * time.Second
const maxN = 6

// ---------------------------------------------------------------- per-case world read by the resolvers

type leftEv struct {
	k   int
	saw bool
}

type world struct {
	fails    []bool
	failKind []int // which error a failing resolver returns, see failError
	observes []bool
	gate     []chan struct{} // closed = released; index 0..n-1 resolvers
	coerce   chan struct{}   // gate of the custom scalar's ParseValue (nil = no coercion gate)
	entered  chan int        // k (or -1 for coercion) when a step starts
	left     chan leftEv     // when it ends
	coerceMu sync.Mutex
	coerced  bool
}

var cur *world

func resolver(k int) graphql.FieldResolveFn {
	return func(p graphql.ResolveParams) (interface{}, error) {
		w := cur
		w.entered <- k
		saw := false
		if w.observes[k] {
			select {
			case <-w.gate[k]:
			case <-p.Context.Done():
				saw = true
			}
		} else {
			<-w.gate[k]
		}
		w.left <- leftEv{k, saw}
		if saw {
			return nil, p.Context.Err()
		}
		if w.fails[k] {
			kind := 0
			if k < len(w.failKind) {
				kind = w.failKind[k]
			}
			return nil, failError(kind, p.Context)
		}
		return 100 + k, nil
	}
}

// failError: the error a failing resolver returns while the REQUEST context may well be live. Kinds 1..6 are or wrap
// context.Canceled / context.DeadlineExceeded (a plain sentinel, a wrapped upstream error, the error of a context the
// resolver derived for a call of its own): they are ordinary field errors — one error per failed field, with its path.
func failError(kind int, ctx context.Context) error {
	switch kind {
	case 1:
		return context.Canceled
	case 2:
		return context.DeadlineExceeded
	case 3:
		return fmt.Errorf("upstream call: %w", context.Canceled)
	case 4:
		d, cancel := context.WithDeadline(ctx, time.Now().Add(-time.Second))
		defer cancel()
		return d.Err()
	case 5:
		d, cancel := context.WithDeadline(ctx, time.Now().Add(-time.Second))
		defer cancel()
		return fmt.Errorf("loader: %w", d.Err())
	case 6:
		d, cancel := context.WithCancel(ctx)
		cancel()
		return d.Err()
	}
	return errors.New("resolver failed")
}

var failMessage = []string{"resolver failed", "context canceled", "context deadline exceeded", "upstream call: context canceled",
	"context deadline exceeded", "loader: context deadline exceeded", "context canceled"}

// ctxExt: an extension whose ExecutionDidStart hands back another context. The context ExecutePlan watches (and the
// one whose error it reports) must be the CALLER's in every mode.
type ctxExt struct{ mode string }

type ctxExtKey struct{}

func (e *ctxExt) Init(ctx context.Context, p *graphql.Params) context.Context { return ctx }
func (e *ctxExt) Name() string                                                { return "ctxext" }
func (e *ctxExt) ParseDidStart(ctx context.Context) (context.Context, graphql.ParseFinishFunc) {
	return ctx, func(error) {}
}
func (e *ctxExt) ValidationDidStart(ctx context.Context) (context.Context, graphql.ValidationFinishFunc) {
	return ctx, func([]gqlerrors.FormattedError) {}
}
func (e *ctxExt) ExecutionDidStart(ctx context.Context) (context.Context, graphql.ExecutionFinishFunc) {
	fin := func(*graphql.Result) {}
	switch e.mode {
	case "child":
		return context.WithValue(ctx, ctxExtKey{}, "span"), fin
	case "detached":
		return context.WithValue(context.WithoutCancel(ctx), ctxExtKey{}, "span"), fin
	case "background":
		return context.WithValue(context.Background(), ctxExtKey{}, "span"), fin
	case "nil":
		return nil, fin
	}
	return ctx, fin
}
func (e *ctxExt) ResolveFieldDidStart(ctx context.Context, i *graphql.ResolveInfo) (context.Context, graphql.ResolveFieldFinishFunc) {
	return ctx, func(interface{}, error) {}
}
func (e *ctxExt) HasResult() bool                       { return false }
func (e *ctxExt) GetResult(context.Context) interface{} { return nil }

// recExt: an extension that leaves its own marks on the response of ITS request: a result entry and an error appended
// by its ExecutionFinishFunc, both carrying the id of the request (taken from the request context).
type recExt struct{}

type reqIDKey struct{}

func reqID(ctx context.Context) string {
	if ctx == nil {
		return "?"
	}
	if v, ok := ctx.Value(reqIDKey{}).(string); ok {
		return v
	}
	return "?"
}
func (e *recExt) Init(ctx context.Context, p *graphql.Params) context.Context { return ctx }
func (e *recExt) Name() string                                                { return "recorder" }
func (e *recExt) ParseDidStart(ctx context.Context) (context.Context, graphql.ParseFinishFunc) {
	return ctx, func(error) {}
}
func (e *recExt) ValidationDidStart(ctx context.Context) (context.Context, graphql.ValidationFinishFunc) {
	return ctx, func([]gqlerrors.FormattedError) {}
}
func (e *recExt) ExecutionDidStart(ctx context.Context) (context.Context, graphql.ExecutionFinishFunc) {
	id := reqID(ctx)
	return ctx, func(r *graphql.Result) {
		r.Errors = append(r.Errors, gqlerrors.FormatError(errors.New("recorder finished request "+id)))
	}
}
func (e *recExt) ResolveFieldDidStart(ctx context.Context, i *graphql.ResolveInfo) (context.Context, graphql.ResolveFieldFinishFunc) {
	return ctx, func(interface{}, error) {}
}
func (e *recExt) HasResult() bool                           { return true }
func (e *recExt) GetResult(ctx context.Context) interface{} { return "request " + reqID(ctx) }

var extModes = []string{"", "same", "child", "detached", "background", "nil"}

func buildSchema(ext string) graphql.Schema {
	gateScalar := graphql.NewScalar(graphql.ScalarConfig{
		Name:      "Gate",
		Serialize: func(v interface{}) interface{} { return v },
		ParseValue: func(v interface{}) interface{} {
			w := cur
			w.coerceMu.Lock()
			first := !w.coerced
			w.coerced = true
			w.coerceMu.Unlock()
			if first && w.coerce != nil { // ParseValue is called more than once per variable; gate the first call
				w.entered <- -1
				<-w.coerce
				w.left <- leftEv{-1, false}
			}
			return v
		},
		ParseLiteral: func(v ast.Value) interface{} { return v.GetValue() },
	})
	fields := graphql.Fields{}
	for k := 0; k < maxN; k++ {
		f := &graphql.Field{Type: graphql.Int, Resolve: resolver(k)}
		if k == 0 {
			f.Args = graphql.FieldConfigArgument{"a": &graphql.ArgumentConfig{Type: gateScalar}}
		}
		fields[fmt.Sprintf("f%d", k)] = f
	}
	// the same gated resolvers as serial top-level mutation fields m0 … m5
	mfields := graphql.Fields{}
	for k := 0; k < maxN; k++ {
		f := &graphql.Field{Type: graphql.Int, Resolve: resolver(k)}
		if k == 0 {
			f.Args = graphql.FieldConfigArgument{"a": &graphql.ArgumentConfig{Type: gateScalar}}
		}
		mfields[fmt.Sprintf("m%d", k)] = f
	}
	cfg := graphql.SchemaConfig{
		Query:    graphql.NewObject(graphql.ObjectConfig{Name: "Query", Fields: fields}),
		Mutation: graphql.NewObject(graphql.ObjectConfig{Name: "Mutation", Fields: mfields}),
	}
	if ext == "recorder" {
		cfg.Extensions = []graphql.Extension{&recExt{}}
	} else if ext != "" {
		cfg.Extensions = []graphql.Extension{&ctxExt{mode: ext}}
	}
	schema, err := graphql.NewSchema(cfg)
	if err != nil {
		panic(err)
	}
	return schema
}

// errCause: the application-specific cause given to WithCancelCause / WithTimeoutCause / WithDeadlineCause
var errCause = errors.New("tenant budget exhausted (application cause)")

func isTimer(cx string) bool {
	return cx == "timeout" || cx == "timeoutCause" || cx == "parentTimeoutCause"
}

// manualCtx: a context whose "deadline passes" when the harness says so
type manualCtx struct {
	context.Context
	done chan struct{}
	mu   sync.Mutex
	err  error
}

func (m *manualCtx) Done() <-chan struct{} { return m.done }
func (m *manualCtx) Err() error {
	m.mu.Lock()
	defer m.mu.Unlock()
	return m.err
}
func (m *manualCtx) expire() {
	m.mu.Lock()
	if m.err == nil {
		m.err = context.DeadlineExceeded
		close(m.done)
	}
	m.mu.Unlock()
}
func (m *manualCtx) Deadline() (time.Time, bool) { return time.Now().Add(time.Hour), true }

// ---------------------------------------------------------------- canonical results

type errEntry struct {
	Ctx  string   `json:"ctx"`
	Path []string `json:"path"`
}

// canonResult: data and error paths. A field error is marked as "the resolver saw the done request context" from what
// the resolver itself recorded (sawCtx: field name -> the context error's name), never from the message text: a
// resolver may fail with context.Canceled of its own while the request context is live.
func canonResult(r *graphql.Result, sawCtx map[string]string) string {
	if r == nil {
		return "nil-result"
	}
	var data interface{}
	if r.Data != nil {
		b, err := json.Marshal(r.Data)
		if err != nil {
			return "unmarshalable-data:" + err.Error()
		}
		dec := json.NewDecoder(bytes.NewReader(b))
		dec.UseNumber()
		if err := dec.Decode(&data); err != nil {
			return "undecodable-data:" + err.Error()
		}
		if m, ok := data.(map[string]interface{}); ok {
			delete(m, "__typename") // the n = 0 document selects only __typename; the model's data is {}
		}
	}
	errs := []errEntry{}
	for _, e := range r.Errors {
		p := []string{}
		for _, k := range e.Path {
			p = append(p, fmt.Sprint(k))
		}
		c := ""
		if len(p) == 0 {
			switch e.Message {
			case context.Canceled.Error():
				c = "canceled"
			case context.DeadlineExceeded.Error():
				c = "deadline"
			}
		} else {
			c = sawCtx[p[0]]
		}
		errs = append(errs, errEntry{Ctx: c, Path: p})
	}
	return hx.Canon(map[string]interface{}{"data": data, "errs": errs})
}

func recanon(raw json.RawMessage) string {
	var v interface{}
	dec := json.NewDecoder(bytes.NewReader(raw))
	dec.UseNumber()
	if dec.Decode(&v) != nil {
		return string(raw)
	}
	return hx.Canon(v)
}

// ---------------------------------------------------------------- goroutine inspection

var ignored = map[string]bool{}

func executorGoroutines() (ids []string) {
	buf := make([]byte, 1<<16)
	for {
		n := runtime.Stack(buf, true)
		if n < len(buf) {
			buf = buf[:n]
			break
		}
		buf = make([]byte, 2*len(buf))
	}
	for _, blk := range strings.Split(string(buf), "\n\n") {
		if !strings.Contains(blk, "created by github.com/graphql-go/graphql.ExecutePlan") {
			continue
		}
		h := strings.SplitN(blk, "\n", 2)[0]
		if i := strings.Index(h, " ["); i > 0 {
			id := h[len("goroutine "):i]
			if !ignored[id] {
				ids = append(ids, id)
			}
		}
	}
	return
}

// ---------------------------------------------------------------- a case

type caseT struct {
	N        int    `json:"n"`
	Fails    []bool `json:"fails"`
	Observes []bool `json:"observes"`
	Coerce   bool   `json:"coerce"` // gate variable coercion (custom scalar) as an extra first step
	// Point: -2 never; -1 before the call; 0..n-1 while step k is blocked (with Coerce: step 0 is the coercion,
	// resolvers are steps 1..n); steps = n (+1) means after the call returned; "race" uses Point = last step.
	Point int    `json:"point"`
	Race  bool   `json:"race"`  // release the blocked step and end the context concurrently
	Ctx   string `json:"ctx"`   // cancel | manualDeadline | timeout | pastDeadline
	Entry string `json:"entry"` // do | plan
	Op    string `json:"op"`    // query (default) | mutation (serial top-level fields m0 … m(n-1))
	// FailKind[k]: the error a failing resolver k returns (0 plain, 1 context.Canceled, 2 DeadlineExceeded, 3 wrapped
	// Canceled, 4 error of a derived expired context, 5 the same wrapped, 6 error of a derived cancelled context)
	FailKind []int `json:"failKind,omitempty"`
	// Ext: "" no extension | same | child | detached | background | nil — what the extension's ExecutionDidStart returns
	Ext string `json:"ext,omitempty"`
}

type observation struct {
	Trace      [][]interface{} `json:"trace"`
	Result     string          `json:"result"`
	Returned   bool            `json:"returned"`
	LeftAtRet  int             `json:"steps_left_when_the_call_returned"`
	Executors  int             `json:"executor_goroutines_alive"`
	Goroutines int             `json:"goroutines_over_baseline"`
	Fault      string          `json:"fault,omitempty"`
}

type modelResp struct {
	Valid     bool            `json:"valid"`
	FailedAt  *int            `json:"failedAt"`
	FailedAct json.RawMessage `json:"failedAct"`
	Returned  bool            `json:"returned"`
	Class     *string         `json:"class"`
	Expected  json.RawMessage `json:"expected"`
	Executor  string          `json:"executor"`
	StepsDone int             `json:"stepsDone"`
	Cap       int             `json:"cap"`
	Ctx       *string         `json:"ctx"`
}

func query(c caseT) (string, map[string]interface{}) {
	op, pre := "query", "f"
	if c.Op == "mutation" {
		op, pre = "mutation", "m"
	}
	if c.N == 0 {
		return op + ` Q { __typename }`, nil
	}
	var b strings.Builder
	vars := map[string]interface{}(nil)
	if c.Coerce {
		fmt.Fprintf(&b, `%s Q($v: Gate) { %s0(a: $v)`, op, pre)
		vars = map[string]interface{}{"v": 1}
	} else {
		fmt.Fprintf(&b, `%s Q { %s0`, op, pre)
	}
	for k := 1; k < c.N; k++ {
		fmt.Fprintf(&b, " %s%d", pre, k)
	}
	b.WriteString(" }")
	return b.String(), vars
}

func main() {
	run := hx.Begin("C16")
	drv, err := hx.StartDriver(run.DriverBin)
	if err != nil {
		run.CheckError("cannot start driver: " + err.Error())
		run.Finish()
		return
	}
	defer drv.Close()
	schemas := map[string]graphql.Schema{}
	for _, m := range extModes {
		schemas[m] = buildSchema(m)
	}
	schemas["recorder"] = buildSchema("recorder")
	run.Res.Rule = "query { f0 … f(n-1) } and mutation { m0 … m(n-1) } (serial top-level fields) with n = 0..6 sequential top-level resolvers, each blocking on its own gate; every resolver fails or not (with a plain error, or with context.Canceled / DeadlineExceeded of its own: sentinel, wrapped, or the error of a context it derived — ordinary field errors while the request context is live) and watches ctx.Done() or not; optionally an extension whose ExecutionDidStart returns the same / a child / a detached / a Background-based / a nil context (the caller's context must stay the watched one); optional gate inside variable coercion (custom scalar ParseValue); the context ends at one point: never / before the call / while step k is blocked (every k) / after the call returned / concurrently with the release of step k (race); context kinds: cancel, harness-triggered deadline (custom Context, Err = DeadlineExceeded), real WithTimeout, deadline already past, and the same with an explicit cause (WithCancelCause, WithTimeoutCause, WithDeadlineCause — own and inherited from a parent context; the response must carry ctx.Err(), not context.Cause); entries graphql.Do and PlanQuery+ExecutePlan; the run is recorded as model actions and validated by the compiled Lean model, the returned Result is compared with the model's expected Result; plus histories of several requests on one P (a cancelled request whose resolver finishes late followed by a request released after it; cancelled requests across schemas with and without an extension that marks its own response): every response must be the full / context-error response of ITS request; non-trivial = n >= 1; distinct by the whole case"

	one := func(c caseT) {
		steps := c.N
		off := 0 // step index of resolver 0
		if c.Coerce && c.N > 0 {
			steps++
			off = 1
		} else {
			c.Coerce = false
		}
		runtime.Gosched()
		baseline := runtime.NumGoroutine()
		schema := schemas[c.Ext]
		w := &world{fails: c.Fails, failKind: c.FailKind, observes: c.Observes, entered: make(chan int, 4*maxN+8), left: make(chan leftEv, 4*maxN+8)}
		for k := 0; k < c.N; k++ {
			w.gate = append(w.gate, make(chan struct{}))
		}
		if c.Coerce {
			w.coerce = make(chan struct{})
		}
		cur = w
		released := make([]bool, steps)
		release := func(s int) {
			if s < 0 || s >= steps || released[s] {
				return
			}
			released[s] = true
			if c.Coerce && s == 0 {
				close(w.coerce)
			} else {
				close(w.gate[s-off])
			}
		}
		// the context
		var ctx context.Context
		var endCtx func()
		ctxName := "canceled"
		cleanupCtx := func() {}
		switch c.Ctx {
		case "manualDeadline":
			m := &manualCtx{Context: context.Background(), done: make(chan struct{})}
			ctx, endCtx, ctxName = m, m.expire, "deadline"
		case "timeout", "timeoutCause", "parentTimeoutCause":
			// created right before the call; the harness never ends it itself but waits for ctx.Done()
			ctxName = "deadline"
		case "pastDeadline":
			cctx, cancel := context.WithDeadline(context.Background(), time.Now().Add(-time.Second))
			ctx, endCtx, ctxName, cleanupCtx = cctx, func() {}, "deadline", cancel
		case "pastDeadlineCause":
			cctx, cancel := context.WithDeadlineCause(context.Background(), time.Now().Add(-time.Second), errCause)
			ctx, endCtx, ctxName, cleanupCtx = cctx, func() {}, "deadline", cancel
		case "cancelCause":
			// cancelled with an application-specific cause: the response must still carry ctx.Err(), not the cause
			cctx, cancel := context.WithCancelCause(context.Background())
			ctx, endCtx, cleanupCtx = cctx, func() { cancel(errCause) }, func() { cancel(nil) }
		case "parentCancelCause":
			// the cause is set on a parent; the request context is a plain child of it
			parent, cancelParent := context.WithCancelCause(context.Background())
			cctx, cancel := context.WithCancel(parent)
			ctx, endCtx, cleanupCtx = cctx, func() { cancelParent(errCause) }, func() { cancel(); cancelParent(nil) }
		default:
			cctx, cancel := context.WithCancel(context.Background())
			ctx, endCtx, cleanupCtx = cctx, cancel, cancel
		}
		obs := observation{Trace: [][]interface{}{}}
		ctxEnded := false
		ctxReallyEnded := false
		var lefts []leftEv
		trace := func(a ...interface{}) { obs.Trace = append(obs.Trace, a) }
		flushLeft := func() { // record the steps that have ended so far, in order
			for {
				select {
				case l := <-w.left:
					if l.saw && !ctxEnded {
						// a resolver saw the done context: the context ended before this step ended
						trace("ctxDone", ctxName)
						ctxEnded = true
					}
					idx := l.k + off
					trace("step", idx, l.saw)
					lefts = append(lefts, l)
				default:
					return
				}
			}
		}
		markCtx := func() {
			if !ctxEnded {
				trace("ctxDone", ctxName)
				ctxEnded = true
			}
		}
		waitLeft := func(n int) bool { // wait until n steps have ended
			deadline := time.After(watchdog)
			for len(lefts) < n {
				select {
				case l := <-w.left:
					if l.saw && !ctxEnded {
						trace("ctxDone", ctxName)
						ctxEnded = true
					}
					trace("step", l.k+off, l.saw)
					lefts = append(lefts, l)
				case <-deadline:
					return false
				}
			}
			return true
		}
		waitEntered := func(s int) bool {
			t := time.NewTimer(watchdog)
			defer t.Stop()
			for {
				select {
				case k := <-w.entered:
					if k+off == s {
						return true
					}
				case <-t.C:
					return false
				}
			}
		}

		q, vars := query(c)
		if c.Point == -1 && !isTimer(c.Ctx) {
			endCtx()
			markCtx()
		}
		if isTimer(c.Ctx) {
			d := 4 * time.Millisecond
			if c.Point == -1 {
				d = time.Nanosecond
			}
			var cctx context.Context
			var cancel context.CancelFunc
			switch c.Ctx {
			case "timeoutCause":
				cctx, cancel = context.WithTimeoutCause(context.Background(), d, errCause)
			case "parentTimeoutCause":
				parent, cancelParent := context.WithTimeoutCause(context.Background(), d, errCause)
				child, cancelChild := context.WithCancel(parent)
				cctx, cancel = child, func() { cancelChild(); cancelParent() }
			default:
				cctx, cancel = context.WithTimeout(context.Background(), d)
			}
			ctx, endCtx, cleanupCtx = cctx, func() { <-cctx.Done() }, cancel
			if c.Point == -1 {
				<-cctx.Done()
				markCtx()
			}
		}
		resCh := make(chan *graphql.Result, 1)
		go func() {
			defer func() {
				if p := recover(); p != nil {
					resCh <- &graphql.Result{Errors: nil, Data: fmt.Sprint("PANIC ", p)}
				}
			}()
			if c.Entry == "plan" {
				doc, err := parser.Parse(parser.ParseParams{Source: q})
				if err != nil {
					resCh <- nil
					return
				}
				plan, err := graphql.PlanQuery(&schema, doc, "")
				if err != nil {
					resCh <- nil
					return
				}
				resCh <- graphql.ExecutePlan(plan, graphql.ExecuteParams{Schema: schema, AST: doc, Args: vars, Context: ctx})
			} else {
				resCh <- graphql.Do(graphql.Params{Schema: schema, RequestString: q, VariableValues: vars, Context: ctx})
			}
		}()
		var res *graphql.Result
		awaitReturn := func(what string) bool {
			t := time.NewTimer(watchdog)
			defer t.Stop()
			select {
			case res = <-resCh:
				obs.Returned = true
				return true
			case <-t.C:
				obs.Fault = "the call did not return within " + watchdog.String() + " " + what
				return false
			}
		}

		blockedAt := -1 // the step the executor is blocked in when the context ends
		switch {
		case c.Point == -1:
			// the context was done before the call: it must return although step 0 is never released
			if steps > 0 {
				blockedAt = 0
			}
			awaitReturn("although the context was done before it started")
		case c.Point >= 0 && c.Point < steps:
			ok := true
			for s := 0; s < c.Point && ok; s++ {
				if !waitEntered(s) {
					obs.Fault = fmt.Sprintf("step %d was never started", s)
					ok = false
					break
				}
				release(s)
				ok = waitLeft(s + 1)
				if !ok {
					obs.Fault = fmt.Sprintf("step %d did not end after its gate was released", s)
				}
			}
			if ok && !waitEntered(c.Point) {
				obs.Fault = fmt.Sprintf("step %d was never started", c.Point)
				ok = false
			}
			if ok {
				blockedAt = c.Point
				if c.Race {
					// end the context and release the blocked step concurrently
					var wg sync.WaitGroup
					wg.Add(1)
					ctxReallyEnded = true
					go func() { defer wg.Done(); endCtx() }()
					release(c.Point)
					for s := c.Point + 1; s < steps; s++ {
						release(s)
					}
					wg.Wait()
					awaitReturn("after the context ended and all gates were released")
				} else {
					endCtx()
					flushLeft()
					markCtx()
					awaitReturn(fmt.Sprintf("after the context ended while step %d was blocked (its gate was not released)", c.Point))
				}
			}
		default:
			// never, or after the call returned: release everything, the call must return the normal result
			for s := 0; s < steps; s++ {
				release(s)
			}
			if awaitReturn("although every gate was released") && c.Point >= steps && c.Point != -2 {
				flushLeft()
				if !waitLeft(steps) {
					obs.Fault = "the call returned before every step had ended"
				}
			}
		}
		// what had ended when the call returned (only steps whose gate was released or that watch the context can have)
		flushLeft()
		obs.LeftAtRet = len(lefts)
		pre := map[bool]string{false: "f", true: "m"}[c.Op == "mutation"]
		sawCtx := map[string]string{}
		for _, l := range lefts {
			if l.saw && l.k >= 0 {
				sawCtx[fmt.Sprintf("%s%d", pre, l.k)] = ctxName
			}
		}
		resultCanon := canonResult(res, sawCtx)
		// every field error must carry the message of the error its resolver returned
		msgFault := ""
		if res != nil {
			for _, e := range res.Errors {
				if len(e.Path) == 0 {
					continue
				}
				var k int
				if _, err := fmt.Sscanf(fmt.Sprint(e.Path[0]), pre+"%d", &k); err != nil || k < 0 || k >= c.N {
					continue
				}
				want := failMessage[0]
				if k < len(c.FailKind) && c.FailKind[k] < len(failMessage) {
					want = failMessage[c.FailKind[k]]
				}
				if _, saw := sawCtx[fmt.Sprint(e.Path[0])]; saw && ctx.Err() != nil {
					want = ctx.Err().Error()
				}
				if e.Message != want && msgFault == "" {
					msgFault = fmt.Sprintf("the error of field %v reads %q, its resolver returned %q", e.Path[0], e.Message, want)
				}
			}
		}
		obs.Result = resultCanon
		// context-error class by shape (no data, one error without a path); that the error is exactly the context's
		// own error (ctx.Err(): Canceled / DeadlineExceeded — not context.Cause) is checked separately below
		isCtxClass := res != nil && res.Data == nil && len(res.Errors) == 1 && len(res.Errors[0].Path) == 0
		ctxErrFault := ""
		if isCtxClass {
			want := ctx.Err()
			got := res.Errors[0]
			switch {
			case want == nil:
				ctxErrFault = fmt.Sprintf("the call returned a context-error shaped result (%q) although the context is not done", got.Message)
			case got.Message != want.Error():
				ctxErrFault = fmt.Sprintf("the response carries %q instead of exactly the context's error ctx.Err() = %q", got.Message, want.Error())
			case got.OriginalError() == nil || !errors.Is(got.OriginalError(), want):
				ctxErrFault = fmt.Sprintf("the response's original error %v is not the context's error %v (errors.Is)", got.OriginalError(), want)
			}
		}
		returnedBlocked := obs.Returned && blockedAt >= 0 && !c.Race && !released[blockedAt]
		if obs.Returned {
			if isCtxClass {
				markCtx()
				trace("selectCtx")
			}
		}
		// let the background executor finish: release everything, wait for it to be gone (bounded settle)
		for s := 0; s < steps; s++ {
			release(s)
		}
		deadline := time.Now().Add(watchdog)
		for i := 0; ; i++ {
			ids := executorGoroutines()
			n := runtime.NumGoroutine()
			obs.Executors = len(ids)
			obs.Goroutines = n - baseline - len(ids)
			if obs.Goroutines < 0 {
				obs.Goroutines = 0
			}
			if (len(ids) == 0 && n <= baseline) || time.Now().After(deadline) {
				break
			}
			if i < 20 {
				runtime.Gosched()
			} else {
				time.Sleep(100 * time.Microsecond)
			}
		}
		flushLeft()
		if obs.Returned && !isCtxClass {
			// a normal-class result: by the model it can only be taken after the executor has sent
			if len(lefts) == steps {
				trace("finish")
			}
			trace("selectResult")
			if (c.Point >= steps && c.Point != -2 && !isTimer(c.Ctx)) || ctxReallyEnded {
				endCtx()
				markCtx()
			}
		} else if len(lefts) == steps && obs.Executors == 0 {
			trace("finish")
		}
		if isTimer(c.Ctx) && !ctxEnded {
			// the deadline is still ahead: nothing to record
		}
		cleanupCtx()

		rs := []map[string]bool{}
		if c.Coerce {
			rs = append(rs, map[string]bool{"fails": false, "observes": false})
		}
		for k := 0; k < c.N; k++ {
			rs = append(rs, map[string]bool{"fails": c.Fails[k], "observes": c.Observes[k]})
		}
		var m modelResp
		if err := drv.Ask(map[string]interface{}{"rs": rs, "skipFirst": c.Coerce, "cap": nil, "acts": obs.Trace, "prefix": map[bool]string{false: "f", true: "m"}[c.Op == "mutation"]}, &m); err != nil {
			run.CheckError(err.Error())
			return
		}
		run.Tag(fmt.Sprintf("n:%d", c.N))
		run.Tag("ctx:" + c.Ctx)
		run.Tag("entry:" + c.Entry)
		if c.Ext != "" {
			run.Tag("extension-context:" + c.Ext)
		}
		for k, f := range c.Fails {
			if f && k < len(c.FailKind) && c.FailKind[k] > 0 {
				run.Tag("a-resolver-fails-with-a-context-error-of-its-own")
				break
			}
		}
		if c.Op == "mutation" {
			run.Tag("op:mutation")
		} else {
			run.Tag("op:query")
		}
		switch {
		case c.Point == -2:
			run.Tag("point:never")
		case c.Point == -1:
			run.Tag("point:before-the-call")
		case c.Race:
			run.Tag("point:race-with-release")
		case c.Point >= steps:
			run.Tag("point:after-return")
		case c.Coerce && c.Point == 0:
			run.Tag("point:during-variable-coercion")
		default:
			run.Tag("point:while-a-resolver-is-blocked")
		}
		if obs.Returned {
			if isCtxClass {
				run.Tag("outcome:context-error")
			} else {
				run.Tag("outcome:normal")
			}
		}
		for _, l := range lefts {
			if l.saw {
				run.Tag("a-resolver-saw-the-done-context")
				break
			}
		}
		if returnedBlocked {
			run.Tag("returned-while-a-step-was-still-blocked")
		}
		run.Case(hx.Canon(c), c.N >= 1, map[string]interface{}{"case": c, "trace": obs.Trace, "result": resultCanon})

		replay := map[string]interface{}{"case": c, "query": q, "observed": obs, "model": m}
		bad := ""
		switch {
		case obs.Fault != "":
			bad = obs.Fault
		case res == nil:
			bad = "harness fault: the request did not parse or plan"
		case !m.Valid:
			bad = fmt.Sprintf("the observed run is not a run of the model: action %d %s is not enabled there (executor %s after %d steps, context %v)", *m.FailedAt, string(m.FailedAct), m.Executor, m.StepsDone, m.Ctx)
		case !m.Returned:
			bad = "harness fault: the recorded run does not contain the caller's return"
		case ctxErrFault != "":
			bad = ctxErrFault
		case msgFault != "":
			bad = msgFault
		case recanon(m.Expected) != resultCanon:
			bad = "the returned Result is neither the complete normal response nor exactly the context error: it differs from the model's"
		case obs.Executors != 0:
			bad = fmt.Sprintf("%d executor goroutine(s) of ExecutePlan still alive after every gate was released (blocked on the result channel?)", obs.Executors)
		case obs.Goroutines > 0:
			bad = fmt.Sprintf("runtime.NumGoroutine() is %d above the baseline after settle", obs.Goroutines)
		case m.Executor != "sent":
			bad = "the background executor never reached its send although every gate was released"
		}
		if bad != "" && c.Ext != "" {
			bad += fmt.Sprintf("; the schema has an extension whose ExecutionDidStart returns a %q context: the context ExecutePlan watches and reports must stay the caller's", c.Ext)
		}
		if bad != "" {
			if strings.HasPrefix(bad, "harness fault") {
				run.CheckError(bad + " " + hx.Canon(replay))
			} else {
				run.Violation(bad, replay, false)
			}
			for _, id := range executorGoroutines() {
				ignored[id] = true
			}
		}
	}

	if run.ReplayIn != "" {
		var rp struct {
			Case caseT `json:"case"`
		}
		if err := hx.LoadReplay(run.ReplayIn, &rp); err != nil {
			run.CheckError(err.Error())
		} else {
			one(rp.Case)
		}
		run.Finish()
		return
	}

	// ---- enumeration: all n, all points, all context kinds, both entries; resolver kinds exhaustive for small n,
	// seeded samples above
	timerIdx := map[string]int{}
	caseNo := 0
	kindSets := func(n int, rg *hx.Rng, samples int) [][2][]bool {
		var out [][2][]bool
		if n <= 2 {
			for mask := 0; mask < 1<<(2*n); mask++ {
				f, o := make([]bool, n), make([]bool, n)
				for k := 0; k < n; k++ {
					f[k] = mask>>(2*k)&1 == 1
					o[k] = mask>>(2*k+1)&1 == 1
				}
				out = append(out, [2][]bool{f, o})
			}
			return out
		}
		for s := 0; s < samples; s++ {
			f, o := make([]bool, n), make([]bool, n)
			for k := 0; k < n; k++ {
				switch s {
				case 0: // nobody fails, nobody watches
				case 1:
					o[k] = true
				default:
					f[k] = rg.Chance(1, 3)
					o[k] = rg.Chance(1, 2)
				}
			}
			out = append(out, [2][]bool{f, o})
		}
		return out
	}
	samples := run.N(3, 40)
	timeoutEvery := run.N(9, 3) // real-timeout cases wait for a real deadline (a few ms each): thin them out
	for n := 0; n <= maxN && !run.TooManyViolations(); n++ {
		rg := hx.Fork(run.Seed, n)
		for _, ks := range kindSets(n, rg, samples) {
			for _, coerce := range []bool{false, true} {
				if coerce && n == 0 {
					continue
				}
				steps := n
				if coerce {
					steps++
				}
				for point := -2; point <= steps; point++ {
					for _, race := range []bool{false, true} {
						if race && (point < 0 || point >= steps) {
							continue
						}
						for _, cx := range []string{"cancel", "manualDeadline", "timeout", "pastDeadline", "cancelCause", "parentCancelCause", "timeoutCause", "parentTimeoutCause", "pastDeadlineCause"} {
							if (cx == "pastDeadline" || cx == "pastDeadlineCause") && point != -1 {
								continue
							}
							if (cx == "cancelCause" || cx == "parentCancelCause") && race && !run.Thorough() {
								continue
							}
							if isTimer(cx) {
								if race || point == -2 || point >= steps {
									continue
								}
								timerIdx[cx]++ // thin every real-timer kind separately
								if timerIdx[cx]%timeoutEvery != 0 {
									continue
								}
							}
							if point == -2 && cx != "cancel" {
								continue
							}
							for _, entry := range []string{"do", "plan"} {
								for _, op := range []string{"query", "mutation"} {
									if run.TooManyViolations() {
										break
									}
									if op == "mutation" && n == 0 {
										continue // a mutation needs a field
									}
									if op == "mutation" && !run.Thorough() && (strings.Contains(cx, "Cause") || (race && n > 3)) {
										continue // quick tier: mutations with the plain context kinds
									}
									caseNo++
									fk := make([]int, n)
									for k := range fk {
										if ks[0][k] {
											fk[k] = (caseNo + 3*k) % len(failMessage) // a failing resolver's error kind varies
										}
									}
									for _, ext := range extModes {
										if ext != "" && (race || coerce || (cx != "cancel" && cx != "manualDeadline") ||
											(!run.Thorough() && (n > 3 || op == "mutation" || caseNo%2 == 0))) {
											continue // the extension dimension: plain cancel / deadline at every point
										}
										one(caseT{N: n, Fails: ks[0], Observes: ks[1], Coerce: coerce, Point: point, Race: race, Ctx: cx, Entry: entry, Op: op, FailKind: fk, Ext: ext})
									}
								}
							}
						}
					}
				}
			}
		}
	}
	// several fields of one request fail with the SAME context error text while the request context is live (or ends
	// only after the call returned): the full response carries one error per failed field
	for n := 2; n <= 4 && !run.TooManyViolations(); n++ {
		pats := [][]int{{1, 1, 1, 1}, {2, 2, 2, 2}, {3, 3, 3, 3}, {4, 4, 4, 4}, {5, 5, 5, 5}, {6, 6, 6, 6}, {1, 6, 1, 6}, {2, 4, 4, 2}, {3, 0, 3, 3}, {6, 1, 0, 1}}
		for _, pat := range pats {
			for _, point := range []int{-2, n, n - 1} {
				for _, entry := range []string{"do", "plan"} {
					for _, op := range []string{"query", "mutation"} {
						f, o := make([]bool, n), make([]bool, n)
						for k := range f {
							f[k] = true
						}
						if point == n-1 {
							f[n-1] = false // the last step is the blocked one when the context ends
						}
						one(caseT{N: n, Fails: f, Observes: o, Point: point, Ctx: "cancel", Entry: entry, Op: op, FailKind: pat[:n]})
						run.Tag("context-error-of-its-own-sweep")
					}
				}
			}
		}
	}
	histories(run, drv, schemas)
	run.Res.Exhaustive = false
	run.Res.Extra["cancellation_points"] = "exhaustive per document: before the call, every step k = 0..n-1 (plus the coercion gate), after return, race at every k; n = 0..6"
	run.Finish()
}

// ---------------------------------------------------------------- histories of several requests

// hreq: one request of a history, driven by hand (its own world of gates; the resolvers read `cur` when they start,
// so a request's steps must all have started before the next request's world is installed)
type hreq struct {
	id     string
	w      *world
	n      int
	fails  []bool
	op     string
	ctx    context.Context
	cancel context.CancelFunc
	resCh  chan *graphql.Result
	res    *graphql.Result
}

func startReq(schema graphql.Schema, id, entry, op string, fails []bool, deadline bool) *hreq {
	n := len(fails)
	h := &hreq{id: id, n: n, fails: fails, op: op, resCh: make(chan *graphql.Result, 1)}
	h.w = &world{fails: fails, observes: make([]bool, n), entered: make(chan int, 32), left: make(chan leftEv, 32)}
	for k := 0; k < n; k++ {
		h.w.gate = append(h.w.gate, make(chan struct{}))
	}
	base := context.WithValue(context.Background(), reqIDKey{}, id)
	if deadline {
		m := &manualCtx{Context: base, done: make(chan struct{})}
		h.ctx, h.cancel = m, m.expire
	} else {
		h.ctx, h.cancel = context.WithCancel(base)
	}
	cur = h.w
	q, _ := query(caseT{N: n, Op: op})
	go func() {
		if entry == "plan" {
			doc, err := parser.Parse(parser.ParseParams{Source: q})
			if err != nil {
				h.resCh <- nil
				return
			}
			plan, err := graphql.PlanQuery(&schema, doc, "")
			if err != nil {
				h.resCh <- nil
				return
			}
			h.resCh <- graphql.ExecutePlan(plan, graphql.ExecuteParams{Schema: schema, AST: doc, Context: h.ctx})
		} else {
			h.resCh <- graphql.Do(graphql.Params{Schema: schema, RequestString: q, Context: h.ctx})
		}
	}()
	return h
}

// runTo: release the gates before step k and wait until step k has started (k = n: all steps released)
func (h *hreq) runTo(k int) bool {
	for s := 0; s <= k && s < h.n; s++ {
		t := time.NewTimer(watchdog)
		select {
		case <-h.w.entered:
			t.Stop()
		case <-t.C:
			return false
		}
		if s < k {
			close(h.w.gate[s])
		}
	}
	return true
}

func (h *hreq) await() bool {
	t := time.NewTimer(watchdog)
	defer t.Stop()
	select {
	case h.res = <-h.resCh:
		return true
	case <-t.C:
		return false
	}
}

func (h *hreq) returnedYet() bool {
	select {
	case h.res = <-h.resCh:
		return true
	default:
		return false
	}
}

func errTexts(r *graphql.Result) []string {
	out := []string{}
	if r != nil {
		for _, e := range r.Errors {
			out = append(out, e.Message)
		}
	}
	return out
}

func waitExecutors(max int) int {
	deadline := time.Now().Add(watchdog)
	for i := 0; ; i++ {
		n := len(executorGoroutines())
		if n <= max || time.Now().After(deadline) {
			return n
		}
		if i < 20 {
			runtime.Gosched()
		} else {
			time.Sleep(100 * time.Microsecond)
		}
	}
}

func histories(run *hx.Run, drv *hx.Driver, schemas map[string]graphql.Schema) {
	prev := runtime.GOMAXPROCS(1) // one P: what one request leaves behind (pools, shared objects) is what the next one finds
	defer runtime.GOMAXPROCS(prev)
	askFull := func(h *hreq) (string, error) { // the model's full response of a request that ran to completion
		rs := []map[string]bool{}
		acts := [][]interface{}{}
		for k := 0; k < h.n; k++ {
			rs = append(rs, map[string]bool{"fails": h.fails[k], "observes": false})
			acts = append(acts, []interface{}{"step", k, false})
		}
		acts = append(acts, []interface{}{"finish"}, []interface{}{"selectResult"})
		var m modelResp
		if err := drv.Ask(map[string]interface{}{"rs": rs, "skipFirst": false, "cap": nil, "acts": acts, "prefix": map[bool]string{false: "f", true: "m"}[h.op == "mutation"]}, &m); err != nil {
			return "", err
		}
		if !m.Valid || !m.Returned {
			return "", errors.New("the model rejects a plain run to completion")
		}
		return recanon(m.Expected), nil
	}
	// (A) a cancelled request whose resolver finishes late, then a second request whose resolver is released after the
	// first one's: the second response must be the second request's own full response
	type pairT struct {
		Entry1, Entry2, Op1, Op2 string
		Fails1, Fails2           []bool
		Deadline                 bool
	}
	for _, e1 := range []string{"do", "plan"} {
		for _, e2 := range []string{"do", "plan"} {
			for _, ops := range [][2]string{{"query", "query"}, {"query", "mutation"}, {"mutation", "query"}} {
				for _, fs := range [][2][]bool{{{false}, {false, false}}, {{false, false}, {true}}, {{true}, {false}}, {{false}, {true, false, false}}} {
					for _, dl := range []bool{false, true} {
						if run.TooManyViolations() {
							return
						}
						c := pairT{e1, e2, ops[0], ops[1], fs[0], fs[1], dl}
						for i := 0; i < 50 && len(executorGoroutines()) > 0; i++ {
							runtime.Gosched()
						}
						h1 := startReq(schemas[""], "one", c.Entry1, c.Op1, c.Fails1, c.Deadline)
						fault := ""
						var h2 *hreq
						switch {
						case !h1.runTo(h1.n - 1):
							fault = "request 1: its last resolver was never started"
						default:
							h1.cancel()
							if !h1.await() {
								fault = "request 1 did not return after its context ended while its last resolver was blocked"
								break
							}
							h2 = startReq(schemas[""], "two", c.Entry2, c.Op2, c.Fails2, false)
							if !h2.runTo(h2.n - 1) {
								fault = "request 2: its last resolver was never started"
								break
							}
							// request 1's abandoned resolver finishes now; its executor sends its stale result and leaves
							close(h1.w.gate[h1.n-1])
							waitExecutors(1)
							if h2.returnedYet() {
								fault = "request 2 returned while its own last resolver was still blocked, right after request 1's abandoned resolver finished"
							} else {
								close(h2.w.gate[h2.n-1])
								if !h2.await() {
									fault = "request 2 did not return although every gate was released"
								}
							}
						}
						for _, h := range []*hreq{h1, h2} { // release whatever is still blocked
							if h != nil {
								for _, g := range h.w.gate {
									select {
									case <-g:
									default:
										close(g)
									}
								}
								h.cancel()
							}
						}
						left := waitExecutors(0)
						run.Tag("history:late-resolver-of-a-cancelled-request-then-another-request")
						run.Case("pair|"+hx.Canon(c), true, map[string]interface{}{"history": c})
						replay := map[string]interface{}{"history": "cancelled request with a late-finishing resolver, then a second request", "case": c}
						bad := fault
						if bad == "" {
							want, err := askFull(h2)
							if err != nil {
								run.CheckError(err.Error())
								continue
							}
							got1, got2 := canonResult(h1.res, nil), canonResult(h2.res, nil)
							replay["response_1"], replay["response_2"], replay["model_full_response_2"] = got1, got2, want
							wantCtx := `{"data":null,"errs":[{"ctx":"canceled","path":[]}]}`
							if c.Deadline {
								wantCtx = `{"data":null,"errs":[{"ctx":"deadline","path":[]}]}`
							}
							switch {
							case got1 != wantCtx:
								bad = "request 1 (context ended while its resolver was blocked) did not return exactly the context error"
							case got2 != want:
								bad = "request 2's response is not its own full response (the model's): " + got2 + " instead of " + want
							case left != 0:
								bad = fmt.Sprintf("%d executor goroutine(s) still alive after the history", left)
							}
						}
						if bad != "" {
							run.Violation("history of two requests: "+bad, replay, false)
							for _, id := range executorGoroutines() {
								ignored[id] = true
							}
						}
					}
				}
			}
		}
	}
	// (B) cancelled requests across schemas with and without an extension that marks ITS request's response: every
	// cancelled response is exactly the context's error plus the marks of its OWN extension, a fresh object each time
	type seqT struct {
		Schemas  []string
		Entry    string
		Deadline bool
	}
	for _, ss := range [][]string{{"recorder", ""}, {"recorder", "", "recorder"}, {"", "recorder", ""}, {"recorder", "recorder"}, {"", ""}, {"recorder", "same", ""}} {
		for _, entry := range []string{"do", "plan"} {
			for _, dl := range []bool{false, true} {
				if run.TooManyViolations() {
					return
				}
				c := seqT{ss, entry, dl}
				var results []*graphql.Result
				var want [][]string
				bad := ""
				shown := []interface{}{}
				for i, sn := range ss {
					id := fmt.Sprintf("r%d", i)
					h := startReq(schemas[sn], id, entry, "query", []bool{false}, dl)
					if !h.runTo(0) {
						bad = "request " + id + ": its resolver was never started"
						break
					}
					h.cancel()
					ok := h.await()
					close(h.w.gate[0])
					waitExecutors(0)
					if !ok {
						bad = "request " + id + " did not return after its context ended while its resolver was blocked"
						break
					}
					w := []string{h.ctx.Err().Error()}
					if sn == "recorder" {
						w = append(w, "recorder finished request "+id)
					}
					results = append(results, h.res)
					want = append(want, w)
				}
				run.Tag("history:cancelled-requests-across-schemas-with-and-without-extensions")
				run.Case("seq|"+hx.Canon(c), true, map[string]interface{}{"history": c})
				// compare at the END of the history: an earlier response must not have been changed by a later request either
				for i, r := range results {
					if bad != "" {
						break
					}
					var ext interface{}
					if r != nil && r.Extensions != nil {
						ext = r.Extensions
					}
					shown = append(shown, map[string]interface{}{"schema": ss[i], "errors": errTexts(r), "extensions": ext, "data_is_nil": r != nil && r.Data == nil})
					wantExt := interface{}(nil)
					if ss[i] == "recorder" {
						wantExt = map[string]interface{}{"recorder": fmt.Sprintf("request r%d", i)}
					}
					switch {
					case r == nil || r.Data != nil:
						bad = fmt.Sprintf("response %d has data although its context ended while its resolver was blocked", i)
					case hx.Canon(errTexts(r)) != hx.Canon(want[i]):
						bad = fmt.Sprintf("response %d (schema %q) carries the errors %v, it must carry exactly %v (the context's error and what its own extension added)", i, ss[i], errTexts(r), want[i])
					case hx.Canon(ext) != hx.Canon(wantExt):
						bad = fmt.Sprintf("response %d (schema %q) carries the extensions %s, it must carry %s", i, ss[i], hx.Canon(ext), hx.Canon(wantExt))
					}
					for j := 0; j < i && bad == ""; j++ {
						if results[j] == r {
							bad = fmt.Sprintf("responses %d and %d are the same *Result object", j, i)
						}
					}
				}
				if bad != "" {
					run.Violation("history of cancelled requests: "+bad, map[string]interface{}{"history": "cancelled requests across schemas with and without extensions", "case": c, "responses": shown}, false)
				}
			}
		}
	}
}
