// C19 harness: step counters of the real planner / overlap rule (build tag verif) on scaled families and on
// random fragment graphs, compared with the Lean cost model (GqlModel.Cost, driver drv_c19):
//
//	go_count == M_count   at both plan sites, after PlanQuery and after executing against the data the run produced
//	M_count  <= bound(n)  is the theorem (re-checked here on every case as a sanity test of the driver)
//
// and, directly on the REAL counters: fitted growth exponent over each family, independence from the number of
// implementers, and a wall-clock watchdog.
package main

import (
	"encoding/json"
	"fmt"
	"math"
	"os"
	"path/filepath"
	"sort"
	"strings"
	"sync"
	"time"

	"github.com/graphql-go/graphql"
	"github.com/graphql-go/graphql/language/ast"
	"github.com/graphql-go/graphql/language/parser"

	"verif/harness/astjson"
	"verif/harness/gq"
	"verif/harness/hx"
)

// ---------------------------------------------------------------- schema

// familySchema: type Q implements I { q: Q  qs: [Q]  i: I  is: [I!]  leaf: String  f(arg: In): String }
// interface I { leaf: String  i: I  q: Q }, implementers T0..T(m-1), union U = Q | T0…, input In { a: In  l: [In]  x: Int }
func familySchema(m int) *gq.SchemaDesc {
	s := &gq.SchemaDesc{Query: "Q"}
	ifields := []gq.FieldDesc{{Name: "leaf", Type: "String"}, {Name: "i", Type: "I"}, {Name: "q", Type: "Q"}}
	s.Types = append(s.Types, gq.TypeDesc{Kind: "INPUT_OBJECT", Name: "In", InputFields: []gq.ArgDesc{{Name: "a", Type: "In"}, {Name: "l", Type: "[In]"}, {Name: "x", Type: "Int"}}})
	s.Types = append(s.Types, gq.TypeDesc{Kind: "INTERFACE", Name: "I", Fields: ifields, ResolveType: true})
	qf := []gq.FieldDesc{{Name: "q", Type: "Q"}, {Name: "qs", Type: "[Q]"}, {Name: "i", Type: "I"}, {Name: "is", Type: "[I!]"}, {Name: "u", Type: "U"}, {Name: "leaf", Type: "String"},
		{Name: "f", Type: "String", Args: []gq.ArgDesc{{Name: "arg", Type: "In"}, {Name: "list", Type: "[[[[[[[[Int]]]]]]]]"}}}}
	s.Types = append(s.Types, gq.TypeDesc{Kind: "OBJECT", Name: "Q", Interfaces: []string{"I"}, Fields: qf})
	members := []string{"Q"}
	for j := 0; j < m; j++ {
		n := fmt.Sprintf("T%d", j)
		s.Types = append(s.Types, gq.TypeDesc{Kind: "OBJECT", Name: n, Interfaces: []string{"I"}, Fields: ifields})
		if j < 2 {
			members = append(members, n)
		}
	}
	s.Types = append(s.Types, gq.TypeDesc{Kind: "UNION", Name: "U", Members: members, ResolveType: true})
	return s
}

// ---------------------------------------------------------------- data that records the world it produces

type wnode struct {
	rt    string
	depth int
	mu    sync.Mutex
	comps []wcomp
}
type wcomp struct {
	key   string
	child *wnode
}

func (w *wnode) add(key string, c *wnode) {
	w.mu.Lock()
	w.comps = append(w.comps, wcomp{key, c})
	w.mu.Unlock()
}

func (w *wnode) json() []interface{} {
	out := []interface{}{}
	for _, c := range w.comps {
		out = append(out, []interface{}{c.key, c.child.rt, c.child.json()})
	}
	return out
}

func (w *wnode) size() int {
	n := 0
	for _, c := range w.comps {
		n += 1 + c.child.size()
	}
	return n
}

// dataMode decides which composite fields resolve to objects.
type dataMode struct {
	Name     string `json:"name"`     // nil | spine | all
	MaxDepth int    `json:"maxDepth"` // objects are produced at depth <= MaxDepth
	ListLen  int    `json:"listLen"`
	RtShift  int    `json:"rtShift"`        // which possible type an abstract field resolves to
	Last     bool   `json:"last,omitempty"` // abstract fields resolve to the LAST possible type of the table
}

func (d dataMode) descend(key string, depth int) bool {
	switch d.Name {
	case "nil":
		return false
	case "spine":
		return depth <= d.MaxDepth && !strings.HasPrefix(key, "y")
	}
	return depth <= d.MaxDepth
}

func unwrapNamed(t graphql.Type) (graphql.Type, bool) {
	list := false
	for {
		switch x := t.(type) {
		case *graphql.NonNull:
			t = x.OfType
		case *graphql.List:
			t = x.OfType
			list = true
		default:
			return t, list
		}
	}
}

type world struct {
	desc *gq.SchemaDesc
	mode dataMode
	root *wnode
}

func (w *world) resolve(p graphql.ResolveParams) (interface{}, error) {
	src, _ := p.Source.(*wnode)
	if src == nil {
		if m, ok := p.Source.(map[string]interface{}); ok {
			src, _ = m["__w"].(*wnode)
		}
	}
	if src == nil {
		return nil, nil
	}
	key, _ := p.Info.Path.Key.(string)
	named, isList := unwrapNamed(p.Info.ReturnType)
	var rts []string
	switch x := named.(type) {
	case *graphql.Object:
		rts = []string{x.Name()}
	case *graphql.Interface:
		rts = w.desc.PossibleTypes(x.Name())
	case *graphql.Union:
		rts = w.desc.PossibleTypes(x.Name())
	default:
		return "s", nil
	}
	depth := src.depth + 1
	if len(rts) == 0 || !w.mode.descend(key, depth) {
		return nil, nil
	}
	mk := func(i int) *wnode {
		idx := (w.mode.RtShift + i) % len(rts)
		if w.mode.Last {
			idx = len(rts) - 1
		}
		c := &wnode{rt: rts[idx], depth: depth}
		src.add(key, c)
		return c
	}
	if isList {
		out := []interface{}{}
		for i := 0; i < w.mode.ListLen; i++ {
			out = append(out, mk(i))
		}
		return out, nil
	}
	return mk(0), nil
}

type built struct {
	desc   *gq.SchemaDesc
	schema graphql.Schema
	w      *world
}

func build(desc *gq.SchemaDesc) (*built, error) {
	b := &built{desc: desc, w: &world{desc: desc}}
	bt, err := gq.Build(desc, gq.Hooks{
		Resolve: func(typeName, fieldName string) graphql.FieldResolveFn { return b.w.resolve },
		ResolveType: func(abstractName string, objects map[string]*graphql.Object) graphql.ResolveTypeFn {
			return func(p graphql.ResolveTypeParams) *graphql.Object {
				if n, ok := p.Value.(*wnode); ok {
					return objects[n.rt]
				}
				return nil
			}
		},
	})
	if err != nil {
		return nil, err
	}
	b.schema = bt.Schema
	return b, nil
}

// ---------------------------------------------------------------- one case

type caseT struct {
	Family string            `json:"family"`
	N      int               `json:"n"`
	M      int               `json:"m"` // implementers
	Src    string            `json:"src"`
	Op     string            `json:"op"`
	Vars   map[string]bool   `json:"vars,omitempty"`
	Mode   dataMode          `json:"mode"`
	Runs   int               `json:"runs"` // executions of the same plan
	Valid  bool              `json:"valid"`
	Extra  map[string]string `json:"extra,omitempty"`
	// "" = schema built by NewSchema alone; otherwise extended afterwards by Schema.AppendType (see schemaForV)
	Variant string `json:"variant,omitempty"`
}

type modelResp struct {
	Plan      []uint64 `json:"plan"`
	Exec      []uint64 `json:"exec"`
	Top       uint64   `json:"top"`
	WorkBound uint64   `json:"workBound"`
	FragsSize uint64   `json:"fragsSize"`
	WorldSize uint64   `json:"worldSize"`
	Dynamic   bool     `json:"dynamic"`
	PlanErr   bool     `json:"planErr"`
	Oof       bool     `json:"oof"`
	// validation side: proved bounds (overlap_cost_poly, memo_body_at_most_once) evaluated on this document, its
	// syntactic sizes [fields, sets, spread names, fragments], and (on request) the counters of c02b's overlap model
	OverlapBound uint64   `json:"overlapBound"`
	FfBound      uint64   `json:"ffBound"`
	BfBound      uint64   `json:"bfBound"`
	Sizes        []uint64 `json:"sizes"`
	LocsDistinct bool     `json:"locsDistinct"`
	Overlap      *struct {
		NFC   uint64 `json:"nFC"`
		CntFF uint64 `json:"cntFF"`
		CntBF uint64 `json:"cntBF"`
		Oof   bool   `json:"oof"`
	} `json:"overlap"`
	Graph *graphModel `json:"graph"`
	// possible-type tables validation asks for (model) and the proved bound
	PtValidation uint64 `json:"ptValidation"`
	PtBound      uint64 `json:"ptBound"`
}

type outcome struct {
	Validate []uint64 `json:"validate"` // all five sites after ValidateDocument
	IsValid  bool     `json:"isValid"`
	Plan     []uint64 `json:"plan"` // after PlanQuery
	Exec     []uint64 `json:"exec"` // after PlanQuery + executions
	Do       []uint64 `json:"do,omitempty"`
	PlanErr  bool     `json:"planErr"`
	ValidMs  float64  `json:"validateMs"`
	PlanMs   float64  `json:"planMs"`
	ExecMs   float64  `json:"execMs"`
	World    int      `json:"worldSize"`
	Errors   int      `json:"errors"`
	// proved bound on findConflict calls for this document and its syntactic sizes (from the driver)
	OverlapBound uint64   `json:"overlapBound"`
	Sizes        []uint64 `json:"sizes"`
}

const watchdog = 30 * time.Second

// poisoned: a call did not return within the watchdog; its goroutine keeps running and keeps incrementing the
// process-global counters, so nothing measured afterwards can be trusted. The run stops at once.
var poisoned bool

// guarded runs f with a watchdog and a recover; "" = fine.
func guarded(f func()) (problem string, took time.Duration) {
	done := make(chan string, 1)
	t0 := time.Now()
	go func() {
		defer func() {
			if r := recover(); r != nil {
				done <- fmt.Sprintf("panic: %v", r)
			}
		}()
		f()
		done <- ""
	}()
	select {
	case s := <-done:
		return s, time.Since(t0)
	case <-time.After(watchdog):
		poisoned = true
		return fmt.Sprintf("no answer within %v", watchdog), time.Since(t0)
	}
}

var schemaCache = map[string]*built{}

func schemaFor(m int) (*built, error) { return schemaForV(m, "") }

// schemaForV: the family schema with m implementers, built in one go ("") or EXTENDED after NewSchema by
// Schema.AppendType: "append-implementer" (the last implementer T(m-1) is appended), "append-several" (the last two
// implementers and an unrelated type, one AppendType each), "append-unrelated" (an object type nothing refers to).
// The description handed to the model is always that of the FINAL schema.
func schemaForV(m int, variant string) (*built, error) {
	key := fmt.Sprintf("%d/%s", m, variant)
	if b, ok := schemaCache[key]; ok {
		return b, nil
	}
	b, err := buildVariant(m, variant)
	if err == nil {
		schemaCache[key] = b
	}
	return b, err
}

func buildVariant(m int, variant string) (*built, error) {
	full := familySchema(m)
	if variant == "" {
		return build(full)
	}
	withheld := map[string]bool{}
	switch variant {
	case "append-implementer":
		if m >= 3 {
			withheld[fmt.Sprintf("T%d", m-1)] = true
		}
	case "append-several":
		if m >= 4 {
			withheld[fmt.Sprintf("T%d", m-1)] = true
			withheld[fmt.Sprintf("T%d", m-2)] = true
		}
	}
	unrelated := variant == "append-unrelated" || variant == "append-several"
	base := &gq.SchemaDesc{Query: full.Query, Mutation: full.Mutation, Subscription: full.Subscription, Directives: full.Directives}
	for _, t := range full.Types {
		if !withheld[t.Name] {
			base.Types = append(base.Types, t)
		}
	}
	if unrelated {
		full.Types = append(full.Types, gq.TypeDesc{Kind: "OBJECT", Name: "Xunrelated", Fields: []gq.FieldDesc{{Name: "leaf", Type: "String"}}})
	}
	b := &built{desc: full, w: &world{desc: full}}
	var objects map[string]*graphql.Object
	bt, err := gq.Build(base, gq.Hooks{
		Resolve: func(typeName, fieldName string) graphql.FieldResolveFn { return b.w.resolve },
		ResolveType: func(abstractName string, objs map[string]*graphql.Object) graphql.ResolveTypeFn {
			objects = objs // the builder's own map: objects appended below are entered into it as well
			return func(p graphql.ResolveTypeParams) *graphql.Object {
				if n, ok := p.Value.(*wnode); ok {
					return objs[n.rt]
				}
				return nil
			}
		},
	})
	if err != nil {
		return nil, err
	}
	schema := bt.Schema
	iface, _ := bt.Types["I"].(*graphql.Interface)
	q := bt.Objects["Q"]
	var names []string
	for n := range withheld {
		names = append(names, n)
	}
	sort.Strings(names)
	for _, n := range names {
		obj := graphql.NewObject(graphql.ObjectConfig{Name: n, Interfaces: []*graphql.Interface{iface}, Fields: graphql.Fields{
			"leaf": &graphql.Field{Type: graphql.String, Resolve: b.w.resolve},
			"i":    &graphql.Field{Type: iface, Resolve: b.w.resolve},
			"q":    &graphql.Field{Type: q, Resolve: b.w.resolve},
		}})
		if objects != nil {
			objects[n] = obj
		}
		if err := schema.AppendType(obj); err != nil {
			return nil, fmt.Errorf("AppendType(%s): %v", n, err)
		}
	}
	if unrelated {
		x := graphql.NewObject(graphql.ObjectConfig{Name: "Xunrelated", Fields: graphql.Fields{"leaf": &graphql.Field{Type: graphql.String}}})
		if err := schema.AppendType(x); err != nil {
			return nil, fmt.Errorf("AppendType(Xunrelated): %v", err)
		}
	}
	b.schema = schema
	return b, nil
}

type runner struct {
	run *hx.Run
	drv *hx.Driver
}

// one evaluates a case; returns the real outcome (nil when the case could not be evaluated).
func (r *runner) one(c caseT) *outcome {
	run := r.run
	// a fatal error of the library (stack overflow cannot be recovered) kills this process: leave the input behind
	if run.ReplayDir != "" && run.ReplayIn == "" {
		os.MkdirAll(run.ReplayDir, 0o755)
		if b, err := json.Marshal(map[string]interface{}{"property": "C19", "note": "case in flight when the harness process died", "replay": map[string]interface{}{"case": c}}); err == nil {
			os.WriteFile(filepath.Join(run.ReplayDir, "inflight.json"), b, 0o644)
		}
	}
	b, err := schemaForV(c.M, c.Variant)
	if err != nil {
		run.CheckError("schema build: " + err.Error())
		return nil
	}
	doc, err := parser.Parse(parser.ParseParams{Source: c.Src})
	if err != nil {
		run.CheckError("family document does not parse: " + err.Error() + " :: " + hxTrunc(c.Src, 200))
		return nil
	}
	o := &outcome{}
	viol := func(note string, extra map[string]interface{}) {
		rp := map[string]interface{}{"case": c, "go": o}
		for k, v := range extra {
			rp[k] = v
		}
		run.Violation(note, rp, false)
	}
	// --- validation
	graphql.VerifResetCounters()
	var vr graphql.ValidationResult
	prob, took := guarded(func() { vr = graphql.ValidateDocument(&b.schema, doc, nil) })
	o.Validate, o.IsValid, o.ValidMs = graphql.VerifCounters(), vr.IsValid, ms(took)
	if prob != "" {
		viol("ValidateDocument: "+prob, nil)
		return nil
	}
	if c.Valid && !vr.IsValid {
		run.CheckError(fmt.Sprintf("family %s n=%d is meant to be valid but validation says: %v", c.Family, c.N, vr.Errors[0].Message))
		return nil
	}
	if o.Validate[graphql.VerifSiteCollectInto] != 0 || o.Validate[graphql.VerifSitePlanMergedSelectionsForType] != 0 {
		viol("ValidateDocument moved the planning counters", nil)
	}
	// --- planning
	graphql.VerifResetCounters()
	var plan *graphql.Plan
	var perr error
	prob, took = guarded(func() { plan, perr = graphql.PlanQuery(&b.schema, doc, c.Op) })
	o.Plan, o.PlanErr, o.PlanMs = graphql.VerifCounters(), perr != nil, ms(took)
	if prob != "" {
		viol("PlanQuery: "+prob, nil)
		return nil
	}
	// --- execution(s) against data that records the world
	root := &wnode{rt: "Q"}
	b.w.mode, b.w.root = c.Mode, root
	args := map[string]interface{}{}
	for k, v := range c.Vars {
		args[k] = v
	}
	if plan != nil {
		t0 := time.Now()
		for i := 0; i < c.Runs; i++ {
			var res *graphql.Result
			prob, _ = guarded(func() {
				res = graphql.ExecutePlan(plan, graphql.ExecuteParams{Schema: b.schema, Root: root, Args: args})
			})
			if prob != "" {
				viol("ExecutePlan: "+prob, nil)
				return nil
			}
			if res != nil {
				o.Errors += len(res.Errors)
			}
		}
		o.ExecMs = ms(time.Since(t0))
	}
	o.Exec = graphql.VerifCounters()
	o.World = root.size()
	// --- the model
	var m modelResp
	// the overlap model re-runs the whole memoised rule: asked for whenever the real rule made < 2 million findConflict calls
	wantOverlap := o.Validate[graphql.VerifSiteFindConflict] < 2000000
	req := map[string]interface{}{"schema": b.desc, "doc": astjson.Document(doc), "op": c.Op, "vars": c.Vars, "world": root.json(), "overlap": wantOverlap, "graph": true, "graphWork": c.Family != "random-fragment-graph" || c.N%4 == 0}
	if err := r.drv.Ask(req, &m); err != nil {
		run.CheckError(err.Error())
		return nil
	}
	if m.Oof {
		run.Violation("the model ran out of fuel (theorem plan_never_out_of_fuel contradicted: model/driver fault)", map[string]interface{}{"case": c, "model": m}, true)
	}
	if len(m.Plan) != 2 || len(m.Exec) != 2 {
		run.CheckError("driver answer malformed")
		return nil
	}
	if m.Plan[0] > m.Top || m.Exec[0] > m.WorkBound || m.Exec[1] > m.WorldSize {
		run.Violation("model counters exceed the proved bounds (theorem contradicted: model/driver fault)", map[string]interface{}{"case": c, "model": m}, true)
	}
	// --- validation counters against the proved bounds and against c02b's model of the overlap rule
	o.OverlapBound, o.Sizes = m.OverlapBound, m.Sizes
	if !m.LocsDistinct {
		run.CheckError("selection sets of a parsed document do not start at distinct bytes: " + hxTrunc(c.Src, 120))
		return nil
	}
	fc, ff, bf := graphql.VerifSiteFindConflict, graphql.VerifSiteFieldsAndFragment, graphql.VerifSiteBetweenFragments
	if o.Validate[fc] > m.OverlapBound || o.Validate[ff] > m.FfBound || o.Validate[bf] > m.BfBound {
		viol(fmt.Sprintf("REAL validation step counters exceed the proved bounds: findConflict=%d (overlap_cost_poly bound %d), fieldsAndFragment=%d (bound %d), betweenFragments=%d (bound %d); sizes [fields sets spreadNames fragments]=%v",
			o.Validate[fc], m.OverlapBound, o.Validate[ff], m.FfBound, o.Validate[bf], m.BfBound, m.Sizes), map[string]interface{}{"model": m})
		return o
	}
	if m.Overlap != nil {
		if m.Overlap.Oof {
			run.Violation("the overlap model ran out of fuel (theorem overlap_no_fuel_exhaustion contradicted: model/driver fault)", map[string]interface{}{"case": c, "model": m}, true)
		}
		if o.Validate[fc] != m.Overlap.NFC || o.Validate[ff] != m.Overlap.CntFF || o.Validate[bf] != m.Overlap.CntBF {
			viol(fmt.Sprintf("validation step counters differ from the model of the overlap rule: go findConflict=%d fieldsAndFragment=%d betweenFragments=%d, model %d %d %d",
				o.Validate[fc], o.Validate[ff], o.Validate[bf], m.Overlap.NFC, m.Overlap.CntFF, m.Overlap.CntBF), map[string]interface{}{"model": m})
			return o
		}
		run.Tag("overlap-counters-compared-with-model")
	}
	// --- possible-type tables (site 11, when the library has it): validation = the model's exact prediction (<= the proved
	// bound), planning asks for none
	if m.PtValidation > m.PtBound {
		run.Violation("model: possible-type tables of validation exceed the proved bound (theorem contradicted: model/driver fault)", map[string]interface{}{"case": c, "model": m}, true)
	}
	if len(o.Validate) > sitePossibleTypes {
		if o.Validate[sitePossibleTypes] != m.PtValidation {
			viol(fmt.Sprintf("possible-type table entries handed out during ValidateDocument differ from the model: go %d, model %d (proved bound %d)", o.Validate[sitePossibleTypes], m.PtValidation, m.PtBound), map[string]interface{}{"model": m})
			return o
		}
		if o.Exec[sitePossibleTypes] != 0 {
			viol(fmt.Sprintf("PlanQuery + ExecutePlan asked for possible-type tables (%d entries; PlanQuery alone %d) on a schema whose abstract types all have a ResolveType function: neither the lazily planned sub-selections nor the completion of abstract values may scan the possible types (schema variant %q)", o.Exec[sitePossibleTypes], o.Plan[sitePossibleTypes], c.Variant), map[string]interface{}{"model": m})
			return o
		}
		if o.Plan[sitePossibleTypes] != 0 {
			viol(fmt.Sprintf("PlanQuery asked for possible-type tables (%d entries): the planner decides type conditions by a map lookup, its work must not depend on the number of possible types", o.Plan[sitePossibleTypes]), map[string]interface{}{"model": m})
			return o
		}
		run.Tag("possible-type-site-compared-with-model")
	}
	// --- graph rules: list lengths / cycle errors read through the public API (and the proposed step counters when the
	// library has them) against c02b's model with the step counters of GqlModel/GraphCost.lean
	gobs, gprob := graphGo(&b.schema, doc)
	if gprob != "" {
		viol("graph rules: "+gprob, nil)
		return nil
	}
	if note := graphCompare(m.Graph, gobs, o.Validate); note != "" {
		if strings.Contains(note, "model/driver fault") {
			run.Violation("graph rules: "+note, map[string]interface{}{"case": c, "model": m.Graph}, true)
		} else {
			viol("graph rules: "+note, map[string]interface{}{"model": m.Graph, "go_graph": gobs})
		}
		return o
	}
	run.Tag("graph-observables-compared-with-model")
	if len(o.Validate) >= 11 {
		run.Tag("graph-step-counters-compared-with-model")
	}
	if m.PlanErr != o.PlanErr {
		viol("PlanQuery error/success differs from the model's operation selection", map[string]interface{}{"model": m})
		return o
	}
	pc, pm := graphql.VerifSiteCollectInto, graphql.VerifSitePlanMergedSelectionsForType
	if o.Plan[pc] != m.Plan[0] || o.Plan[pm] != m.Plan[1] {
		viol(fmt.Sprintf("PlanQuery step counters differ from the model: go collectInto=%d planMerged=%d, model %d %d (proved bound for PlanQuery: %d)", o.Plan[pc], o.Plan[pm], m.Plan[0], m.Plan[1], m.Top), map[string]interface{}{"model": m})
		return o
	}
	if c.Runs > 0 && (m.Dynamic && c.Runs != 1) {
		run.CheckError("dynamic-directive cases must use exactly one execution")
		return nil
	}
	if o.Exec[pc] != m.Exec[0] || o.Exec[pm] != m.Exec[1] {
		viol(fmt.Sprintf("step counters after execution differ from the model: go collectInto=%d planMerged=%d, model %d %d (world of %d completions; proved bound %d)", o.Exec[pc], o.Exec[pm], m.Exec[0], m.Exec[1], o.World, m.WorkBound), map[string]interface{}{"model": m, "world": root.json()})
		return o
	}
	// --- Do on valid documents: same plan counters as PlanQuery + one execution of the same data
	if c.Valid && c.Runs > 0 {
		root2 := &wnode{rt: "Q"}
		b.w.root = root2
		graphql.VerifResetCounters()
		var res *graphql.Result
		prob, _ = guarded(func() {
			res = graphql.Do(graphql.Params{Schema: b.schema, RequestString: c.Src, OperationName: c.Op, RootObject: map[string]interface{}{"__w": root2}, VariableValues: args})
		})
		o.Do = graphql.VerifCounters()
		if prob != "" {
			viol("Do: "+prob, nil)
			return nil
		}
		var m2 modelResp
		req["world"] = root2.json()
		if err := r.drv.Ask(req, &m2); err != nil {
			run.CheckError(err.Error())
			return nil
		}
		if res == nil || o.Do[pc] != m2.Exec[0] || o.Do[pm] != m2.Exec[1] {
			viol(fmt.Sprintf("plan counters of Do differ from the model: go %d %d, model %v", o.Do[pc], o.Do[pm], m2.Exec), map[string]interface{}{"model": m2, "world": root2.json()})
			return o
		}
		for i := 2; i < 5; i++ {
			if o.Do[i] != o.Validate[i] {
				viol("validation counters of Do differ from those of ValidateDocument on the same document", nil)
				return o
			}
		}
	}
	nontrivial := o.Exec[pc] >= 2 || o.Validate[graphql.VerifSiteFindConflict] >= 1
	key := fmt.Sprintf("%s|%d|%s|%v|%v|%d|%s", c.Src, c.M, c.Op, c.Vars, c.Mode, c.Runs, c.Variant)
	if c.Variant != "" {
		run.Tag("schema:" + c.Variant)
	}
	run.Case(key, nontrivial, map[string]interface{}{"family": c.Family, "n": c.N, "m": c.M, "mode": c.Mode.Name, "go": o, "src": hxTrunc(c.Src, 160)})
	run.Tag("family:" + c.Family)
	run.Tag("data:" + c.Mode.Name)
	if m.Dynamic {
		run.Tag("dynamic-directives")
	}
	if o.PlanErr {
		run.Tag("plan-error")
	}
	if !o.IsValid {
		run.Tag("invalid-document(unvalidated planning)")
	}
	run.Tag("lazy-plans:" + bucket(int(o.Exec[pm])))
	return o
}

func bucket(n int) string {
	switch {
	case n == 0:
		return "0"
	case n < 4:
		return "1-3"
	case n < 16:
		return "4-15"
	case n < 64:
		return "16-63"
	}
	return "64+"
}

func ms(d time.Duration) float64 { return math.Round(float64(d.Microseconds())/10) / 100 }

func hxTrunc(s string, n int) string {
	if len(s) > n {
		return s[:n] + fmt.Sprintf("…(%d bytes)", len(s))
	}
	return s
}

// ---------------------------------------------------------------- scaled families

type family struct {
	name  string
	valid bool
	doc   func(n int) string
	op    string
	vars  map[string]bool
	modes []dataMode
	ms    []int // implementer counts to run
	// growth limits (exponent k: count(2n) <= 2^k * count(n) up to rounding) per phase; 0 = constant expected
	kPlan, kExec, kValidate float64
	note                    string
}

func rep(n int, f func(i int) string) string {
	var b strings.Builder
	for i := 0; i < n; i++ {
		b.WriteString(f(i))
	}
	return b.String()
}

func families() []family {
	nilD := dataMode{Name: "nil"}
	spine := func(d int) dataMode { return dataMode{Name: "spine", MaxDepth: d, ListLen: 2} }
	all := func(d int) dataMode { return dataMode{Name: "all", MaxDepth: d, ListLen: 2} }
	return []family{
		{name: "abstract-nesting", valid: true, ms: []int{1, 4, 16},
			doc: func(n int) string {
				s := "leaf"
				for i := 0; i < n; i++ {
					s = "i { leaf ... on T0 { i { leaf } } ... on Q { q { leaf } } " + s + " }"
				}
				return "{ " + s + " }"
			},
			modes: []dataMode{nilD, all(64), {Name: "all", MaxDepth: 64, ListLen: 2, RtShift: 1}}, kPlan: 0, kExec: 1, kValidate: 2,
			note: "nesting depth n through the interface field i, inline fragments per level; m implementers"},
		{name: "d19a-fragment-ladder", valid: true, ms: []int{2},
			doc: func(n int) string {
				return "{ ...F0 } " + rep(n, func(i int) string {
					return fmt.Sprintf("fragment F%d on Q { x: q { ...F%d } y: q { ...F%d } } ", i, i+1, i+1)
				}) + fmt.Sprintf("fragment F%d on Q { leaf }", n)
			},
			modes: []dataMode{nilD, spine(64)}, kPlan: 0, kExec: 2, kValidate: 3,
			note: "D-19a: every fragment spreads the next one at two sites below object fields"},
		{name: "d19a-ladder-cyclic", valid: false, ms: []int{2},
			doc: func(n int) string {
				return "{ ...F0 } " + rep(n, func(i int) string {
					return fmt.Sprintf("fragment F%d on Q { x: q { ...F%d } y: q { ...F%d ...F0 } } ", i, (i+1)%n, (i+1)%n)
				})
			},
			modes: []dataMode{nilD, spine(24)}, kPlan: 0, kExec: 2, kValidate: 3,
			note: "the ladder closed into a cycle (rejected by validation; planned and executed unvalidated)"},
		{name: "same-fragment-many-sites", valid: true, ms: []int{2},
			doc: func(n int) string {
				return "{ " + rep(n, func(i int) string { return fmt.Sprintf("a%d: q { ...F } ", i) }) +
					"} fragment F on Q { leaf q { ...G ...G } ...G } fragment G on Q { leaf ... on Q { leaf } }"
			},
			modes: []dataMode{nilD, all(2)}, kPlan: 0, kExec: 1, kValidate: 2,
			note: "one fragment spread at n sites"},
		{name: "root-chain", valid: true, ms: []int{2},
			doc: func(n int) string {
				return "{ ...F0 } " + rep(n, func(i int) string { return fmt.Sprintf("fragment F%d on Q { k%d: leaf ...F%d } ", i, i, i+1) }) +
					fmt.Sprintf("fragment F%d on Q { leaf }", n)
			},
			modes: []dataMode{nilD}, kPlan: 1, kExec: 1, kValidate: 3,
			note: "chain of n fragments spreading each other at the ROOT level (PlanQuery linear in n)"},
		{name: "fan-all-to-later", valid: true, ms: []int{2},
			doc: func(n int) string {
				return "{ " + rep(n, func(i int) string { return fmt.Sprintf("...F%d ", i) }) + "} " +
					rep(n, func(i int) string {
						return fmt.Sprintf("fragment F%d on Q { k: leaf q { k: leaf %s} %s} ", i,
							rep(n-i-1, func(j int) string { return fmt.Sprintf("...F%d ", i+1+j) }),
							rep(n-i-1, func(j int) string { return fmt.Sprintf("...F%d ", i+1+j) }))
					})
			},
			modes: []dataMode{nilD, all(3)}, kPlan: 1, kExec: 1, kValidate: 4,
			note: "n fragments, each spreading all later ones at the root level and below q; document size ~ n^2"},
		{name: "wide-repeated-keys", valid: true, ms: []int{2},
			doc: func(n int) string {
				inner := rep(n, func(i int) string { return "k: leaf " })
				return "{ " + rep(n, func(i int) string { return "x: q { " + inner + "} " }) + "}"
			},
			modes: []dataMode{nilD, all(1)}, kPlan: 0, kExec: 1, kValidate: 4,
			note: "n fields with the same response key, each with n repeated keys; document size ~ n^2"},
		{name: "deep-input-literal", valid: true, ms: []int{2},
			doc: func(n int) string {
				o := "{x: 1}"
				for i := 0; i < 4*n; i++ {
					o = "{a: " + o + "}"
				}
				return "{ f(arg: " + o + ") g: f(arg: " + o + ") }"
			},
			modes: []dataMode{nilD}, kPlan: 0, kExec: 0, kValidate: 1,
			note: "input object literal nested 4n deep"},
		{name: "dynamic-directives", valid: true, ms: []int{2}, vars: map[string]bool{"v": true, "w": false}, op: "",
			doc: func(n int) string {
				return "query($v: Boolean!, $w: Boolean!) { ...F0 @include(if: $v) q @skip(if: $w) { ...F0 } } " +
					rep(n, func(i int) string {
						return fmt.Sprintf("fragment F%d on Q { k%d: leaf ... @skip(if: $w) { ...F%d } ... @include(if: $w) { z%d: leaf } } ", i, i, i+1, i)
					}) + fmt.Sprintf("fragment F%d on Q { leaf }", n)
			},
			modes: []dataMode{nilD, all(1)}, kPlan: 0, kExec: 1, kValidate: 3,
			note: "variable-driven @skip/@include: PlanQuery collects nothing, every execution re-collects"},
	}
}

// tooSteep: some counter grew between two consecutive sizes by more than the family's limit allows.
func tooSteep(f family, a, b *outcome) bool {
	chk := func(x, y []uint64, sites []int, limit float64) bool {
		if x == nil || y == nil {
			return false
		}
		for _, s := range sites {
			if fit([]uint64{x[s], y[s]}) > limit+tolerance {
				return true
			}
		}
		return false
	}
	return chk(a.Validate, b.Validate, []int{2, 3, 4}, f.kValidate) || chk(a.Plan, b.Plan, []int{0, 1}, f.kPlan) || chk(a.Exec, b.Exec, []int{0, 1}, f.kExec)
}

// tolerance on the fitted exponent: lower-order terms at small n
const tolerance = 0.35

type series struct {
	Family string    `json:"family"`
	Phase  string    `json:"phase"`
	Site   string    `json:"site"`
	Ns     []int     `json:"n"`
	Counts []uint64  `json:"counts"`
	K      float64   `json:"fitted_exponent"`
	Limit  float64   `json:"limit"`
	Times  []float64 `json:"ms,omitempty"`
	// validate/findConflict only: the proved bound overlapBound(d) per family member and bound/count at the largest n
	Bounds    []uint64 `json:"proved_bound,omitempty"`
	Tightness float64  `json:"bound_over_count_at_max_n,omitempty"`
}

var siteNames = []string{"collectInto", "planMergedSelectionsForType", "findConflict", "fieldsAndFragment", "betweenFragments"}

// fitted exponent: max over consecutive sizes of log2((c(2n)+8)/(c(n)+8)) (the +8 keeps tiny constants from
// producing meaningless ratios)
func fit(counts []uint64) float64 {
	k := 0.0
	for i := 1; i < len(counts); i++ {
		r := math.Log2(float64(counts[i]+8) / float64(counts[i-1]+8))
		if r > k {
			k = r
		}
	}
	return math.Round(k*100) / 100
}

func main() {
	run := hx.Begin("C19")
	drv, err := hx.StartDriver(run.DriverBin)
	if err != nil {
		run.CheckError("cannot start driver: " + err.Error())
		run.Finish()
		return
	}
	defer drv.Close()
	r := &runner{run: run, drv: drv}
	run.Res.Rule = "scaled families (see extra.series; n doubling) x implementer counts x data modes (all-nil / spine / descending; 1-2 executions per plan), plus random fragment graphs over the family schema (cyclic spreads, repeated response keys, inline fragments on objects/interfaces/unions, literal and variable @skip/@include, unknown fields/fragments, planned and executed WITHOUT validation when invalid); non-trivial = at least two collectInto calls or one findConflict call; distinct by (document, implementers, variables, data mode, runs)"

	if run.ReplayIn != "" {
		var rp struct {
			Case caseT `json:"case"`
		}
		if err := hx.LoadReplay(run.ReplayIn, &rp); err != nil {
			run.CheckError(err.Error())
		} else {
			if r.one(rp.Case) != nil && rp.Case.Extra["growth"] != "" {
				run.Violation("replayed growth violation: re-run the whole family (./check C19) to re-measure; this case alone evaluated fine", map[string]interface{}{"case": rp.Case}, false)
			}
		}
		run.Finish()
		return
	}

	ns := []int{2, 4, 8, 16}
	if run.Thorough() {
		ns = []int{2, 4, 8, 16, 32, 64}
	}
	allSeries := []series{}
	for _, f := range families() {
		for _, mode := range f.modes {
			if poisoned {
				break
			}
			byM := map[int][]*outcome{}
			for _, m := range f.ms {
				for _, n := range ns {
					if run.TooManyViolations() || poisoned {
						break
					}
					runs := 2
					if f.vars != nil {
						runs = 1
					}
					c := caseT{Family: f.name, N: n, M: m, Src: f.doc(n), Op: f.op, Vars: f.vars, Mode: mode, Runs: runs, Valid: f.valid}
					o := r.one(c)
					byM[m] = append(byM[m], o)
					// stop scaling as soon as the growth between two sizes is out of bounds: the next size could take
					// hours on a tree that lost a memo table (the prefix measured so far is reported below)
					if k := len(byM[m]); o == nil || (k >= 2 && byM[m][k-2] != nil && tooSteep(f, byM[m][k-2], o)) {
						break
					}
				}
			}
			// growth over n (first implementer count), per phase and site
			base := byM[f.ms[0]]
			complete := len(base) >= 2 && !poisoned
			for _, o := range base {
				if o == nil {
					complete = false
				}
			}
			if !complete {
				continue
			}
			ns := ns[:len(base)]
			phases := []struct {
				name  string
				get   func(o *outcome) []uint64
				limit float64
				sites []int
				time  func(o *outcome) float64
			}{
				{"validate", func(o *outcome) []uint64 { return o.Validate }, f.kValidate, []int{2, 3, 4}, func(o *outcome) float64 { return o.ValidMs }},
				{"plan", func(o *outcome) []uint64 { return o.Plan }, f.kPlan, []int{0, 1}, func(o *outcome) float64 { return o.PlanMs }},
				{"plan+exec", func(o *outcome) []uint64 { return o.Exec }, f.kExec, []int{0, 1}, func(o *outcome) float64 { return o.ExecMs }},
			}
			for _, ph := range phases {
				if ph.name == "validate" && mode.Name != f.modes[0].Name {
					continue // validation does not depend on the data
				}
				for _, site := range ph.sites {
					s := series{Family: fmt.Sprintf("%s/%s%d", f.name, mode.Name, mode.RtShift), Phase: ph.name, Site: siteNames[site], Ns: ns, Limit: ph.limit}
					for _, o := range base {
						s.Counts = append(s.Counts, ph.get(o)[site])
						s.Times = append(s.Times, ph.time(o))
					}
					s.K = fit(s.Counts)
					if ph.name == "validate" && site == graphql.VerifSiteFindConflict {
						for _, o := range base {
							s.Bounds = append(s.Bounds, o.OverlapBound)
						}
						if last := s.Counts[len(s.Counts)-1]; last > 0 {
							s.Tightness = math.Round(float64(s.Bounds[len(s.Bounds)-1])/float64(last)*10) / 10
						}
					}
					allSeries = append(allSeries, s)
					if s.K > ph.limit+tolerance {
						c := caseT{Family: f.name, N: ns[len(ns)-1], M: f.ms[0], Src: f.doc(ns[len(ns)-1]), Op: f.op, Vars: f.vars, Mode: mode, Runs: 1, Valid: f.valid,
							Extra: map[string]string{"growth": fmt.Sprintf("%s/%s", ph.name, siteNames[site])}}
						run.Violation(fmt.Sprintf("growth of the REAL step counter %s during %s over family %s (%s; data %s) is steeper than n^%.1f: counts %v at n=%v, fitted exponent %.2f",
							siteNames[site], ph.name, f.name, f.note, mode.Name, ph.limit, s.Counts, ns, s.K), map[string]interface{}{"case": c, "series": s}, false)
					}
				}
			}
			// independence from the number of implementers: identical counters in every phase
			for _, m := range f.ms[1:] {
				for i := range ns {
					if i >= len(base) || i >= len(byM[m]) {
						continue
					}
					a, b := base[i], byM[m][i]
					if a == nil || b == nil {
						continue
					}
					// validation legitimately asks for possible-type tables (site 11; compared with the model in one()),
					// every other validation counter and every planning counter must not depend on the implementers
					withoutPT := func(v []uint64) []uint64 {
						out := append([]uint64{}, v...)
						if len(out) > sitePossibleTypes {
							out[sitePossibleTypes] = 0
						}
						return out
					}
					same := hx.Canon(withoutPT(a.Validate)) == hx.Canon(withoutPT(b.Validate)) && hx.Canon(a.Plan) == hx.Canon(b.Plan)
					if mode.RtShift == 0 {
						same = same && hx.Canon(a.Exec) == hx.Canon(b.Exec)
					}
					if !same {
						c := caseT{Family: f.name, N: ns[i], M: m, Src: f.doc(ns[i]), Op: f.op, Vars: f.vars, Mode: mode, Runs: 2, Valid: f.valid}
						run.Violation(fmt.Sprintf("step counters depend on the number of implementers: family %s n=%d: m=%d gives validate=%v plan=%v exec=%v, m=%d gives validate=%v plan=%v exec=%v",
							f.name, ns[i], f.ms[0], a.Validate, a.Plan, a.Exec, m, b.Validate, b.Plan, b.Exec), map[string]interface{}{"case": c, "go_base": a, "go": b}, false)
					}
					run.Tag("implementer-independence-checked")
				}
			}
		}
	}
	sort.SliceStable(allSeries, func(i, j int) bool {
		return allSeries[i].Family+allSeries[i].Phase < allSeries[j].Family+allSeries[j].Phase
	})
	run.Res.Extra["series"] = allSeries
	tFam := time.Now()
	if !poisoned && !run.TooManyViolations() {
		run.Res.Extra["graph_series"] = r.graphFamilies()
	}
	run.Res.Extra["graph_families_s"] = time.Since(tFam).Seconds()
	if !poisoned && !run.TooManyViolations() {
		run.Res.Extra["possible_types_family"] = r.possibleTypesFamily()
	}
	run.Res.Extra["watchdog_s"] = watchdog.Seconds()

	// random fragment graphs
	n := run.N(2500, 60000)
	for i := 0; i < n && !run.TooManyViolations() && !poisoned; i++ {
		rg := hx.Fork(run.Seed, i)
		c := randomCase(rg)
		r.one(c)
	}
	_ = ast.OperationTypeQuery
	if run.ReplayDir != "" {
		os.Remove(filepath.Join(run.ReplayDir, "inflight.json"))
	}
	run.Finish()
}

// ---------------------------------------------------------------- random fragment graphs

type rgen struct {
	r      *hx.Rng
	nFrag  int
	m      int
	dyn    bool
	unkOK  bool
	budget int
}

var keyPool = []string{"x", "y", "z", "k"}

func (g *rgen) dirs() string {
	if !g.r.Chance(1, 6) {
		return ""
	}
	d := g.r.Pick([]string{"@skip", "@include"})
	v := g.r.Pick([]string{"true", "false"})
	if g.dyn && g.r.Chance(1, 2) {
		v = g.r.Pick([]string{"$v", "$w", "$u"})
	}
	s := " " + d + "(if: " + v + ")"
	if g.r.Chance(1, 8) {
		s += " " + g.r.Pick([]string{"@skip", "@include"}) + "(if: " + g.r.Pick([]string{"true", "false"}) + ")"
	}
	return s
}

func (g *rgen) cond() string {
	c := []string{"Q", "I", "U", "T0"}
	if g.m > 1 {
		c = append(c, "T1")
	}
	if g.r.Chance(1, 12) {
		return g.r.Pick([]string{"Nope", "String", "In"}) // unknown / non-composite type conditions (D-09c regression)
	}
	return g.r.Pick(c)
}

func (g *rgen) set(depth int) string {
	k := g.r.Range(1, 4)
	parts := []string{}
	for i := 0; i < k; i++ {
		g.budget--
		if g.budget < 0 {
			break
		}
		switch g.r.Intn(8) {
		case 0, 1:
			a := ""
			if g.r.Chance(1, 2) {
				a = g.r.Pick(keyPool) + ": "
			}
			parts = append(parts, a+g.r.Pick([]string{"leaf", "leaf", "__typename", "nope"})+g.dirs())
		case 2, 3, 4:
			if depth <= 0 {
				parts = append(parts, "leaf")
				continue
			}
			a := ""
			if g.r.Chance(2, 3) {
				a = g.r.Pick(keyPool) + ": "
			}
			parts = append(parts, a+g.r.Pick([]string{"q", "q", "qs", "i", "is", "u"})+g.dirs()+" "+g.set(depth-1))
		case 5:
			tc := ""
			if g.r.Chance(3, 4) {
				tc = " on " + g.cond()
			}
			parts = append(parts, "..."+tc+g.dirs()+" "+g.set(depth))
		default:
			if g.nFrag == 0 {
				parts = append(parts, "leaf")
				continue
			}
			parts = append(parts, fmt.Sprintf("...F%d", g.r.Intn(g.nFrag+1))+g.dirs()) // may name a missing fragment
		}
	}
	if len(parts) == 0 {
		parts = []string{"leaf"}
	}
	return "{ " + strings.Join(parts, " ") + " }"
}

func randomCase(r *hx.Rng) caseT {
	g := &rgen{r: r, nFrag: r.Intn(5), m: []int{1, 2, 5}[r.Intn(3)], dyn: r.Chance(1, 4), budget: 60}
	var b strings.Builder
	op := ""
	head := ""
	if g.dyn {
		head = "query R($v: Boolean!, $w: Boolean!, $u: Boolean) "
		if r.Chance(1, 2) {
			op = "R"
		}
	}
	b.WriteString(head + g.set(r.Range(1, 3)))
	for i := 0; i < g.nFrag; i++ {
		fmt.Fprintf(&b, " fragment F%d on %s %s", i, g.cond(), g.set(r.Range(1, 2)))
	}
	if g.nFrag > 0 && r.Chance(1, 10) { // duplicate fragment name: the later definition wins in Plan.fragments
		fmt.Fprintf(&b, " fragment F0 on %s %s", g.cond(), g.set(1))
	}
	if r.Chance(1, 25) { // second operation: selection by name / ambiguity error
		b.WriteString(" query S { leaf }")
		if r.Chance(1, 2) {
			op = "S"
		}
	}
	c := caseT{Family: "random-fragment-graph", N: g.nFrag, M: g.m, Src: b.String(), Op: op,
		Mode: dataMode{Name: r.Pick([]string{"nil", "spine", "all", "all"}), MaxDepth: r.Range(1, 3), ListLen: r.Range(0, 2), RtShift: r.Intn(3)}, Runs: r.Range(1, 2)}
	if r.Chance(1, 4) { // schemas extended by AppendType after NewSchema
		c.Variant = r.Pick([]string{"append-unrelated", "append-implementer", "append-several"})
	}
	if g.dyn {
		c.Vars = map[string]bool{"v": r.Chance(1, 2), "w": r.Chance(1, 2)}
		if r.Chance(1, 2) {
			c.Vars["u"] = r.Chance(1, 2)
		}
		c.Runs = 1
	}
	return c
}
