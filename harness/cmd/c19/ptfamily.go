package main

// Possible-type tables (verif site 11, VerifSitePossibleTypesEnumerated: entries of every table Schema.PossibleTypes hands
// out). One fixed document with many abstract type-condition fragments under an abstract field is validated, planned and
// executed against schemas that differ ONLY in the number of implementers of the interface; the runtime type is the
// LAST implementer. Asserted (no timing oracle):
//   - every step counter of PlanQuery and of PlanQuery + ExecutePlan (lazily planned sub-selections), the new site
//     included, is EXACTLY equal for all implementer counts (theorem plan_cost_indep_of_possible_types for the model);
//   - validation: all counters except site 11 are equal; site 11 legitimately grows and must equal the model's
//     ptValidation (checked in one()) — polynomial by theorem validation_possible_type_tables.
// A best-of-k wall-clock ratio is kept in the evidence as information only.

import (
	"fmt"
	"math"
	"strings"
	"time"

	"github.com/graphql-go/graphql"
	"github.com/graphql-go/graphql/language/parser"
)

const sitePossibleTypes = 11

type ptRow struct {
	Variant      string   `json:"schema_variant"`
	Implementers int      `json:"implementers"`
	Validate     []uint64 `json:"validate"`
	Plan         []uint64 `json:"plan"`
	Exec         []uint64 `json:"plan_exec"`
	PlanExecMs   float64  `json:"plan_exec_ms_best_of_5"`
}

func ptDocument() string {
	k := 50
	onI := rep(k, func(i int) string { return fmt.Sprintf("... on I { k%d: leaf } ", i) })
	return "{ ... on I { r: leaf } ...FI i { leaf " + onI + "... on U { __typename } ... on T0 { leaf } ...FI ...FU i { " + onI + "...FI q { leaf } } } " +
		"q { ... on I { leaf } ...FI } } " +
		"fragment FI on I { leaf ... on U { __typename } ... on I { leaf } } fragment FU on U { ... on I { leaf } }"
}

func (r *runner) possibleTypesFamily() map[string]interface{} {
	run := r.run
	ms := []int{4, 64, 1024}
	if run.Thorough() {
		ms = append(ms, 20000)
	}
	src := ptDocument()
	rows := []ptRow{}
	variants := []string{"", "append-implementer", "append-unrelated", "append-several"}
	for _, m := range ms {
		for _, variant := range variants {
			if run.TooManyViolations() || poisoned {
				break
			}
			if m > 1024 && variant != "" && variant != "append-implementer" {
				continue
			}
			c := caseT{Family: "possible-types", N: m, M: m, Src: src, Mode: dataMode{Name: "all", MaxDepth: 3, ListLen: 1, Last: true}, Runs: 2, Valid: true, Variant: variant}
			o := r.one(c)
			if o == nil {
				continue
			}
			row := ptRow{Variant: variant, Implementers: m, Validate: o.Validate, Plan: o.Plan, Exec: o.Exec}
			// information only: best of 5 PlanQuery + one execution
			if b, err := schemaForV(m, variant); err == nil {
				if doc, err := parser.Parse(parser.ParseParams{Source: src}); err == nil {
					best := math.MaxFloat64
					for k := 0; k < 5; k++ {
						root := &wnode{rt: "Q"}
						b.w.mode, b.w.root = c.Mode, root
						t0 := time.Now()
						guarded(func() {
							if plan, err := graphql.PlanQuery(&b.schema, doc, ""); err == nil {
								graphql.ExecutePlan(plan, graphql.ExecuteParams{Schema: b.schema, Root: root})
							}
						})
						if d := float64(time.Since(t0).Microseconds()) / 1000; d < best {
							best = d
						}
					}
					row.PlanExecMs = math.Round(best*100) / 100
				}
			}
			rows = append(rows, row)
		}
	}
	info := map[string]interface{}{"rows": rows, "document_bytes": len(src)}
	if len(rows) < 2 {
		return info
	}
	hasSite := len(rows[0].Plan) > sitePossibleTypes
	info["possible_types_site_present"] = hasSite
	base := rows[0]
	eqExcept := func(a, b []uint64, skip int) bool {
		if len(a) != len(b) {
			return false
		}
		for i := range a {
			if i != skip && a[i] != b[i] {
				return false
			}
		}
		return true
	}
	for _, row := range rows[1:] {
		c := caseT{Family: "possible-types", N: row.Implementers, M: row.Implementers, Src: src, Mode: dataMode{Name: "all", MaxDepth: 3, ListLen: 1, Last: true}, Runs: 2, Valid: true, Variant: row.Variant}
		var bad []string
		if !eqExcept(base.Plan, row.Plan, -1) {
			bad = append(bad, fmt.Sprintf("PlanQuery counters %v (%d implementers) vs %v (%d implementers, schema %q)", base.Plan, base.Implementers, row.Plan, row.Implementers, row.Variant))
		}
		if !eqExcept(base.Exec, row.Exec, -1) {
			bad = append(bad, fmt.Sprintf("PlanQuery+ExecutePlan counters %v (%d implementers) vs %v (%d implementers, schema %q)", base.Exec, base.Implementers, row.Exec, row.Implementers, row.Variant))
		}
		if !eqExcept(base.Validate, row.Validate, sitePossibleTypes) {
			bad = append(bad, fmt.Sprintf("ValidateDocument counters other than the possible-type site %v vs %v", base.Validate, row.Validate))
		}
		if len(bad) > 0 {
			run.Violation("step counters depend on the number of implementers of an interface or on how the schema was assembled (NewSchema alone / extended by AppendType) (site order: collectInto planMerged findConflict fieldsAndFragment betweenFragments fragmentSpreadsStep rrfPop rrfSpread detectCycleCall detectCycleSpread variableUsagesCompute possibleTypesEnumerated): "+strings.Join(bad, "; "),
				map[string]interface{}{"case": c, "rows": rows}, false)
			break
		}
		run.Tag("possible-types-independence-checked")
	}
	if last := rows[len(rows)-1]; base.PlanExecMs > 0 {
		info["plan_exec_time_ratio_max_vs_min_implementers"] = math.Round(last.PlanExecMs/base.PlanExecMs*100) / 100
	}
	return info
}
