package main

// Graph rules of validation (NoFragmentCycles, NoUnusedFragments, NoUndefinedVariables, NoUnusedVariables,
// VariablesInAllowedPosition) and the ValidationContext helpers they use: observables that occur in the cost formulas of
// lean/GqlModel/GraphCost.lean are read through the PUBLIC API and compared with the model; when the library carries the
// proposed verif sites (notes/agents/C19-graph-hooks.diff) their counters are compared with the model's exact predictions.

import (
	"fmt"
	"math"
	"sort"
	"strings"
	"time"

	"github.com/graphql-go/graphql"
	"github.com/graphql-go/graphql/language/ast"
	"github.com/graphql-go/graphql/language/parser"

	"verif/harness/astjson"
)

type graphModel struct {
	Ops           [][]uint64 `json:"ops"`   // per operation: |closure|, |recursive usages|, |spreads|
	Frags         [][]uint64 `json:"frags"` // per fragment definition: |spreads|, |usages|
	Cyc           []uint64   `json:"cyc"`   // calls, iterations, copied path entries, errors
	CycOof        bool       `json:"cycOof"`
	Cached        uint64     `json:"cached"`
	Uncached      uint64     `json:"uncached"`
	BoundCached   uint64     `json:"boundCached"`
	BoundUncached uint64     `json:"boundUncached"`
	Sizes         []uint64   `json:"sizes"` // operations, fragment definitions, AST nodes, spread nodes, variable usages
	Hooks         []uint64   `json:"hooks"`
	UniqueNames   bool       `json:"uniqueNames"`
}

type graphObs struct {
	Ops     [][]uint64 `json:"ops"`
	Frags   [][]uint64 `json:"frags"`
	CycErrs uint64     `json:"cycErrs"`
	CycLocs uint64     `json:"cycLocs"`
}

// graphGo reads the observables from the real library (public API only).
func graphGo(schema *graphql.Schema, doc *ast.Document) (o graphObs, problem string) {
	prob, _ := guarded(func() {
		ctx := graphql.NewValidationContext(schema, doc, graphql.NewTypeInfo(&graphql.TypeInfoConfig{Schema: schema}))
		for _, def := range doc.Definitions {
			switch d := def.(type) {
			case *ast.OperationDefinition:
				o.Ops = append(o.Ops, []uint64{uint64(len(ctx.RecursivelyReferencedFragments(d))), uint64(len(ctx.RecursiveVariableUsages(d))), uint64(len(ctx.FragmentSpreads(d.SelectionSet)))})
			case *ast.FragmentDefinition:
				o.Frags = append(o.Frags, []uint64{uint64(len(ctx.FragmentSpreads(d.SelectionSet))), uint64(len(ctx.VariableUsages(d)))})
			}
		}
		vr := graphql.ValidateDocument(schema, doc, []graphql.ValidationRuleFn{graphql.NoFragmentCyclesRule})
		for _, e := range vr.Errors {
			o.CycErrs++
			o.CycLocs += uint64(len(e.Locations))
		}
	})
	return o, prob
}

func eq2(a, b [][]uint64) bool {
	if len(a) != len(b) {
		return false
	}
	for i := range a {
		if fmt.Sprint(a[i]) != fmt.Sprint(b[i]) {
			return false
		}
	}
	return true
}

// graphCompare checks one document; validateCounters = the counters of ONE full ValidateDocument (nil = not available).
// Returns "" when everything agrees.
func graphCompare(g *graphModel, o graphObs, validateCounters []uint64) string {
	if g == nil {
		return "the driver returned no graph-rule section"
	}
	if g.CycOof {
		return "the cycle model ran out of fuel (theorem cycleRun_no_oof contradicted: model/driver fault)"
	}
	if g.Cached > g.BoundCached || g.Uncached > g.BoundUncached {
		return fmt.Sprintf("model work exceeds the proved bounds (theorem contradicted: model/driver fault): cached %d > %d or uncached %d > %d", g.Cached, g.BoundCached, g.Uncached, g.BoundUncached)
	}
	if !eq2(g.Ops, o.Ops) {
		return fmt.Sprintf("per-operation list lengths [closure, recursive usages, spreads] differ: go %v, model %v", o.Ops, g.Ops)
	}
	if !eq2(g.Frags, o.Frags) {
		return fmt.Sprintf("per-fragment list lengths [spreads, usages] differ: go %v, model %v", o.Frags, g.Frags)
	}
	if len(g.Cyc) != 4 || g.Cyc[3] != o.CycErrs || g.Cyc[2] != o.CycLocs {
		return fmt.Sprintf("NoFragmentCycles: go reports %d errors with %d locations in total, model %v [calls iters copiedPathEntries errors]", o.CycErrs, o.CycLocs, g.Cyc)
	}
	// the proposed verif sites 5..10, when the library has them
	if len(validateCounters) >= 11 && len(g.Hooks) == 6 {
		names := []string{"fragmentSpreadsStep", "rrfPop", "rrfSpread", "detectCycleCall", "detectCycleSpread", "variableUsagesCompute"}
		for i := 0; i < 6; i++ {
			if i == 0 && !g.UniqueNames {
				continue // which definition of a duplicated name the cycle rule asks for is not in the prediction
			}
			if validateCounters[5+i] != g.Hooks[i] {
				return fmt.Sprintf("step counter %s of ValidateDocument differs from the model: go %d, model %d (all sites go %v, model %v)", names[i], validateCounters[5+i], g.Hooks[i], validateCounters[5:11], g.Hooks)
			}
		}
	}
	return ""
}

// ---------------------------------------------------------------- scaled families for the graph rules

type gfamily struct {
	name string
	doc  func(n int) string
	ns   []int
	nsT  []int // thorough
	// expected growth exponent (in n) of the model's work with caches / without, and limit for the wall-clock fit
	kCached, kUncached float64
	note               string
}

func gfamilies() []gfamily {
	vars := "($a: Int, $b: Int)"
	use := "f(arg: {x: $a, a: {x: $b}})"
	small := []int{8, 16, 32, 64, 128}
	smallT := []int{8, 16, 32, 64, 128, 256}
	dense := []int{4, 8, 16, 32}
	denseT := []int{4, 8, 16, 32, 64}
	cyclicT := []int{4, 8, 16, 32, 48} // ~n^2 errors with up to n locations each: error construction dominates the wall clock
	return []gfamily{
		{name: "g-chain", ns: small, nsT: smallT, kCached: 1, kUncached: 1,
			doc: func(n int) string {
				return "query A" + vars + " { " + use + " ...F0 } " + rep(n, func(i int) string {
					if i == n-1 {
						return fmt.Sprintf("fragment F%d on Q { %s } ", i, use)
					}
					return fmt.Sprintf("fragment F%d on Q { %s ...F%d } ", i, use, i+1)
				})
			}, note: "one operation, chain of n fragments"},
		{name: "g-fan", ns: small, nsT: smallT, kCached: 1, kUncached: 1,
			doc: func(n int) string {
				return "query A" + vars + " { " + rep(n, func(i int) string { return fmt.Sprintf("...F%d ", i) }) + "} " +
					rep(n, func(i int) string { return fmt.Sprintf("fragment F%d on Q { k%d: %s } ", i, i, use) })
			}, note: "one operation spreading n leaf fragments"},
		{name: "g-dense", ns: dense, nsT: denseT, kCached: 2, kUncached: 2,
			doc: func(n int) string {
				return "query A" + vars + " { ...F0 } " + rep(n, func(i int) string {
					return fmt.Sprintf("fragment F%d on Q { %s %s} ", i, use, rep(n-i-1, func(j int) string { return fmt.Sprintf("...F%d ", i+1+j) }))
				})
			}, note: "every fragment spreads all later ones: n^2/2 spreads, document size ~ n^2"},
		{name: "g-ops-x-frags", ns: dense, nsT: denseT, kCached: 2, kUncached: 2,
			doc: func(n int) string {
				return rep(n, func(i int) string { return fmt.Sprintf("query A%d%s { %s ...F0 } ", i, vars, use) }) +
					rep(n, func(i int) string {
						if i == n-1 {
							return fmt.Sprintf("fragment F%d on Q { %s } ", i, use)
						}
						return fmt.Sprintf("fragment F%d on Q { %s ...F%d } ", i, use, i+1)
					})
			}, note: "n operations, each reaching the same chain of n fragments, 2 variables used in every definition"},
		{name: "g-ops-x-vars", ns: dense, nsT: denseT, kCached: 2, kUncached: 2,
			doc: func(n int) string {
				decl := "(" + rep(n, func(i int) string { return fmt.Sprintf("$v%d: Int ", i) }) + ")"
				uses := rep(n, func(i int) string { return fmt.Sprintf("u%d: f(arg: {x: $v%d}) ", i, i) })
				return rep(n, func(i int) string { return fmt.Sprintf("query A%d%s { ...F } ", i, decl) }) + "fragment F on Q { " + uses + "}"
			}, note: "n operations declaring n variables each, all used in one shared fragment"},
		{name: "g-ring", ns: small, nsT: smallT, kCached: 1, kUncached: 1,
			doc: func(n int) string {
				return "query A" + vars + " { ...F0 } " + rep(n, func(i int) string {
					return fmt.Sprintf("fragment F%d on Q { %s ...F%d } ", i, use, (i+1)%n)
				})
			}, note: "the chain closed into one cycle of length n (one error with n locations)"},
		{name: "g-dense-cyclic", ns: []int{3, 6, 12, 24}, nsT: cyclicT, kCached: 3, kUncached: 3,
			doc: func(n int) string {
				return "query A" + vars + " { ...F0 } " + rep(n, func(i int) string {
					return fmt.Sprintf("fragment F%d on Q { %s %s} ", i, use, rep(n, func(j int) string { return fmt.Sprintf("...F%d ", j) }))
				})
			}, note: "every fragment spreads every fragment (itself included): ~n^2 cycle errors with up to n locations each"},
	}
}

type gseries struct {
	Family   string    `json:"family"`
	Ns       []int     `json:"n"`
	Nodes    []uint64  `json:"ast_nodes"`
	Cached   []uint64  `json:"model_work_with_caches"`
	Uncached []uint64  `json:"model_work_without_caches"`
	BoundC   []uint64  `json:"proved_bound_with_caches"`
	BoundU   []uint64  `json:"proved_bound_without_caches"`
	Ms       []float64 `json:"graph_rules_ms_min_of_2"`
	KCached  float64   `json:"fitted_exponent_model_cached"`
	KUncach  float64   `json:"fitted_exponent_model_uncached"`
	KTime    float64   `json:"fitted_exponent_wall_clock"`
	Limit    float64   `json:"limit"`
	CycErrs  []uint64  `json:"cycle_errors"`
	CycLocs  []uint64  `json:"cycle_error_locations"`
}

var graphRuleFns = []graphql.ValidationRuleFn{graphql.NoFragmentCyclesRule, graphql.NoUnusedFragmentsRule, graphql.NoUndefinedVariablesRule, graphql.NoUnusedVariablesRule, graphql.VariablesInAllowedPositionRule}

// fitTime: like fit, for wall-clock milliseconds (floor of 0.05 ms against timer noise)
func fitTime(ms []float64) float64 {
	k := 0.0
	for i := 1; i < len(ms); i++ {
		r := math.Log2((ms[i] + 0.05) / (ms[i-1] + 0.05))
		if r > k {
			k = r
		}
	}
	return math.Round(k*100) / 100
}

func (r *runner) graphFamilies() []gseries {
	run := r.run
	out := []gseries{}
	b, err := schemaFor(2)
	if err != nil {
		run.CheckError("schema build: " + err.Error())
		return nil
	}
	for _, f := range gfamilies() {
		ns := f.ns
		if run.Thorough() {
			ns = f.nsT
		}
		s := gseries{Family: f.name, Limit: f.kCached}
		for _, n := range ns {
			if run.TooManyViolations() || poisoned {
				break
			}
			src := f.doc(n)
			c := caseT{Family: f.name, N: n, M: 2, Src: src, Mode: dataMode{Name: "nil"}, Runs: 0}
			doc, err := parser.Parse(parser.ParseParams{Source: src})
			if err != nil {
				run.CheckError("graph family document does not parse: " + err.Error())
				break
			}
			// real side: observables, full validation counters, wall clock of the five graph rules alone (min of 3)
			obs, prob := graphGo(&b.schema, doc)
			if prob != "" {
				run.Violation("graph rules: "+prob, map[string]interface{}{"case": c}, false)
				break
			}
			graphql.VerifResetCounters()
			prob, _ = guarded(func() { graphql.ValidateDocument(&b.schema, doc, nil) })
			full := graphql.VerifCounters()
			if prob != "" {
				run.Violation("ValidateDocument: "+prob, map[string]interface{}{"case": c}, false)
				break
			}
			best := math.MaxFloat64
			for k := 0; k < 2; k++ {
				t0 := time.Now()
				prob, _ = guarded(func() { graphql.ValidateDocument(&b.schema, doc, graphRuleFns) })
				if d := float64(time.Since(t0).Microseconds()) / 1000; d < best {
					best = d
				}
				if prob != "" {
					break
				}
			}
			if prob != "" {
				run.Violation("ValidateDocument (graph rules only): "+prob, map[string]interface{}{"case": c}, false)
				break
			}
			var m modelResp
			if err := r.drv.Ask(map[string]interface{}{"schema": b.desc, "doc": astjson.Document(doc), "op": "", "graph": true}, &m); err != nil {
				run.CheckError(err.Error())
				break
			}
			if note := graphCompare(m.Graph, obs, full); note != "" {
				run.Violation("graph rules: "+note, map[string]interface{}{"case": c, "go": obs, "model": m.Graph, "validate_counters": full}, strings.Contains(note, "model/driver fault"))
				break
			}
			g := m.Graph
			s.Ns = append(s.Ns, n)
			s.Nodes = append(s.Nodes, g.Sizes[2])
			s.Cached = append(s.Cached, g.Cached)
			s.Uncached = append(s.Uncached, g.Uncached)
			s.BoundC = append(s.BoundC, g.BoundCached)
			s.BoundU = append(s.BoundU, g.BoundUncached)
			s.Ms = append(s.Ms, math.Round(best*100)/100)
			s.CycErrs = append(s.CycErrs, obs.CycErrs)
			s.CycLocs = append(s.CycLocs, obs.CycLocs)
			run.Case("graph|"+src, true, map[string]interface{}{"family": f.name, "n": n, "sizes[ops frags nodes spreads usages]": g.Sizes, "model_work_cached": g.Cached, "model_work_uncached": g.Uncached, "ms": best})
			run.Tag("family:" + f.name)
			run.Tag("graph-observables-compared-with-model")
			if len(full) >= 11 {
				run.Tag("graph-step-counters-compared-with-model")
			}
		}
		if len(s.Ns) >= 2 {
			s.KCached, s.KUncach, s.KTime = fit(s.Cached), fit(s.Uncached), fitTime(s.Ms)
			// the model's work is what the theorems bound: its growth over the family must stay within the family's
			// exponent; the wall clock of the real rules is checked against a generous limit (load, GC)
			if s.KCached > f.kCached+tolerance || s.KUncach > f.kUncached+tolerance {
				run.Violation(fmt.Sprintf("growth of the model's graph-rule work over family %s (%s) is steeper than n^%.0f: cached %v (exponent %.2f), uncached %v (exponent %.2f)", f.name, f.note, f.kCached, s.Cached, s.KCached, s.Uncached, s.KUncach),
					map[string]interface{}{"case": caseT{Family: f.name, N: s.Ns[len(s.Ns)-1], M: 2, Src: f.doc(s.Ns[len(s.Ns)-1]), Mode: dataMode{Name: "nil"}, Extra: map[string]string{"growth": "graph-model"}}, "series": s}, true)
			}
			// (timing is noisy on a loaded machine and includes what the unit model does not count — building every
			// error costs O(locations x source length) in location.GetLocation — so only a gross excess is a violation)
			if last := s.Ms[len(s.Ms)-1]; s.KTime > f.kCached+3 && last > 500 {
				run.Violation(fmt.Sprintf("wall clock of the five graph rules over family %s (%s) grows faster than n^%.1f: %v ms at n=%v (fitted exponent %.2f; the model's work grows with exponent %.2f)", f.name, f.note, f.kCached+3, s.Ms, s.Ns, s.KTime, s.KCached),
					map[string]interface{}{"case": caseT{Family: f.name, N: s.Ns[len(s.Ns)-1], M: 2, Src: f.doc(s.Ns[len(s.Ns)-1]), Mode: dataMode{Name: "nil"}, Extra: map[string]string{"growth": "graph-time"}}, "series": s}, false)
			}
		}
		out = append(out, s)
	}
	sort.SliceStable(out, func(i, j int) bool { return out[i].Family < out[j].Family })
	return out
}
