// Two document families on top of gen.ValidDoc's IR (post-passes over *gen.VDoc), both PARSEABLE BUT INVALID on purpose:
// type tracking is a property of the traversal, not of valid documents only.
//
//   - leafParent:  selection sets under LEAF-typed fields (scalar / enum, bare or wrapped in list / non-null) that contain
//     inline fragments WITHOUT type condition (with / without directives, nested, containing fields with their own
//     selection sets) and typed inline fragments. TypeInfo.Enter(InlineFragment) without a type condition pushes
//     GetNamed(Type()) — the named LEAF type here — while the enclosing selection set's ParentType() is nil: the one
//     position where "named type of the enclosing field" and "parent type of the enclosing selection set" differ.
//   - reentrant:   variables in field arguments, a directive `@re` with four arguments used with >= 2 of them (also with an
//     unknown argument named like an argument of the decorated field), list literals with several items containing
//     variables, object literals — the material for the re-entrancy phase (reentrant.go).
package main

import (
	"fmt"
	"sort"
	"strings"

	"verif/harness/gen"
	"verif/harness/gq"
	"verif/harness/hx"
)

func sortedTags(m map[string]bool) []string {
	tags := make([]string, 0, len(m))
	for t := range m {
		tags = append(tags, t)
	}
	sort.Strings(tags)
	return tags
}

// eachField calls f on every field selection of the document (operations and fragments, all depths).
func eachField(d *gen.VDoc, f func(*gen.VSel)) {
	var walk func(ss []*gen.VSel)
	walk = func(ss []*gen.VSel) {
		for _, s := range ss {
			if s.Kind == "field" {
				f(s)
			}
			walk(s.Sel)
		}
	}
	for _, o := range d.Ops {
		walk(o.Sel)
	}
	for _, fr := range d.Frags {
		walk(fr.Sel)
	}
}

// leafShape: the field type with the named type replaced by its kind: scalar, enum!, [scalar!]!, …
func leafShape(v *gen.SchemaView, typ string) string {
	named := gen.NamedOf(typ)
	k := "scalar"
	if v.Kind(named) == "ENUM" {
		k = "enum"
	}
	return strings.Replace(typ, named, k, 1)
}

type leafGen struct {
	r    *hx.Rng
	v    *gen.SchemaView
	tags map[string]bool
	nf   int
}

func (g *leafGen) fresh() string {
	g.nf++
	return fmt.Sprintf("x%d", g.nf)
}

func (g *leafGen) dirs() []*gen.VDir {
	r := g.r
	var ds []*gen.VDir
	n := 1
	if r.Chance(1, 3) {
		n = 2
	}
	for i := 0; i < n; i++ {
		switch r.Intn(4) {
		case 0:
			ds = append(ds, &gen.VDir{Name: "include", Args: []*gen.VArg{{Name: "if", Value: "true", Type: "Boolean!"}}})
		case 1:
			ds = append(ds, &gen.VDir{Name: "skip", Args: []*gen.VArg{{Name: "if", Value: "$lv", Type: "Boolean!"}}})
		case 2:
			if len(g.v.D.Directives) > 0 {
				dd := g.v.D.Directives[r.Intn(len(g.v.D.Directives))]
				d := &gen.VDir{Name: dd.Name}
				for _, a := range dd.Args {
					d.Args = append(d.Args, &gen.VArg{Name: a.Name, Value: r.Pick([]string{"1", "[1, $lv]", `"s"`, "{a: 1}"}), Type: a.Type})
				}
				ds = append(ds, d)
				break
			}
			fallthrough
		default:
			ds = append(ds, &gen.VDir{Name: "nope", Args: []*gen.VArg{{Name: "x", Value: "[1, 2]"}}})
		}
	}
	return ds
}

// sels: 1-3 selections to stand in a selection set whose TypeInfo parent type is nil (under a leaf field, or further down)
func (g *leafGen) sels(leafNamed string, depth int, underLeaf bool) []*gen.VSel {
	r := g.r
	n := 1 + r.Intn(3)
	var out []*gen.VSel
	for i := 0; i < n; i++ {
		c := r.Intn(10)
		if i == 0 && underLeaf {
			c = 0 // the selection set directly under the leaf field always has a typeless inline fragment
		}
		switch {
		case c <= 3 && depth > 0:
			s := &gen.VSel{Kind: "inline"}
			if r.Chance(1, 2) {
				s.Dirs = g.dirs()
				g.tags["leafParentTypeless+directive"] = true
			}
			s.Sel = g.sels(leafNamed, depth-1, false)
			if underLeaf {
				g.tags["leafParentTypeless"] = true
			} else {
				g.tags["leafParentTypeless:nested"] = true
			}
			out = append(out, s)
		case c <= 5 && depth > 0:
			var cands []string
			cands = append(cands, g.v.Composites()...)
			cands = append(cands, leafNamed, leafNamed, "Nope")
			s := &gen.VSel{Kind: "inline", On: r.Pick(cands)}
			if r.Chance(1, 3) {
				s.Dirs = g.dirs()
			}
			s.Sel = g.sels(leafNamed, depth-1, false)
			g.tags["leafParentTyped"] = true
			out = append(out, s)
		case c == 6 && depth > 0:
			// a field (unknown here: no parent type) with its own selection set
			s := &gen.VSel{Kind: "field", Name: g.fresh(), HasSel: true}
			s.Sel = g.sels(leafNamed, depth-1, false)
			out = append(out, s)
		case c == 7:
			out = append(out, &gen.VSel{Kind: "field", Name: "__typename"})
		case c == 8:
			out = append(out, &gen.VSel{Kind: "field", Name: g.fresh(), Args: []*gen.VArg{{Name: "a", Value: "[1, $lv, {b: 2}]"}}})
		default:
			out = append(out, &gen.VSel{Kind: "field", Name: g.fresh()})
		}
	}
	return out
}

// addLeafParents gives 1..3 leaf-typed fields of the document a selection set with typeless inline fragments.
// Returns the histogram tags (nil if the document has no leaf-typed field).
func addLeafParents(r *hx.Rng, v *gen.SchemaView, d *gen.VDoc) []string {
	var leaves []*gen.VSel
	eachField(d, func(s *gen.VSel) {
		if !s.HasSel && s.Type != "" && v.IsLeaf(gen.NamedOf(s.Type)) {
			leaves = append(leaves, s)
		}
	})
	if len(leaves) == 0 {
		return nil
	}
	g := &leafGen{r: r, v: v, tags: map[string]bool{}}
	// prefer wrapped leaf types (they are rarer than bare scalars), then random ones
	var picked []*gen.VSel
	for _, s := range leaves {
		if s.Type != gen.NamedOf(s.Type) && len(picked) < 1 {
			picked = append(picked, s)
		}
	}
	for k := r.Range(1, 2); k > 0; k-- {
		picked = append(picked, leaves[r.Intn(len(leaves))])
	}
	for _, s := range picked {
		if s.HasSel {
			continue
		}
		s.HasSel = true
		s.Sel = g.sels(gen.NamedOf(s.Type), r.Range(1, 3), true)
		g.tags["leafParentTypeless:"+leafShape(v, s.Type)] = true
	}
	return sortedTags(g.tags)
}

// ---------------------------------------------------------------- reentrant family

// reDirective: the directive the reentrant family decorates fields with (appended to the schema description)
func reDirective(sd *gq.SchemaDesc) gq.DirectiveDesc {
	d := gq.DirectiveDesc{Name: "re", Locations: []string{"FIELD", "FRAGMENT_SPREAD", "INLINE_FRAGMENT", "QUERY"},
		Args: []gq.ArgDesc{{Name: "a", Type: "Boolean"}, {Name: "b", Type: "Int"}, {Name: "c", Type: "[Int]"}}}
	for _, t := range sd.Types {
		if t.Kind == "INPUT_OBJECT" {
			d.Args = append(d.Args, gq.ArgDesc{Name: "o", Type: t.Name})
			break
		}
	}
	return d
}

type reGen struct {
	r    *hx.Rng
	v    *gen.SchemaView
	tags map[string]bool
}

func (g *reGen) variable() string { return "$rv" + fmt.Sprint(g.r.Intn(3)) }

// value: literal text for an input type; lists get 2-4 items, some of them variables; input objects their fields
func (g *reGen) value(typ string, depth int) string {
	r := g.r
	te, err := gq.ParseType(typ)
	if err != nil {
		return "1"
	}
	for te.Kind == "nonNull" {
		te = te.Of
	}
	if te.Kind == "list" {
		n := r.Range(2, 4)
		var parts []string
		hasVar := false
		for i := 0; i < n; i++ {
			if r.Chance(1, 2) || (i == 0 && !hasVar) {
				parts = append(parts, g.variable())
				hasVar = true
			} else {
				parts = append(parts, g.value(te.Of.String(), depth-1))
			}
		}
		g.tags["reentrant:list-with-variables"] = true
		return "[" + strings.Join(parts, ", ") + "]"
	}
	if depth > 0 && r.Chance(1, 4) {
		return g.variable()
	}
	switch te.Name {
	case "Int":
		return r.Pick([]string{"0", "7", "-3"})
	case "Float":
		return "1.5"
	case "String":
		return `"s"`
	case "Boolean":
		return r.Pick([]string{"true", "false"})
	case "ID":
		return `"id"`
	}
	td := g.v.Type(te.Name)
	if td == nil {
		return "1"
	}
	switch td.Kind {
	case "ENUM":
		return td.Values[r.Intn(len(td.Values))].Name
	case "INPUT_OBJECT":
		if depth <= 0 {
			return "{}"
		}
		var parts []string
		for _, f := range td.InputFields {
			if r.Chance(2, 3) {
				parts = append(parts, f.Name+": "+g.value(f.Type, depth-1))
			}
		}
		if r.Chance(1, 3) {
			parts = append(parts, "zz: ["+g.variable()+", 2]")
		}
		g.tags["reentrant:object-literal"] = true
		return "{" + strings.Join(parts, ", ") + "}"
	}
	return "1"
}

// addReentrantMaterial rewrites list / input-object arguments of fields into multi-item literals with variables,
// decorates fields with `@re(...)` (>= 2 arguments, random order; sometimes an extra, unknown argument named like an
// argument of the decorated field) and declares $rv0..$rv2 on every operation.
func addReentrantMaterial(r *hx.Rng, v *gen.SchemaView, re gq.DirectiveDesc, d *gen.VDoc) []string {
	g := &reGen{r: r, v: v, tags: map[string]bool{}}
	var fields []*gen.VSel
	eachField(d, func(s *gen.VSel) { fields = append(fields, s) })
	if len(fields) == 0 {
		return nil
	}
	forced := r.Intn(len(fields))
	for i, s := range fields {
		var fd *gq.FieldDesc
		if s.Parent != "" {
			fd = v.Field(s.Parent, s.Name)
		}
		if fd != nil {
			for _, a := range fd.Args {
				named := gen.NamedOf(a.Type)
				if !(strings.HasPrefix(a.Type, "[") || v.Kind(named) == "INPUT_OBJECT") || !(r.Chance(1, 2) || i == forced) {
					continue
				}
				val := g.value(a.Type, 2)
				found := false
				for _, x := range s.Args {
					if x.Name == a.Name {
						x.Value, found = val, true
					}
				}
				if !found {
					s.Args = append(s.Args, &gen.VArg{Name: a.Name, Value: val, Type: a.Type})
				}
				g.tags["reentrant:field-argument"] = true
			}
		}
		if i != forced && !r.Chance(1, 3) {
			continue
		}
		dir := &gen.VDir{Name: re.Name}
		order := make([]int, len(re.Args))
		for k := range order {
			order[k] = k
		}
		for k := len(order) - 1; k > 0; k-- {
			j := r.Intn(k + 1)
			order[k], order[j] = order[j], order[k]
		}
		na := r.Range(2, len(order))
		for _, k := range order[:na] {
			a := re.Args[k]
			val := g.value(a.Type, 2)
			if len(dir.Args) == 0 && r.Chance(1, 2) {
				val = g.variable()
			}
			dir.Args = append(dir.Args, &gen.VArg{Name: a.Name, Value: val, Type: a.Type})
		}
		if fd != nil && len(fd.Args) > 0 && r.Chance(1, 2) {
			// an argument the directive does not have, named like one of the FIELD's arguments
			a := fd.Args[r.Intn(len(fd.Args))]
			dir.Args = append(dir.Args, &gen.VArg{Name: a.Name, Value: g.value(a.Type, 1)})
			g.tags["reentrant:directive-arg-named-like-field-arg"] = true
		}
		g.tags["reentrant:directive>=2args"] = true
		if r.Chance(1, 2) {
			s.Dirs = append(s.Dirs, dir)
		} else {
			s.Dirs = append([]*gen.VDir{dir}, s.Dirs...)
		}
	}
	for _, o := range d.Ops {
		o.Vars = append(o.Vars, &gen.VVar{Name: "rv0", Type: "Int"}, &gen.VVar{Name: "rv1", Type: "Boolean"}, &gen.VVar{Name: "rv2", Type: "[Int]"})
	}
	return sortedTags(g.tags)
}
