// c14ti: type tracking (TypeInfo) reports at each node the schema types that apply at that position.
//
// Real side: visitor.Visit(doc, visitor.VisitWithTypeInfo(typeInfo, recorder)) over a parsed document; at every
// Enter (after TypeInfo.Enter(node)) the recorder notes Type() / ParentType() / InputType() / FieldDef().Name /
// Directive().Name / Argument().Name of the real graphql.TypeInfo. Model side: drv_c02 op "typeinfo"
// (lean/GqlModel/Validate/TypeInfo.lean) computes the same six facts TOP-DOWN from the schema and the node's
// position — no stacks. Compared: for every node of the kinds OperationDefinition, VariableDefinition, Variable,
// SelectionSet, Field, Argument, every value kind, ObjectField, Directive, FragmentSpread, InlineFragment,
// FragmentDefinition (keyed by kind and [start,end]) the two records are equal, and both sides see the same nodes.
// A second real run with a visitor that SKIPS random nodes checks that skipping leaves the type info of all later
// nodes unchanged (VisitWithTypeInfo must leave the frame of a skipped node).
//
// Since Props/C14TypeInfo (theorems typeinfo_eq_context, typeinfo_eq_context_under_skips, stacks_balanced) the driver also
// runs M = lean/GqlModel/TypeInfoStacks.lean, the STACK MACHINE as coded (four stacks, three registers, Enter/Leave case
// by case, driven like VisitWithTypeInfo incl. Leave on SKIP). Compared in addition: the SEQUENCE of rows the real
// visitor is shown == M's rows exactly, without skips and with the very nodes the second real walk skipped; at every
// real Leave the getters still show what they showed at Enter; after the real walk all getters are nil again; the
// premises of the theorems (argument names unique per definition, executable document) hold on the case.
// real == M is the correspondence; M == S is then the theorem.
//
// The wrapped visitor of the second real walk is drawn from several SHAPES of *VisitorOptions (mkShape): generic
// enter+leave, enter-only, leave-only, KindFuncMap entries with only Kind / only Enter / only Leave / random bits for a
// random subset of kinds (also over generic functions), EnterKindMap / LeaveKindMap forms, a mix of all. TypeInfo must be
// entered and left at every node whatever callbacks exist (theorem typeinfo_independent_of_handler_set): every callback
// that fires — slot (K KE KL E L EM LM), node, six getters — must equal, in order, what M (visitO with the same option
// set and skip list, GetVisitFn's precedence modelled) produces, and after the walk the getters must be nil.
//
// Bridge (Props/C14Bridge): M's events are computed by the Lean small-step MACHINE of visitor.Visit run on the abstract
// tree toNode(doc) with the TypeInfo-wrapping visitor; callbacks on Name / Named / List / NonNull nodes are compared too
// (observedM); and toNode(doc) — ids in preorder, slots per kind in the order of the regenerated child-key table — must
// equal the tree built here from the REAL AST by reflection along the REAL visitor.QueryDocumentKeys (abstractTree).
//
// Documents: gen.ValidDoc and the same IR after 1-3 typed mutations (unknown fields / types / directives, wrong
// literals, variables and wrong-kind literals at NESTED positions of list / input-object literals, several faults in
// one literal …) over gen.SchemaGen schemas with custom directives, disjoint abstract types and list-shaped arguments.
// Two more families (families.go), parseable but invalid on purpose: leafParent — selection sets under LEAF-typed fields
// (scalar / enum, bare and in list / non-null wrappers) with inline fragments WITHOUT type condition (directives, nesting,
// fields with their own selection sets) and typed ones, where GetNamed(Type()) and ParentType() differ; reentrant —
// variables in field arguments, `@re` with >= 2 arguments, multi-item list literals with variables, object literals.
//
// Re-entrancy phase (reentrant.go), on every case: graphql.VisitUsingRules with an OBSERVER rule (the six getters of the
// ValidationContext at every Enter / Leave) next to a POKER rule that calls ctx.VariableUsages / RecursiveVariableUsages
// at a seeded callback of the traversal (biased to positions inside arguments and directives). VariableUsages is a pure
// query: the observer's log must equal the plain VisitWithTypeInfo walk's callbacks (== M) and the observer-alone log.
package main

import (
	"fmt"
	"reflect"
	"runtime/debug"
	"sort"
	"strings"

	"github.com/graphql-go/graphql"
	"github.com/graphql-go/graphql/language/ast"
	"github.com/graphql-go/graphql/language/parser"
	"github.com/graphql-go/graphql/language/source"
	"github.com/graphql-go/graphql/language/visitor"

	"verif/harness/astjson"
	"verif/harness/gen"
	"verif/harness/gq"
	"verif/harness/hx"
)

var observed = map[string]bool{"OperationDefinition": true, "VariableDefinition": true, "Variable": true, "SelectionSet": true,
	"Field": true, "Argument": true, "IntValue": true, "FloatValue": true, "StringValue": true, "BooleanValue": true,
	"EnumValue": true, "ListValue": true, "ObjectValue": true, "ObjectField": true, "Directive": true,
	"FragmentSpread": true, "InlineFragment": true, "FragmentDefinition": true}

// observedM: kinds whose callbacks are compared with the stack machine M (S does not list Name / type-reference nodes)
var observedM = func() map[string]bool {
	m := map[string]bool{"Name": true, "Named": true, "List": true, "NonNull": true}
	for k := range observed {
		m[k] = true
	}
	return m
}()

// abstractTree: the abstract tree of the real AST — ids in preorder, slots by reflection along the REAL
// visitor.QueryDocumentKeys — in the driver's encoding [id, [[key,0] | [key,1,node] | [key,2,[node…]] …]] (the numbering and
// the walk of harness/cmd/c14), and the kind of every id.
func abstractTree(n ast.Node, kinds *[]string) interface{} {
	id := len(*kinds)
	*kinds = append(*kinds, n.GetKind())
	slots := []interface{}{}
	v := reflect.ValueOf(n)
	if v.Kind() == reflect.Ptr {
		v = v.Elem()
	}
	for _, key := range visitor.QueryDocumentKeys[n.GetKind()] {
		f := v.FieldByName(key)
		var one interface{}
		var many []interface{}
		if f.IsValid() {
			switch f.Kind() {
			case reflect.Slice:
				for i := 0; i < f.Len(); i++ {
					if c, ok := asNode(f.Index(i)); ok {
						many = append(many, abstractTree(c, kinds))
					}
				}
			default:
				if c, ok := asNode(f); ok {
					one = abstractTree(c, kinds)
				}
			}
		}
		switch {
		case one != nil:
			slots = append(slots, []interface{}{key, 1, one})
		case len(many) > 0:
			slots = append(slots, []interface{}{key, 2, many})
		default:
			slots = append(slots, []interface{}{key, 0})
		}
	}
	return []interface{}{id, slots}
}

func asNode(f reflect.Value) (ast.Node, bool) {
	switch f.Kind() {
	case reflect.Ptr, reflect.Interface:
		if f.IsNil() {
			return nil, false
		}
	default:
		return nil, false
	}
	if f.Kind() == reflect.Interface && f.Elem().Kind() == reflect.Ptr && f.Elem().IsNil() {
		return nil, false
	}
	n, ok := f.Interface().(ast.Node)
	return n, ok
}

func isNil(x interface{}) bool {
	if x == nil {
		return true
	}
	v := reflect.ValueOf(x)
	switch v.Kind() {
	case reflect.Ptr, reflect.Interface, reflect.Map, reflect.Slice:
		return v.IsNil()
	}
	return false
}

// renderType: the type's structure with "nil" for an absent (unknown) core
func renderType(t interface{}) string {
	if isNil(t) {
		return "nil"
	}
	switch x := t.(type) {
	case *graphql.List:
		return "[" + renderType(x.OfType) + "]"
	case *graphql.NonNull:
		return renderType(x.OfType) + "!"
	case graphql.Type:
		return x.Name()
	}
	return fmt.Sprintf("?%T", t)
}

type rec = []interface{} // kind, start, end, type, parent, input, fieldDef, directive, argument

func key(r rec) string { return fmt.Sprintf("%v@%v-%v", r[0], r[1], r[2]) }

func num(x interface{}) int {
	switch v := x.(type) {
	case int:
		return v
	case float64:
		return int(v)
	}
	var n int
	fmt.Sscan(fmt.Sprint(x), &n)
	return n
}

type realRun struct {
	out        map[string]string
	order      []string
	seq        []string // canonical rows in visiting order (enter-type callbacks)
	events     []string // every callback that fired: canonical [slot, row...]
	evKind     []string // per event: the node's kind
	evEnter    []bool   // per event: an enter-type callback
	skipped    [][]interface{}
	leaveDiffs []string
	finalState string // the six getters after the walk ("" if all nil)
	panicked   string
}

// shapeT: which callbacks the wrapped *VisitorOptions has (wire format of the driver's "shape")
type shapeT struct {
	Form       string             `json:"form"`
	Enter      bool               `json:"enter"`
	Leave      bool               `json:"leave"`
	KindFuncs  map[string][3]bool `json:"kindFuncs"` // kind -> Kind?, Enter?, Leave?
	EnterKinds []string           `json:"enterKinds"`
	LeaveKinds []string           `json:"leaveKinds"`
}

var fullShape = &shapeT{Form: "enter+leave", Enter: true, Leave: true, KindFuncs: map[string][3]bool{}}

func observedKinds() []string {
	ks := make([]string, 0, len(observedM))
	for k := range observedM {
		ks = append(ks, k)
	}
	sort.Strings(ks)
	return ks
}

// mkShape draws the wrapped visitor's shape: generic enter+leave / enter-only / leave-only, KindFuncMap entries with
// Kind only / Enter only / Leave only / random bits for a random subset of kinds, EnterKindMap / LeaveKindMap forms, a mix.
func mkShape(r *hx.Rng) *shapeT {
	sh := &shapeT{KindFuncs: map[string][3]bool{}, EnterKinds: []string{}, LeaveKinds: []string{}}
	subset := func() []string {
		var out []string
		for _, k := range observedKinds() {
			if r.Chance(1, 2) {
				out = append(out, k)
			}
		}
		return out
	}
	switch r.Intn(12) {
	case 0, 1:
		return fullShape
	case 2:
		sh.Form, sh.Enter = "enter-only", true
	case 3:
		sh.Form, sh.Leave = "leave-only", true
	case 4:
		sh.Form = "kindfuncs-kind-only"
		for _, k := range subset() {
			sh.KindFuncs[k] = [3]bool{true, false, false}
		}
	case 5:
		sh.Form = "kindfuncs-enter-only"
		for _, k := range subset() {
			sh.KindFuncs[k] = [3]bool{false, true, false}
		}
	case 6:
		sh.Form = "kindfuncs-leave-only"
		for _, k := range subset() {
			sh.KindFuncs[k] = [3]bool{false, false, true}
		}
	case 7:
		sh.Form = "kindfuncs-mixed-over-generic"
		sh.Enter, sh.Leave = r.Chance(1, 2), r.Chance(1, 2)
		for _, k := range subset() {
			sh.KindFuncs[k] = [3]bool{r.Chance(1, 2), r.Chance(1, 2), r.Chance(1, 2)}
		}
	case 8:
		sh.Form = "enterkindmap+leavekindmap"
		sh.EnterKinds, sh.LeaveKinds = subset(), subset()
	case 9:
		sh.Form = "enterkindmap-only"
		sh.EnterKinds = subset()
	case 10:
		sh.Form = "leavekindmap-only"
		sh.LeaveKinds = subset()
	default:
		sh.Form = "mixed-all"
		sh.Enter, sh.Leave = r.Chance(1, 3), r.Chance(1, 3)
		for _, k := range subset() {
			if r.Chance(1, 2) {
				sh.KindFuncs[k] = [3]bool{r.Chance(1, 2), r.Chance(1, 2), r.Chance(1, 2)}
			}
		}
		sh.EnterKinds, sh.LeaveKinds = subset(), subset()
	}
	if sh.EnterKinds == nil {
		sh.EnterKinds = []string{}
	}
	if sh.LeaveKinds == nil {
		sh.LeaveKinds = []string{}
	}
	return sh
}

// runReal walks the document with the real TypeInfo; skip(kind, start) tells the inner visitor to SKIP that node.
// The wrapped visitor has exactly the callbacks `sh` lists; each records its slot name (K KE KL / E L / EM LM).
func runReal(schema *graphql.Schema, doc *ast.Document, sh *shapeT, skip func(kind string, start int) bool) (res realRun) {
	res.out = map[string]string{}
	defer func() {
		if r := recover(); r != nil {
			res.panicked = fmt.Sprint(r)
		}
	}()
	ti := graphql.NewTypeInfo(&graphql.TypeInfoConfig{Schema: schema})
	getters := func() []interface{} {
		fd, dir, arg, parent := "nil", "nil", "nil", "nil"
		if d := ti.FieldDef(); d != nil {
			fd = d.Name
		}
		if d := ti.Directive(); d != nil {
			dir = d.Name
		}
		if a := ti.Argument(); a != nil {
			arg = a.Name()
		}
		if pt := ti.ParentType(); !isNil(pt) {
			parent = pt.Name()
		}
		return []interface{}{renderType(ti.Type()), parent, renderType(ti.InputType()), fd, dir, arg}
	}
	var open []string // rows of the entered, not yet left, observed nodes (only tracked for the full generic shape)
	paired := sh.Enter && sh.Leave && len(sh.KindFuncs) == 0
	enterCB := func(slot string) visitor.VisitFunc {
		return func(p visitor.VisitFuncParams) (string, interface{}) {
			n, ok := p.Node.(ast.Node)
			if !ok || isNil(n) {
				return visitor.ActionNoChange, nil
			}
			k := n.GetKind()
			if observedM[k] && !observed[k] && n.GetLoc() != nil {
				// Name / Named / List / NonNull: compared with M only
				r := append(rec{k, n.GetLoc().Start, n.GetLoc().End}, getters()...)
				res.seq = append(res.seq, hx.Canon(r))
				res.events = append(res.events, hx.Canon(append([]interface{}{slot}, r...)))
				res.evKind, res.evEnter = append(res.evKind, k), append(res.evEnter, true)
			}
			if observed[k] && n.GetLoc() != nil {
				r := append(rec{k, n.GetLoc().Start, n.GetLoc().End}, getters()...)
				kk := key(r)
				if _, dup := res.out[kk]; dup {
					kk += "#dup"
				}
				row := hx.Canon(r)
				res.out[kk] = row
				res.order = append(res.order, kk)
				res.seq = append(res.seq, row)
				res.events = append(res.events, hx.Canon(append([]interface{}{slot}, r...)))
				res.evKind, res.evEnter = append(res.evKind, k), append(res.evEnter, true)
				if skip != nil && skip(k, n.GetLoc().Start) {
					res.skipped = append(res.skipped, []interface{}{k, n.GetLoc().Start})
					return visitor.ActionSkip, nil
				}
				open = append(open, row)
			}
			return visitor.ActionNoChange, nil
		}
	}
	leaveCB := func(slot string) visitor.VisitFunc {
		return func(p visitor.VisitFuncParams) (string, interface{}) {
			n, ok := p.Node.(ast.Node)
			if !ok || isNil(n) {
				return visitor.ActionNoChange, nil
			}
			k := n.GetKind()
			if observedM[k] && !observed[k] && n.GetLoc() != nil {
				r := append(rec{k, n.GetLoc().Start, n.GetLoc().End}, getters()...)
				res.events = append(res.events, hx.Canon(append([]interface{}{slot}, r...)))
				res.evKind, res.evEnter = append(res.evKind, k), append(res.evEnter, false)
			}
			if observed[k] && n.GetLoc() != nil {
				r := append(rec{k, n.GetLoc().Start, n.GetLoc().End}, getters()...)
				row := hx.Canon(r)
				res.events = append(res.events, hx.Canon(append([]interface{}{slot}, r...)))
				res.evKind, res.evEnter = append(res.evKind, k), append(res.evEnter, false)
				if paired {
					if len(open) == 0 {
						res.leaveDiffs = append(res.leaveDiffs, "leave without enter: "+row)
					} else {
						if open[len(open)-1] != row {
							res.leaveDiffs = append(res.leaveDiffs, "at leave "+row+" at enter "+open[len(open)-1])
						}
						open = open[:len(open)-1]
					}
				}
			}
			return visitor.ActionNoChange, nil
		}
	}
	inner := &visitor.VisitorOptions{}
	if sh.Enter {
		inner.Enter = enterCB("E")
	}
	if sh.Leave {
		inner.Leave = leaveCB("L")
	}
	if len(sh.KindFuncs) > 0 {
		inner.KindFuncMap = map[string]visitor.NamedVisitFuncs{}
		for k, b := range sh.KindFuncs {
			var nf visitor.NamedVisitFuncs
			if b[0] {
				nf.Kind = enterCB("K")
			}
			if b[1] {
				nf.Enter = enterCB("KE")
			}
			if b[2] {
				nf.Leave = leaveCB("KL")
			}
			inner.KindFuncMap[k] = nf
		}
	}
	if len(sh.EnterKinds) > 0 {
		inner.EnterKindMap = map[string]visitor.VisitFunc{}
		for _, k := range sh.EnterKinds {
			inner.EnterKindMap[k] = enterCB("EM")
		}
	}
	if len(sh.LeaveKinds) > 0 {
		inner.LeaveKindMap = map[string]visitor.VisitFunc{}
		for _, k := range sh.LeaveKinds {
			inner.LeaveKindMap[k] = leaveCB("LM")
		}
	}
	visitor.Visit(doc, visitor.VisitWithTypeInfo(ti, inner), nil)
	if fs := hx.Canon(getters()); fs != hx.Canon([]interface{}{"nil", "nil", "nil", "nil", "nil", "nil"}) {
		res.finalState = fs
	}
	return res
}

// modelSeq: M's rows of the observed kinds, canonicalised like the real ones
func modelSeq(rows []rec) []string {
	var out []string
	for _, r := range rows {
		if len(r) < 3 || !observedM[fmt.Sprint(r[0])] {
			continue
		}
		r[1], r[2] = num(r[1]), num(r[2])
		out = append(out, hx.Canon(r))
	}
	return out
}

// modelEvents: M's [slot, row...] events of the observed kinds
func modelEvents(evs []rec) []string {
	var out []string
	for _, e := range evs {
		if len(e) < 4 || !observedM[fmt.Sprint(e[1])] {
			continue
		}
		e[2], e[3] = num(e[2]), num(e[3])
		out = append(out, hx.Canon(e))
	}
	return out
}

func seqDiff(what string, real, model []string) string {
	n := len(real)
	if len(model) < n {
		n = len(model)
	}
	for i := 0; i < n; i++ {
		if real[i] != model[i] {
			return fmt.Sprintf("%s: row %d real %s M %s", what, i, real[i], model[i])
		}
	}
	if len(real) != len(model) {
		return fmt.Sprintf("%s: real shows %d rows, M %d", what, len(real), len(model))
	}
	return ""
}

type caseT struct {
	Schema    *gq.SchemaDesc `json:"schema"`
	Doc       string         `json:"doc"`
	Mutations []string       `json:"mutations"`
	SkipSeed  uint64         `json:"skipSeed"`
	Family    string         `json:"family,omitempty"` // "" | leafParent | reentrant (families.go)
	Tags      []string       `json:"tags,omitempty"`   // histogram tags of the family's post-pass
}

var hooks = gq.Hooks{
	IsTypeOf: func(string) graphql.IsTypeOfFn { return func(graphql.IsTypeOfParams) bool { return true } },
	ResolveType: func(string, map[string]*graphql.Object) graphql.ResolveTypeFn {
		return func(graphql.ResolveTypeParams) *graphql.Object { return nil }
	},
}

func main() {
	debug.SetGCPercent(400) // allocation-heavy (two real traversals + JSON per case): fewer collections
	run := hx.Begin("C14")
	drv, err := hx.StartDriver(run.DriverBin)
	if err != nil {
		run.CheckError("cannot start driver: " + err.Error())
		run.Finish()
		return
	}
	defer drv.Close()
	run.Res.Rule = "schemas from gen.SchemaGen + custom directives + disjoint abstract types + list-shaped arguments; documents = gen.ValidDoc and the same document after 1-3 typed mutations; the real TypeInfo is read at every Enter of visitor.VisitWithTypeInfo and compared node by node with the top-down model S and, as a row sequence, with the stack machine M (lean/GqlModel/TypeInfoStacks.lean); a second walk uses a wrapped visitor of a random shape (enter+leave, enter-only, leave-only, KindFuncMap Kind/Enter/Leave subsets, Enter/LeaveKindMap, mixed), skips random nodes, and every callback that fires (slot, node, getters) is compared in order with M run with the same option set and skip list; at every Leave the getters must equal those at Enter and after the walk be nil; two more document families: selection sets with typeless / typed inline fragments under leaf-typed fields (leafParent), and variables / @re with >= 2 arguments / multi-item list and object literals (reentrant); on every case a VisitUsingRules pass with an observer rule (six ValidationContext getters at every Enter/Leave) next to a rule calling ctx.VariableUsages / RecursiveVariableUsages at a seeded callback (1 position per case, 3 on reentrant documents; biased to inside arguments / directives) must show the observer exactly the callbacks of the plain walk, and so must the observer alone; non-trivial = >= 8 observed nodes, at least one with a non-nil input type or a non-nil parent type; distinct by (schema, document text)"

	one := func(c caseT) {
		b, err := gq.Build(c.Schema, hooks)
		if err != nil {
			run.CheckError("schema does not build: " + err.Error())
			return
		}
		src := source.NewSource(&source.Source{Body: []byte(c.Doc), Name: "GraphQL request"})
		doc, perr := parser.Parse(parser.ParseParams{Source: src})
		if perr != nil {
			run.CheckError("generated document does not parse: " + perr.Error() + " :: " + c.Doc)
			return
		}
		var problems []string
		rr := runReal(&b.Schema, doc, fullShape, nil)
		real, order := rr.out, rr.order
		if rr.panicked != "" {
			problems = append(problems, "real walk panicked: "+rr.panicked)
		}
		if len(rr.leaveDiffs) > 0 {
			problems = append(problems, "type info at Leave differs from Enter: "+rr.leaveDiffs[0])
		}
		if rr.finalState != "" && rr.panicked == "" {
			problems = append(problems, "after the walk the TypeInfo is not empty again: "+rr.finalState)
		}
		// the second real walk skips random nodes (decided here, then handed to M)
		sr := hx.NewRng(c.SkipSeed)
		decided := map[string]bool{}
		skip := func(kind string, start int) bool {
			k := fmt.Sprintf("%s@%d", kind, start)
			if _, ok := decided[k]; !ok {
				decided[k] = kind != "OperationDefinition" && kind != "FragmentDefinition" && sr.Chance(1, 6)
			}
			return decided[k]
		}
		shape := mkShape(hx.NewRng(c.SkipSeed ^ 0x5bd1e995))
		rs := runReal(&b.Schema, doc, shape, skip)
		run.Tag("wrapped-visitor:" + shape.Form)
		var resp struct {
			Recs          []rec       `json:"recs"`
			MRecs         []rec       `json:"mrecs"`
			MRecsSkip     []rec       `json:"mrecsSkip"`
			MEvents       []rec       `json:"mevents"`
			MachineDone   *bool       `json:"machineDone"`
			MachineEqWalk *bool       `json:"machineEqWalk"`
			ToNode        interface{} `json:"tonode"`
			Kinds         []string    `json:"kinds"`
			ArgsUnique    bool        `json:"argsUnique"`
			Executable    bool        `json:"executable"`
		}
		req := map[string]interface{}{"typeinfo": true, "schema": c.Schema, "doc": astjson.Document(doc), "shape": shape}
		if len(rs.skipped) > 0 {
			req["skip"] = rs.skipped
			req["wantSkipRecs"] = shape == fullShape
		}
		if err := drv.Ask(req, &resp); err != nil {
			run.CheckError("driver: " + err.Error())
			return
		}
		if resp.ArgsUnique && resp.Executable {
			run.Tag("theorem-premises-hold")
		} else {
			run.Tag(fmt.Sprintf("theorem-premises-fail:argsUnique=%v,executable=%v", resp.ArgsUnique, resp.Executable))
		}
		// the abstract tree the composed theorem (Props/C14Bridge) is about == the real AST along the real QueryDocumentKeys
		if resp.Executable {
			var kinds []string
			realTree := abstractTree(doc, &kinds)
			if hx.Canon(realTree) != hx.Canon(resp.ToNode) {
				problems = append(problems, "abstract tree toNode(doc) of the model differs from the real AST walked along visitor.QueryDocumentKeys")
			} else if hx.Canon(kinds) != hx.Canon(resp.Kinds) {
				problems = append(problems, "node kinds by id differ: real "+hx.Canon(kinds)+" model "+hx.Canon(resp.Kinds))
			} else {
				run.Tag("toNode==real-abstract-tree")
			}
		}
		if resp.MachineDone != nil && !*resp.MachineDone {
			problems = append(problems, "the Lean machine (visitor.Visit loop) with the TypeInfo wrapper did not end done with empty stacks within fuelFor")
		}
		if resp.MachineEqWalk != nil && !*resp.MachineEqWalk {
			problems = append(problems, "the Lean machine with the TypeInfo wrapper disagrees with the structural walk visitO (theorem machine_withTypeInfo_eq_visitO)")
		}
		if rr.panicked == "" {
			if d := seqDiff("stack machine M differs from the real TypeInfo", rr.seq, modelSeq(resp.MRecs)); d != "" {
				problems = append(problems, d)
			}
		}
		model := map[string]string{}
		typed := false
		for _, r := range resp.Recs {
			r[1], r[2] = num(r[1]), num(r[2])
			kk := key(r)
			if _, dup := model[kk]; dup {
				kk += "#dup"
			}
			model[kk] = hx.Canon(r)
			if r[4] != "nil" || r[5] != "nil" {
				typed = true
			}
			if fmt.Sprint(r[5]) != "nil" {
				run.Tag("input-typed:" + fmt.Sprint(r[0]))
			}
		}
		var diffs []string
		for k, v := range real {
			if mv, ok := model[k]; !ok {
				diffs = append(diffs, "node only on the real side: "+v)
			} else if mv != v {
				diffs = append(diffs, "real "+v+" model "+mv)
			}
		}
		for k, v := range model {
			if _, ok := real[k]; !ok {
				diffs = append(diffs, "node only in the model: "+v)
			}
		}
		sort.Strings(diffs)
		if len(diffs) > 0 {
			if len(diffs) > 6 {
				diffs = append(diffs[:6], fmt.Sprintf("… %d more", len(diffs)-6))
			}
			problems = append(problems, "type info differs: "+strings.Join(diffs, " | "))
		}
		// skipping nodes must not change the type info of the nodes still visited
		realSkip, skipped := rs.out, len(rs.skipped)
		if rs.panicked != "" {
			problems = append(problems, "real walk with skips panicked: "+rs.panicked)
		}
		for k, v := range realSkip {
			if real[k] != v {
				problems = append(problems, "after skipping nodes the type info differs: "+v+" without skips "+real[k])
				break
			}
		}
		if len(rs.leaveDiffs) > 0 {
			problems = append(problems, "with skips, type info at Leave differs from Enter: "+rs.leaveDiffs[0])
		}
		if rs.finalState != "" && rs.panicked == "" {
			problems = append(problems, "after the walk with skips the TypeInfo is not empty again: "+rs.finalState)
		}
		if skipped > 0 && rs.panicked == "" && shape == fullShape {
			if d := seqDiff("with skips, stack machine M differs from the real TypeInfo", rs.seq, modelSeq(resp.MRecsSkip)); d != "" {
				problems = append(problems, d)
			}
		}
		// whatever callbacks the wrapped visitor has: every callback that fires (slot, node, six getters), in order == M
		if rs.panicked == "" {
			if d := seqDiff("wrapped visitor "+shape.Form+": callbacks / type info differ from the stack machine M", rs.events, modelEvents(resp.MEvents)); d != "" {
				problems = append(problems, d)
			}
		}
		// re-entrancy: a rule that asks the ValidationContext for variable usages in the middle of a VisitUsingRules pass
		// must not change what a rule running next to it is shown (reentrant.go)
		if rr.panicked == "" {
			pr := hx.NewRng(c.SkipSeed ^ 0x9e3779b97f4a7c15)
			sites := classify(rr.evKind, rr.evEnter)
			npokes := 1
			if c.Family == "reentrant" {
				npokes = 3
			}
			alone := c.Family == "reentrant" || c.SkipSeed%3 == 0
			var pokes []*pokeT
			for j := 0; j < npokes; j++ {
				poke := drawPoke(pr, sites)
				if poke == nil {
					break
				}
				pokes = append(pokes, poke)
				pk := runRules(&b.Schema, doc, poke)
				run.Tag("reentrantVariableUsages")
				run.Tag("reentrantVariableUsages:" + poke.Mode)
				run.Tag("reentrantVariableUsages@" + poke.Where)
				what := fmt.Sprintf("VisitUsingRules with a rule calling VariableUsages (%s, %s the observer) at callback %d (%s)", poke.Mode, map[bool]string{true: "before", false: "after"}[poke.First], poke.K, poke.Where)
				switch {
				case pk.panicked != "":
					problems = append(problems, what+" panicked: "+pk.panicked)
				case !pk.fired:
					run.CheckError(fmt.Sprintf("the poker rule never fired (k=%d of %d callbacks)", poke.K, sites.n))
				default:
					if d := seqDiff(what+": the observer rule's type info differs from the plain walk (real = next to the poker, M = plain VisitWithTypeInfo walk)", pk.events, rr.events); d != "" {
						problems = append(problems, d)
						alone = true
					}
					if pk.finalState != "" {
						problems = append(problems, what+": afterwards the TypeInfo is not empty again: "+pk.finalState)
					}
				}
			}
			if alone {
				al := runRules(&b.Schema, doc, nil)
				run.Tag("observer-rule-alone")
				if al.panicked != "" {
					problems = append(problems, "VisitUsingRules with the observer rule alone panicked: "+al.panicked)
				} else {
					if d := seqDiff("VisitUsingRules with the observer rule alone differs from the plain walk (real = rule, M = plain VisitWithTypeInfo walk)", al.events, rr.events); d != "" {
						problems = append(problems, d)
					}
					if al.finalState != "" {
						problems = append(problems, "after VisitUsingRules with the observer rule alone the TypeInfo is not empty again: "+al.finalState)
					}
				}
			}
		}
		if skipped > 0 {
			run.Tag("walk-with-skips")
		}
		for _, t := range c.Tags {
			run.Tag(t)
		}
		if c.Family != "" {
			run.Tag("family:" + c.Family)
		}
		for _, m := range c.Mutations {
			run.Tag("mutation:" + m)
		}
		if len(c.Mutations) == 0 && c.Family == "" {
			run.Tag("base-document")
		}
		run.Case(hx.Canon(c.Schema)+"\x00"+c.Doc, len(order) >= 8 && typed, map[string]interface{}{"doc": c.Doc, "nodes": len(order)})
		if len(problems) > 0 {
			run.Violation(strings.Join(problems, " ; "), map[string]interface{}{"case": c, "real": real, "model": model}, false)
		}
	}

	if run.ReplayIn != "" {
		var rp struct {
			Case caseT `json:"case"`
		}
		if err := hx.LoadReplay(run.ReplayIn, &rp); err != nil {
			run.CheckError("cannot load replay: " + err.Error())
		} else if rp.Case.Schema == nil || rp.Case.Doc == "" {
			run.Tag("replay-file-of-another-unit")
		} else {
			one(rp.Case)
		}
		run.Finish()
		return
	}

	mk := func(seed uint64, i int) (*gq.SchemaDesc, *gen.ValidMeta, string) {
		r := hx.Fork(seed, i)
		sd := (&gen.SchemaGen{R: r, Size: 1 + i%5}).Schema()
		gen.AddCustomDirectives(r, sd)
		gen.AddDisjointAbstract(r, sd)
		gen.AddListShapes(r, sd)
		gen.AddSubscriptionRoot(r, sd)
		text, meta := gen.ValidDocWith(r, sd, 1+(i/5)%6, gen.ValidDocOpts{Subscriptions: true})
		return sd, meta, text
	}
	n := run.N(500, 20000)
	kinds := gen.MutationKindNames()
	for i := 0; i < n && !run.TooManyViolations(); i++ {
		sd, _, text := mk(run.Seed, i)
		one(caseT{Schema: sd, Doc: text, SkipSeed: run.Seed*31 + uint64(i)})
		view := gen.NewSchemaView(sd)
		// families (families.go), alternating: selection sets with typeless inline fragments under leaf-typed fields /
		// material for the re-entrancy phase (the schema gets the directive @re)
		{
			rf := hx.Fork(run.Seed^0x7f4a7c15, i)
			_, mf, _ := mk(run.Seed, i)
			if i%2 == 0 {
				if tags := addLeafParents(rf, view, mf.Doc); len(tags) > 0 {
					one(caseT{Schema: sd, Doc: mf.Doc.Render(), SkipSeed: run.Seed*41 + uint64(i), Family: "leafParent", Tags: tags})
				}
			} else {
				sd2, _, _ := mk(run.Seed, i)
				re := reDirective(sd2)
				sd2.Directives = append(sd2.Directives, re)
				if tags := addReentrantMaterial(rf, gen.NewSchemaView(sd2), re, mf.Doc); len(tags) > 0 {
					one(caseT{Schema: sd2, Doc: mf.Doc.Render(), SkipSeed: run.Seed*43 + uint64(i), Family: "reentrant", Tags: tags})
				}
			}
		}
		for variant := 0; variant < 2; variant++ {
			r2 := hx.Fork(run.Seed^0x2545f491, i*2+variant)
			_, m2, _ := mk(run.Seed, i)
			applied := []string{}
			nm := 1 + r2.Intn(3)
			for j := 0; j < nm; j++ {
				k := kinds[(i*2+variant+j*5)%len(kinds)]
				if j > 0 {
					k = kinds[r2.Intn(len(kinds))]
				} else if variant == 1 && i%2 == 0 {
					k = "multiFaultLiteral"
				}
				if gen.Mutate(r2, view, m2.Doc, k) {
					applied = append(applied, k)
				}
			}
			if len(applied) > 0 {
				one(caseT{Schema: sd, Doc: m2.Doc.Render(), Mutations: applied, SkipSeed: run.Seed*37 + uint64(i*2+variant)})
			}
		}
	}
	run.Finish()
}
