// Re-entrancy phase of c14ti: what the rules of a validation pass see of the type tracking must not depend on another
// rule asking the ValidationContext a pure question in the middle of the traversal.
//
// graphql.VisitUsingRules(schema, typeInfo, doc, rules) — what ValidateDocument runs — with two custom rules:
//   - OBSERVER: generic Enter + Leave; at every callback on a node of the kinds in observedM it records the slot (E / L),
//     the node and the six getters of the ValidationContext (Type, ParentType, InputType, FieldDef, Directive, Argument);
//   - POKER: at the k-th such callback it calls ctx.VariableUsages(def) for the enclosing operation / fragment, for every
//     definition of the document, for a random one, or ctx.RecursiveVariableUsages(op); registered before or after the
//     observer. k is drawn with a bias towards callbacks INSIDE an argument or a directive (Variable nodes first), where
//     the non-stacked registers of TypeInfo (argument, directive, inDirective) are live.
//
// Oracle: the observer's log next to the poker == the log of the plain VisitWithTypeInfo walk of the same document (the
// one compared with M and S) == the observer's log WITHOUT the poker (run on every reentrant-family case, on a third of the
// others, and whenever something differs); after the pass the TypeInfo handed to VisitUsingRules shows nil everywhere.
package main

import (
	"fmt"

	"github.com/graphql-go/graphql"
	"github.com/graphql-go/graphql/language/ast"
	"github.com/graphql-go/graphql/language/visitor"

	"verif/harness/hx"
)

type pokeT struct {
	K     int    `json:"k"`     // index of the observed callback at which the poker asks
	Mode  string `json:"mode"`  // enclosing | all-definitions | random-definition | recursive
	First bool   `json:"first"` // poker registered before the observer
	Pick  int    `json:"pick"`  // random-definition: which one
	Where string `json:"where"` // histogram only: what the k-th callback is
}

type rulesRun struct {
	events     []string
	fired      bool
	finalState string
	panicked   string
}

// runRules: one VisitUsingRules pass with the observer and (poke != nil) the poker.
func runRules(schema *graphql.Schema, doc *ast.Document, poke *pokeT) (res rulesRun) {
	defer func() {
		if r := recover(); r != nil {
			res.panicked = fmt.Sprint(r)
		}
	}()
	ti := graphql.NewTypeInfo(&graphql.TypeInfoConfig{Schema: schema})
	watched := func(p visitor.VisitFuncParams) (ast.Node, bool) {
		n, ok := p.Node.(ast.Node)
		if !ok || isNil(n) || !observedM[n.GetKind()] || n.GetLoc() == nil {
			return nil, false
		}
		return n, true
	}
	observer := func(ctx *graphql.ValidationContext) *graphql.ValidationRuleInstance {
		cb := func(slot string) visitor.VisitFunc {
			return func(p visitor.VisitFuncParams) (string, interface{}) {
				n, ok := watched(p)
				if !ok {
					return visitor.ActionNoChange, nil
				}
				fd, dir, arg, parent := "nil", "nil", "nil", "nil"
				if d := ctx.FieldDef(); d != nil {
					fd = d.Name
				}
				if d := ctx.Directive(); d != nil {
					dir = d.Name
				}
				if a := ctx.Argument(); a != nil {
					arg = a.Name()
				}
				if pt := ctx.ParentType(); !isNil(pt) {
					parent = pt.Name()
				}
				res.events = append(res.events, hx.Canon([]interface{}{slot, n.GetKind(), n.GetLoc().Start, n.GetLoc().End,
					renderType(ctx.Type()), parent, renderType(ctx.InputType()), fd, dir, arg}))
				return visitor.ActionNoChange, nil
			}
		}
		return &graphql.ValidationRuleInstance{VisitorOpts: &visitor.VisitorOptions{Enter: cb("E"), Leave: cb("L")}}
	}
	rules := []graphql.ValidationRuleFn{observer}
	if poke != nil {
		var defs []graphql.HasSelectionSet
		for _, d := range doc.Definitions {
			switch x := d.(type) {
			case *ast.OperationDefinition:
				defs = append(defs, x)
			case *ast.FragmentDefinition:
				defs = append(defs, x)
			}
		}
		count := 0
		poker := func(ctx *graphql.ValidationContext) *graphql.ValidationRuleInstance {
			cb := func(p visitor.VisitFuncParams) (string, interface{}) {
				n, ok := watched(p)
				if !ok {
					return visitor.ActionNoChange, nil
				}
				count++
				if count-1 != poke.K {
					return visitor.ActionNoChange, nil
				}
				res.fired = true
				var enclosing graphql.HasSelectionSet
				for _, a := range append(append([]ast.Node{}, p.Ancestors...), p.Parent, n) {
					switch x := a.(type) {
					case *ast.OperationDefinition:
						enclosing = x
					case *ast.FragmentDefinition:
						enclosing = x
					}
				}
				switch {
				case poke.Mode == "random-definition" && len(defs) > 0:
					ctx.VariableUsages(defs[poke.Pick%len(defs)])
				case poke.Mode == "enclosing" && enclosing != nil:
					ctx.VariableUsages(enclosing)
				case poke.Mode == "recursive" && enclosing != nil:
					if op, ok := enclosing.(*ast.OperationDefinition); ok {
						ctx.RecursiveVariableUsages(op)
					} else {
						ctx.VariableUsages(enclosing)
					}
				default:
					for _, d := range defs {
						ctx.VariableUsages(d)
					}
				}
				return visitor.ActionNoChange, nil
			}
			return &graphql.ValidationRuleInstance{VisitorOpts: &visitor.VisitorOptions{Enter: cb, Leave: cb}}
		}
		if poke.First {
			rules = []graphql.ValidationRuleFn{poker, observer}
		} else {
			rules = []graphql.ValidationRuleFn{observer, poker}
		}
	}
	graphql.VisitUsingRules(schema, ti, doc, rules)
	fd, dir, arg, parent := "nil", "nil", "nil", "nil"
	if d := ti.FieldDef(); d != nil {
		fd = d.Name
	}
	if d := ti.Directive(); d != nil {
		dir = d.Name
	}
	if a := ti.Argument(); a != nil {
		arg = a.Name()
	}
	if pt := ti.ParentType(); !isNil(pt) {
		parent = pt.Name()
	}
	if fs := hx.Canon([]interface{}{renderType(ti.Type()), parent, renderType(ti.InputType()), fd, dir, arg}); fs != hx.Canon([]interface{}{"nil", "nil", "nil", "nil", "nil", "nil"}) {
		res.finalState = fs
	}
	return res
}

// pokeSites classifies the callbacks of the plain walk (kind + enter/leave per event): indices inside an argument,
// inside a directive, and Variable nodes inside an argument.
type pokeSites struct {
	n                      int
	inArg, inDir, varInArg []int
	where                  []string
}

func classify(kinds []string, enter []bool) pokeSites {
	ps := pokeSites{n: len(kinds), where: make([]string, len(kinds))}
	argDepth, dirDepth, listDepth, objDepth := 0, 0, 0, 0
	for i, k := range kinds {
		if enter[i] {
			switch k {
			case "Argument":
				argDepth++
			case "Directive":
				dirDepth++
			case "ListValue":
				listDepth++
			case "ObjectValue":
				objDepth++
			}
		}
		w := "outside-argument-and-directive"
		if argDepth > 0 {
			ps.inArg = append(ps.inArg, i)
			w = "in-field-argument"
			if dirDepth > 0 {
				w = "in-directive-argument"
			}
			if k == "Variable" {
				ps.varInArg = append(ps.varInArg, i)
				w += ":variable"
			}
			if listDepth > 0 {
				w += ":in-list"
			}
			if objDepth > 0 {
				w += ":in-object"
			}
		} else if dirDepth > 0 {
			w = "in-directive"
		}
		if dirDepth > 0 {
			ps.inDir = append(ps.inDir, i)
		}
		ps.where[i] = w
		if !enter[i] {
			switch k {
			case "Argument":
				argDepth--
			case "Directive":
				dirDepth--
			case "ListValue":
				listDepth--
			case "ObjectValue":
				objDepth--
			}
		}
	}
	return ps
}

var pokeModes = []string{"enclosing", "enclosing", "all-definitions", "random-definition", "recursive"}

// drawPoke: where and how the poker asks (deterministic in the case's seed)
func drawPoke(r *hx.Rng, ps pokeSites) *pokeT {
	if ps.n == 0 {
		return nil
	}
	p := &pokeT{Mode: pokeModes[r.Intn(len(pokeModes))], First: r.Chance(2, 3), Pick: r.Intn(64)}
	switch c := r.Intn(8); {
	case c <= 2 && len(ps.varInArg) > 0:
		p.K = ps.varInArg[r.Intn(len(ps.varInArg))]
	case c <= 4 && len(ps.inArg) > 0:
		p.K = ps.inArg[r.Intn(len(ps.inArg))]
	case c <= 6 && len(ps.inDir) > 0:
		p.K = ps.inDir[r.Intn(len(ps.inDir))]
	default:
		p.K = r.Intn(ps.n)
	}
	p.Where = ps.where[p.K]
	return p
}
