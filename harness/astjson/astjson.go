// Package astjson renders a Go AST (language/ast) as the JSON the Lean drivers decode into
// GqlModel.Ast (lean/Driver/AstJson.lean). Nil children become null.
package astjson

import (
	"github.com/graphql-go/graphql/language/ast"
)

type M = map[string]interface{}

func Loc(l *ast.Location) interface{} {
	if l == nil {
		return []int{0, 0}
	}
	return []int{l.Start, l.End}
}

func Name(n *ast.Name) interface{} {
	if n == nil {
		return nil
	}
	return M{"v": n.Value, "l": Loc(n.Loc)}
}

func Type(t ast.Type) interface{} {
	switch x := t.(type) {
	case *ast.Named:
		if x == nil {
			return nil
		}
		n := ""
		if x.Name != nil {
			n = x.Name.Value
		}
		return M{"k": "Named", "n": n, "l": Loc(x.Loc)}
	case *ast.List:
		if x == nil {
			return nil
		}
		return M{"k": "List", "t": Type(x.Type), "l": Loc(x.Loc)}
	case *ast.NonNull:
		if x == nil {
			return nil
		}
		return M{"k": "NonNull", "t": Type(x.Type), "l": Loc(x.Loc)}
	}
	return nil
}

func Value(v ast.Value) interface{} {
	switch x := v.(type) {
	case *ast.Variable:
		if x == nil {
			return nil
		}
		n := ""
		if x.Name != nil {
			n = x.Name.Value
		}
		return M{"k": "Variable", "n": n, "l": Loc(x.Loc)}
	case *ast.IntValue:
		if x == nil {
			return nil
		}
		return M{"k": "IntValue", "v": x.Value, "l": Loc(x.Loc)}
	case *ast.FloatValue:
		if x == nil {
			return nil
		}
		return M{"k": "FloatValue", "v": x.Value, "l": Loc(x.Loc)}
	case *ast.StringValue:
		if x == nil {
			return nil
		}
		return M{"k": "StringValue", "v": x.Value, "l": Loc(x.Loc)}
	case *ast.BooleanValue:
		if x == nil {
			return nil
		}
		return M{"k": "BooleanValue", "v": x.Value, "l": Loc(x.Loc)}
	case *ast.EnumValue:
		if x == nil {
			return nil
		}
		return M{"k": "EnumValue", "v": x.Value, "l": Loc(x.Loc)}
	case *ast.ListValue:
		if x == nil {
			return nil
		}
		vs := []interface{}{}
		for _, e := range x.Values {
			vs = append(vs, Value(e))
		}
		return M{"k": "ListValue", "vs": vs, "l": Loc(x.Loc)}
	case *ast.ObjectValue:
		if x == nil {
			return nil
		}
		fs := []interface{}{}
		for _, f := range x.Fields {
			if f == nil {
				continue
			}
			fs = append(fs, M{"n": Name(f.Name), "v": Value(f.Value), "l": Loc(f.Loc)})
		}
		return M{"k": "ObjectValue", "fs": fs, "l": Loc(x.Loc)}
	}
	return nil
}

func Arguments(as []*ast.Argument) []interface{} {
	out := []interface{}{}
	for _, a := range as {
		if a == nil {
			continue
		}
		out = append(out, M{"n": Name(a.Name), "v": Value(a.Value), "l": Loc(a.Loc)})
	}
	return out
}

func Directives(ds []*ast.Directive) []interface{} {
	out := []interface{}{}
	for _, d := range ds {
		if d == nil {
			continue
		}
		out = append(out, M{"n": Name(d.Name), "args": Arguments(d.Arguments), "l": Loc(d.Loc)})
	}
	return out
}

func SelectionSet(s *ast.SelectionSet) interface{} {
	if s == nil {
		return nil
	}
	sels := []interface{}{}
	for _, sel := range s.Selections {
		switch x := sel.(type) {
		case *ast.Field:
			sels = append(sels, M{"k": "Field", "alias": Name(x.Alias), "n": Name(x.Name), "args": Arguments(x.Arguments),
				"dirs": Directives(x.Directives), "sel": SelectionSet(x.SelectionSet), "l": Loc(x.Loc)})
		case *ast.FragmentSpread:
			sels = append(sels, M{"k": "FragmentSpread", "n": Name(x.Name), "dirs": Directives(x.Directives), "l": Loc(x.Loc)})
		case *ast.InlineFragment:
			var tc interface{}
			if x.TypeCondition != nil {
				tc = Type(x.TypeCondition)
			}
			sels = append(sels, M{"k": "InlineFragment", "tc": tc, "dirs": Directives(x.Directives),
				"sel": SelectionSet(x.SelectionSet), "l": Loc(x.Loc)})
		}
	}
	return M{"sels": sels, "l": Loc(s.Loc)}
}

func desc(s *ast.StringValue) interface{} {
	if s == nil {
		return nil
	}
	return s.Value
}

func inputValueDefs(ds []*ast.InputValueDefinition) []interface{} {
	out := []interface{}{}
	for _, d := range ds {
		if d == nil {
			continue
		}
		out = append(out, M{"desc": desc(d.Description), "n": Name(d.Name), "t": Type(d.Type), "d": Value(d.DefaultValue),
			"dirs": Directives(d.Directives), "l": Loc(d.Loc)})
	}
	return out
}

func fieldDefs(ds []*ast.FieldDefinition) []interface{} {
	out := []interface{}{}
	for _, d := range ds {
		if d == nil {
			continue
		}
		out = append(out, M{"desc": desc(d.Description), "n": Name(d.Name), "args": inputValueDefs(d.Arguments), "t": Type(d.Type),
			"dirs": Directives(d.Directives), "l": Loc(d.Loc)})
	}
	return out
}

func named(ns []*ast.Named) []interface{} {
	out := []interface{}{}
	for _, n := range ns {
		out = append(out, Type(n))
	}
	return out
}

func objectDef(x *ast.ObjectDefinition) M {
	return M{"desc": desc(x.Description), "n": Name(x.Name), "ifaces": named(x.Interfaces), "dirs": Directives(x.Directives),
		"fields": fieldDefs(x.Fields), "l": Loc(x.Loc)}
}

func Definition(d ast.Node) interface{} {
	switch x := d.(type) {
	case *ast.OperationDefinition:
		vars := []interface{}{}
		for _, v := range x.VariableDefinitions {
			if v == nil {
				continue
			}
			var n, vl interface{}
			if v.Variable != nil {
				n = Name(v.Variable.Name)
				vl = Loc(v.Variable.Loc)
			}
			vars = append(vars, M{"n": n, "vl": vl, "t": Type(v.Type), "d": Value(v.DefaultValue), "l": Loc(v.Loc)})
		}
		return M{"k": "OperationDefinition", "op": x.Operation, "n": Name(x.Name), "vars": vars, "dirs": Directives(x.Directives),
			"sel": SelectionSet(x.SelectionSet), "l": Loc(x.Loc)}
	case *ast.FragmentDefinition:
		return M{"k": "FragmentDefinition", "n": Name(x.Name), "tc": Type(x.TypeCondition), "dirs": Directives(x.Directives),
			"sel": SelectionSet(x.SelectionSet), "l": Loc(x.Loc)}
	case *ast.SchemaDefinition:
		ops := []interface{}{}
		for _, o := range x.OperationTypes {
			ops = append(ops, M{"op": o.Operation, "t": Type(o.Type), "l": Loc(o.Loc)})
		}
		return M{"k": "SchemaDefinition", "dirs": Directives(x.Directives), "ops": ops, "l": Loc(x.Loc)}
	case *ast.ScalarDefinition:
		return M{"k": "ScalarDefinition", "desc": desc(x.Description), "n": Name(x.Name), "dirs": Directives(x.Directives), "l": Loc(x.Loc)}
	case *ast.ObjectDefinition:
		m := objectDef(x)
		m["k"] = "ObjectDefinition"
		return m
	case *ast.InterfaceDefinition:
		return M{"k": "InterfaceDefinition", "desc": desc(x.Description), "n": Name(x.Name), "dirs": Directives(x.Directives),
			"fields": fieldDefs(x.Fields), "l": Loc(x.Loc)}
	case *ast.UnionDefinition:
		return M{"k": "UnionDefinition", "desc": desc(x.Description), "n": Name(x.Name), "dirs": Directives(x.Directives),
			"types": named(x.Types), "l": Loc(x.Loc)}
	case *ast.EnumDefinition:
		vals := []interface{}{}
		for _, v := range x.Values {
			vals = append(vals, M{"desc": desc(v.Description), "n": Name(v.Name), "dirs": Directives(v.Directives), "l": Loc(v.Loc)})
		}
		return M{"k": "EnumDefinition", "desc": desc(x.Description), "n": Name(x.Name), "dirs": Directives(x.Directives),
			"values": vals, "l": Loc(x.Loc)}
	case *ast.InputObjectDefinition:
		return M{"k": "InputObjectDefinition", "desc": desc(x.Description), "n": Name(x.Name), "dirs": Directives(x.Directives),
			"fields": inputValueDefs(x.Fields), "l": Loc(x.Loc)}
	case *ast.TypeExtensionDefinition:
		m := M{"k": "TypeExtensionDefinition", "l": Loc(x.Loc)}
		if x.Definition != nil {
			m["def"] = objectDef(x.Definition)
		}
		return m
	case *ast.DirectiveDefinition:
		locs := []interface{}{}
		for _, l := range x.Locations {
			locs = append(locs, Name(l))
		}
		return M{"k": "DirectiveDefinition", "desc": desc(x.Description), "n": Name(x.Name), "args": inputValueDefs(x.Arguments),
			"locs": locs, "l": Loc(x.Loc)}
	}
	return nil
}

func Document(d *ast.Document) interface{} {
	if d == nil {
		return nil
	}
	defs := []interface{}{}
	for _, def := range d.Definitions {
		defs = append(defs, Definition(def))
	}
	return M{"defs": defs, "l": Loc(d.Loc)}
}
