// Package execharness drives the real executor (Do / Execute / PlanQuery+ExecutePlan) and the Lean execution
// model (lean/GqlModel/Exec.lean, driver drv_exec) on generated schema × valid document × variables × resolver
// world, and compares data tree, error paths and the resolver invocation log. Used by C01, C04, C13, C20.
package execharness

import (
	"context"
	"errors"
	"fmt"
	"github.com/graphql-go/graphql/gqlerrors"
	"math"
	"sort"
	"strconv"
	"strings"
	"sync"

	"github.com/graphql-go/graphql"
	"github.com/graphql-go/graphql/language/ast"

	"verif/harness/gq"
	"verif/harness/hx"
)

// ---------------------------------------------------------------- world description (wire format of drv_exec)

type WObj struct {
	ID     int                    `json:"id"`
	Type   string                 `json:"type"`
	Fields map[string]interface{} `json:"fields"` // field name -> Outcome
}

type World struct {
	Objects     []*WObj                `json:"objects"`
	Root        map[string]interface{} `json:"root"`
	IsTypeOf    [][]interface{}        `json:"isTypeOf"`    // [objType, id, bool]
	ResolveType [][]interface{}        `json:"resolveType"` // [abstract, id, name|null]
}

type M = map[string]interface{}

// Knobs of the world generator (per 100).
type Knobs struct {
	Fail      int // resolver fails (error / value+error / panic of each kind)
	Nil       int // nil / typed nil
	WrongKind int // value of the wrong kind for the position
	Thunk     int // value wrapped in a thunk
	BadThunk  int // thunk that fails / func of another signature
	BadType   int // resolveType / isTypeOf answers that are not the object's type
	NanInf    int
}

var DefaultKnobs = Knobs{Fail: 8, Nil: 8, WrongKind: 4, Thunk: 6, BadThunk: 2, BadType: 6, NanInf: 2}
var AdversarialKnobs = Knobs{Fail: 18, Nil: 14, WrongKind: 14, Thunk: 12, BadThunk: 6, BadType: 15, NanInf: 5}
var CalmKnobs = Knobs{Fail: 3, Nil: 3, WrongKind: 0, Thunk: 20, BadThunk: 0, BadType: 0, NanInf: 0}

type worldGen struct {
	badPick bool // the last composite value drawn ignored the possible types of its position
	r       *hx.Rng
	s       *gq.SchemaDesc
	k       Knobs
	byTyp   map[string][]int
	w       *World
}

var failKinds = []string{"err", "valerr", "panicErr", "panicStr", "panicOther", "errForeign", "panicForeign"}

func (g *worldGen) pct(p int) bool { return g.r.Intn(100) < p }

// leaf produces a value for a leaf type name.
func (g *worldGen) leaf(name string) interface{} {
	td := g.s.Type(name)
	if g.pct(g.k.WrongKind) {
		// strings where numbers/booleans/enums are expected (and vice versa below), incl. the spellings
		// strconv.ParseFloat accepts for NaN and the infinities
		return g.r.Pick([]string{"zzz", "12", "true", "NaN", "+Inf", "-Inf", "Infinity", "nan", "inf"})
	}
	if td != nil && td.Kind == "ENUM" {
		ev := td.Values[g.r.Intn(len(td.Values))]
		if g.pct(10) {
			return "NOT_A_VALUE"
		}
		if g.k.WrongKind > 0 && g.pct(8+g.k.WrongKind) {
			return []interface{}{7} // unhashable: the enum's value lookup panics while serialising this item
		}
		return ev.Internal
	}
	if td != nil && td.Kind == "SCALAR" && td.Builtin == "" {
		return []interface{}{1, 3, "three", 2, "x"}[g.r.Intn(5)]
	}
	b := name
	if td != nil && td.Builtin != "" {
		b = td.Builtin
	}
	switch b {
	case "Int":
		switch g.r.Intn(6) {
		case 0:
			return 3000000000 // out of 32-bit range
		case 1:
			return M{"$dec": []interface{}{25, 1}} // fractional float: truncated
		case 2:
			return true
		case 3:
			// integers of other widths and behind pointers, in and out of the 32-bit range
			k := g.r.Pick([]string{"int64", "pint64", "pint64", "pint64", "pint", "pint", "int32", "pint32", "uint32", "puint32", "uint64", "puint64", "puint64", "pint8"})
			v := g.r.Pick([]string{"7", "-7", "2147483647", "2147483648", "-2147483648", "-2147483649", "3000000000", "-3000000000"})
			if strings.Contains(k, "uint") {
				v = strings.TrimPrefix(v, "-")
			}
			if k == "pint8" {
				v = g.r.Pick([]string{"7", "-7", "127"})
			}
			if k == "int32" || k == "pint32" {
				v = g.r.Pick([]string{"7", "-7", "2147483647", "-2147483648"})
			}
			n, _ := strconv.ParseInt(v, 10, 64)
			return M{"$num": []interface{}{k, n}}
		}
		return g.r.Range(-50, 1000)
	case "Float":
		if g.r.Chance(1, 2) {
			return M{"$dec": []interface{}{g.r.Range(-40, 40)*10 + 5, 1}}
		}
		return g.r.Range(-9, 99)
	case "Boolean":
		if g.r.Chance(1, 6) {
			return g.r.Range(0, 2)
		}
		return g.r.Chance(1, 2)
	case "String", "ID":
		switch g.r.Intn(6) {
		case 0:
			return g.r.Range(0, 99)
		case 1:
			return g.r.Chance(1, 2)
		}
		return g.r.Pick([]string{"a", "hello", "x y", "", "Zed"})
	}
	return nil
}

func (g *worldGen) wrapThunk(v interface{}) interface{} {
	bad := func() interface{} {
		if g.r.Chance(1, 2) {
			return M{"$go": "badfunc"}
		}
		return M{"$thunk": M{"err": true}}
	}
	if g.pct(g.k.BadThunk) {
		return bad()
	}
	if g.pct(g.k.Thunk) {
		// a deferred value may itself yield a deferred value (up to three levels; the innermost may be a failing thunk or a
		// func of another signature when the knobs allow bad thunks)
		if g.k.BadThunk > 0 && g.r.Chance(1, 12) {
			v = bad()
		}
		out := interface{}(M{"$thunk": M{"v": v}})
		for d := 0; d < 2 && g.r.Chance(1, 4); d++ {
			out = M{"$thunk": M{"v": out}}
		}
		return out
	}
	return v
}

// value produces a resolver value for a position of type te.
func (g *worldGen) value(te *gq.TypeExpr, depth int) interface{} {
	if g.pct(g.k.Nil) {
		if g.r.Chance(1, 3) {
			return M{"$go": "typednil"}
		}
		return nil
	}
	if g.pct(g.k.NanInf) {
		// non-finite floats of both widths and signs
		return M{"$go": g.r.Pick([]string{"nan", "inf", "ninf", "nan32", "inf32", "ninf32"})}
	}
	switch te.Kind {
	case "nonNull":
		return g.value(te.Of, depth)
	case "list":
		if g.pct(g.k.WrongKind) {
			return g.r.Pick([]string{"notalist", "x"})
		}
		n := g.r.Intn(4)
		out := []interface{}{}
		for i := 0; i < n; i++ {
			g.badPick = false
			item := g.value(te.Of, depth+1)
			out = append(out, g.wrapThunk(item))
			if g.badPick && g.r.Chance(3, 5) {
				// an object of a type that may not be possible here, met twice by the same field plan
				out = append(out, item)
			}
		}
		// the same item again (the same object reference reaches one field plan twice in one list: a runtime type,
		// possible or not, is met a second time)
		if len(out) > 0 && g.pct(20) {
			at := g.r.Intn(len(out))
			if m, isMap := out[at].(M); !isMap || m["$thunk"] == nil {
				out = append(out, out[at])
			}
		}
		// an item whose leaf serialisation panics, between items that serialise (only that item may be nulled)
		if it := te.Of; g.k.WrongKind > 0 && it.Kind != "list" && g.pct(25) {
			named := it
			if named.Kind == "nonNull" {
				named = named.Of
			}
			if td := g.s.Type(named.Name); named.Kind == "named" && td != nil {
				var bad interface{}
				switch {
				case td.Kind == "ENUM":
					bad = []interface{}{7}
				case td.Kind == "SCALAR" && td.Builtin == "":
					bad = 2
				}
				if bad != nil {
					at := g.r.Intn(len(out) + 1)
					out = append(out[:at], append([]interface{}{bad}, out[at:]...)...)
				}
			}
		}
		return out
	}
	td := g.s.Type(te.Name)
	if td == nil || td.Kind == "SCALAR" || td.Kind == "ENUM" {
		return g.leaf(te.Name)
	}
	// composite position: a reference to an object of a possible type (sometimes of another type, or a plain value)
	if g.pct(g.k.WrongKind) {
		return g.r.Pick([]string{"notanobject"})
	}
	var cands []string
	switch td.Kind {
	case "OBJECT":
		cands = []string{td.Name}
	default:
		cands = g.s.PossibleTypes(td.Name)
	}
	if g.pct(g.k.BadType) || len(cands) == 0 {
		g.badPick = true
		cands = nil
		for _, t := range g.s.Types {
			if t.Kind == "OBJECT" {
				cands = append(cands, t.Name)
			}
		}
	}
	tn := cands[g.r.Intn(len(cands))]
	ids := g.byTyp[tn]
	return M{"$ref": ids[g.r.Intn(len(ids))]}
}

func (g *worldGen) outcome(typ string) interface{} {
	if g.pct(g.k.Fail) {
		return M{"fail": g.r.Pick(failKinds)}
	}
	te, _ := gq.ParseType(typ)
	return M{"v": g.wrapThunk(g.value(te, 0))}
}

// GenWorld builds a finite resolver world for a schema: a few instances per object type (cyclic references
// allowed), an outcome for every field of every instance, root outcomes, and some overriding type answers.
func GenWorld(r *hx.Rng, s *gq.SchemaDesc, k Knobs) *World {
	g := &worldGen{r: r, s: s, k: k, byTyp: map[string][]int{}, w: &World{Root: map[string]interface{}{}}}
	id := 1
	for _, t := range s.Types {
		if t.Kind != "OBJECT" {
			continue
		}
		n := r.Range(1, 3)
		for i := 0; i < n; i++ {
			g.byTyp[t.Name] = append(g.byTyp[t.Name], id)
			g.w.Objects = append(g.w.Objects, &WObj{ID: id, Type: t.Name, Fields: map[string]interface{}{}})
			id++
		}
	}
	for _, o := range g.w.Objects {
		td := s.Type(o.Type)
		for _, f := range td.Fields {
			o.Fields[f.Name] = g.outcome(f.Type)
		}
	}
	// outcomes for sources that are not world objects (root value and wrong-kind sources): every field name of every object type
	for _, t := range s.Types {
		if t.Kind != "OBJECT" {
			continue
		}
		for _, f := range t.Fields {
			if _, ok := g.w.Root[f.Name]; !ok || t.Name == s.Query || (s.Mutation != nil && t.Name == *s.Mutation) {
				g.w.Root[f.Name] = g.outcome(f.Type)
			}
		}
	}
	// overriding type answers
	for _, t := range s.Types {
		switch t.Kind {
		case "INTERFACE", "UNION":
			for _, o := range g.w.Objects {
				if g.pct(g.k.BadType) {
					var ans interface{}
					switch r.Intn(3) {
					case 0:
						ans = nil
					case 1:
						ans = "NoSuchType"
					default:
						ans = g.w.Objects[r.Intn(len(g.w.Objects))].Type
					}
					g.w.ResolveType = append(g.w.ResolveType, []interface{}{t.Name, o.ID, ans})
				}
			}
		case "OBJECT":
			for _, o := range g.w.Objects {
				if g.pct(g.k.BadType / 2) {
					g.w.IsTypeOf = append(g.w.IsTypeOf, []interface{}{t.Name, o.ID, o.Type != t.Name})
				}
			}
		}
	}
	if g.w.IsTypeOf == nil {
		g.w.IsTypeOf = [][]interface{}{}
	}
	if g.w.ResolveType == nil {
		g.w.ResolveType = [][]interface{}{}
	}
	return g.w
}

// ---------------------------------------------------------------- the world as real Go callbacks

type wobj struct{ id int }

// String makes `%v` of a world object deterministic (the model prints the same text).
func (o *wobj) String() string { return fmt.Sprintf("obj#%d", o.id) }

type LogEntry struct {
	Path        []interface{} `json:"path"`
	ParentType  string        `json:"parentType"`
	Field       string        `json:"field"`
	Args        interface{}   `json:"args"`
	Source      interface{}   `json:"source"`
	Occurrences int           `json:"occurrences"`
	Deferred    bool          `json:"deferred"`
	CtxTag      interface{}   `json:"-"`
	InfoOK      string        `json:"-"` // "" or what was wrong with ResolveInfo
}

type Runtime struct {
	W       *World
	S       *gq.SchemaDesc
	objs    map[int]*wobj
	byID    map[int]*WObj
	mu      sync.Mutex
	Log     []LogEntry
	Seq     []string // resolver calls and thunk calls in the order they happen: "call|<path>|<Parent.field>", "force|<path>"
	TypeLog []string
	shared  map[string]interface{} // list values handed out more than once (same slice)
	TypeCtx []interface{}          // context tag seen by every ResolveType / IsTypeOf call (nil context = "<nil ctx>")
	Mutate  bool                   // resolvers mutate the args map they receive (C20 aliasing probe)
	// DocFrags: names of ALL fragment definitions of the request document (sorted), whichever operation is selected
	// and whether or not that operation reaches them; HasDocFrags = the expectation is set. Every resolver,
	// ResolveType and IsTypeOf call must find exactly these names in info.Fragments (C20: "the document's fragments").
	DocFrags    []string
	HasDocFrags bool
	TypeInfoBad []string // what was wrong with the ResolveInfo of a ResolveType / IsTypeOf call
}

// SetDocFragments records the fragment definitions of the request document as the expected info.Fragments.
func (rt *Runtime) SetDocFragments(names []string) {
	rt.DocFrags = append([]string{}, names...)
	sort.Strings(rt.DocFrags)
	rt.HasDocFrags = true
}

// checkFragments: info.Fragments holds exactly the document's fragment definitions, each under its own name.
func (rt *Runtime) checkFragments(info graphql.ResolveInfo) string {
	if !rt.HasDocFrags {
		return ""
	}
	got := make([]string, 0, len(info.Fragments))
	for name, def := range info.Fragments {
		got = append(got, name)
		fd, ok := def.(*ast.FragmentDefinition)
		if !ok || fd == nil || fd.Name == nil || fd.Name.Value != name {
			return "Fragments[" + name + "] is not the fragment definition of that name"
		}
	}
	sort.Strings(got)
	if strings.Join(got, ",") != strings.Join(rt.DocFrags, ",") {
		return fmt.Sprintf("Fragments=%v, the document defines %v", got, rt.DocFrags)
	}
	return ""
}

func (rt *Runtime) noteTypeInfo(who string, info graphql.ResolveInfo) {
	if bad := rt.checkFragments(info); bad != "" {
		rt.mu.Lock()
		rt.TypeInfoBad = append(rt.TypeInfoBad, who+": "+bad)
		rt.mu.Unlock()
	}
}

type ctxKey struct{}

func (rt *Runtime) noteTypeCtx(ctx context.Context) {
	var tag interface{} = "<nil ctx>"
	if ctx != nil {
		tag = ctx.Value(ctxKey{})
	}
	rt.mu.Lock()
	rt.TypeCtx = append(rt.TypeCtx, tag)
	rt.mu.Unlock()
}

func NewRuntime(w *World, s *gq.SchemaDesc) *Runtime {
	rt := &Runtime{W: w, S: s, objs: map[int]*wobj{}, byID: map[int]*WObj{}, shared: map[string]interface{}{}}
	for _, o := range w.Objects {
		rt.objs[o.ID] = &wobj{id: o.ID}
		rt.byID[o.ID] = o
	}
	return rt
}

func (rt *Runtime) Reset() {
	rt.mu.Lock()
	rt.Log, rt.TypeLog, rt.Seq, rt.TypeCtx, rt.TypeInfoBad = nil, nil, nil, nil, nil
	rt.mu.Unlock()
}

func (rt *Runtime) sourceTag(src interface{}) interface{} {
	switch x := src.(type) {
	case nil:
		return nil
	case *wobj:
		if x == nil {
			return M{"$go": "typednil"}
		}
		return M{"$ref": x.id}
	case map[string]interface{}:
		if len(x) == 0 {
			return nil // the executor substitutes an empty map for a nil root
		}
	}
	return rt.plainTag(src)
}

func (rt *Runtime) plainTag(v interface{}) interface{} {
	switch x := v.(type) {
	case float64:
		if x == math.Trunc(x) {
			return M{"$float": int(x)}
		}
		return gq.ToWire(x)
	case []interface{}:
		out := make([]interface{}, len(x))
		for i, e := range x {
			out[i] = rt.sourceTag(e)
		}
		return out
	case *int:
		return M{"$go": "typednil"}
	case func() (interface{}, error):
		return M{"$thunk": nil} // as the model renders a deferred value inside a source (a wrong-kind list used as an object)
	case func() int:
		return M{"$go": "badfunc"}
	}
	return gq.ToWire(v)
}

// seqPath renders a response path for the event sequence.
func seqPath(path []interface{}) string { return hx.Canon(normPath(path)) }

// goValue turns a wire GoVal into the real Go value a resolver returns. path = the response position the value is
// returned for (a thunk logs it when it is called: the position of the deferred value).
// typedInts: the position is Int-typed, so integers of other widths / behind pointers may be handed out as such
// (anywhere else a pointer would be printed as an address by %v); otherwise their plain value is used.
func (rt *Runtime) goValue(v interface{}, path []interface{}, typedInts bool) interface{} {
	switch x := v.(type) {
	case nil:
		return nil
	case []interface{}:
		out := make([]interface{}, len(x))
		for i, e := range x {
			out[i] = rt.goValue(e, append(append([]interface{}{}, path...), i), typedInts)
		}
		return out
	case map[string]interface{}:
		if r, ok := x["$ref"]; ok {
			return rt.objs[toInt(r)]
		}
		if g, ok := x["$go"]; ok {
			switch g {
			case "typednil":
				return (*int)(nil)
			case "nan":
				return math.NaN()
			case "inf":
				return math.Inf(1)
			case "ninf":
				return math.Inf(-1)
			case "nan32":
				return float32(math.NaN())
			case "inf32":
				return float32(math.Inf(1))
			case "ninf32":
				return float32(math.Inf(-1))
			case "badfunc":
				return func() int { return 1 }
			}
		}
		if f, ok := x["$float"]; ok {
			return float64(toInt(f))
		}
		if nv, ok := x["$num"]; ok {
			a := nv.([]interface{})
			n := int64(toInt(a[1]))
			if !typedInts {
				return int(n)
			}
			switch a[0] {
			case "int64":
				return n
			case "pint64":
				return &n
			case "pint":
				v := int(n)
				return &v
			case "int32":
				return int32(n)
			case "pint32":
				v := int32(n)
				return &v
			case "uint32":
				return uint32(n)
			case "puint32":
				v := uint32(n)
				return &v
			case "uint64":
				return uint64(n)
			case "puint64":
				v := uint64(n)
				return &v
			case "pint8":
				v := int8(n)
				return &v
			}
		}
		if t, ok := x["$thunk"]; ok {
			tm := t.(map[string]interface{})
			where := "force|" + seqPath(path)
			note := func() {
				rt.mu.Lock()
				rt.Seq = append(rt.Seq, where)
				rt.mu.Unlock()
			}
			if inner, ok := tm["v"]; ok {
				val := rt.goValue(inner, path, typedInts)
				return func() (interface{}, error) { note(); return val, nil }
			}
			return func() (interface{}, error) { note(); return nil, errors.New("thunk failed") }
		}
		return gq.FromWire(x)
	}
	return gq.FromWire(v)
}

func toInt(v interface{}) int {
	switch x := v.(type) {
	case int:
		return x
	case float64:
		return int(x)
	}
	var n int
	fmt.Sscan(fmt.Sprint(v), &n)
	return n
}

func (rt *Runtime) outcomeFor(src interface{}, field string) interface{} {
	if o, ok := src.(*wobj); ok && o != nil {
		if out, ok := rt.byID[o.id].Fields[field]; ok {
			return out
		}
		return M{"v": nil}
	}
	if out, ok := rt.W.Root[field]; ok {
		return out
	}
	return M{"v": nil}
}

// Hooks returns the schema callbacks that interpret the world.
func (rt *Runtime) Hooks() gq.Hooks {
	return gq.Hooks{
		Resolve: func(typeName, fieldName string) graphql.FieldResolveFn {
			return func(p graphql.ResolveParams) (interface{}, error) {
				e := LogEntry{Field: fieldName, Source: rt.sourceTag(p.Source), Occurrences: len(p.Info.FieldASTs)}
				if p.Info.Path != nil {
					e.Path = p.Info.Path.AsArray()
				}
				if pt, ok := p.Info.ParentType.(*graphql.Object); ok && pt != nil {
					e.ParentType = pt.Name()
				}
				e.Args = gq.ToWire(map[string]interface{}(p.Args))
				if p.Context != nil {
					e.CtxTag = p.Context.Value(ctxKey{})
				}
				e.InfoOK = checkInfo(p, typeName, fieldName)
				if e.InfoOK == "" {
					e.InfoOK = rt.checkFragments(p.Info)
				}
				rt.mu.Lock()
				rt.Log = append(rt.Log, e)
				rt.Seq = append(rt.Seq, "call|"+seqPath(e.Path)+"|"+e.ParentType+"."+fieldName)
				rt.mu.Unlock()
				if rt.Mutate {
					mutateArgs(p.Args)
				}
				out := rt.outcomeFor(p.Source, fieldName).(map[string]interface{})
				if k, ok := out["fail"]; ok {
					switch k {
					case "err":
						return nil, errors.New("resolver error")
					case "valerr":
						return "stale value", errors.New("resolver error with value")
					case "panicErr":
						panic(errors.New("resolver panic (error)"))
					case "panicStr":
						panic("resolver panic (string)")
					case "errForeign":
						// an error taken from another execution (a formatted, located error with its own path): the
						// field fails like with any other error, at ITS path
						return nil, foreignError()
					case "panicForeign":
						panic(foreignError())
					default:
						panic(42)
					}
				}
				typedInts := graphql.GetNamed(p.Info.ReturnType) == graphql.Type(graphql.Int)
				if l, isList := out["v"].([]interface{}); isList && !hasThunk(l) {
					// the same Go slice every time this outcome is handed out (two aliases, repeated executions): the
					// library must not complete a list in place in the resolver's own slice
					key := fmt.Sprintf("%p|%v", out, typedInts)
					rt.mu.Lock()
					val, ok := rt.shared[key]
					rt.mu.Unlock()
					if !ok {
						val = rt.goValue(l, e.Path, typedInts)
						rt.mu.Lock()
						rt.shared[key] = val
						rt.mu.Unlock()
					}
					return val, nil
				}
				return rt.goValue(out["v"], e.Path, typedInts), nil
			}
		},
		ResolveType: func(abstract string, objects map[string]*graphql.Object) graphql.ResolveTypeFn {
			return func(p graphql.ResolveTypeParams) *graphql.Object {
				rt.noteTypeCtx(p.Context)
				rt.noteTypeInfo("ResolveType of "+abstract, p.Info)
				o, ok := p.Value.(*wobj)
				if !ok || o == nil {
					return nil
				}
				for _, e := range rt.W.ResolveType {
					if e[0] == abstract && toInt(e[1]) == o.id {
						if e[2] == nil {
							return nil
						}
						return objects[fmt.Sprint(e[2])] // unknown name -> nil
					}
				}
				return objects[rt.byID[o.id].Type]
			}
		},
		IsTypeOf: func(objName string) graphql.IsTypeOfFn {
			return func(p graphql.IsTypeOfParams) bool {
				rt.noteTypeCtx(p.Context)
				rt.noteTypeInfo("IsTypeOf of "+objName, p.Info)
				o, ok := p.Value.(*wobj)
				if !ok || o == nil {
					return false
				}
				for _, e := range rt.W.IsTypeOf {
					if e[0] == objName && toInt(e[1]) == o.id {
						return e[2] == true
					}
				}
				return rt.byID[o.id].Type == objName
			}
		},
	}
}

func foreignError() gqlerrors.FormattedError {
	return gqlerrors.FormatError(gqlerrors.NewErrorWithPath("error of another execution", nil, "", nil, nil,
		[]interface{}{"inner", 3, "boom"}, errors.New("error of another execution")))
}

// checkInfo verifies the parts of ResolveInfo that the log does not carry.
func checkInfo(p graphql.ResolveParams, typeName, fieldName string) string {
	if p.Info.FieldName != fieldName {
		return "FieldName=" + p.Info.FieldName
	}
	if p.Info.ParentType == nil || p.Info.ParentType.Name() != typeName {
		return "ParentType is not the runtime object type the resolver belongs to"
	}
	if p.Info.ReturnType == nil {
		return "ReturnType nil"
	}
	if pt, ok := p.Info.ParentType.(*graphql.Object); ok {
		if fd, ok := pt.Fields()[fieldName]; ok && fd.Type.String() != p.Info.ReturnType.String() {
			return "ReturnType=" + p.Info.ReturnType.String() + " declared " + fd.Type.String()
		}
	}
	if p.Info.Operation == nil {
		return "Operation nil"
	}
	for _, f := range p.Info.FieldASTs {
		if f == nil || f.Name == nil || f.Name.Value != fieldName {
			return "FieldASTs contain a node of another field"
		}
	}
	return ""
}

func mutateArgs(args map[string]interface{}) {
	for _, v := range args {
		mutateValue(v)
	}
	args["__extra"] = 1
}

// mutateValue changes a received argument value in place at every nesting level.
func mutateValue(v interface{}) {
	switch x := v.(type) {
	case []interface{}:
		for _, e := range x {
			mutateValue(e)
		}
		if len(x) > 0 {
			if _, nested := x[0].([]interface{}); !nested {
				if _, obj := x[0].(map[string]interface{}); !obj {
					x[0] = "MUTATED"
				}
			}
		}
	case map[string]interface{}:
		for _, e := range x {
			mutateValue(e)
		}
		x["__mutated"] = true
	}
}
