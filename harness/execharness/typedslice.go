package execharness

import "verif/harness/gq"

// goVars converts the (conformant) wire variable values of a case to the Go values handed to the library. With
// c.TypedSlices the lists are rendered as typed Go slices ([]string, []int, [][]int, []map[string]interface{}, …:
// gq.SliceTyper), the way a Go caller builds variable values; the logical value, which is what the model receives,
// is the same. made = number of lists rendered as a typed slice.
func (c *Case) goVars() (vars map[string]interface{}, made int) {
	vars = map[string]interface{}{}
	for k, v := range c.Vars {
		g := gq.FromWire(v)
		if c.TypedSlices {
			st := &gq.SliceTyper{}
			g = st.Any(g)
			made += st.Made
		}
		vars[k] = g
	}
	return vars, made
}
