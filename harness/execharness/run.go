package execharness

import (
	"context"
	"encoding/json"
	"fmt"
	"os"
	"sort"
	"strings"

	"github.com/graphql-go/graphql"
	"github.com/graphql-go/graphql/language/ast"
	"github.com/graphql-go/graphql/language/parser"

	"verif/harness/astjson"
	"verif/harness/gen"
	"verif/harness/gq"
	"verif/harness/hx"
)

// Case is one generated request; it is also the replay format.
type Case struct {
	Schema *gq.SchemaDesc         `json:"schema"`
	Query  string                 `json:"query"`
	OpName string                 `json:"opName"`
	Vars   map[string]interface{} `json:"vars"` // wire values
	World  *World                 `json:"world"`
	Entry  string                 `json:"entry"` // do | execute | plan
	Reuse  int                    `json:"reuse"` // plan: number of executions of the same plan
	Mutate bool                   `json:"mutate"`
	// list variable values are handed to the library as typed Go slices ([]string, [][]int, …) instead of []interface{}
	TypedSlices bool `json:"typedSlices,omitempty"`
}

type modelResp struct {
	Class       string          `json:"class"`
	What        string          `json:"what"`
	Data        interface{}     `json:"data"`
	ErrPaths    [][]interface{} `json:"errPaths"`
	ErrDeferred []bool          `json:"errDeferred"`
	Log         []LogEntry      `json:"log"`
	KfThunk     [][]interface{} `json:"kfThunk"`
	Conforms    *bool           `json:"conforms,omitempty"` // only when the request carried "checkData"
}

type Observed struct {
	Class    string          `json:"class"` // result | requestError | panic
	Data     interface{}     `json:"data"`
	ErrPaths [][]interface{} `json:"errPaths"`
	ErrMsgs  []string        `json:"errMsgs"`
	TypeCtx  []interface{}   `json:"-"`
	Log      []LogEntry      `json:"log"`
	InfoBad  []string        `json:"infoBad,omitempty"`
	Seq      []string        `json:"seq,omitempty"` // resolver calls and thunk calls, in order
	Misses   int             `json:"misses"`        // calls of planMergedSelectionsForType (= memo misses) during this execution
}

// planModelResp is the driver's answer for "planModel": true (the implementation model GqlModel/Plan.lean).
type planModelResp struct {
	Class       string          `json:"class"`
	What        string          `json:"what"`
	Data        interface{}     `json:"data"`
	ErrPaths    [][]interface{} `json:"errPaths"`
	ErrDeferred []bool          `json:"errDeferred"`
	Events      []struct {
		K          string        `json:"k"`
		Path       []interface{} `json:"path"`
		ParentType string        `json:"parentType"`
		Field      string        `json:"field"`
	} `json:"events"`
	MemoKeys []interface{} `json:"memoKeys"`
	Misses   []int         `json:"misses"`
	Stable   bool          `json:"stable"`
	Dynamic  bool          `json:"dynamic"`
}

func (pm *planModelResp) seq() []string {
	out := []string{}
	for _, e := range pm.Events {
		if e.K == "force" {
			out = append(out, "force|"+seqPath(e.Path))
		} else {
			out = append(out, "call|"+seqPath(e.Path)+"|"+e.ParentType+"."+e.Field)
		}
	}
	return out
}

// ComparePlanModel: the real executor against the bug-faithful implementation model, EXACT (also on D-04c cases): class, data tree,
// multiset of error paths, the ORDER of resolver calls and thunk calls, and the number of lazily planned sub-selections
// (memo misses) of this execution (`run` = index of the execution of the one plan).
func ComparePlanModel(obs Observed, pm *planModelResp, run int) string {
	if obs.Class == "panic" {
		return "panic escaped the entry point: " + strings.Join(obs.ErrMsgs, "; ")
	}
	if pm.Class == "requestError" || obs.Class == "requestError" {
		if pm.Class != obs.Class {
			return fmt.Sprintf("plan model: %s (%s); real: %s %v", pm.Class, pm.What, obs.Class, obs.ErrMsgs)
		}
		return ""
	}
	canonM := hx.Canon(pm.Data)
	if strings.Contains(canonM, "$unpredictable") {
		return ""
	}
	if strings.Contains(canonM, "$func") {
		if obs.Class != "unserialisable" {
			return "plan model: a closure is left in the data (thunk returning a func); real: " + obs.Class
		}
		return ""
	}
	if obs.Class == "unserialisable" {
		return "result data cannot be serialised to JSON: " + strings.Join(obs.ErrMsgs, "; ")
	}
	if hx.Canon(obs.Data) != canonM {
		return "data tree differs from the implementation model's (plan model)"
	}
	if re, me := canonPaths(obs.ErrPaths), canonPaths(pm.ErrPaths); !sameStrings(re, me) {
		return fmt.Sprintf("error paths differ from the plan model's: real %v model %v", re, me)
	}
	if ms := pm.seq(); !sameStrings(obs.Seq, ms) {
		i := 0
		for i < len(ms) && i < len(obs.Seq) && ms[i] == obs.Seq[i] {
			i++
		}
		at := func(l []string) string {
			if i < len(l) {
				return l[i]
			}
			return "<end>"
		}
		return fmt.Sprintf("order of resolver calls / thunk calls differs from the plan model's at event %d: real %s model %s", i, at(obs.Seq), at(ms))
	}
	if run < len(pm.Misses) && obs.Misses != pm.Misses[run] {
		return fmt.Sprintf("execution %d planned %d sub-selections lazily, the plan model %d (memo per (field plan, runtime type))", run, obs.Misses, pm.Misses[run])
	}
	return ""
}

func canonPaths(ps [][]interface{}) []string {
	out := []string{}
	for _, p := range ps {
		out = append(out, hx.Canon(normPath(p)))
	}
	sort.Strings(out)
	return out
}

func normPath(p []interface{}) []interface{} {
	out := make([]interface{}, len(p))
	for i, s := range p {
		switch x := s.(type) {
		case json.Number:
			n, _ := x.Int64()
			out[i] = int(n)
		case float64:
			out[i] = int(x)
		default:
			out[i] = s
		}
	}
	return out
}

func logKey(e LogEntry) string {
	return hx.Canon([]interface{}{normPath(e.Path), e.ParentType, e.Field, gq.ToWire(gq.FromWire(e.Args)), normSrc(e.Source), e.Occurrences})
}

func normSrc(v interface{}) interface{} {
	b, _ := json.Marshal(v)
	var out interface{}
	d := json.NewDecoder(strings.NewReader(string(b)))
	d.UseNumber()
	d.Decode(&out)
	return gq.ToWire(gq.FromWire(out))
}

func logKeys(l []LogEntry) []string {
	out := make([]string, len(l))
	for i, e := range l {
		out[i] = logKey(e)
	}
	return out
}

// planMisses reads the library's step counter of planMergedSelectionsForType (build tag verif).
func planMisses() int {
	return int(graphql.VerifCounters()[graphql.VerifSitePlanMergedSelectionsForType])
}

// RunReal executes the case on the real library.
func RunReal(c *Case, doc *ast.Document, built *gq.Built, rt *Runtime, ctxTag interface{}) (obs Observed) {
	rt.Reset()
	rt.Mutate = c.Mutate
	defer func() {
		if r := recover(); r != nil {
			obs = Observed{Class: "panic", ErrMsgs: []string{fmt.Sprint(r)}}
		}
	}()
	vars, _ := c.goVars()
	ctx := context.WithValue(context.Background(), ctxKey{}, ctxTag)
	var res *graphql.Result
	before := planMisses()
	defer func() { obs.Misses = planMisses() - before }()
	switch c.Entry {
	case "do":
		res = graphql.Do(graphql.Params{Schema: built.Schema, RequestString: c.Query, OperationName: c.OpName, VariableValues: vars, Context: ctx})
	case "execute":
		res = graphql.Execute(graphql.ExecuteParams{Schema: built.Schema, AST: doc, OperationName: c.OpName, Args: vars, Context: ctx})
	case "cache":
		// through a normalising plan cache: literals become synthetic variables, the plan is built from the rewritten
		// document; the response (and what every resolver receives) must be the one of the original request
		cache := graphql.NewPlanCache(graphql.PlanCacheOptions{Normalize: true})
		pr := cache.Get(&built.Schema, c.Query, c.OpName)
		if pr.Plan == nil {
			o := Observed{Class: "requestError"}
			for _, e := range pr.Errors {
				o.ErrMsgs = append(o.ErrMsgs, e.Message)
			}
			return o
		}
		all := map[string]interface{}{}
		for k, v := range vars {
			all[k] = v
		}
		for k, v := range pr.SynthArgs {
			all[k] = v
		}
		res = graphql.ExecutePlan(pr.Plan, graphql.ExecuteParams{Schema: built.Schema, OperationName: c.OpName, Args: all, Context: ctx})
	default:
		plan, err := graphql.PlanQuery(&built.Schema, doc, c.OpName)
		if err != nil {
			return Observed{Class: "requestError", ErrMsgs: []string{err.Error()}}
		}
		res = graphql.ExecutePlan(plan, graphql.ExecuteParams{Schema: built.Schema, AST: doc, OperationName: c.OpName, Args: vars, Context: ctx})
	}
	return observe(res, rt)
}

func observe(res *graphql.Result, rt *Runtime) Observed {
	o := Observed{Class: "result"}
	if res.Data == nil && len(rt.Log) == 0 && len(res.Errors) > 0 {
		o.Class = "requestError"
	}
	if res.Data != nil {
		b, err := json.Marshal(res.Data)
		if err != nil {
			o.Class = "unserialisable"
			o.ErrMsgs = append(o.ErrMsgs, err.Error())
		} else {
			var v interface{}
			d := json.NewDecoder(strings.NewReader(string(b)))
			d.UseNumber()
			d.Decode(&v)
			o.Data = gq.ToWire(gq.FromWire(v))
		}
	}
	for _, e := range res.Errors {
		o.ErrPaths = append(o.ErrPaths, e.Path)
		o.ErrMsgs = append(o.ErrMsgs, e.Message)
	}
	rt.mu.Lock()
	o.Log = append([]LogEntry{}, rt.Log...)
	o.Seq = append([]string{}, rt.Seq...)
	o.TypeCtx = append([]interface{}{}, rt.TypeCtx...)
	rt.mu.Unlock()
	for _, e := range o.Log {
		if e.InfoOK != "" {
			o.InfoBad = append(o.InfoBad, e.Field+": "+e.InfoOK)
		}
	}
	rt.mu.Lock()
	o.InfoBad = append(o.InfoBad, rt.TypeInfoBad...)
	rt.mu.Unlock()
	return o
}

// Modes select which observables a property compares.
type Mode struct {
	Prop         string
	Knobs        func(r *hx.Rng) Knobs
	CompareLog   bool // C20 / C13
	Conformance  bool // C04: evaluate Conforms on the real output (driver op) in addition
	MutationOnly bool // C13
	Repeat       int  // C13: repetitions of the same request (map seeds)
	PlanReuse    bool // C20/C01: reuse one plan for several executions with arg mutation
	PlanModel    bool // C01: additionally compare with the implementation model GqlModel/Plan.lean (exact, incl. event order)
}

func sameStrings(a, b []string) bool {
	if len(a) != len(b) {
		return false
	}
	for i := range a {
		if a[i] != b[i] {
			return false
		}
	}
	return true
}

// multisetMinus returns the elements of a that are not matched one-to-one in b.
func multisetMinus(a, b []string) []string {
	cnt := map[string]int{}
	for _, x := range b {
		cnt[x]++
	}
	var out []string
	for _, x := range a {
		if cnt[x] > 0 {
			cnt[x]--
		} else {
			out = append(out, x)
		}
	}
	return out
}

func sorted(a []string) []string {
	b := append([]string{}, a...)
	sort.Strings(b)
	return b
}

// topLevelSerial: the log, projected to the first path segment, never returns to an earlier top-level key.
func topLevelSerial(l []LogEntry) bool {
	seen := map[string]bool{}
	last := ""
	for _, e := range l {
		if len(e.Path) == 0 {
			continue
		}
		k := fmt.Sprint(e.Path[0])
		if k != last {
			if seen[k] {
				return false
			}
			seen[k] = true
			last = k
		}
	}
	return true
}

func topLevelOrder(l []LogEntry) []string {
	var out []string
	for _, e := range l {
		if len(e.Path) == 0 {
			continue
		}
		k := fmt.Sprint(e.Path[0])
		if len(out) == 0 || out[len(out)-1] != k {
			out = append(out, k)
		}
	}
	return out
}

func hasThunk(v interface{}) bool {
	switch x := v.(type) {
	case []interface{}:
		for _, e := range x {
			if hasThunk(e) {
				return true
			}
		}
	case map[string]interface{}:
		if _, ok := x["$thunk"]; ok {
			return true
		}
		for _, e := range x {
			if hasThunk(e) {
				return true
			}
		}
	}
	return false
}

// hasNestedThunk: some deferred value yields a func directly (another deferred value, or a func of another signature).
func hasNestedThunk(v interface{}) bool {
	switch x := v.(type) {
	case []interface{}:
		for _, e := range x {
			if hasNestedThunk(e) {
				return true
			}
		}
	case map[string]interface{}:
		if t, ok := x["$thunk"].(map[string]interface{}); ok {
			if inner, ok := t["v"].(map[string]interface{}); ok {
				if _, ok := inner["$thunk"]; ok {
					return true
				}
				if g, ok := inner["$go"]; ok && g == "badfunc" {
					return true
				}
			}
		}
		for _, e := range x {
			if hasNestedThunk(e) {
				return true
			}
		}
	}
	return false
}

func worldHasNestedThunk(w *World) bool {
	for _, o := range w.Objects {
		if hasNestedThunk(map[string]interface{}(o.Fields)) {
			return true
		}
	}
	return hasNestedThunk(map[string]interface{}(w.Root))
}

func worldHasThunk(w *World) bool {
	for _, o := range w.Objects {
		if hasThunk(map[string]interface{}(o.Fields)) {
			return true
		}
	}
	return hasThunk(map[string]interface{}(w.Root))
}

// Compare returns "" when real and model agree on what the mode's property determines, else a description.
// kf = true when the disagreement is exactly the known D-04c manifestation.
func Compare(m Mode, c *Case, obs Observed, mr *modelResp, isMutation bool) (diff string, kf bool) {
	if obs.Class == "panic" {
		return "panic escaped the entry point: " + strings.Join(obs.ErrMsgs, "; "), false
	}
	if obs.Class == "unserialisable" {
		return "result data cannot be serialised to JSON: " + strings.Join(obs.ErrMsgs, "; "), false
	}
	if mr.Class == "requestError" {
		if obs.Class != "requestError" {
			return fmt.Sprintf("model: request error (%s); real: %s with %d resolver calls", mr.What, obs.Class, len(obs.Log)), false
		}
		return "", false
	}
	if obs.Class == "requestError" {
		return "real: request error " + strings.Join(obs.ErrMsgs, "; ") + "; model: result", false
	}
	if len(obs.InfoBad) > 0 {
		return "ResolveInfo inaccurate: " + strings.Join(obs.InfoBad, "; "), false
	}
	if strings.Contains(hx.Canon(mr.Data), "$unpredictable") {
		return "", false // a func value printed through %v: address-dependent text, not compared
	}
	dataEq := hx.Canon(obs.Data) == hx.Canon(mr.Data)
	// Errors: every error the algorithm records outside deferred values must be there; errors recorded while a
	// deferred value is forced may be missing when the library never forces it (its position was nulled before).
	var must, may [][]interface{}
	for i, p := range mr.ErrPaths {
		if i < len(mr.ErrDeferred) && mr.ErrDeferred[i] {
			may = append(may, p)
		} else {
			must = append(must, p)
		}
	}
	realErrs := canonPaths(obs.ErrPaths)
	errsEq := len(multisetMinus(canonPaths(must), realErrs)) == 0 &&
		len(multisetMinus(realErrs, append(canonPaths(must), canonPaths(may)...))) == 0
	if len(mr.KfThunk) > 0 && !(dataEq && errsEq) {
		// D-04c: a thunk failing under a non-null type is forced after every recover scope is gone. From the
		// first such thunk on the library's run is not the algorithm's (it goes on resolving siblings, and a
		// later failure may be the one that is reported); the listed manifestations are: no data with at least
		// one error, or the algorithm's data with a different error among the failing positions.
		if len(obs.ErrPaths) > 0 && (obs.Data == nil || dataEq) {
			return "", true
		}
	}
	if !dataEq {
		return "data tree differs from the one the execution algorithm defines", false
	}
	if !errsEq {
		return fmt.Sprintf("error paths differ: real %v model %v (deferred: %v)", realErrs, canonPaths(mr.ErrPaths), mr.ErrDeferred), false
	}
	if m.CompareLog {
		rk, mk := logKeys(obs.Log), logKeys(mr.Log)
		var mustLog []string
		anyDeferred := false
		for i, e := range mr.Log {
			if e.Deferred {
				anyDeferred = true
			} else {
				mustLog = append(mustLog, mk[i])
			}
		}
		if len(mr.KfThunk) == 0 {
			// invocations outside deferred values: exactly the algorithm's; inside: at most the algorithm's
			if d := multisetMinus(mustLog, rk); len(d) > 0 {
				return "resolver not invoked although the execution algorithm resolves that field there: " + d[0], false
			}
			if d := multisetMinus(rk, mk); len(d) > 0 {
				return "resolver invoked although the execution algorithm does not resolve that field there (or twice): " + d[0], false
			}
			if len(mr.ErrPaths) == 0 && len(rk) != len(mk) {
				return "resolver invocations differ as multisets although nothing failed (every deferred value is forced)", false
			}
			if !anyDeferred && !sameStrings(rk, mk) {
				return "resolver invocation order differs (no deferred values involved)", false
			}
		}
		if isMutation {
			if !topLevelSerial(obs.Log) {
				return "mutation: work of a later top-level field ran before an earlier one had finished", false
			}
			ro, mo := topLevelOrder(obs.Log), topLevelOrder(mr.Log)
			if len(mr.KfThunk) > 0 && len(ro) < len(mo) {
				// D-04c region: the failing deferred value ends the whole execution, later top-level fields do not
				// run at all; those that ran must still be the first ones, in document order
				mo = mo[:len(ro)]
			}
			if !sameStrings(ro, mo) {
				return "mutation: top-level fields did not run in document order", false
			}
		}
	}
	return "", false
}

func isMutationOp(doc *ast.Document, opName string) bool {
	for _, d := range doc.Definitions {
		if op, ok := d.(*ast.OperationDefinition); ok {
			if opName == "" || (op.Name != nil && op.Name.Value == opName) {
				return op.Operation == "mutation"
			}
		}
	}
	return false
}

// GenCase draws schema, valid document, variables, world and entry point.
func GenCase(r *hx.Rng, m Mode) *Case {
	sg := &gen.SchemaGen{R: r, Size: r.Range(1, 5), PanickySerialize: true}
	if m.MutationOnly {
		sg.NoMutation = false
	}
	var s *gq.SchemaDesc
	for {
		s = sg.Schema()
		if !m.MutationOnly || s.Mutation != nil {
			break
		}
	}
	if m.MutationOnly {
		// make sure the mutation root has list-of-object and object fields (deferred work below list items and
		// objects is what the serial-execution rule is about), next to whatever the generator chose
		mt := s.Type(*s.Mutation)
		var objs []string
		for _, t := range s.Types {
			if t.Kind == "OBJECT" && t.Name != s.Query && t.Name != *s.Mutation {
				objs = append(objs, t.Name)
			}
		}
		if len(objs) > 0 {
			mt.Fields = append(mt.Fields,
				gq.FieldDesc{Name: "ml0", Type: "[" + objs[r.Intn(len(objs))] + "]"},
				gq.FieldDesc{Name: "ml1", Type: "[[" + objs[r.Intn(len(objs))] + "]]"},
				gq.FieldDesc{Name: "mo0", Type: objs[r.Intn(len(objs))]})
		}
	}
	if s.Mutation != nil && r.Chance(1, 5) {
		// schema shape: ONE object type is both the query root and the mutation root (the operation kind, not the
		// identity of the root type, decides between breadth-first and serial execution)
		gen.ShareRoot(s)
	}
	opts := gen.ValidDocOpts{NoIntrospection: true, RootSpreadFirst: m.MutationOnly}
	text, meta := gen.ValidDocWith(r, s, r.Range(1, 5), opts)
	c := &Case{Schema: s, Query: text, World: GenWorld(r, s, m.Knobs(r)), Vars: map[string]interface{}{}}
	// choose an operation
	ops := meta.Doc.Ops
	var pick *gen.VOp
	if m.MutationOnly {
		for _, o := range ops {
			if o.Kind == "mutation" {
				pick = o
			}
		}
	}
	if pick == nil {
		pick = ops[r.Intn(len(ops))]
	}
	c.OpName = pick.Name
	if len(ops) == 1 && r.Chance(1, 2) {
		c.OpName = ""
	}
	if vs, ok := meta.Variables[pick.Name]; ok {
		for k, v := range vs {
			c.Vars[k] = v
		}
	}
	c.Entry = []string{"do", "execute", "plan", "cache", "cache"}[r.Intn(5)]
	if e := os.Getenv("VERIF_ENTRY"); e != "" {
		c.Entry = e // experiments: force one entry point
	}
	if m.PlanReuse && r.Chance(1, 2) {
		c.Entry = "plan"
		c.Reuse = r.Range(2, 4)
		c.Mutate = true
	}
	c.TypedSlices = r.Chance(1, 2) // list variables as typed Go slices
	// (drawn after everything else, so the cases of earlier versions keep their schema / document / world)
	// fragments the selected operation does NOT reach: another operation of the same document spreads them (so the
	// document stays valid: NoUnusedFragments), directly and through another fragment. info.Fragments of every
	// resolver / ResolveType / IsTypeOf call of the selected operation must still hold them (C20).
	if pick.Name != "" && r.Chance(1, 4) {
		c.OpName = pick.Name
		extra := "\nquery VerifOther { ...VerifExtra }\nfragment VerifExtra on " + s.Query + " { __typename ...VerifExtraDeep }\nfragment VerifExtraDeep on " + s.Query + " { __typename }\n"
		if r.Chance(1, 2) {
			c.Query = c.Query + extra
		} else {
			c.Query = strings.TrimPrefix(extra, "\n") + c.Query // definitions before the selected operation
		}
	}
	return c
}

// docFragments: names of all fragment definitions of the document, and of those the selected operation reaches through
// fragment spreads (directly or through other fragments).
func docFragments(doc *ast.Document, opName string) (all []string, reached map[string]bool) {
	defs := map[string]*ast.FragmentDefinition{}
	var op *ast.OperationDefinition
	for _, d := range doc.Definitions {
		switch x := d.(type) {
		case *ast.FragmentDefinition:
			if x.Name != nil {
				defs[x.Name.Value] = x
				all = append(all, x.Name.Value)
			}
		case *ast.OperationDefinition:
			if op == nil && (opName == "" || (x.Name != nil && x.Name.Value == opName)) {
				op = x
			}
		}
	}
	sort.Strings(all)
	reached = map[string]bool{}
	var walk func(set *ast.SelectionSet)
	walk = func(set *ast.SelectionSet) {
		if set == nil {
			return
		}
		for _, sel := range set.Selections {
			switch x := sel.(type) {
			case *ast.Field:
				walk(x.SelectionSet)
			case *ast.InlineFragment:
				walk(x.SelectionSet)
			case *ast.FragmentSpread:
				if x.Name != nil && !reached[x.Name.Value] {
					if fd, ok := defs[x.Name.Value]; ok {
						reached[x.Name.Value] = true
						walk(fd.SelectionSet)
					}
				}
			}
		}
	}
	if op != nil {
		walk(op.SelectionSet)
	}
	return all, reached
}

// One runs a case against the real code and the model and records the verdict.
func One(run *hx.Run, drv *hx.Driver, m Mode, c *Case) {
	doc, err := parser.Parse(parser.ParseParams{Source: c.Query})
	if err != nil {
		run.CheckError("generated document does not parse: " + err.Error() + " :: " + c.Query)
		return
	}
	rt := NewRuntime(c.World, c.Schema)
	built, err := gq.Build(c.Schema, rt.Hooks())
	if err != nil {
		run.CheckError("generated schema rejected: " + err.Error())
		return
	}
	if vr := graphql.ValidateDocument(&built.Schema, doc, nil); !vr.IsValid {
		run.Tag("generator-produced-invalid-document")
		return
	}
	allFrags, reachedFrags := docFragments(doc, c.OpName)
	rt.SetDocFragments(allFrags)
	var mr modelResp
	req := map[string]interface{}{"schema": c.Schema, "doc": astjson.Document(doc), "opName": c.OpName, "vars": c.Vars, "world": c.World}
	if err := drv.Ask(req, &mr); err != nil {
		run.CheckError(err.Error())
		return
	}
	if mr.Class == "fuelOut" {
		run.CheckError("model ran out of fuel")
		return
	}
	var pm planModelResp
	planDiff := ""
	if m.PlanModel {
		req["planModel"] = true
		if c.Entry == "plan" && c.Reuse > 1 {
			req["reuse"] = c.Reuse
		}
		if err := drv.Ask(req, &pm); err != nil {
			run.CheckError(err.Error())
			return
		}
		delete(req, "planModel")
		delete(req, "reuse")
		if pm.Class == "fuelOut" {
			run.CheckError("plan model ran out of fuel")
			return
		}
		if !pm.Stable {
			run.CheckError("plan model: executions of one plan differ (contradicts Plan.plan_reuse_transparent)")
			return
		}
	}
	isMut := isMutationOp(doc, c.OpName)
	reps := 1
	if m.Repeat > 1 {
		reps = m.Repeat
	}
	var obs Observed
	for rep := 0; rep < reps; rep++ {
		if c.Entry == "plan" && c.Reuse > 1 {
			// one plan, several executions: every execution must look like a fresh one
			plan, perr := graphql.PlanQuery(&built.Schema, doc, c.OpName)
			if perr != nil {
				obs = Observed{Class: "requestError", ErrMsgs: []string{perr.Error()}}
			} else {
				for i := 0; i < c.Reuse; i++ {
					rt.Reset()
					rt.Mutate = c.Mutate
					vars, _ := c.goVars()
					func() {
						defer func() {
							if r := recover(); r != nil {
								obs = Observed{Class: "panic", ErrMsgs: []string{fmt.Sprint(r)}}
							}
						}()
						before := planMisses()
						res := graphql.ExecutePlan(plan, graphql.ExecuteParams{Schema: built.Schema, AST: doc, OperationName: c.OpName, Args: vars,
							Context: context.WithValue(context.Background(), ctxKey{}, i)})
						obs = observe(res, rt)
						obs.Misses = planMisses() - before
						for _, e := range obs.Log {
							if e.CtxTag != i {
								obs.InfoBad = append(obs.InfoBad, fmt.Sprintf("%s: context of execution %v seen in execution %d", e.Field, e.CtxTag, i))
							}
						}
						for _, t := range obs.TypeCtx {
							if t != i {
								obs.InfoBad = append(obs.InfoBad, fmt.Sprintf("a ResolveType / IsTypeOf call of execution %d received context %v", i, t))
								break
							}
						}
					}()
					if m.PlanModel && planDiff == "" {
						planDiff = ComparePlanModel(obs, &pm, i)
					}
					if d, _ := Compare(m, c, obs, &mr, isMut); d != "" || planDiff != "" {
						break
					}
				}
			}
		} else {
			obs = RunReal(c, doc, built, rt, rep)
			for _, e := range obs.Log {
				if e.CtxTag != rep {
					obs.InfoBad = append(obs.InfoBad, e.Field+": resolver did not receive the caller's context")
				}
			}
			for _, t := range obs.TypeCtx {
				if t != rep {
					obs.InfoBad = append(obs.InfoBad, fmt.Sprintf("a ResolveType / IsTypeOf call did not receive the caller's context (saw %v)", t))
					break
				}
			}
			if m.PlanModel && planDiff == "" {
				planDiff = ComparePlanModel(obs, &pm, 0)
			}
		}
		if d, _ := Compare(m, c, obs, &mr, isMut); d != "" || planDiff != "" {
			break
		}
	}
	diff, kf := Compare(m, c, obs, &mr, isMut)
	if m.PlanModel {
		run.Tag("plan-model-compared")
		if pm.Dynamic {
			run.Tag("plan-specialised-per-request")
		}
		if len(pm.MemoKeys) > 0 {
			run.Tag("plan-lazy-subplans")
		}
		for _, e := range pm.Events {
			if e.K == "force" {
				run.Tag("plan-model-forces-closure")
				break
			}
		}
	}
	if m.Conformance && obs.Class == "result" && obs.Data != nil && mr.Class == "result" {
		// C04: the Conforms checker (GqlModel/Conforms.lean, proved sound) on the REAL executor's data
		var cr modelResp
		req["checkData"] = obs.Data
		if err := drv.Ask(req, &cr); err != nil {
			run.CheckError(err.Error())
			return
		}
		delete(req, "checkData")
		switch {
		case cr.Conforms == nil:
			run.CheckError("driver does not implement the checkData op")
			return
		case !*cr.Conforms:
			run.Tag("real-data-nonconformant")
			if diff == "" {
				diff = "real response does not conform to schema and query"
			} else {
				diff = "real response does not conform to schema and query; " + diff
			}
			kf = false
		default:
			run.Tag("real-data-conforms")
		}
	}
	// bookkeeping
	run.Tag("entry:" + c.Entry)
	run.Tag("class:" + mr.Class)
	if isMut {
		run.Tag("mutation")
	}
	if c.Schema.Mutation != nil && *c.Schema.Mutation == c.Schema.Query {
		run.Tag("sharedRootObject")
		if isMut && len(topLevelOrder(mr.Log)) >= 2 && worldHasThunk(c.World) {
			run.Tag("sharedRootObject:mutation-2+-top-level-fields-with-thunks")
		}
	}
	if len(mr.ErrPaths) > 0 {
		run.Tag("has-field-errors")
	}
	if mr.Class == "result" && mr.Data == nil {
		run.Tag("data-null")
	}
	for _, m := range obs.ErrMsgs {
		if strings.Contains(m, "cannot represent this value") || strings.Contains(m, "unhashable") {
			run.Tag("leaf-serialiser-panicked")
			break
		}
	}
	if worldHasThunk(c.World) {
		run.Tag("world-has-thunk")
	}
	if worldHasNestedThunk(c.World) {
		run.Tag("world-has-nested-thunk")
	}
	if strings.Contains(c.Query, "@skip") || strings.Contains(c.Query, "@include") {
		run.Tag("doc-has-skip-include")
	}
	if strings.Contains(c.Query, "...") {
		run.Tag("doc-has-fragments")
	}
	if len(reachedFrags) < len(allFrags) {
		// some fragment definition is spread only by an operation that is not the selected one
		run.Tag("unreachableFragments")
		if len(obs.Log) > 0 {
			run.Tag("unreachableFragments:seen-by-resolvers")
		}
		if len(obs.TypeCtx) > 0 {
			run.Tag("unreachableFragments:seen-by-ResolveType/IsTypeOf")
		}
		if strings.Contains(c.Query, "VerifExtraDeep") {
			run.Tag("unreachableFragments:appended-operation")
		}
	}
	if strings.Contains(c.Query, "fragment M0 ") {
		run.Tag("doc-has-merge-pattern")
	}
	if c.Reuse > 1 {
		run.Tag("plan-reused")
	}
	if _, made := c.goVars(); made > 0 {
		run.Tag("typedSliceVars")
	}
	nontrivial := len(mr.Log) >= 2 && (len(mr.ErrPaths) > 0 || strings.Contains(c.Query, "...") || strings.Contains(c.Query, "@"))
	run.Case(c.Query+"|"+hx.Canon(c.Vars)+"|"+hx.Canon(c.World)+"|"+c.Entry, nontrivial,
		map[string]interface{}{"query": gen.Describe(c.Query), "opName": c.OpName, "vars": c.Vars, "entry": c.Entry, "resolverCalls": len(mr.Log), "errors": len(mr.ErrPaths)})
	if planDiff != "" {
		// the implementation model is bug-faithful: a disagreement with it is never the known finding
		run.Violation("real executor vs implementation model (GqlModel/Plan.lean): "+planDiff,
			map[string]interface{}{"case": c, "real": obs, "planModel": pm, "model": mr}, false)
		return
	}
	if kf {
		run.KnownFinding("nonNullThunkFailure", "a deferred value (thunk) that fails or yields null under a non-null type nulls the whole response instead of the nearest nullable ancestor (D-04c)")
		return
	}
	if diff != "" {
		run.Violation(diff, map[string]interface{}{"case": c, "real": obs, "model": mr}, false)
	}
}

// Main is the body of the per-property commands.
func Main(m Mode, quick, thorough int) {
	run := hx.Begin(m.Prop)
	drv, err := hx.StartDriver(run.DriverBin)
	if err != nil {
		run.CheckError("cannot start driver: " + err.Error())
		run.Finish()
		return
	}
	defer drv.Close()
	run.Res.Rule = "schema from gen.SchemaGen x valid document from gen.ValidDoc (aliases, duplicated response keys, fragments, inline fragments, literal and variable-driven @skip/@include, variables, several operations) x conformant variables x generated resolver world (values, nil, typed nil, NaN/Inf, wrong kinds, errors, value+error, panics, thunks, failing thunks, non-possible runtime types) x entry point Do / Execute / PlanQuery+ExecutePlan; non-trivial = at least 2 resolver calls and (a field error or a fragment or a directive); distinct by (query, vars, world, entry)"
	if run.ReplayIn != "" {
		var rp struct {
			Case Case `json:"case"`
		}
		if err := hx.LoadReplay(run.ReplayIn, &rp); err != nil {
			run.CheckError(err.Error())
		} else {
			One(run, drv, m, &rp.Case)
		}
		run.Finish()
		return
	}
	n := run.N(quick, thorough)
	for i := 0; i < n && !run.TooManyViolations(); i++ {
		r := hx.Fork(run.Seed, i)
		One(run, drv, m, GenCase(r, m))
	}
	run.Finish()
}
