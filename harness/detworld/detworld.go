// Package detworld is a resolver world for gq.SchemaDesc schemas whose answers are a pure function of
// (response path, field, arguments, world seed): no state, no clocks, no map iteration. The C12 harness needs
// it so that the only possible source of differing responses is the library; the C07 harness so that the
// sequential baseline is what every concurrent request must reproduce.
package detworld

import (
	"encoding/json"
	"errors"
	"fmt"
	"hash/fnv"
	"strings"

	"github.com/graphql-go/graphql"

	"verif/harness/gq"
)

// Node is the source value of an object-typed field: the runtime type and the seed its children derive from.
type Node struct {
	RT   string
	Seed uint64
}

type World struct {
	Desc   *gq.SchemaDesc
	Seed   uint64
	Errors bool // some resolvers fail, some return null
	Thunks bool // some resolvers return func() (interface{}, error)
	// AllThunks makes every resolver return a thunk (stress for the dethunking order)
	AllThunks bool
	// FailLeaves makes every resolver of a leaf-typed (scalar / enum) field fail: many errors per response
	FailLeaves bool
	// MutateArgs makes every resolver modify the argument values it received IN PLACE after reading them (maps: add and
	// overwrite keys; lists: reverse, overwrite; recursively) — what a resolver that normalises its input does. The
	// library must hand every call its own copy, so this must not change any response.
	MutateArgs bool
	fields     map[string]*gq.FieldDesc
}

func New(desc *gq.SchemaDesc, seed uint64) *World {
	w := &World{Desc: desc, Seed: seed, fields: map[string]*gq.FieldDesc{}}
	for i := range desc.Types {
		t := &desc.Types[i]
		for j := range t.Fields {
			w.fields[t.Name+"."+t.Fields[j].Name] = &t.Fields[j]
		}
	}
	return w
}

func mix(a uint64, s string) uint64 {
	h := fnv.New64a()
	var b [8]byte
	for i := 0; i < 8; i++ {
		b[i] = byte(a >> (8 * i))
	}
	h.Write(b[:])
	h.Write([]byte(s))
	x := h.Sum64()
	x ^= x >> 31
	x *= 0x9E3779B97F4A7C15
	x ^= x >> 29
	return x
}

func (w *World) value(te *gq.TypeExpr, seed uint64, depth int) interface{} {
	switch te.Kind {
	case "nonNull":
		return w.value(te.Of, seed, depth)
	case "list":
		n := int(seed % 4)
		out := make([]interface{}, 0, n)
		for i := 0; i < n; i++ {
			out = append(out, w.value(te.Of, mix(seed, fmt.Sprint("#", i)), depth+1))
		}
		return out
	}
	switch te.Name {
	case "Int":
		return int(seed % 11)
	case "Float":
		return float64(seed%9) + 0.5
	case "String":
		return fmt.Sprintf("s%d", seed%13)
	case "ID":
		return fmt.Sprintf("id%d", seed%5)
	case "Boolean":
		return seed%2 == 0
	}
	td := w.Desc.Type(te.Name)
	if td == nil {
		return nil
	}
	switch td.Kind {
	case "ENUM":
		if len(td.Values) == 0 {
			return nil
		}
		ev := td.Values[int(seed%uint64(len(td.Values)))]
		if ev.Internal == nil {
			return ev.Name // the library uses the name as internal value when none is configured
		}
		return gq.FromWire(ev.Internal)
	case "SCALAR":
		if len(td.Serialize) > 0 {
			return gq.FromWire(td.Serialize[int(seed%uint64(len(td.Serialize)))][0])
		}
		return int(seed % 3)
	case "OBJECT":
		return &Node{RT: td.Name, Seed: seed}
	case "INTERFACE", "UNION":
		ps := w.Desc.PossibleTypes(td.Name)
		if len(ps) == 0 {
			return nil
		}
		return &Node{RT: ps[int(seed%uint64(len(ps)))], Seed: seed}
	}
	return nil
}

// Resolve is the resolver of every field of every object type.
func (w *World) Resolve(p graphql.ResolveParams) (interface{}, error) {
	parent := w.Seed
	if n, ok := p.Source.(*Node); ok && n != nil {
		parent = n.Seed
	}
	pt := ""
	if p.Info.ParentType != nil {
		pt = p.Info.ParentType.Name()
	}
	fd := w.fields[pt+"."+p.Info.FieldName]
	if fd == nil {
		return nil, nil
	}
	ab, _ := json.Marshal(gq.ToWire(p.Args)) // sorted keys
	seed := mix(mix(parent, pt+"."+p.Info.FieldName), string(ab))
	if w.MutateArgs {
		for _, v := range p.Args {
			mutateInPlace(v)
		}
		// the defaulting idiom, also on an empty argument map; the value names the writer, so that a map shared between
		// calls shows up in what later calls see
		p.Args["zz_added_by_resolver"] = pt + "." + p.Info.FieldName
	}
	te, err := gq.ParseType(fd.Type)
	if err != nil {
		return nil, err
	}
	mode := seed >> 40
	var val interface{}
	var rerr error
	leaf := false
	if named := te.NamedName(); named != "" {
		td := w.Desc.Type(named)
		leaf = td == nil || td.Kind == "ENUM" || td.Kind == "SCALAR"
	}
	switch {
	case w.FailLeaves && leaf:
		rerr = errors.New("fail " + pt + "." + p.Info.FieldName)
	case w.Errors && mode%9 == 0:
		rerr = errors.New("boom " + pt + "." + p.Info.FieldName)
	case w.Errors && mode%9 == 1:
		val = nil
	case len(p.Info.FieldName) >= 4 && p.Info.FieldName[:4] == "echo" && te.NamedName() == "String" && te.Kind != "list":
		val = string(ab) // what this call received, before the resolver touched it
	default:
		val = w.value(te, seed, 0)
	}
	if strings.HasPrefix(p.Info.FieldName, "zeta") {
		// fields named zeta… always produce Zeta nodes (the specific type of the overlapping pair Zeta / AnyStaff)
		switch x := val.(type) {
		case *Node:
			x.RT = "Zeta"
		case []interface{}:
			for _, e := range x {
				if n, ok := e.(*Node); ok {
					n.RT = "Zeta"
				}
			}
			if len(x) == 0 {
				val = []interface{}{&Node{RT: "Zeta", Seed: seed}, &Node{RT: "AnyStaff", Seed: seed + 1}}
			}
		}
	}
	if w.AllThunks || (w.Thunks && (seed>>50)%4 == 0) {
		v, e := val, rerr
		return func() (interface{}, error) { return v, e }, nil
	}
	return val, rerr
}

// mutateInPlace changes a coerced argument value where it lies.
func mutateInPlace(v interface{}) {
	switch x := v.(type) {
	case map[string]interface{}:
		for _, e := range x {
			mutateInPlace(e)
		}
		for k := range x {
			switch x[k].(type) {
			case map[string]interface{}, []interface{}:
			default:
				x[k] = "overwritten"
			}
		}
		x["zz_added_by_resolver"] = 1
	case []interface{}:
		for _, e := range x {
			mutateInPlace(e)
		}
		for i, j := 0, len(x)-1; i < j; i, j = i+1, j-1 {
			x[i], x[j] = x[j], x[i]
		}
		for i := range x {
			switch x[i].(type) {
			case map[string]interface{}, []interface{}:
			default:
				x[i] = "overwritten"
			}
		}
	}
}

// Hooks wires the world into gq.Build.
func (w *World) Hooks() gq.Hooks {
	return gq.Hooks{
		Resolve: func(typeName, fieldName string) graphql.FieldResolveFn { return w.Resolve },
		ResolveType: func(abstractName string, objects map[string]*graphql.Object) graphql.ResolveTypeFn {
			return func(p graphql.ResolveTypeParams) *graphql.Object {
				if n, ok := p.Value.(*Node); ok && n != nil {
					return objects[n.RT]
				}
				return nil
			}
		},
		IsTypeOf: func(objName string) graphql.IsTypeOfFn {
			// objects named Any… are catch-alls: their IsTypeOf accepts every node (overlapping predicates; which type an
			// abstract field without ResolveType resolves to then depends on the ORDER of its possible types)
			catchAll := strings.HasPrefix(objName, "Any")
			return func(p graphql.IsTypeOfParams) bool {
				n, ok := p.Value.(*Node)
				return ok && n != nil && (catchAll || n.RT == objName)
			}
		},
	}
}

// Wide is a hand-written schema in which every map the library ranges over has at least four entries:
// 4 arguments, 4 enum values, 4 input fields, 4 interface fields, 4 implementers, a 4-member union, a directive
// with 4 arguments, an input object used ONLY by a directive argument, nested abstract fields.
// echoArgs: arguments with composite DEFAULT values (list, nested list, input object with a nested one, list of input
// objects) next to a plain one that requests supply through a variable.
func echoArgs() []gq.ArgDesc {
	obj := func(kv ...interface{}) map[string]interface{} {
		m := map[string]interface{}{}
		for i := 0; i+1 < len(kv); i += 2 {
			m[kv[i].(string)] = kv[i+1]
		}
		return m
	}
	return []gq.ArgDesc{
		{Name: "term", Type: "String"},
		{Name: "limit", Type: "Int", HasDef: true, Default: 10},
		{Name: "tags", Type: "[String]", HasDef: true, Default: []interface{}{"b", "a", "c"}},
		{Name: "grid", Type: "[[Int]]", HasDef: true, Default: []interface{}{[]interface{}{2, 1}, []interface{}{3}}},
		{Name: "opts", Type: "In", HasDef: true, Default: obj("a", 1, "b", 2, "e", obj("a", 5))},
		{Name: "ins", Type: "[In]", HasDef: true, Default: []interface{}{obj("a", 2), obj("a", 1, "e", obj("b", 3))}},
	}
}

func Wide() *gq.SchemaDesc {
	intArgs := func(names ...string) []gq.ArgDesc {
		var as []gq.ArgDesc
		for _, n := range names {
			as = append(as, gq.ArgDesc{Name: n, Type: "Int!"})
		}
		return as
	}
	ifaceFields := []gq.FieldDesc{{Name: "w", Type: "Int"}, {Name: "x", Type: "String"}, {Name: "y", Type: "Color"}, {Name: "z", Type: "Node"},
		{Name: "old", Type: "Int", Deprecation: "gone"}}
	s := &gq.SchemaDesc{Query: "Q"}
	s.Types = append(s.Types,
		gq.TypeDesc{Kind: "ENUM", Name: "Color", Values: []gq.EnumValDesc{{Name: "RED", Internal: 0}, {Name: "GREEN", Internal: 1},
			{Name: "BLUE", Internal: 2}, {Name: "ALPHA", Internal: 3}, {Name: "OLD", Internal: 4, Deprecation: "gone"}}},
		gq.TypeDesc{Kind: "INPUT_OBJECT", Name: "In", InputFields: []gq.ArgDesc{{Name: "a", Type: "Int"}, {Name: "b", Type: "Int"},
			{Name: "c", Type: "Int", HasDef: true, Default: 3}, {Name: "d", Type: "Color"}, {Name: "e", Type: "In"}}},
		gq.TypeDesc{Kind: "INPUT_OBJECT", Name: "DirOnly", InputFields: []gq.ArgDesc{{Name: "p", Type: "Int"}, {Name: "q", Type: "Int"},
			{Name: "r", Type: "DirEnum"}, {Name: "s", Type: "Int"}}},
		gq.TypeDesc{Kind: "ENUM", Name: "DirEnum", Values: []gq.EnumValDesc{{Name: "K", Internal: "K"}, {Name: "L", Internal: "L"},
			{Name: "M", Internal: "M"}, {Name: "N", Internal: "N"}}},
		// a custom scalar whose coercion is NOT idempotent: "one" → 1, but 1 is not an accepted input
		gq.TypeDesc{Kind: "SCALAR", Name: "Code",
			Serialize:    [][2]interface{}{{1, "one"}, {2, "two"}, {3, "three"}},
			ParseValue:   [][2]interface{}{{"one", 1}, {"two", 2}, {"three", 3}},
			ParseLiteral: [][2]interface{}{{"one", 1}, {"two", 2}, {"three", 3}}},
		gq.TypeDesc{Kind: "INPUT_OBJECT", Name: "CodeIn", InputFields: []gq.ArgDesc{{Name: "colors", Type: "[Color!]"}, {Name: "codes", Type: "[Code]"},
			{Name: "grid", Type: "[[Color]]"}, {Name: "inner", Type: "CodeIn"}, {Name: "more", Type: "[CodeIn!]"}}},
		// two names per internal value, one value without internal value (the name is used), one aliasing that name
		gq.TypeDesc{Kind: "ENUM", Name: "Alias", Values: []gq.EnumValDesc{{Name: "RED", Internal: 0}, {Name: "CRIMSON", Internal: 0},
			{Name: "BLUE"}, {Name: "AZURE", Internal: "BLUE"}}},
		gq.TypeDesc{Kind: "INTERFACE", Name: "Node", Fields: ifaceFields, ResolveType: true},
		gq.TypeDesc{Kind: "INTERFACE", Name: "Typed", Fields: []gq.FieldDesc{{Name: "w", Type: "Int"}}}, // resolved through IsTypeOf
	)
	for _, n := range []string{"T1", "T2", "T3", "T4"} {
		fs := append([]gq.FieldDesc{}, ifaceFields...)
		fs = append(fs, gq.FieldDesc{Name: "me", Type: "String"}, gq.FieldDesc{Name: "u", Type: "U"}, gq.FieldDesc{Name: "kids", Type: "[Node!]"},
			gq.FieldDesc{Name: "nn", Type: "Int!"}, gq.FieldDesc{Name: "al", Type: "Alias"}, gq.FieldDesc{Name: "als", Type: "[Alias!]"},
			gq.FieldDesc{Name: "echoT", Type: "String", Args: echoArgs()}, gq.FieldDesc{Name: "echoNoArgsT", Type: "String"})
		s.Types = append(s.Types, gq.TypeDesc{Kind: "OBJECT", Name: n, Interfaces: []string{"Node", "Typed"}, Fields: fs, IsTypeOf: true})
	}
	s.Types = append(s.Types,
		gq.TypeDesc{Kind: "UNION", Name: "U", Members: []string{"T1", "T2", "T3", "T4"}, ResolveType: true},
		// abstract types WITHOUT ResolveType over objects with OVERLAPPING IsTypeOf: the specific type is declared first, the
		// catch-all second, and the names sort the other way round (AnyStaff < Zeta)
		gq.TypeDesc{Kind: "INTERFACE", Name: "Role", Fields: []gq.FieldDesc{{Name: "name", Type: "String"}}},
		gq.TypeDesc{Kind: "OBJECT", Name: "Zeta", Interfaces: []string{"Role"}, IsTypeOf: true,
			Fields: []gq.FieldDesc{{Name: "name", Type: "String"}, {Name: "reports", Type: "Int"}, {Name: "old", Type: "Int", Deprecation: "gone"}}},
		gq.TypeDesc{Kind: "OBJECT", Name: "AnyStaff", Interfaces: []string{"Role"}, IsTypeOf: true,
			Fields: []gq.FieldDesc{{Name: "name", Type: "String"}, {Name: "desk", Type: "Int"}}},
		gq.TypeDesc{Kind: "UNION", Name: "Staff", Members: []string{"Zeta", "AnyStaff"}},
		gq.TypeDesc{Kind: "OBJECT", Name: "Q", Fields: []gq.FieldDesc{
			{Name: "f", Type: "Int", Args: []gq.ArgDesc{{Name: "o", Type: "In"}}},
			{Name: "g", Type: "Int", Args: intArgs("p", "q", "r", "s")},
			{Name: "h", Type: "Color", Args: []gq.ArgDesc{{Name: "c", Type: "Color"}, {Name: "cs", Type: "[Color!]"}}},
			{Name: "a", Type: "Int"}, {Name: "b", Type: "Int"}, {Name: "c", Type: "Int"}, {Name: "d", Type: "Int"},
			{Name: "aa", Type: "Int"}, {Name: "ab", Type: "Int"}, {Name: "ac", Type: "Int"}, {Name: "ad", Type: "Int"},
			{Name: "node", Type: "Node"}, {Name: "nodes", Type: "[Node]"}, {Name: "typed", Type: "Typed"}, {Name: "u", Type: "U"}, {Name: "us", Type: "[U!]"},
			{Name: "t1", Type: "T1"}, {Name: "strict", Type: "T2!"},
			{Name: "alias", Type: "Alias", Args: []gq.ArgDesc{{Name: "x", Type: "Alias"}}}, {Name: "aliases", Type: "[Alias]"},
			{Name: "echoCodes", Type: "String", Args: []gq.ArgDesc{{Name: "colors", Type: "[Color!]"}, {Name: "codes", Type: "[Code!]"}, {Name: "grid", Type: "[[Code]]"},
				{Name: "in", Type: "CodeIn"}, {Name: "ins", Type: "[CodeIn]"}, {Name: "aliases", Type: "[Alias]"}}},
			{Name: "echo", Type: "String", Args: echoArgs()}, {Name: "echoNoArgs", Type: "String"}, {Name: "echoNoArgs2", Type: "String"},
			{Name: "staff", Type: "Staff"}, {Name: "staffs", Type: "[Staff!]"}, {Name: "role", Type: "Role"}, {Name: "zeta", Type: "Zeta"},
			{Name: "zetaStaff", Type: "Staff"}, {Name: "zetaStaffs", Type: "[Staff!]"}, {Name: "zetaRole", Type: "Role"},
		}},
		gq.TypeDesc{Kind: "OBJECT", Name: "M", Fields: []gq.FieldDesc{{Name: "echoM", Type: "String", Args: echoArgs()}, {Name: "m1", Type: "T1"}, {Name: "m2", Type: "Int"}, {Name: "m3", Type: "Node"}, {Name: "m4", Type: "Int"}}},
	)
	m := "M"
	s.Mutation = &m
	s.Directives = []gq.DirectiveDesc{
		{Name: "d", Locations: []string{"FIELD"}, Args: intArgs("p", "q", "r", "s")},
		{Name: "cfg", Locations: []string{"FIELD", "QUERY"}, Args: []gq.ArgDesc{{Name: "o", Type: "DirOnly"}, {Name: "e", Type: "DirEnum"}}},
	}
	return s
}
