package cycfam

// Family "cyclicBareFirst": fragment tables with cycles THROUGH FIELDS in which some occurrences of the composite field
// are BARE (no selection set: invalid, but the parser accepts it) and stand before / after the occurrences that carry a
// sub-selection - in the operation's selection set, in fragment bodies and one level down. A response key of composite
// type is then MERGED from occurrences with and without a sub-selection, each with its own chain of enclosing fragments
// (fieldPlan.fieldASTs / fieldPlan.astChains in plan.go): the descent-path guard of Plan.collectInto has to look at the
// chain of the occurrence whose sub-selection it is collecting. The documents only reach planning / execution when
// validation is bypassed (Execute, PlanQuery + ExecutePlan), and they only show a missing guard on data that does not
// end by itself (cmd/c09: schema hand/endless).
//
// Selection-set alphabet of the exhaustively enumerated core (one fragment F0 on the object type that SUB returns):
//
//	B    SUB                  the bare composite field
//	S    ...F0                a spread
//	P    LEAF                 a plain field
//	Ka   SUB { ...F0 }        the field with a sub-selection that spreads the fragment (the cycle through the field)
//	Kb   SUB { SUB ...F0 }    ... with the bare field BEFORE the spread one level down
//	Kc   SUB { ...F0 SUB }    ... with the bare field AFTER the spread
//
// document = { ROOT { <sequence> } } fragment F0 on COND { <sequence> }, sequence = ordered choice of 1..k distinct
// letters (ALL orders). The random members have 2-3 fragments, any type condition, several composite fields (object,
// interface, union, list), the colliding alias `x`, inline fragments and one more level of nesting.

import (
	"fmt"
	"strings"

	"verif/harness/hx"
)

const BareTag = "cyclicBareFirst"

// BareVocab names the schema-specific pieces.
type BareVocab struct {
	Root  []string // composite fields of the query root; Root[0] returns the object type Conds[0]
	Conds []string // type conditions; Conds[0] = the object type that Sub[0] returns
	Sub   []string // composite fields that exist on every type of Conds; Sub[0] returns Conds[0] itself
	Leaf  string   // a scalar field that exists on every type of Conds
}

const (
	bBare = iota
	bSub
	bSpread
	bInline
	bLeaf
)

type bsel struct {
	kind  int
	alias string
	name  string
	frag  int
	cond  string // inline fragment: "" = no type condition
	sel   []bsel
}

func (s bsel) key() string {
	if s.alias != "" {
		return s.alias
	}
	return s.name
}

func renderSet(sel []bsel) string {
	parts := make([]string, 0, len(sel))
	for _, s := range sel {
		parts = append(parts, s.render())
	}
	return "{ " + strings.Join(parts, " ") + " }"
}

func (s bsel) render() string {
	name := s.name
	if s.alias != "" {
		name = s.alias + ": " + s.name
	}
	switch s.kind {
	case bBare, bLeaf:
		return name
	case bSub:
		return name + " " + renderSet(s.sel)
	case bSpread:
		return fmt.Sprintf("...F%d", s.frag)
	default:
		if s.cond != "" {
			return "... on " + s.cond + " " + renderSet(s.sel)
		}
		return "... " + renderSet(s.sel)
	}
}

type bfrag struct {
	cond string
	body []bsel
}

func renderBare(root string, op []bsel, frags []bfrag, extra ...string) Doc {
	parts := []string{"{ " + root + " " + renderSet(op) + " }"}
	for i, f := range frags {
		parts = append(parts, fmt.Sprintf("fragment F%d on %s %s", i, f.cond, renderSet(f.body)))
	}
	return Doc{Src: strings.Join(parts, " "), N: len(frags), Tags: append(classifyBare(op, frags), extra...)}
}

// occurrence of a response key in a selection set as execution merges it (spreads followed, every fragment once)
type bocc struct {
	key    string
	bare   bool // a composite field without a selection set
	sub    bool
	inFrag bool
}

func flattenBare(sel []bsel, frags []bfrag, visited map[int]bool, inFrag bool, out *[]bocc) {
	for _, s := range sel {
		switch s.kind {
		case bBare:
			*out = append(*out, bocc{s.key(), true, false, inFrag})
		case bSub:
			*out = append(*out, bocc{s.key(), false, true, inFrag})
		case bLeaf:
			*out = append(*out, bocc{s.key(), false, false, inFrag})
		case bInline:
			flattenBare(s.sel, frags, visited, inFrag, out)
		case bSpread:
			if s.frag < len(frags) && !visited[s.frag] {
				visited[s.frag] = true
				flattenBare(frags[s.frag].body, frags, visited, true, out)
			}
		}
	}
}

func classifyBare(op []bsel, frags []bfrag) []string {
	n := len(frags)
	tags := map[string]bool{}
	// spread graph: edge i -> j, through[i][j] = some spread of j in the body of i sits below a field
	all := make([][]bool, n)
	through := make([][]bool, n)
	for i := range all {
		all[i] = make([]bool, n)
		through[i] = make([]bool, n)
	}
	var edges func(i int, sel []bsel, below bool)
	edges = func(i int, sel []bsel, below bool) {
		for _, s := range sel {
			switch s.kind {
			case bSpread:
				if s.frag < n {
					all[i][s.frag] = true
					if below {
						through[i][s.frag] = true
					}
				}
			case bSub:
				edges(i, s.sel, true)
			case bInline:
				edges(i, s.sel, below)
			}
		}
	}
	for i, f := range frags {
		edges(i, f.body, false)
	}
	reach := make([][]bool, n)
	for i := range reach {
		reach[i] = append([]bool{}, all[i]...)
	}
	for k := 0; k < n; k++ {
		for i := 0; i < n; i++ {
			for j := 0; j < n; j++ {
				if reach[i][k] && reach[k][j] {
					reach[i][j] = true
				}
			}
		}
	}
	cyclic, fieldCycle := false, false
	for i := 0; i < n; i++ {
		if reach[i][i] {
			cyclic = true
		}
		for j := 0; j < n; j++ {
			if through[i][j] && (i == j || reach[j][i]) {
				fieldCycle = true
			}
		}
	}
	// every selection set written in the document, merged the way execution merges it
	var sets func(sel []bsel, inFrag bool, depth int)
	sets = func(sel []bsel, inFrag bool, depth int) {
		var occ []bocc
		flattenBare(sel, frags, map[int]bool{}, inFrag, &occ)
		for i, a := range occ {
			for _, b := range occ[i+1:] {
				if a.key != b.key {
					continue
				}
				if a.bare && b.sub {
					tags["merged-bare-then-sub"] = true
					if !a.inFrag && b.inFrag {
						tags["bare-outside-then-sub-in-fragment"] = true
					}
				}
				if a.sub && b.bare {
					tags["merged-sub-then-bare"] = true
				}
			}
		}
		for _, s := range sel {
			switch s.kind {
			case bBare:
				switch {
				case depth > 0:
					tags["bare-nested"] = true
				case inFrag:
					tags["bare-in-fragment"] = true
				default:
					tags["bare-in-operation"] = true
				}
			case bSub:
				sets(s.sel, inFrag, depth+1)
			case bInline:
				tags["inline"] = true
				sets(s.sel, inFrag, depth)
			}
		}
	}
	sets(op, false, 0)
	for _, f := range frags {
		sets(f.body, true, 0)
	}
	out := []string{BareTag, fmt.Sprintf("%s:N=%d", BareTag, n)}
	if cyclic {
		out = append(out, BareTag+":cyclic")
	} else {
		out = append(out, BareTag+":acyclic")
	}
	if fieldCycle {
		out = append(out, BareTag+":cycle-through-field")
	}
	if !tags["bare-nested"] && !tags["bare-in-fragment"] && !tags["bare-in-operation"] {
		out = append(out, BareTag+":no-bare-field")
	}
	for _, t := range []string{"bare-in-operation", "bare-in-fragment", "bare-nested", "merged-bare-then-sub", "merged-sub-then-bare", "bare-outside-then-sub-in-fragment", "inline"} {
		if tags[t] {
			out = append(out, BareTag+":"+t)
		}
	}
	if fieldCycle && tags["bare-outside-then-sub-in-fragment"] {
		out = append(out, BareTag+":bare-first-outside-cycle-through-field")
	}
	return out
}

// the six letters of the exhaustive core
func bareLetters(v BareVocab) []bsel {
	sub := v.Sub[0]
	b := bsel{kind: bBare, name: sub}
	s := bsel{kind: bSpread, frag: 0}
	return []bsel{
		b,
		s,
		{kind: bLeaf, name: v.Leaf},
		{kind: bSub, name: sub, sel: []bsel{s}},
		{kind: bSub, name: sub, sel: []bsel{b, s}},
		{kind: bSub, name: sub, sel: []bsel{s, b}},
	}
}

// ordered choices of 1..max distinct letters
func bareSeqs(letters []bsel, max int) [][]bsel {
	var out [][]bsel
	var rec func(cur []bsel, used int)
	rec = func(cur []bsel, used int) {
		if len(cur) > 0 {
			out = append(out, append([]bsel{}, cur...))
		}
		if len(cur) == max {
			return
		}
		for i, l := range letters {
			if used&(1<<uint(i)) == 0 {
				rec(append(cur, l), used|1<<uint(i))
			}
		}
	}
	rec(nil, 0)
	return out
}

// BareExhaustive1 = every document { ROOT { s } } fragment F0 on COND { t } with s, t ordered choices of at most opMax /
// bodyMax distinct letters (156 sequences for 3, 36 for 2).
func BareExhaustive1(v BareVocab, opMax, bodyMax int) []Doc {
	letters := bareLetters(v)
	ops, bodies := bareSeqs(letters, opMax), bareSeqs(letters, bodyMax)
	out := make([]Doc, 0, len(ops)*len(bodies))
	tag := fmt.Sprintf("%s:exhaustive-N=1-op%d-body%d", BareTag, opMax, bodyMax)
	for _, op := range ops {
		for _, body := range bodies {
			out = append(out, renderBare(v.Root[0], op, []bfrag{{v.Conds[0], body}}, tag))
		}
	}
	return out
}

// BareFixed: hand-written members (the shape of seeded change C09-13 and its neighbours with two fragments / an
// abstract field / a list in the cycle).
func BareFixed(v BareVocab) []Doc {
	sub, c0 := v.Sub[0], v.Conds[0]
	b := bsel{kind: bBare, name: sub}
	sp := func(j int) bsel { return bsel{kind: bSpread, frag: j} }
	k := func(name string, sel ...bsel) bsel { return bsel{kind: bSub, name: name, sel: sel} }
	var out []Doc
	add := func(root string, op []bsel, frags ...bfrag) {
		out = append(out, renderBare(root, op, frags, BareTag+":fixed"))
	}
	add(v.Root[0], []bsel{b, sp(0)}, bfrag{c0, []bsel{k(sub, b, sp(0))}})
	add(v.Root[0], []bsel{b, sp(0)}, bfrag{c0, []bsel{k(sub, b, sp(1))}}, bfrag{c0, []bsel{k(sub, b, sp(0))}})
	add(v.Root[0], []bsel{b, b, sp(0)}, bfrag{c0, []bsel{k(sub, b, b, sp(0))}})
	add(v.Root[0], []bsel{b, sp(1)}, bfrag{c0, []bsel{k(sub, b, sp(1))}}, bfrag{c0, []bsel{sp(0)}})
	for _, other := range v.Sub[1:] {
		bo := bsel{kind: bBare, name: other}
		add(v.Root[0], []bsel{bo, sp(0)}, bfrag{c0, []bsel{k(other, bo, sp(0))}})
		add(v.Root[0], []bsel{{kind: bBare, alias: "x", name: sub}, sp(0)}, bfrag{c0, []bsel{{kind: bSub, alias: "x", name: other, sel: []bsel{{kind: bBare, alias: "x", name: sub}, sp(0)}}}})
	}
	for _, cond := range v.Conds[1:] {
		add(v.Root[0], []bsel{b, sp(0)}, bfrag{cond, []bsel{k(sub, b, sp(0))}})
		add(v.Root[0], []bsel{b, {kind: bInline, cond: cond, sel: []bsel{sp(0)}}}, bfrag{c0, []bsel{k(sub, b, bsel{kind: bInline, sel: []bsel{sp(0)}})}})
	}
	return out
}

// BareRandom draws a table of n fragments: any root field, any type condition, every composite field (also under the
// colliding alias x), bare occurrences before and after the ones with a sub-selection, inline fragments, nesting <= 2.
func BareRandom(v BareVocab, r *hx.Rng, n int) Doc {
	field := func() (alias, name string) {
		name = v.Sub[0]
		if r.Chance(1, 3) {
			name = r.Pick(v.Sub)
		}
		if r.Chance(1, 5) {
			alias = "x"
		}
		return
	}
	var set func(depth int, wantSpread bool) []bsel
	set = func(depth int, wantSpread bool) []bsel {
		var out []bsel
		k := r.Range(1, 3)
		if depth == 0 {
			k = r.Range(1, 4)
		}
		for i := 0; i < k; i++ {
			switch x := r.Intn(10); {
			case x < 3:
				a, nm := field()
				out = append(out, bsel{kind: bBare, alias: a, name: nm})
			case x < 6 && depth < 2:
				a, nm := field()
				out = append(out, bsel{kind: bSub, alias: a, name: nm, sel: set(depth+1, r.Chance(3, 4))})
			case x < 8:
				out = append(out, bsel{kind: bSpread, frag: r.Intn(n)})
			case x < 9 && depth < 2:
				c := ""
				if r.Chance(2, 3) {
					c = r.Pick(v.Conds)
				}
				out = append(out, bsel{kind: bInline, cond: c, sel: set(depth+1, false)})
			default:
				out = append(out, bsel{kind: bLeaf, name: v.Leaf})
			}
		}
		if wantSpread {
			sp := bsel{kind: bSpread, frag: r.Intn(n)}
			at := r.Intn(len(out) + 1)
			out = append(out[:at], append([]bsel{sp}, out[at:]...)...)
		}
		return out
	}
	frags := make([]bfrag, n)
	for i := range frags {
		c := v.Conds[0]
		if r.Chance(1, 3) {
			c = r.Pick(v.Conds)
		}
		frags[i] = bfrag{c, set(0, false)}
	}
	root := v.Root[0]
	if r.Chance(1, 3) {
		root = r.Pick(v.Root)
	}
	return renderBare(root, set(0, true), frags, BareTag+":random")
}
