// Package cycfam generates the document family "cyclicMixedExclusive": cyclic fragment tables over a schema with an
// abstract field (interface / union with at least two object members), fragments on DIFFERENT object types and on the
// same type spread side by side below that field. Each fragment body is drawn from a small alphabet:
//
//	K_j   x: SUB { ...Fj }   a field under the colliding response key `x` whose sub-selection spreads fragment j
//	                         (j may be the fragment itself: a cycle through a field)
//	S_j   ...Fj              a direct spread (cycles of length 1-3 at selection-set level)
//	P     LEAF / x: LEAF     a plain field
//
// Two fragments on different object types that both select `x` make the overlap rule compare the pair of fragments
// spread below `x` with areMutuallyExclusive = true, while the same pair spread side by side at the top is compared with
// areMutuallyExclusive = false: the fragment-pair memo (pairSet) is then asked about one pair under both flags, in the
// middle of a cycle. Used by cmd/c09 (termination of ValidateDocument / Do in a child process) and cmd/c02overlap
// (step counters and conflicts, real code = Lean model).
package cycfam

import (
	"fmt"
	"strings"

	"verif/harness/hx"
)

// Vocab names the schema-specific pieces.
type Vocab struct {
	Root  []string // fields of the query root whose type is abstract (the fragments are spread side by side below one of them)
	Conds []string // type conditions; the first NObj are pairwise different OBJECT types, the rest abstract types containing them
	NObj  int
	Sub   []string // composite-typed fields that exist on every type of Conds (selected under the alias x); Sub[0] is the default
	Leaf  string   // a scalar field that exists on every type of Conds
}

type frag struct {
	cond   int
	k      []int  // per target fragment j: -1 = no K_j, otherwise index into Vocab.Sub
	s      []bool // per target fragment j: S_j
	leaf   int    // 0 none, 1 LEAF, 2 x: LEAF
	sFirst bool   // direct spreads before the fields
}

func (f frag) empty() bool {
	for j := range f.k {
		if f.k[j] >= 0 || f.s[j] {
			return false
		}
	}
	return f.leaf == 0
}

// Doc is one member of the family.
type Doc struct {
	Src  string
	N    int
	Tags []string // classification for the histogram (all prefixed "cyclicMixedExclusive")
}

const Tag = "cyclicMixedExclusive"

func render(v Vocab, root string, use []bool, fs []frag) Doc {
	n := len(fs)
	var parts, ops []string
	for j := 0; j < n; j++ {
		if use[j] {
			ops = append(ops, fmt.Sprintf("...F%d", j))
		}
	}
	parts = append(parts, "{ "+root+" { "+strings.Join(ops, " ")+" } }")
	for i, f := range fs {
		var fields, spreads []string
		for j := 0; j < n; j++ {
			if f.k[j] >= 0 {
				fields = append(fields, fmt.Sprintf("x: %s { ...F%d }", v.Sub[f.k[j]], j))
			}
		}
		for j := 0; j < n; j++ {
			if f.s[j] {
				spreads = append(spreads, fmt.Sprintf("...F%d", j))
			}
		}
		switch f.leaf {
		case 1:
			fields = append(fields, v.Leaf)
		case 2:
			fields = append(fields, "x: "+v.Leaf)
		}
		sel := append(append([]string{}, fields...), spreads...)
		if f.sFirst {
			sel = append(append([]string{}, spreads...), fields...)
		}
		parts = append(parts, fmt.Sprintf("fragment F%d on %s { %s }", i, v.Conds[f.cond], strings.Join(sel, " ")))
	}
	return Doc{Src: strings.Join(parts, " "), N: n, Tags: classify(v, fs)}
}

// classify: which ingredients of the pair-memo scenario the fragment table has.
func classify(v Vocab, fs []frag) []string {
	n := len(fs)
	direct := make([][]bool, n) // S edges
	all := make([][]bool, n)    // S and K edges
	for i, f := range fs {
		direct[i] = make([]bool, n)
		all[i] = make([]bool, n)
		for j := 0; j < n; j++ {
			direct[i][j] = f.s[j]
			all[i][j] = f.s[j] || f.k[j] >= 0
		}
	}
	closure := func(a [][]bool) [][]bool {
		r := make([][]bool, n)
		for i := range r {
			r[i] = append([]bool{}, a[i]...)
		}
		for k := 0; k < n; k++ {
			for i := 0; i < n; i++ {
				for j := 0; j < n; j++ {
					if r[i][k] && r[k][j] {
						r[i][j] = true
					}
				}
			}
		}
		return r
	}
	dc, ac := closure(direct), closure(all)
	spreadCycle, fieldCycle, cyclic, exclusive := false, false, false, false
	for i := 0; i < n; i++ {
		if dc[i][i] {
			spreadCycle = true
		}
		if ac[i][i] {
			cyclic = true
		}
		for j := 0; j < n; j++ {
			if fs[i].k[j] >= 0 && (j == i || ac[j][i]) {
				fieldCycle = true
			}
		}
	}
	hasK := func(f frag) bool {
		for _, k := range f.k {
			if k >= 0 {
				return true
			}
		}
		return false
	}
	for i := 0; i < n; i++ {
		for j := i + 1; j < n; j++ {
			if fs[i].cond < v.NObj && fs[j].cond < v.NObj && fs[i].cond != fs[j].cond && hasK(fs[i]) && hasK(fs[j]) {
				exclusive = true
			}
		}
	}
	tags := []string{Tag, fmt.Sprintf("%s:N=%d", Tag, n)}
	if cyclic {
		tags = append(tags, Tag+":cyclic")
	} else {
		tags = append(tags, Tag+":acyclic")
	}
	if spreadCycle {
		tags = append(tags, Tag+":spread-cycle")
	}
	if fieldCycle {
		tags = append(tags, Tag+":cycle-through-field")
	}
	if exclusive {
		tags = append(tags, Tag+":x-below-different-object-types")
	}
	if spreadCycle && fieldCycle && exclusive {
		tags = append(tags, Tag+":all-three-ingredients")
	}
	return tags
}

// Count2 = size of the exhaustively enumerable space of two-fragment tables: each fragment has one of three type
// conditions (two different object types, one abstract type) and a non-empty subset of {K_0, K_1, S_0, S_1, P};
// both fragments are spread side by side below Root[0].
func Count2(v Vocab) int { return (3 * 31) * (3 * 31) }

// Exhaustive2 returns member idx (0 <= idx < Count2) of that space.
func Exhaustive2(v Vocab, idx int) Doc {
	conds := []int{0, 1, v.NObj} // two object types, the first abstract type
	fs := make([]frag, 2)
	for i := range fs {
		c := idx % 93
		idx /= 93
		mask := c/3 + 1
		f := frag{cond: conds[c%3], k: []int{-1, -1}, s: []bool{false, false}}
		for j := 0; j < 2; j++ {
			if mask&(1<<uint(j)) != 0 {
				f.k[j] = 0
			}
			f.s[j] = mask&(1<<uint(2+j)) != 0
		}
		if mask&16 != 0 {
			f.leaf = 1
		}
		fs[i] = f
	}
	return render(v, v.Root[0], []bool{true, true}, fs)
}

// Random draws a table of n fragments with the richer alphabet (every type condition, every Sub field under `x`,
// `x: LEAF`, spreads before or after the fields, any root field, at least two fragments spread side by side).
func Random(v Vocab, r *hx.Rng, n int) Doc {
	fs := make([]frag, n)
	for i := range fs {
		f := frag{cond: r.Intn(len(v.Conds)), k: make([]int, n), s: make([]bool, n), sFirst: r.Chance(1, 3)}
		if r.Chance(1, 2) { // favour the object types (exclusive parents need two different ones)
			f.cond = r.Intn(v.NObj)
		}
		for {
			for j := 0; j < n; j++ {
				f.k[j] = -1
				if r.Chance(1, 3) {
					f.k[j] = 0
					if r.Chance(1, 3) {
						f.k[j] = r.Intn(len(v.Sub))
					}
				}
				f.s[j] = r.Chance(1, 3)
			}
			f.leaf = 0
			if r.Chance(1, 3) {
				f.leaf = 1 + r.Intn(2)
				if r.Chance(2, 3) {
					f.leaf = 1
				}
			}
			if !f.empty() {
				break
			}
		}
		fs[i] = f
	}
	use := make([]bool, n)
	for j := range use {
		use[j] = true
	}
	if n > 2 && r.Chance(1, 2) {
		use[r.Intn(n)] = false
	}
	return render(v, r.Pick(v.Root), use, fs)
}
