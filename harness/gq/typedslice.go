package gq

import (
	"reflect"
	"sort"
)

// SliceTyper renders the lists of a request-variable value the way a Go caller builds them: as typed Go slices
// ([]string, []int, []float64, []bool, [][]int, [][]string, []map[string]interface{}, …) instead of the
// []interface{} that encoding/json delivers. The LOGICAL value is unchanged (the model keeps receiving the same
// JSON value): the library must look at list inputs through reflection and treat every slice type alike.
//
// A list whose already rendered items are all non-nil and of one concrete Go type becomes a slice of that type
// (so nesting gives [][]int, [][][]string, …); every 4th candidate stays []interface{} (typed slices inside a
// generic one); a list with nil or mixed items stays generic around typed inner lists; an empty list becomes an
// empty slice of some element type. Deterministic: the same value always gets the same rendering.
type SliceTyper struct {
	S    *SchemaDesc
	N    int // lists seen
	Made int // lists rendered as a typed slice
}

var emptySliceElems = []reflect.Type{reflect.TypeOf(""), reflect.TypeOf(0), reflect.TypeOf(map[string]interface{}{}),
	reflect.TypeOf([]int{}), reflect.TypeOf(0.5), reflect.TypeOf(true), reflect.TypeOf([]string{})}

func (t *SliceTyper) pack(items []interface{}) interface{} {
	t.N++
	if t.N%4 == 0 {
		return items
	}
	var et reflect.Type
	if len(items) == 0 {
		et = emptySliceElems[t.N%len(emptySliceElems)]
	}
	for _, e := range items {
		if e == nil {
			return items
		}
		x := reflect.TypeOf(e)
		if et != nil && x != et {
			return items
		}
		et = x
	}
	sl := reflect.MakeSlice(reflect.SliceOf(et), len(items), len(items))
	for i, e := range items {
		sl.Index(i).Set(reflect.ValueOf(e))
	}
	t.Made++
	return sl.Interface()
}

// Typed is directed by the declared type: only lists standing at a list-typed position are rendered (a list given
// where a leaf or an input object is expected stays as it is), input objects are descended by their field types.
func (t *SliceTyper) Typed(te *TypeExpr, v interface{}) interface{} {
	if v == nil || te == nil {
		return v
	}
	switch te.Kind {
	case "nonNull":
		return t.Typed(te.Of, v)
	case "list":
		xs, ok := v.([]interface{})
		if !ok {
			return t.Typed(te.Of, v) // list of one
		}
		out := make([]interface{}, len(xs))
		for i, e := range xs {
			out[i] = t.Typed(te.Of, e)
		}
		return t.pack(out)
	}
	m, ok := v.(map[string]interface{})
	if !ok || t.S == nil {
		return v
	}
	td := t.S.Type(te.Name)
	if td == nil || td.Kind != "INPUT_OBJECT" {
		return v
	}
	keys := make([]string, 0, len(m))
	for k := range m {
		keys = append(keys, k)
	}
	sort.Strings(keys)
	out := map[string]interface{}{}
	for _, k := range keys {
		var fe *TypeExpr
		for _, f := range td.InputFields {
			if f.Name == k {
				fe, _ = ParseType(f.Type)
			}
		}
		out[k] = t.Typed(fe, m[k])
	}
	return out
}

// Any is directed by the value alone (for conformant values, where every list stands at a list-typed position).
func (t *SliceTyper) Any(v interface{}) interface{} {
	switch x := v.(type) {
	case []interface{}:
		out := make([]interface{}, len(x))
		for i, e := range x {
			out[i] = t.Any(e)
		}
		return t.pack(out)
	case map[string]interface{}:
		keys := make([]string, 0, len(x))
		for k := range x {
			keys = append(keys, k)
		}
		sort.Strings(keys)
		out := map[string]interface{}{}
		for _, k := range keys {
			out[k] = t.Any(x[k])
		}
		return out
	}
	return v
}
