// Package gq builds a real graphql.Schema from the JSON schema description that is also sent to the
// Lean drivers (lean/Driver/SchemaJson.lean decodes the same JSON into GqlModel.Schema).
package gq

import (
	"encoding/json"
	"fmt"
	"math"
	"strings"

	"github.com/graphql-go/graphql"
	"github.com/graphql-go/graphql/language/ast"
	"github.com/graphql-go/graphql/language/printer"
)

// ---------------------------------------------------------------- description (wire format)

type ArgDesc struct {
	Name    string      `json:"name"`
	Type    string      `json:"type"`
	Default interface{} `json:"default,omitempty"` // wire JVal; absent = no default
	HasDef  bool        `json:"hasDefault"`
	Desc    string      `json:"desc"`
}

type FieldDesc struct {
	Name        string    `json:"name"`
	Type        string    `json:"type"`
	Args        []ArgDesc `json:"args"`
	Deprecation string    `json:"deprecation"`
	Desc        string    `json:"desc"`
}

type EnumValDesc struct {
	Name        string      `json:"name"`
	Internal    interface{} `json:"internal"` // wire JVal
	Deprecation string      `json:"deprecation"`
	Desc        string      `json:"desc"`
}

type TypeDesc struct {
	Kind        string        `json:"kind"` // SCALAR OBJECT INTERFACE UNION ENUM INPUT_OBJECT
	Name        string        `json:"name"`
	Desc        string        `json:"desc"`
	Interfaces  []string      `json:"interfaces,omitempty"`
	Fields      []FieldDesc   `json:"fields,omitempty"`      // OBJECT / INTERFACE
	InputFields []ArgDesc     `json:"inputFields,omitempty"` // INPUT_OBJECT
	Members     []string      `json:"members,omitempty"`     // UNION
	Values      []EnumValDesc `json:"values,omitempty"`      // ENUM
	IsTypeOf    bool          `json:"isTypeOf"`              // OBJECT: has an IsTypeOf function
	ResolveType bool          `json:"resolveType"`           // INTERFACE / UNION: has a ResolveType function
	// custom SCALAR: finite tables [[in,out]…] over wire JVals; anything else maps to null
	Builtin      string           `json:"builtin,omitempty"` // Int Float String Boolean ID for built-ins
	Serialize    [][2]interface{} `json:"serialize,omitempty"`
	ParseValue   [][2]interface{} `json:"parseValue,omitempty"`
	ParseLiteral [][2]interface{} `json:"parseLiteral,omitempty"`
}

type DirectiveDesc struct {
	Name      string    `json:"name"`
	Locations []string  `json:"locations"`
	Args      []ArgDesc `json:"args"`
	Desc      string    `json:"desc"`
}

type SchemaDesc struct {
	Query        string          `json:"query"`
	Mutation     *string         `json:"mutation"`
	Subscription *string         `json:"subscription"`
	Types        []TypeDesc      `json:"types"`
	Directives   []DirectiveDesc `json:"directives"`
}

func (s *SchemaDesc) Type(name string) *TypeDesc {
	for i := range s.Types {
		if s.Types[i].Name == name {
			return &s.Types[i]
		}
	}
	return nil
}

// PossibleTypes mirrors GqlModel.Schema.possibleTypes (declaration order).
func (s *SchemaDesc) PossibleTypes(abstract string) []string {
	t := s.Type(abstract)
	if t == nil {
		return nil
	}
	if t.Kind == "UNION" {
		return t.Members
	}
	var out []string
	for _, o := range s.Types {
		if o.Kind == "OBJECT" {
			for _, i := range o.Interfaces {
				if i == abstract {
					out = append(out, o.Name)
				}
			}
		}
	}
	return out
}

// ---------------------------------------------------------------- type expressions

type TypeExpr struct {
	Kind string // named list nonNull
	Name string
	Of   *TypeExpr
}

func ParseType(s string) (*TypeExpr, error) {
	t, rest, err := parseType(strings.TrimSpace(s))
	if err != nil {
		return nil, err
	}
	if rest != "" {
		return nil, fmt.Errorf("trailing %q in type %q", rest, s)
	}
	return t, nil
}

func parseType(s string) (*TypeExpr, string, error) {
	var t *TypeExpr
	if strings.HasPrefix(s, "[") {
		inner, rest, err := parseType(s[1:])
		if err != nil {
			return nil, "", err
		}
		if !strings.HasPrefix(rest, "]") {
			return nil, "", fmt.Errorf("missing ] in %q", s)
		}
		t, s = &TypeExpr{Kind: "list", Of: inner}, rest[1:]
	} else {
		i := 0
		for i < len(s) && (s[i] == '_' || s[i] >= '0' && s[i] <= '9' || s[i] >= 'A' && s[i] <= 'Z' || s[i] >= 'a' && s[i] <= 'z') {
			i++
		}
		if i == 0 {
			return nil, "", fmt.Errorf("bad type %q", s)
		}
		t, s = &TypeExpr{Kind: "named", Name: s[:i]}, s[i:]
	}
	if strings.HasPrefix(s, "!") {
		t, s = &TypeExpr{Kind: "nonNull", Of: t}, s[1:]
	}
	return t, s, nil
}

func (t *TypeExpr) NamedName() string {
	for t.Kind != "named" {
		t = t.Of
	}
	return t.Name
}

func (t *TypeExpr) String() string {
	switch t.Kind {
	case "list":
		return "[" + t.Of.String() + "]"
	case "nonNull":
		return t.Of.String() + "!"
	}
	return t.Name
}

// ---------------------------------------------------------------- wire JVal <-> Go values

// FromWire turns a decoded wire JVal (json.Number aware) into the Go value the library works with:
// integral numbers → int, {"$dec":[m,e]} → float64 m·10^-e, objects → map[string]interface{}, arrays → []interface{}.
func FromWire(v interface{}) interface{} {
	switch x := v.(type) {
	case nil:
		return nil
	case json.Number:
		if i, err := x.Int64(); err == nil {
			return int(i)
		}
		f, _ := x.Float64()
		return f
	case float64:
		if x == math.Trunc(x) && math.Abs(x) < 1e15 {
			return int(x)
		}
		return x
	case int:
		return x
	case []interface{}:
		out := make([]interface{}, len(x))
		for i, e := range x {
			out[i] = FromWire(e)
		}
		return out
	case map[string]interface{}:
		if d, ok := x["$dec"]; ok && len(x) == 1 {
			arr := d.([]interface{})
			m, _ := toFloat(arr[0])
			e, _ := toFloat(arr[1])
			return m / math.Pow(10, e)
		}
		out := map[string]interface{}{}
		for k, e := range x {
			out[k] = FromWire(e)
		}
		return out
	}
	return v
}

func toFloat(v interface{}) (float64, bool) {
	switch x := v.(type) {
	case json.Number:
		f, err := x.Float64()
		return f, err == nil
	case float64:
		return x, true
	case int:
		return float64(x), true
	}
	return 0, false
}

// ToWire renders a Go value produced by the library (coerced arguments, response data) as a wire JVal:
// ints stay ints, float64 becomes an int when integral and {"$dec":[m,e]} otherwise (exact for the decimals
// the generators emit), maps/slices recurse. Unknown kinds are rendered as {"$go": "<%T>"}.
func ToWire(v interface{}) interface{} {
	switch x := v.(type) {
	case nil:
		return nil
	case bool, string:
		return x
	case int:
		return x
	case int32:
		return int(x)
	case int64:
		return int(x)
	case float32:
		return ToWire(float64(x))
	case float64:
		if math.IsNaN(x) {
			return map[string]interface{}{"$go": "nan"}
		}
		if math.IsInf(x, 0) {
			return map[string]interface{}{"$go": "inf"}
		}
		if x == math.Trunc(x) && math.Abs(x) < 1e15 {
			return int(x)
		}
		// find the shortest exact decimal m·10^-e, e ≤ 12
		for e := 1; e <= 12; e++ {
			m := x * math.Pow(10, float64(e))
			if m == math.Trunc(m) && math.Abs(m) < 1e15 {
				return map[string]interface{}{"$dec": []interface{}{int(m), e}}
			}
		}
		return map[string]interface{}{"$go": fmt.Sprintf("float:%v", x)}
	case json.Number:
		return ToWire(FromWire(x))
	case []interface{}:
		if x == nil {
			// a nil slice where a list value is expected: encoding/json renders it as null, not [] — the
			// library hands resolvers non-nil (possibly empty) lists
			return map[string]interface{}{"$go": "nilslice"}
		}
		out := make([]interface{}, len(x))
		for i, e := range x {
			out[i] = ToWire(e)
		}
		return out
	case map[string]interface{}:
		out := map[string]interface{}{}
		for k, e := range x {
			out[k] = ToWire(e)
		}
		return out
	}
	return map[string]interface{}{"$go": fmt.Sprintf("%T", v)}
}

func canonKey(v interface{}) string {
	b, _ := json.Marshal(ToWire(FromWire(v)))
	return string(b)
}

// ---------------------------------------------------------------- builder

// Hooks supply the behaviour of the schema's callbacks; nil hooks mean "not configured".
type Hooks struct {
	Resolve     func(typeName, fieldName string) graphql.FieldResolveFn
	Subscribe   func(typeName, fieldName string) graphql.FieldResolveFn
	ResolveType func(abstractName string, objects map[string]*graphql.Object) graphql.ResolveTypeFn
	IsTypeOf    func(objName string) graphql.IsTypeOfFn
}

type Built struct {
	Schema  graphql.Schema
	Objects map[string]*graphql.Object
	Types   map[string]graphql.Type
}

var builtins = map[string]*graphql.Scalar{"Int": graphql.Int, "Float": graphql.Float, "String": graphql.String, "Boolean": graphql.Boolean, "ID": graphql.ID}

// literalToWire renders a literal AST as a wire value for custom-scalar parseLiteral tables.
func literalToWire(v ast.Value) interface{} {
	switch x := v.(type) {
	case *ast.IntValue:
		return json.Number(x.Value)
	case *ast.FloatValue:
		return map[string]interface{}{"$lit": "float:" + x.Value}
	case *ast.StringValue:
		return x.Value
	case *ast.BooleanValue:
		return x.Value
	case *ast.EnumValue:
		return map[string]interface{}{"$lit": "enum:" + x.Value}
	}
	return map[string]interface{}{"$lit": printer.Print(v)}
}

func tableFn(tbl [][2]interface{}) func(interface{}) interface{} {
	m := map[string]interface{}{}
	for _, p := range tbl {
		m[canonKey(p[0])] = FromWire(p[1])
	}
	return func(in interface{}) interface{} {
		if out, ok := m[canonKey(in)]; ok {
			if mm, isMap := out.(map[string]interface{}); isMap && mm["$panic"] != nil {
				panic("scalar cannot represent this value")
			}
			return out
		}
		return nil
	}
}

func Build(d *SchemaDesc, h Hooks) (*Built, error) {
	b := &Built{Objects: map[string]*graphql.Object{}, Types: map[string]graphql.Type{}}
	var resolveTypeRef func(t *TypeExpr) (graphql.Type, error)
	resolveTypeRef = func(t *TypeExpr) (graphql.Type, error) {
		switch t.Kind {
		case "list":
			in, err := resolveTypeRef(t.Of)
			if err != nil {
				return nil, err
			}
			return graphql.NewList(in), nil
		case "nonNull":
			in, err := resolveTypeRef(t.Of)
			if err != nil {
				return nil, err
			}
			return graphql.NewNonNull(in), nil
		}
		if s, ok := builtins[t.Name]; ok && d.Type(t.Name) == nil {
			return s, nil
		}
		if x, ok := b.Types[t.Name]; ok {
			return x, nil
		}
		return nil, fmt.Errorf("unknown type %q", t.Name)
	}
	typeOf := func(s string) graphql.Type {
		te, err := ParseType(s)
		if err != nil {
			panic(err)
		}
		t, err := resolveTypeRef(te)
		if err != nil {
			panic(err)
		}
		return t
	}
	args := func(as []ArgDesc) graphql.FieldConfigArgument {
		out := graphql.FieldConfigArgument{}
		for _, a := range as {
			ac := &graphql.ArgumentConfig{Type: typeOf(a.Type).(graphql.Input), Description: a.Desc}
			if a.HasDef {
				ac.DefaultValue = FromWire(a.Default)
			}
			out[a.Name] = ac
		}
		return out
	}
	fields := func(td TypeDesc) graphql.FieldsThunk {
		return func() graphql.Fields {
			out := graphql.Fields{}
			for _, f := range td.Fields {
				gf := &graphql.Field{Type: typeOf(f.Type).(graphql.Output), Args: args(f.Args), DeprecationReason: f.Deprecation, Description: f.Desc}
				if h.Resolve != nil && td.Kind == "OBJECT" {
					gf.Resolve = h.Resolve(td.Name, f.Name)
				}
				if h.Subscribe != nil && td.Kind == "OBJECT" {
					gf.Subscribe = h.Subscribe(td.Name, f.Name)
				}
				out[f.Name] = gf
			}
			return out
		}
	}
	// pass 1: create named types (thunked members so that cycles are fine)
	for _, td := range d.Types {
		td := td
		switch td.Kind {
		case "SCALAR":
			if s, ok := builtins[td.Builtin]; ok && td.Builtin != "" {
				b.Types[td.Name] = s
				continue
			}
			ser, pv, pl := tableFn(td.Serialize), tableFn(td.ParseValue), tableFn(td.ParseLiteral)
			b.Types[td.Name] = graphql.NewScalar(graphql.ScalarConfig{Name: td.Name, Description: td.Desc,
				Serialize:    func(v interface{}) interface{} { return ser(v) },
				ParseValue:   func(v interface{}) interface{} { return pv(v) },
				ParseLiteral: func(v ast.Value) interface{} { return pl(literalToWire(v)) }})
		case "ENUM":
			vals := graphql.EnumValueConfigMap{}
			for _, v := range td.Values {
				vals[v.Name] = &graphql.EnumValueConfig{Value: FromWire(v.Internal), DeprecationReason: v.Deprecation, Description: v.Desc}
			}
			b.Types[td.Name] = graphql.NewEnum(graphql.EnumConfig{Name: td.Name, Description: td.Desc, Values: vals})
		case "INPUT_OBJECT":
			b.Types[td.Name] = graphql.NewInputObject(graphql.InputObjectConfig{Name: td.Name, Description: td.Desc,
				Fields: graphql.InputObjectConfigFieldMapThunk(func() graphql.InputObjectConfigFieldMap {
					out := graphql.InputObjectConfigFieldMap{}
					for _, f := range td.InputFields {
						fc := &graphql.InputObjectFieldConfig{Type: typeOf(f.Type).(graphql.Input), Description: f.Desc}
						if f.HasDef {
							fc.DefaultValue = FromWire(f.Default)
						}
						out[f.Name] = fc
					}
					return out
				})})
		case "INTERFACE":
			cfg := graphql.InterfaceConfig{Name: td.Name, Description: td.Desc, Fields: fields(td)}
			if td.ResolveType && h.ResolveType != nil {
				cfg.ResolveType = h.ResolveType(td.Name, b.Objects)
			}
			b.Types[td.Name] = graphql.NewInterface(cfg)
		case "OBJECT":
			cfg := graphql.ObjectConfig{Name: td.Name, Description: td.Desc, Fields: fields(td),
				Interfaces: graphql.InterfacesThunk(func() []*graphql.Interface {
					var out []*graphql.Interface
					for _, n := range td.Interfaces {
						if i, ok := b.Types[n].(*graphql.Interface); ok {
							out = append(out, i)
						}
					}
					return out
				})}
			if td.IsTypeOf && h.IsTypeOf != nil {
				cfg.IsTypeOf = h.IsTypeOf(td.Name)
			}
			o := graphql.NewObject(cfg)
			b.Types[td.Name] = o
			b.Objects[td.Name] = o
		case "UNION":
			cfg := graphql.UnionConfig{Name: td.Name, Description: td.Desc,
				Types: graphql.UnionTypesThunk(func() []*graphql.Object {
					var out []*graphql.Object
					for _, n := range td.Members {
						if o, ok := b.Objects[n]; ok {
							out = append(out, o)
						}
					}
					return out
				})}
			if td.ResolveType && h.ResolveType != nil {
				cfg.ResolveType = h.ResolveType(td.Name, b.Objects)
			}
			b.Types[td.Name] = graphql.NewUnion(cfg)
		default:
			return nil, fmt.Errorf("bad kind %q", td.Kind)
		}
	}
	cfg := graphql.SchemaConfig{}
	if q, ok := b.Objects[d.Query]; ok {
		cfg.Query = q
	}
	if d.Mutation != nil {
		cfg.Mutation = b.Objects[*d.Mutation]
	}
	if d.Subscription != nil {
		cfg.Subscription = b.Objects[*d.Subscription]
	}
	for _, td := range d.Types {
		if t, ok := b.Types[td.Name]; ok {
			cfg.Types = append(cfg.Types, t)
		}
	}
	if len(d.Directives) > 0 {
		cfg.Directives = []*graphql.Directive{graphql.SkipDirective, graphql.IncludeDirective, graphql.DeprecatedDirective}
		for _, dd := range d.Directives {
			if dd.Name == "skip" || dd.Name == "include" || dd.Name == "deprecated" {
				continue
			}
			cfg.Directives = append(cfg.Directives, graphql.NewDirective(graphql.DirectiveConfig{Name: dd.Name, Description: dd.Desc, Locations: dd.Locations, Args: args(dd.Args)}))
		}
	}
	var err error
	func() {
		defer func() {
			if r := recover(); r != nil {
				err = fmt.Errorf("panic while building schema: %v", r)
			}
		}()
		b.Schema, err = graphql.NewSchema(cfg)
	}()
	return b, err
}
