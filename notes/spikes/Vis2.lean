/-! Spike E (C14 at full fidelity for the no-edit traversal): the Go loop of `visitor.Visit` as a machine over
(frame stack, parent, path, ancestors) ≡ a plain recursive walk, including Key / Parent / Path / Ancestors payloads,
slice pseudo-frames, skip and break. -/
namespace Vis2

inductive Key | name (s : String) | idx (i : Nat) deriving DecidableEq, Repr

mutual
inductive Node where
  | mk (id : Nat) (slots : List Slot)
inductive Slot where
  | absent (key : String)                 -- nil child / nil or empty slice: `continue`
  | one (key : String) (n : Node)
  | many (key : String) (n : Node) (ns : List Node)   -- non-empty slice
end

inductive Act | cont | skip | brk deriving DecidableEq, Repr

structure Ctx where
  key : Option Key
  parent : Option Nat
  path : List Key
  anc : List (Option Nat)
deriving DecidableEq, Repr

inductive Ev | enter (id : Nat) (c : Ctx) | leave (id : Nat) (c : Ctx) deriving DecidableEq, Repr

structure Policy where
  onEnter : Nat → Ctx → Act
  onLeave : Nat → Ctx → Act     -- `skip` on leave is treated like `cont` by the loop

/-! ## Reference walk -/
mutual
def visitNode (p : Policy) : Node → Ctx → List Ev × Bool
  | .mk id slots, c =>
    match p.onEnter id c with
    | .brk => ([.enter id c], true)
    | .skip => ([.enter id c], false)
    | .cont =>
      let (es, b) := visitSlots p id c.path (c.anc ++ [c.parent]) slots
      if b then (.enter id c :: es, true) else
        let lc : Ctx := { c with path := c.path.dropLast }
        match p.onLeave id lc with
        | .brk => (.enter id c :: es ++ [.leave id lc], true)
        | _ => (.enter id c :: es ++ [.leave id lc], false)
def visitSlots (p : Policy) (pid : Nat) (path : List Key) (anc : List (Option Nat)) : List Slot → List Ev × Bool
  | [] => ([], false)
  | .absent _ :: rest => visitSlots p pid path anc rest
  | .one k n :: rest =>
    let (es, b) := visitNode p n ⟨some (.name k), some pid, path ++ [.name k], anc⟩
    if b then (es, true) else
      let (es', b') := visitSlots p pid path anc rest
      (es ++ es', b')
  | .many k n ns :: rest =>
    let (es, b) := visitElems p (path ++ [.name k]) (anc ++ [some pid]) (n :: ns) 0
    if b then (es, true) else
      let (es', b') := visitSlots p pid path anc rest
      (es ++ es', b')
def visitElems (p : Policy) (path : List Key) (anc : List (Option Nat)) : List Node → Nat → List Ev × Bool
  | [], _ => ([], false)
  | n :: ns, i =>
    let (es, b) := visitNode p n ⟨some (.idx i), none, path ++ [.idx i], anc⟩
    if b then (es, true) else
      let (es', b') := visitElems p path anc ns (i+1)
      (es ++ es', b')
end

def walk (p : Policy) (root : Node) : List Ev × Bool := visitNode p root ⟨none, none, [], []⟩

/-! ## The loop as a machine -/
inductive Keys | root (n : Node) | slots (ss : List Slot) | elems (ns : List Node) (i : Nat)

structure St where
  keys : Keys                 -- remaining keys of the current frame (Go: keys[index+1:], inSlice)
  stack : List Keys           -- saved frames (Go: sstack), each already advanced past the child being visited
  parent : Option Nat
  path : List Key
  anc : List (Option Nat)

inductive MS | run (s : St) | done | broken

/-- entering a node in context: shared by the three key kinds -/
def enterNode (p : Policy) (s : St) (n : Node) (key : Option Key) (keysAfter : Keys) : MS × List Ev :=
  match n with
  | .mk id slots =>
    let path' := match key with | some k => s.path ++ [k] | none => s.path
    let c : Ctx := ⟨key, s.parent, path', s.anc⟩
    match p.onEnter id c with
    | .brk => (.broken, [.enter id c])
    | .skip => (.run { s with keys := keysAfter }, [.enter id c])       -- `_, path = pop(path); continue`
    | .cont => (.run { keys := .slots slots, stack := keysAfter :: s.stack, parent := some id,
                       path := path', anc := s.anc ++ [s.parent] }, [.enter id c])

/-- leaving the current frame (`isLeaving`) -/
def leaveFrame (p : Policy) (s : St) : MS × List Ev :=
  let key := s.path.getLast?
  let path' := s.path.dropLast
  let node := s.parent
  let parent' := s.anc.getLast?.join
  let anc' := s.anc.dropLast
  match s.stack with
  | [] => (.done, [])            -- unreachable from `init` (the bottom frame is never left)
  | ks :: rest =>
    let s' : St := { keys := ks, stack := rest, parent := parent', path := path', anc := anc' }
    match node with
    | none => (.run s', [])      -- a slice pseudo-frame: no visit function is called
    | some id =>
      let c : Ctx := ⟨key, parent', path', anc'⟩
      match p.onLeave id c with
      | .brk => (.broken, [.leave id c])
      | _ => if rest.isEmpty then (.done, [.leave id c]) else (.run s', [.leave id c])   -- `if sstack == nil { break }`

def step (p : Policy) : MS → MS × List Ev
  | .done => (.done, [])
  | .broken => (.broken, [])
  | .run s =>
    match s.keys with
    | .root n => enterNode p s n none (.slots [])     -- the bottom frame; its remainder is never used
    | .slots [] => leaveFrame p s
    | .slots (.absent _ :: rest) => (.run { s with keys := .slots rest }, [])
    | .slots (.one k n :: rest) => enterNode p s n (some (.name k)) (.slots rest)
    | .slots (.many k n ns :: rest) =>
        (.run { keys := .elems (n :: ns) 0, stack := .slots rest :: s.stack, parent := none,
                path := s.path ++ [.name k], anc := s.anc ++ [s.parent] }, [])
    | .elems [] _ => leaveFrame p s
    | .elems (n :: ns) i => enterNode p s n (some (.idx i)) (.elems ns (i+1))

def runN (p : Policy) : Nat → MS → MS × List Ev
  | 0, s => (s, [])
  | n+1, s =>
    let (s', es) := step p s
    let (s'', es') := runN p n s'
    (s'', es ++ es')

def init (root : Node) : MS := .run { keys := .root root, stack := [], parent := none, path := [], anc := [] }

theorem runN_add (p : Policy) (m n : Nat) (s : MS) :
    runN p (m + n) s = ((runN p n (runN p m s).1).1, (runN p m s).2 ++ (runN p n (runN p m s).1).2) := by
  induction m generalizing s with
  | zero => simp [runN]
  | succ m ih =>
    have : m + 1 + n = (m + n) + 1 := by omega
    rw [this]
    simp only [runN]
    rw [ih]
    simp [List.append_assoc]

theorem runN_broken (p : Policy) (n : Nat) : runN p n .broken = (.broken, []) := by
  induction n with
  | zero => rfl
  | succ n ih => simp [runN, step, ih]

/-- one step followed by `k` steps -/
theorem runN_succ' (p : Policy) (k : Nat) (s : MS) :
    runN p (k+1) s = ((runN p k (step p s).1).1, (step p s).2 ++ (runN p k (step p s).1).2) := by
  simp [runN]

theorem run_one (p : Policy) (s : MS) : runN p 1 s = step p s := by
  simp [runN]

/-- result of running until the construct under the cursor is finished -/
def fin (b : Bool) (s : St) : MS := if b then .broken else .run s

mutual
theorem sim_node (p : Policy) : ∀ (n : Node) (s : St) (k : Key) (after : Keys), s.stack ≠ [] →
    ∃ N, (let r := enterNode p s n (some k) after; let r' := runN p N r.1; (r'.1, r.2 ++ r'.2)) =
      (fin (visitNode p n ⟨some k, s.parent, s.path ++ [k], s.anc⟩).2 { s with keys := after },
       (visitNode p n ⟨some k, s.parent, s.path ++ [k], s.anc⟩).1)
  | .mk id slots, s, k, after, hst => by
    cases hE : p.onEnter id ⟨some k, s.parent, s.path ++ [k], s.anc⟩ with
    | brk => exact ⟨0, by simp [enterNode, visitNode, hE, runN, fin]⟩
    | skip => exact ⟨0, by simp [enterNode, visitNode, hE, runN, fin]⟩
    | cont =>
      let s1 : St := { keys := .slots slots, stack := after :: s.stack, parent := some id,
                       path := s.path ++ [k], anc := s.anc ++ [s.parent] }
      obtain ⟨N, hN⟩ := sim_slots p slots s1 id rfl rfl (by simp [s1])
      by_cases hb : (visitSlots p id (s.path ++ [k]) (s.anc ++ [s.parent]) slots).2
      · refine ⟨N, ?_⟩
        simp only [enterNode, hE, visitNode, hb, if_true]
        simp only [s1, hb, fin, if_true] at hN
        simp [hN, fin]
      · refine ⟨N + 1, ?_⟩
        simp only [enterNode, hE, visitNode, hb]
        simp only [s1, hb, fin] at hN
        rw [runN_add, hN]
        simp only [Bool.false_eq_true, if_false]
        have hne : s.stack.isEmpty = false := by cases hs : s.stack <;> simp_all
        cases hL : p.onLeave id ⟨some k, s.parent, s.path, s.anc⟩ <;>
          simp [runN, step, leaveFrame, hL, hne, fin, List.dropLast_concat, List.getLast?_append]
theorem sim_slots (p : Policy) : ∀ (ss : List Slot) (s : St) (pid : Nat), s.keys = .slots ss → s.parent = some pid →
    s.stack ≠ [] →
    ∃ N, runN p N (.run s) =
      (fin (visitSlots p pid s.path s.anc ss).2 { s with keys := .slots [] }, (visitSlots p pid s.path s.anc ss).1)
  | [], s, pid, hk, hp, hst => ⟨0, by
      obtain ⟨keys, stack, parent, path, anc⟩ := s
      simp at hk; subst hk
      simp [runN, visitSlots, fin]⟩
  | .absent key :: rest, s, pid, hk, hp, hst => by
      obtain ⟨N, hN⟩ := sim_slots p rest { s with keys := .slots rest } pid rfl hp hst
      refine ⟨1 + N, ?_⟩
      obtain ⟨keys, stack, parent, path, anc⟩ := s
      simp at hk; subst hk
      rw [runN_add, run_one]
      simp only [step]
      rw [hN]
      simp [visitSlots]
  | .one key n :: rest, s, pid, hk, hp, hst => by
      obtain ⟨N1, h1⟩ := sim_node p n s (.name key) (.slots rest) hst
      obtain ⟨keys, stack, parent, path, anc⟩ := s
      simp at hk hp; subst hk; subst hp
      by_cases hb : (visitNode p n ⟨some (.name key), some pid, path ++ [.name key], anc⟩).2
      · refine ⟨1 + N1, ?_⟩
        rw [runN_add, run_one]
        simp only [step]
        have e1 := congrArg Prod.fst h1
        have e2 := congrArg Prod.snd h1
        simp only [hb, fin, if_true] at e1 e2
        simp only [visitSlots, hb, if_true, fin]
        rw [Prod.mk.injEq]; exact ⟨e1, e2⟩
      · obtain ⟨N2, h2⟩ := sim_slots p rest ⟨.slots rest, stack, some pid, path, anc⟩ pid rfl rfl hst
        refine ⟨1 + (N1 + N2), ?_⟩
        rw [runN_add, run_one, runN_add]
        simp only [step]
        have e1 := congrArg Prod.fst h1
        have e2 := congrArg Prod.snd h1
        simp only [hb, fin, Bool.false_eq_true, if_false] at e1 e2
        simp only [visitSlots, hb, Bool.false_eq_true, if_false, fin]
        rw [e1, h2]
        simp only [fin]
        rw [Prod.mk.injEq]
        refine ⟨rfl, ?_⟩
        rw [← List.append_assoc, e2]
  | .many key n ns :: rest, s, pid, hk, hp, hst => by
      obtain ⟨keys, stack, parent, path, anc⟩ := s
      simp at hk hp; subst hk; subst hp
      let s2 : St := { keys := .elems (n :: ns) 0, stack := .slots rest :: stack, parent := none,
                       path := path ++ [.name key], anc := anc ++ [some pid] }
      obtain ⟨N1, h1⟩ := sim_elems p (n :: ns) 0 s2 rfl rfl (by simp [s2])
      by_cases hb : (visitElems p (path ++ [.name key]) (anc ++ [some pid]) (n :: ns) 0).2
      · refine ⟨1 + N1, ?_⟩
        rw [runN_add, run_one]
        simp only [step]
        simp only [s2, hb, fin, if_true] at h1
        rw [h1]
        simp [visitSlots, hb, fin]
      · obtain ⟨N2, h2⟩ := sim_slots p rest ⟨.slots rest, stack, some pid, path, anc⟩ pid rfl rfl hst
        refine ⟨1 + (N1 + (1 + N2)), ?_⟩
        rw [runN_add, run_one, runN_add, runN_add, run_one]
        simp only [step]
        simp only [s2, hb, fin, Bool.false_eq_true, if_false] at h1
        rw [h1]
        simp only [step, leaveFrame, List.dropLast_concat, List.getLast?_append, List.getLast?_singleton,
          Option.some_or, Option.join, Option.bind_some, id_eq]
        simp only [] at h2
        rw [h2]
        simp [visitSlots, hb, fin, List.append_assoc]
theorem sim_elems (p : Policy) : ∀ (ns : List Node) (i : Nat) (s : St), s.keys = .elems ns i → s.parent = none →
    s.stack ≠ [] →
    ∃ N, runN p N (.run s) =
      (fin (visitElems p s.path s.anc ns i).2 { s with keys := .elems [] (i + ns.length) },
       (visitElems p s.path s.anc ns i).1)
  | [], i, s, hk, hp, hst => ⟨0, by
      obtain ⟨keys, stack, parent, path, anc⟩ := s
      simp at hk; subst hk
      simp [runN, visitElems, fin]⟩
  | n :: ns, i, s, hk, hp, hst => by
      obtain ⟨N1, h1⟩ := sim_node p n s (.idx i) (.elems ns (i+1)) hst
      obtain ⟨keys, stack, parent, path, anc⟩ := s
      simp at hk hp; subst hk; subst hp
      by_cases hb : (visitNode p n ⟨some (.idx i), none, path ++ [.idx i], anc⟩).2
      · refine ⟨1 + N1, ?_⟩
        rw [runN_add, run_one]
        simp only [step]
        have e1 := congrArg Prod.fst h1
        have e2 := congrArg Prod.snd h1
        simp only [hb, fin, if_true] at e1 e2
        simp only [visitElems, hb, if_true, fin]
        rw [Prod.mk.injEq]; exact ⟨e1, e2⟩
      · obtain ⟨N2, h2⟩ := sim_elems p ns (i+1) ⟨.elems ns (i+1), stack, none, path, anc⟩ rfl rfl hst
        refine ⟨1 + (N1 + N2), ?_⟩
        rw [runN_add, run_one, runN_add]
        simp only [step]
        have e1 := congrArg Prod.fst h1
        have e2 := congrArg Prod.snd h1
        simp only [hb, fin, Bool.false_eq_true, if_false] at e1 e2
        simp only [visitElems, hb, Bool.false_eq_true, if_false, fin]
        rw [e1, h2]
        simp only [fin]
        have : i + 1 + ns.length = i + (ns.length + 1) := by omega
        rw [Prod.mk.injEq]
        refine ⟨by simp [List.length_cons, this], ?_⟩
        rw [← List.append_assoc, e2]
end

/-- C14 core (no-edit traversal, after the D-14b repair that makes a skip at the root end the traversal):
for every tree and every enter/leave policy the loop emits exactly the reference walk's events — same nodes,
same order, same Key/Parent/Path/Ancestors — and stops in `broken` iff the walk met BREAK, else in `done`. -/
theorem machine_eq_reference (p : Policy) (root : Node) :
    ∃ N, runN p N (init root) = (if (walk p root).2 then MS.broken else MS.done, (walk p root).1) := by
  obtain ⟨id, slots⟩ := root
  cases hE : p.onEnter id ⟨none, none, [], []⟩ with
  | brk => exact ⟨1, by simp [run_one, init, step, enterNode, hE, walk, visitNode]⟩
  | skip =>
    refine ⟨1 + 1, ?_⟩
    rw [runN_add, run_one, run_one]
    simp [init, step, enterNode, hE, walk, visitNode, leaveFrame]
  | cont =>
    let s1 : St := { keys := .slots slots, stack := [.slots []], parent := some id, path := [], anc := [none] }
    obtain ⟨N, hN⟩ := sim_slots p slots s1 id rfl rfl (by simp [s1])
    by_cases hb : (visitSlots p id [] [none] slots).2
    · refine ⟨1 + N, ?_⟩
      rw [runN_add, run_one]
      simp only [s1, hb, fin, if_true] at hN
      simp only [init, step, enterNode, hE, List.nil_append]
      rw [hN]
      simp [walk, visitNode, hE, hb]
    · refine ⟨1 + (N + 1), ?_⟩
      rw [runN_add, run_one, runN_add, run_one]
      simp only [s1, hb, fin, Bool.false_eq_true, if_false] at hN
      simp only [init, step, enterNode, hE, List.nil_append]
      rw [hN]
      cases hL : p.onLeave id ⟨none, none, [], []⟩ <;>
        simp [step, leaveFrame, hL, walk, visitNode, hE, hb]

def t0 : Node := .mk 0 [.many "defs" (.mk 1 [.one "name" (.mk 2 []), .absent "dirs", .many "sels" (.mk 3 []) [.mk 4 []]]) []]
def p0 : Policy := { onEnter := fun id _ => if id == 3 then .skip else .cont, onLeave := fun _ _ => .cont }
#eval (walk p0 t0).1.length
#eval (runN p0 50 (init t0)).2.length


end Vis2
