namespace GQL

abbrev Name := String

inductive Value where
  | var (n : Name) | int (i : Int) | str (s : String) | bool (b : Bool) | enum (n : Name)
  | list (vs : List Value) | obj (fs : List (Name × Value))
deriving Repr, Inhabited

structure Directive where
  name : Name
  args : List (Name × Value)
deriving Repr, Inhabited

inductive Selection where
  | field (alias : Option Name) (name : Name) (args : List (Name × Value)) (dirs : List Directive) (sels : List Selection)
  | spread (name : Name) (dirs : List Directive)
  | inline (cond : Option Name) (dirs : List Directive) (sels : List Selection)
deriving Repr, Inhabited

structure FieldNode where
  alias : Option Name
  name : Name
  args : List (Name × Value)
  sels : List Selection
deriving Repr, Inhabited

def FieldNode.key (f : FieldNode) : Name := f.alias.getD f.name

structure Fragment where
  name : Name
  cond : Name
  sels : List Selection
deriving Repr, Inhabited

inductive JVal where
  | null | int (i : Int) | str (s : String) | bool (b : Bool)
  | list (vs : List JVal) | obj (fs : List (String × JVal))
deriving Repr, Inhabited

abbrev Vars := List (Name × JVal)

def lookupVar (vars : Vars) (n : Name) : Option JVal := (vars.find? (·.1 == n)).map (·.2)

/-- `if` argument of a directive evaluated under `vars`. -/
def dirIf (vars : Vars) (d : Directive) : Option Bool :=
  match (d.args.find? (·.1 == "if")).map (·.2) with
  | some (Value.bool b) => some b
  | some (Value.var n) => match lookupVar vars n with | some (JVal.bool b) => some b | _ => none
  | _ => none

def shouldInclude (vars : Vars) (dirs : List Directive) : Bool :=
  let skip := dirs.reverse.find? (·.name == "skip")   -- Go keeps the LAST directive of each name
  let incl := dirs.reverse.find? (·.name == "include")
  (match skip with | some d => dirIf vars d != some true | none => true) &&
  (match incl with | some d => dirIf vars d != some false | none => true)

structure Ctx where
  frags : List Fragment
  vars : Vars
  typeMatches : Option Name → Name → Bool   -- type condition vs runtime object type

abbrev Groups := List (Name × List FieldNode)

def Groups.add (g : Groups) (f : FieldNode) : Groups :=
  if g.any (·.1 == f.key) then g.map (fun p => if p.1 == f.key then (p.1, p.2 ++ [f]) else p)
  else g ++ [(f.key, [f])]

abbrev Acc := List Name × Groups

mutual
/-- traversal of one selection, open in how a named spread is expanded -/
def collectSel (c : Ctx) (rt : Name) (expand : Name → Acc → Acc) : Selection → Acc → Acc
  | .field a n args dirs sels, (vis, g) =>
      if shouldInclude c.vars dirs then (vis, g.add ⟨a, n, args, sels⟩) else (vis, g)
  | .inline cond dirs sels, acc =>
      if shouldInclude c.vars dirs && c.typeMatches cond rt then collectList c rt expand sels acc else acc
  | .spread n dirs, (vis, g) =>
      if vis.contains n || !shouldInclude c.vars dirs then (vis, g) else expand n (n :: vis, g)
def collectList (c : Ctx) (rt : Name) (expand : Name → Acc → Acc) : List Selection → Acc → Acc
  | [], acc => acc
  | s :: rest, acc => collectList c rt expand rest (collectSel c rt expand s acc)
end

/-- CollectFields of the spec; fuel bounds fragment expansion depth. -/
def collect (c : Ctx) (rt : Name) : Nat → List Selection → Acc → Acc
  | 0 => collectList c rt (fun _ acc => acc)
  | fuel+1 => collectList c rt (fun n acc =>
      match c.frags.find? (·.name == n) with
      | none => acc
      | some fr => if c.typeMatches (some fr.cond) rt then collect c rt fuel fr.sels acc else acc)

def ex1 := (collect ⟨[⟨"F", "Q", [.field none "a" [] [] []]⟩], [("v", .bool true)], fun _ _ => true⟩ "Q" 5
  [.spread "F" [⟨"skip", [("if", .var "v")]⟩], .field none "b" [] [] [], .spread "F" []] ([], [])).2.map (·.1)
#eval ex1
example : ex1 = ["b", "a"] := by decide
example : ex1 = ["b", "a"] := rfl

end GQL
