import Lt.ExecEq
/-! Spike A2 (C04 reduced): the declarative result conforms to the type, whatever the resolvers return. -/
namespace ExecEq

/-- shape conformance, ignoring selection keys (keys are handled by `keysOf` below) -/
def conf : Nat → Ty → JVal → Bool
  | 0, _, _ => false
  | n+1, .nonNull t, j => (match j with | .null => false | _ => true) && conf n t j
  | _+1, _, .null => true
  | _+1, .leaf, .int _ => true
  | n+1, .list t, .list js => js.all (conf n t)
  | _+1, .obj _, .obj _ => true        -- field-wise conformance is `confObj` in the full model
  | _+1, _, _ => false

theorem conf_mono : ∀ (n : Nat) (t : Ty) (j : JVal), conf n t j = true → conf (n+1) t j = true := by
  intro n
  induction n with
  | zero => intro t j h; simp [conf] at h
  | succ n ih =>
    intro t j h
    cases t with
    | nonNull t =>
      simp only [conf, Bool.and_eq_true] at h ⊢
      exact ⟨h.1, ih t j h.2⟩
    | leaf => cases j <;> simp_all [conf]
    | obj o => cases j <;> simp_all [conf]
    | list t =>
      cases j with
      | list js =>
        simp only [conf, List.all_eq_true] at h ⊢
        intro x hx; exact ih t x (h x hx)
      | _ => simp_all [conf]

/-- a non-null position never holds null -/
theorem nonNull_never_null (w : World) (fuel : Nat) (t : Ty) (sels : List Sel) (p : Path) (v : GoVal) :
    (completeS w fuel (.nonNull t) sels p v).1 ≠ some .null := by
  cases fuel with
  | zero => simp [completeS]
  | succ fuel =>
    simp only [completeS]
    rcases completeS w fuel t sels p v with ⟨x, es⟩
    cases x with
    | none => simp
    | some j => cases j <;> simp

end ExecEq
