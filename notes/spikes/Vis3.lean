/-! Spike E' (C14, stateful visitors): the same machine/reference pair as `Vis2`, but the visitor threads an
arbitrary state `σ` (this is what validation rules and the printer are: stateful enter/leave callbacks whose
returned action may depend on everything seen so far). Events are the special case σ := List Ev. -/
namespace Vis3

inductive Key | name (s : String) | idx (i : Nat) deriving DecidableEq, Repr

mutual
inductive Node where
  | mk (id : Nat) (slots : List Slot)
inductive Slot where
  | absent (key : String)
  | one (key : String) (n : Node)
  | many (key : String) (n : Node) (ns : List Node)
end

inductive Act | cont | skip | brk deriving DecidableEq, Repr

structure Ctx where
  key : Option Key
  parent : Option Nat
  path : List Key
  anc : List (Option Nat)
deriving DecidableEq, Repr

structure Visitor (σ : Type) where
  enter : σ → Nat → Ctx → σ × Act
  leave : σ → Nat → Ctx → σ × Act

variable {σ : Type}

/-! ## Reference walk: returns the final visitor state and whether BREAK was requested -/
mutual
def visitNode (v : Visitor σ) : Node → Ctx → σ → σ × Bool
  | .mk id slots, c, st =>
    match v.enter st id c with
    | (st, .brk) => (st, true)
    | (st, .skip) => (st, false)
    | (st, .cont) =>
      match visitSlots v id c.path (c.anc ++ [c.parent]) slots st with
      | (st, true) => (st, true)
      | (st, false) =>
        match v.leave st id { c with path := c.path.dropLast } with
        | (st, .brk) => (st, true)
        | (st, _) => (st, false)
def visitSlots (v : Visitor σ) (pid : Nat) (path : List Key) (anc : List (Option Nat)) : List Slot → σ → σ × Bool
  | [], st => (st, false)
  | .absent _ :: rest, st => visitSlots v pid path anc rest st
  | .one k n :: rest, st =>
    match visitNode v n ⟨some (.name k), some pid, path ++ [.name k], anc⟩ st with
    | (st, true) => (st, true)
    | (st, false) => visitSlots v pid path anc rest st
  | .many k n ns :: rest, st =>
    match visitElems v (path ++ [.name k]) (anc ++ [some pid]) (n :: ns) 0 st with
    | (st, true) => (st, true)
    | (st, false) => visitSlots v pid path anc rest st
def visitElems (v : Visitor σ) (path : List Key) (anc : List (Option Nat)) : List Node → Nat → σ → σ × Bool
  | [], _, st => (st, false)
  | n :: ns, i, st =>
    match visitNode v n ⟨some (.idx i), none, path ++ [.idx i], anc⟩ st with
    | (st, true) => (st, true)
    | (st, false) => visitElems v path anc ns (i+1) st
end

def walk (v : Visitor σ) (root : Node) (st : σ) : σ × Bool := visitNode v root ⟨none, none, [], []⟩ st

/-! ## The loop as a machine -/
inductive Keys | root (n : Node) | slots (ss : List Slot) | elems (ns : List Node) (i : Nat)

structure St where
  keys : Keys
  stack : List Keys
  parent : Option Nat
  path : List Key
  anc : List (Option Nat)

inductive MS | run (s : St) | done | broken

def enterNode (v : Visitor σ) (s : St) (n : Node) (key : Option Key) (keysAfter : Keys) (st : σ) : MS × σ :=
  match n with
  | .mk id slots =>
    let path' := match key with | some k => s.path ++ [k] | none => s.path
    match v.enter st id ⟨key, s.parent, path', s.anc⟩ with
    | (st, .brk) => (.broken, st)
    | (st, .skip) => (.run { s with keys := keysAfter }, st)
    | (st, .cont) => (.run { keys := .slots slots, stack := keysAfter :: s.stack, parent := some id,
                             path := path', anc := s.anc ++ [s.parent] }, st)

def leaveFrame (v : Visitor σ) (s : St) (st : σ) : MS × σ :=
  let key := s.path.getLast?
  let path' := s.path.dropLast
  let parent' := s.anc.getLast?.join
  let anc' := s.anc.dropLast
  match s.stack with
  | [] => (.done, st)
  | ks :: rest =>
    let s' : St := { keys := ks, stack := rest, parent := parent', path := path', anc := anc' }
    match s.parent with
    | none => (.run s', st)
    | some id =>
      match v.leave st id ⟨key, parent', path', anc'⟩ with
      | (st, .brk) => (.broken, st)
      | (st, _) => (if rest.isEmpty then .done else .run s', st)

def step (v : Visitor σ) : MS → σ → MS × σ
  | .done, st => (.done, st)
  | .broken, st => (.broken, st)
  | .run s, st =>
    match s.keys with
    | .root n => enterNode v s n none (.slots []) st
    | .slots [] => leaveFrame v s st
    | .slots (.absent _ :: rest) => (.run { s with keys := .slots rest }, st)
    | .slots (.one k n :: rest) => enterNode v s n (some (.name k)) (.slots rest) st
    | .slots (.many k n ns :: rest) =>
        (.run { keys := .elems (n :: ns) 0, stack := .slots rest :: s.stack, parent := none,
                path := s.path ++ [.name k], anc := s.anc ++ [s.parent] }, st)
    | .elems [] _ => leaveFrame v s st
    | .elems (n :: ns) i => enterNode v s n (some (.idx i)) (.elems ns (i+1)) st

def runN (v : Visitor σ) : Nat → MS → σ → MS × σ
  | 0, m, st => (m, st)
  | n+1, m, st => let (m', st') := step v m st; runN v n m' st'

def init (root : Node) : MS := .run { keys := .root root, stack := [], parent := none, path := [], anc := [] }

theorem runN_add (v : Visitor σ) (a b : Nat) (m : MS) (st : σ) :
    runN v (a + b) m st = runN v b (runN v a m st).1 (runN v a m st).2 := by
  induction a generalizing m st with
  | zero => simp [runN]
  | succ a ih =>
    have : a + 1 + b = (a + b) + 1 := by omega
    rw [this]; simp only [runN]; rw [ih]

theorem run_one (v : Visitor σ) (m : MS) (st : σ) : runN v 1 m st = step v m st := by simp [runN]

def fin (b : Bool) (s : St) : MS := if b then .broken else .run s

mutual
theorem sim_node (v : Visitor σ) : ∀ (n : Node) (s : St) (k : Key) (after : Keys) (st : σ), s.stack ≠ [] →
    ∃ N, (let r := enterNode v s n (some k) after st; runN v N r.1 r.2) =
      (fin (visitNode v n ⟨some k, s.parent, s.path ++ [k], s.anc⟩ st).2 { s with keys := after },
       (visitNode v n ⟨some k, s.parent, s.path ++ [k], s.anc⟩ st).1)
  | .mk id slots, s, k, after, st, hst => by
    rcases hE : v.enter st id ⟨some k, s.parent, s.path ++ [k], s.anc⟩ with ⟨st1, a⟩
    cases a with
    | brk => exact ⟨0, by simp [enterNode, visitNode, hE, runN, fin]⟩
    | skip => exact ⟨0, by simp [enterNode, visitNode, hE, runN, fin]⟩
    | cont =>
      let s1 : St := { keys := .slots slots, stack := after :: s.stack, parent := some id,
                       path := s.path ++ [k], anc := s.anc ++ [s.parent] }
      obtain ⟨N, hN⟩ := sim_slots v slots s1 id st1 rfl rfl (by simp [s1])
      rcases hV : visitSlots v id (s.path ++ [k]) (s.anc ++ [s.parent]) slots st1 with ⟨st2, b⟩
      simp only [s1, hV] at hN
      cases b with
      | true =>
        refine ⟨N, ?_⟩
        simp only [enterNode, hE, visitNode, hV]
        simp only [fin, if_true] at hN
        simp [hN, fin]
      | false =>
        refine ⟨N + 1, ?_⟩
        simp only [enterNode, hE, visitNode, hV]
        rw [runN_add, hN, run_one]
        have hne : s.stack.isEmpty = false := by cases hs : s.stack <;> simp_all
        rcases hL : v.leave st2 id ⟨some k, s.parent, s.path, s.anc⟩ with ⟨st3, a⟩
        cases a <;>
          simp [fin, step, leaveFrame, hL, hne, List.dropLast_concat, List.getLast?_append]
theorem sim_slots (v : Visitor σ) : ∀ (ss : List Slot) (s : St) (pid : Nat) (st : σ), s.keys = .slots ss →
    s.parent = some pid → s.stack ≠ [] →
    ∃ N, runN v N (.run s) st =
      (fin (visitSlots v pid s.path s.anc ss st).2 { s with keys := .slots [] }, (visitSlots v pid s.path s.anc ss st).1)
  | [], s, pid, st, hk, hp, hst => ⟨0, by
      obtain ⟨keys, stack, parent, path, anc⟩ := s
      simp at hk; subst hk
      simp [runN, visitSlots, fin]⟩
  | .absent key :: rest, s, pid, st, hk, hp, hst => by
      obtain ⟨N, hN⟩ := sim_slots v rest { s with keys := .slots rest } pid st rfl hp hst
      refine ⟨1 + N, ?_⟩
      obtain ⟨keys, stack, parent, path, anc⟩ := s
      simp at hk; subst hk
      rw [runN_add, run_one]
      simp only [step]
      rw [hN]
      simp [visitSlots]
  | .one key n :: rest, s, pid, st, hk, hp, hst => by
      obtain ⟨N1, h1⟩ := sim_node v n s (.name key) (.slots rest) st hst
      obtain ⟨keys, stack, parent, path, anc⟩ := s
      simp at hk hp; subst hk; subst hp
      rcases hV : visitNode v n ⟨some (.name key), some pid, path ++ [.name key], anc⟩ st with ⟨st1, b⟩
      simp only [hV] at h1
      cases b with
      | true =>
        refine ⟨1 + N1, ?_⟩
        rw [runN_add, run_one]
        simp only [step]
        simp only [fin, if_true] at h1
        rw [h1]
        simp [visitSlots, hV, fin]
      | false =>
        obtain ⟨N2, h2⟩ := sim_slots v rest ⟨.slots rest, stack, some pid, path, anc⟩ pid st1 rfl rfl hst
        refine ⟨1 + (N1 + N2), ?_⟩
        rw [runN_add, run_one, runN_add]
        simp only [step]
        simp only [fin, Bool.false_eq_true, if_false] at h1
        rw [h1]
        simp only [] at h2
        rw [h2]
        simp [visitSlots, hV, fin]
  | .many key n ns :: rest, s, pid, st, hk, hp, hst => by
      obtain ⟨keys, stack, parent, path, anc⟩ := s
      simp at hk hp; subst hk; subst hp
      let s2 : St := { keys := .elems (n :: ns) 0, stack := .slots rest :: stack, parent := none,
                       path := path ++ [.name key], anc := anc ++ [some pid] }
      obtain ⟨N1, h1⟩ := sim_elems v (n :: ns) 0 s2 st rfl rfl (by simp [s2])
      rcases hV : visitElems v (path ++ [.name key]) (anc ++ [some pid]) (n :: ns) 0 st with ⟨st1, b⟩
      simp only [s2, hV] at h1
      cases b with
      | true =>
        refine ⟨1 + N1, ?_⟩
        rw [runN_add, run_one]
        simp only [step]
        simp only [fin, if_true] at h1
        rw [h1]
        simp [visitSlots, hV, fin]
      | false =>
        obtain ⟨N2, h2⟩ := sim_slots v rest ⟨.slots rest, stack, some pid, path, anc⟩ pid st1 rfl rfl hst
        refine ⟨1 + (N1 + (1 + N2)), ?_⟩
        rw [runN_add, run_one, runN_add, runN_add, run_one]
        simp only [step]
        simp only [fin, Bool.false_eq_true, if_false] at h1
        rw [h1]
        simp only [step, leaveFrame, List.dropLast_concat, List.getLast?_append, List.getLast?_singleton,
          Option.some_or, Option.join, Option.bind_some, id_eq]
        simp only [] at h2
        rw [h2]
        simp [visitSlots, hV, fin]
theorem sim_elems (v : Visitor σ) : ∀ (ns : List Node) (i : Nat) (s : St) (st : σ), s.keys = .elems ns i →
    s.parent = none → s.stack ≠ [] →
    ∃ N, runN v N (.run s) st =
      (fin (visitElems v s.path s.anc ns i st).2 { s with keys := .elems [] (i + ns.length) },
       (visitElems v s.path s.anc ns i st).1)
  | [], i, s, st, hk, hp, hst => ⟨0, by
      obtain ⟨keys, stack, parent, path, anc⟩ := s
      simp at hk; subst hk
      simp [runN, visitElems, fin]⟩
  | n :: ns, i, s, st, hk, hp, hst => by
      obtain ⟨N1, h1⟩ := sim_node v n s (.idx i) (.elems ns (i+1)) st hst
      obtain ⟨keys, stack, parent, path, anc⟩ := s
      simp at hk hp; subst hk; subst hp
      rcases hV : visitNode v n ⟨some (.idx i), none, path ++ [.idx i], anc⟩ st with ⟨st1, b⟩
      simp only [hV] at h1
      cases b with
      | true =>
        refine ⟨1 + N1, ?_⟩
        rw [runN_add, run_one]
        simp only [step]
        simp only [fin, if_true] at h1
        rw [h1]
        simp [visitElems, hV, fin]
      | false =>
        obtain ⟨N2, h2⟩ := sim_elems v ns (i+1) ⟨.elems ns (i+1), stack, none, path, anc⟩ st1 rfl rfl hst
        refine ⟨1 + (N1 + N2), ?_⟩
        rw [runN_add, run_one, runN_add]
        simp only [step]
        simp only [fin, Bool.false_eq_true, if_false] at h1
        rw [h1]
        simp only [] at h2
        rw [h2]
        have : i + 1 + ns.length = i + (ns.length + 1) := by omega
        simp [visitElems, hV, fin, this]
end

/-- C14 core for stateful visitors (no edits; D-14b repaired): for every tree, every visitor and every initial
visitor state, the loop ends with exactly the state the reference walk computes, in `broken` iff BREAK. -/
theorem machine_eq_reference (v : Visitor σ) (root : Node) (st : σ) :
    ∃ N, runN v N (init root) st = (if (walk v root st).2 then MS.broken else MS.done, (walk v root st).1) := by
  obtain ⟨id, slots⟩ := root
  rcases hE : v.enter st id ⟨none, none, [], []⟩ with ⟨st1, a⟩
  cases a with
  | brk => exact ⟨1, by simp [run_one, init, step, enterNode, hE, walk, visitNode]⟩
  | skip =>
    refine ⟨1 + 1, ?_⟩
    rw [runN_add, run_one, run_one]
    simp [init, step, enterNode, hE, walk, visitNode, leaveFrame]
  | cont =>
    let s1 : St := { keys := .slots slots, stack := [.slots []], parent := some id, path := [], anc := [none] }
    obtain ⟨N, hN⟩ := sim_slots v slots s1 id st1 rfl rfl (by simp [s1])
    rcases hV : visitSlots v id [] [none] slots st1 with ⟨st2, b⟩
    simp only [s1, hV] at hN
    cases b with
    | true =>
      refine ⟨1 + N, ?_⟩
      rw [runN_add, run_one]
      simp only [fin, if_true] at hN
      simp only [init, step, enterNode, hE, List.nil_append]
      rw [hN]
      simp [walk, visitNode, hE, hV]
    | false =>
      refine ⟨1 + (N + 1), ?_⟩
      rw [runN_add, run_one, runN_add, run_one]
      simp only [fin, Bool.false_eq_true, if_false] at hN
      simp only [init, step, enterNode, hE, List.nil_append]
      rw [hN]
      rcases hL : v.leave st2 id ⟨none, none, [], []⟩ with ⟨st3, a⟩
      cases a <;> simp [step, leaveFrame, hL, walk, visitNode, hE, hV]

end Vis3
