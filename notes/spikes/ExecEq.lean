/-! Spike A (C01/C04 reduced): Go-style panic/recover completion ≡ declarative "nearest nullable ancestor" rule.
Objects, leaves, lists, non-null; resolver oracle with value / error outcomes; sequential fields with abort.
All recursion is structural on fuel (open recursion for the list/field loops), so everything reduces in the kernel. -/
namespace ExecEq

inductive Ty where
  | leaf | obj (n : String) | list (t : Ty) | nonNull (t : Ty)
deriving Repr, DecidableEq

def Ty.isNonNull : Ty → Bool | .nonNull _ => true | _ => false

inductive GoVal where
  | null | leafV (i : Int) | ref (id : Nat) | listV (vs : List GoVal)
deriving Repr

inductive Outcome where
  | val (v : GoVal) | err
deriving Repr

inductive Sel where
  | field (key name : String) (sels : List Sel)
deriving Repr

inductive JVal where
  | null | int (i : Int) | list (vs : List JVal) | obj (fs : List (String × JVal))
deriving Repr

inductive Seg | key (k : String) | idx (i : Nat) deriving Repr, DecidableEq
abbrev Path := List Seg

structure World where
  fieldTy : String → String → Option Ty          -- object type, field name
  rho     : String → String → Nat → Outcome      -- object type, field name, source id

/-! ## S: declarative. `none` = failure that must propagate to the enclosing position;
the error is recorded where it arises. -/
abbrev ResS := Option JVal × List Path

/-- a *position* of type `t`: failure becomes null iff `t` is nullable -/
def positionS (t : Ty) (r : ResS) : ResS :=
  match r with
  | (none, es) => if t.isNonNull then (none, es) else (some .null, es)
  | r => r

def itemsS (t : Ty) (complete : Path → GoVal → ResS) (p : Path) : List GoVal → Nat → Option (List JVal) × List Path
  | [], _ => (some [], [])
  | v :: vs, i =>
      match positionS t (complete (p ++ [.idx i]) v) with
      | (none, es) => (none, es)                     -- the list fails; later items are not completed
      | (some j, es) =>
        match itemsS t complete p vs (i+1) with
        | (some js, es') => (some (j :: js), es ++ es')
        | (none, es') => (none, es ++ es')

def fieldsS (w : World) (complete : Ty → List Sel → Path → GoVal → ResS) (n : String) (id : Nat) (p : Path) :
    List Sel → Option (List (String × JVal)) × List Path
  | [] => (some [], [])
  | .field key name sels :: rest =>
      match w.fieldTy n name with
      | none => fieldsS w complete n id p rest       -- unknown field: skipped
      | some t =>
        let r := match w.rho n name id with
          | .err => (none, [p ++ [.key key]])
          | .val v => complete t sels (p ++ [.key key]) v
        match positionS t r with
        | (none, es) => (none, es)                   -- remaining siblings are not executed
        | (some j, es) =>
          match fieldsS w complete n id p rest with
          | (some fs, es') => (some ((key, j) :: fs), es ++ es')
          | (none, es') => (none, es ++ es')

def completeS (w : World) : Nat → Ty → List Sel → Path → GoVal → ResS
  | 0, _, _, p, _ => (none, [p])
  | fuel+1, .nonNull t, sels, p, v =>
      match completeS w fuel t sels p v with
      | (some .null, es) => (none, es ++ [p])       -- "Cannot return null for non-nullable field"
      | r => r
  | _+1, _, _, _, .null => (some .null, [])
  | fuel+1, .list t, sels, p, .listV vs =>
      match itemsS t (completeS w fuel t sels) p vs 0 with
      | (some js, es) => (some (.list js), es)
      | (none, es) => (none, es)
  | _+1, .list _, _, p, _ => (none, [p])           -- not iterable
  | _+1, .leaf, _, _, .leafV i => (some (.int i), [])
  | _+1, .leaf, _, _, _ => (some .null, [])         -- serialisation yields null
  | fuel+1, .obj n, sels, p, .ref id =>
      match fieldsS w (completeS w fuel) n id p sels with
      | (some fs, es) => (some (.obj fs), es)
      | (none, es) => (none, es)
  | _+1, .obj _, _, p, _ => (none, [p])

/-! ## M: Go-style. A computation returns either a value or a *pending panic* (the located error,
not yet recorded) together with the errors recorded so far (Go: `eCtx.Errors` survives panics). -/
abbrev ResM := Except Path JVal × List Path

/-- `defer recover → handleFieldError`: re-panic for non-null return types, else record and yield null. -/
def recoverAt (t : Ty) (r : ResM) : ResM :=
  match r with
  | (.error e, es) => if t.isNonNull then (.error e, es) else (.ok .null, es ++ [e])
  | r => r

/-- loop of `completePlannedListValue`; each item through `completePlannedValueCatchingError` -/
def itemsM (t : Ty) (complete : Path → GoVal → ResM) (p : Path) : List GoVal → Nat → Except Path (List JVal) × List Path
  | [], _ => (.ok [], [])
  | v :: vs, i =>
      match recoverAt t (complete (p ++ [.idx i]) v) with
      | (.error e, es) => (.error e, es)              -- panic unwinds the loop
      | (.ok j, es) =>
        match itemsM t complete p vs (i+1) with
        | (.ok js, es') => (.ok (j :: js), es ++ es')
        | (.error e, es') => (.error e, es ++ es')

/-- `executePlannedSelection` + `resolvePlannedField` -/
def fieldsM (w : World) (complete : Ty → List Sel → Path → GoVal → ResM) (n : String) (id : Nat) (p : Path) :
    List Sel → Except Path (List (String × JVal)) × List Path
  | [] => (.ok [], [])
  | .field key name sels :: rest =>
      match w.fieldTy n name with
      | none => fieldsM w complete n id p rest
      | some t =>
        let r : ResM := match w.rho n name id with
          | .err => (.error (p ++ [.key key]), [])      -- panic(resolveFnError)
          | .val v => complete t sels (p ++ [.key key]) v
        match recoverAt t r with
        | (.error e, es) => (.error e, es)
        | (.ok j, es) =>
          match fieldsM w complete n id p rest with
          | (.ok fs, es') => (.ok ((key, j) :: fs), es ++ es')
          | (.error e, es') => (.error e, es ++ es')

/-- `completePlannedValue` -/
def completeM (w : World) : Nat → Ty → List Sel → Path → GoVal → ResM
  | 0, _, _, p, _ => (.error p, [])
  | fuel+1, .nonNull t, sels, p, v =>
      match completeM w fuel t sels p v with
      | (.ok .null, es) => (.error p, es)             -- panic(Cannot return null …)
      | r => r
  | _+1, _, _, _, .null => (.ok .null, [])
  | fuel+1, .list t, sels, p, .listV vs =>
      match itemsM t (completeM w fuel t sels) p vs 0 with
      | (.ok js, es) => (.ok (.list js), es)
      | (.error e, es) => (.error e, es)
  | _+1, .list _, _, p, _ => (.error p, [])
  | _+1, .leaf, _, _, .leafV i => (.ok (.int i), [])
  | _+1, .leaf, _, _, _ => (.ok .null, [])
  | fuel+1, .obj n, sels, p, .ref id =>
      match fieldsM w (completeM w fuel) n id p sels with
      | (.ok fs, es) => (.ok (.obj fs), es)
      | (.error e, es) => (.error e, es)
  | _+1, .obj _, _, p, _ => (.error p, [])

/-- the simulation relation: a pending panic is an error S has already recorded -/
def toS {α} : Except Path α × List Path → Option α × List Path
  | (.ok v, es) => (some v, es)
  | (.error e, es) => (none, es ++ [e])

theorem positionS_toS (t : Ty) (r : ResM) : positionS t (toS r) = toS (recoverAt t r) := by
  obtain ⟨x, es⟩ := r
  cases x <;> simp [toS, recoverAt, positionS] <;> split <;> simp [toS]

theorem items_sim (t : Ty) (cM : Path → GoVal → ResM) (cS : Path → GoVal → ResS)
    (h : ∀ p v, toS (cM p v) = cS p v) (p : Path) :
    ∀ (vs : List GoVal) (i : Nat), toS (itemsM t cM p vs i) = itemsS t cS p vs i := by
  intro vs
  induction vs with
  | nil => intro i; simp [itemsM, itemsS, toS]
  | cons v vs ih =>
    intro i
    simp only [itemsM, itemsS]
    rw [← h, positionS_toS]
    rcases hr : recoverAt t (cM (p ++ [Seg.idx i]) v) with ⟨x, es⟩
    cases x with
    | error e => simp [toS]
    | ok j =>
      simp only [toS]
      rw [← ih (i+1)]
      rcases hi : itemsM t cM p vs (i+1) with ⟨y, es'⟩
      cases y with
      | error e => simp [toS, List.append_assoc]
      | ok jl => simp [toS]

theorem fields_sim (w : World) (cM : Ty → List Sel → Path → GoVal → ResM) (cS : Ty → List Sel → Path → GoVal → ResS)
    (h : ∀ t sels p v, toS (cM t sels p v) = cS t sels p v) (n : String) (id : Nat) (p : Path) :
    ∀ (sels : List Sel), toS (fieldsM w cM n id p sels) = fieldsS w cS n id p sels := by
  intro sels
  induction sels with
  | nil => simp [fieldsM, fieldsS, toS]
  | cons s rest ih =>
    obtain ⟨key, name, sub⟩ := s
    simp only [fieldsM, fieldsS]
    cases hf : w.fieldTy n name with
    | none => simpa using ih
    | some t =>
      simp only []
      have hr : (match w.rho n name id with
            | .err => ((none, [p ++ [Seg.key key]]) : ResS)
            | .val v => cS t sub (p ++ [Seg.key key]) v) =
          toS (match w.rho n name id with
            | .err => ((.error (p ++ [Seg.key key]), []) : ResM)
            | .val v => cM t sub (p ++ [Seg.key key]) v) := by
        cases w.rho n name id with
        | err => simp [toS]
        | val v => exact (h t sub (p ++ [Seg.key key]) v).symm
      rw [hr, positionS_toS]
      rcases hrec : recoverAt t (match w.rho n name id with
            | .err => ((.error (p ++ [Seg.key key]), []) : ResM)
            | .val v => cM t sub (p ++ [Seg.key key]) v) with ⟨x, es⟩
      cases x with
      | error e => simp [toS]
      | ok j =>
        simp only [toS]
        rw [← ih]
        rcases hi : fieldsM w cM n id p rest with ⟨y, es'⟩
        cases y with
        | error e => simp [toS, List.append_assoc]
        | ok jl => simp [toS]

/-- Spike theorem: for every world (every assignment of value/error outcomes), every type, selection,
source value and fuel, the Go-style completion with recover points computes the declarative result:
same data, same recorded errors in the same order; a pending panic corresponds to a recorded error
whose position could not absorb it. -/
theorem complete_sim (w : World) : ∀ (fuel : Nat) (t : Ty) (sels : List Sel) (p : Path) (v : GoVal),
    toS (completeM w fuel t sels p v) = completeS w fuel t sels p v := by
  intro fuel
  induction fuel with
  | zero => intro t sels p v; simp [completeM, completeS, toS]
  | succ fuel ih =>
    intro t sels p v
    cases t with
    | nonNull t =>
      simp only [completeM, completeS]
      rw [← ih t sels p v]
      rcases completeM w fuel t sels p v with ⟨x, es⟩
      cases x with
      | error e => simp [toS]
      | ok j => cases j <;> simp [toS]
    | leaf => cases v <;> simp [completeM, completeS, toS]
    | list t =>
      cases v with
      | listV vs =>
        simp only [completeM, completeS]
        rw [← items_sim t _ _ (fun p v => ih t sels p v) p vs 0]
        rcases itemsM t (completeM w fuel t sels) p vs 0 with ⟨y, es⟩
        cases y <;> simp [toS]
      | _ => simp [completeM, completeS, toS]
    | obj n =>
      cases v with
      | ref id =>
        simp only [completeM, completeS]
        rw [← fields_sim w _ _ (fun t sels p v => ih t sels p v) n id p sels]
        rcases fieldsM w (completeM w fuel) n id p sels with ⟨y, es⟩
        cases y <;> simp [toS]
      | _ => simp [completeM, completeS, toS]

def w0 : World :=
  { fieldTy := fun o f => if o == "Q" && f == "a" then some (.nonNull .leaf) else if o == "Q" && f == "q" then some (.obj "Q") else none
    rho := fun _ f id => if f == "a" then (if id == 1 then .err else .val (.leafV 7)) else .val (.ref (id+1)) }
def sel0 : List Sel := [.field "a" "a" [], .field "q" "q" [.field "a" "a" []]]
#eval completeS w0 10 (.obj "Q") sel0 [] (.ref 0)
example : completeS w0 10 (.obj "Q") sel0 [] (.ref 0) = toS (completeM w0 10 (.obj "Q") sel0 [] (.ref 0)) := rfl
example : (completeS w0 10 (.obj "Q") sel0 [] (.ref 0)).2 = [[.key "q", .key "a"]] := by decide

end ExecEq
