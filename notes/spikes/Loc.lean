namespace Loc

/-- Line terminator matches of the regexp `\r\n|[\n\r]` (leftmost, non-overlapping), as (start, length). -/
def terms : List UInt8 → Nat → List (Nat × Nat)
  | [], _ => []
  | 13 :: 10 :: rest, i => (i, 2) :: terms rest (i + 2)
  | 13 :: rest, i => (i, 1) :: terms rest (i + 1)
  | 10 :: rest, i => (i, 1) :: terms rest (i + 1)
  | _ :: rest, i => terms rest (i + 1)

/-- Model of the Go loop in `location.GetLocation`. -/
def goLoop (pos : Nat) : List (Nat × Nat) → Nat × Nat → Nat × Nat
  | [], acc => acc
  | (idx, len) :: ms, (line, col) =>
    if idx < pos then goLoop pos ms (line + 1, pos + 1 - (idx + len)) else (line, col)

def getLocation (body : List UInt8) (pos : Nat) : Nat × Nat :=
  goLoop pos (terms body 0) (1, pos + 1)

/-- Independent specification: count terminators starting before `pos`; column is offset from the end of the last one. -/
def specLine (body : List UInt8) (pos : Nat) : Nat :=
  1 + ((terms body 0).filter (fun m => m.1 < pos)).length

def specLineStart (body : List UInt8) (pos : Nat) : Nat :=
  match ((terms body 0).filter (fun m => m.1 < pos)).getLast? with
  | none => 0
  | some (idx, len) => idx + len

/-- matches are sorted by start -/
theorem terms_lb : ∀ (b : List UInt8) (i : Nat), ∀ m ∈ terms b i, i ≤ m.1 := by
  intro b i
  fun_induction terms b i <;> simp_all <;> (try omega)
  all_goals
    intro a b h
    rename_i ih
    have := ih a b h
    omega

theorem goLoop_spec (pos : Nat) : ∀ (ms : List (Nat × Nat)) (line col : Nat),
    ms.Pairwise (fun a b => a.1 < b.1) →
    goLoop pos ms (line, col) =
      (line + (ms.filter (fun m => m.1 < pos)).length,
       match (ms.filter (fun m => m.1 < pos)).getLast? with
       | none => col
       | some (idx, len) => pos + 1 - (idx + len)) := by
  intro ms
  induction ms with
  | nil => intro line col _; simp [goLoop]
  | cons m ms ih =>
    intro line col hp
    obtain ⟨idx, len⟩ := m
    have hp' := (List.pairwise_cons.mp hp)
    simp only [goLoop]
    split
    · rename_i h
      rw [ih _ _ hp'.2]
      simp [h]
      constructor
      · omega
      · cases hf : (ms.filter (fun m => decide (m.1 < pos))).getLast? with
        | none => simp [List.getLast?_cons, hf]
        | some x => simp [List.getLast?_cons, hf]
    · rename_i h
      have : ms.filter (fun m => decide (m.1 < pos)) = [] := by
        apply List.filter_eq_nil_iff.mpr
        intro a ha
        have := hp'.1 a ha
        simp; simp at this; omega
      simp [h, this]

end Loc
