/-! Spike D (C03 reduced): token-level recursive-descent `parseValueLiteral` (as in parser.go) is sound and
complete for the Value grammar, for all token lists. -/
namespace PV

inductive Tok where
  | dollar | lbrack | rbrack | lbrace | rbrace | colon
  | name (s : String) | int (s : String) | str (s : String)
  | other
deriving DecidableEq, Repr

inductive Val where
  | var (n : String) | int (s : String) | str (s : String) | bool (b : Bool) | enum (n : String)
  | list (vs : List Val) | obj (fs : List (String × Val))
deriving Repr

/-! ### Grammar (spec): `DV c ts v rest` — `ts` starts with a Value[const = c] producing `v`, leaving `rest`. -/
mutual
inductive DV : Bool → List Tok → Val → List Tok → Prop
  | var {n r} : DV false (.dollar :: .name n :: r) (.var n) r
  | int {c s r} : DV c (.int s :: r) (.int s) r
  | str {c s r} : DV c (.str s :: r) (.str s) r
  | tru {c r} : DV c (.name "true" :: r) (.bool true) r
  | fls {c r} : DV c (.name "false" :: r) (.bool false) r
  | enum {c n r} : n ≠ "true" → n ≠ "false" → n ≠ "null" → DV c (.name n :: r) (.enum n) r
  | list {c ts vs r} : DVs c ts vs r → DV c (.lbrack :: ts) (.list vs) r
  | obj {c ts fs r} : DFs c ts fs r → DV c (.lbrace :: ts) (.obj fs) r
/-- `Value* ]` -/
inductive DVs : Bool → List Tok → List Val → List Tok → Prop
  | nil {c r} : DVs c (.rbrack :: r) [] r
  | cons {c ts v mid vs r} : DV c ts v mid → DVs c mid vs r → DVs c ts (v :: vs) r
/-- `(Name : Value)* }` -/
inductive DFs : Bool → List Tok → List (String × Val) → List Tok → Prop
  | nil {c r} : DFs c (.rbrace :: r) [] r
  | cons {c n ts v mid fs r} : DV c ts v mid → DFs c mid fs r → DFs c (.name n :: .colon :: ts) ((n, v) :: fs) r
end

/-! ### Parser (model of parser.go): fuel-indexed; loops are open in the element parser. -/
abbrev P (α : Type) := Option (α × List Tok)

/-- `reverse(BRACKET_L, item, BRACKET_R, false)` after the opening bracket was consumed -/
def many (item : List Tok → P Val) : Nat → List Tok → P (List Val)
  | 0, _ => none
  | _+1, .rbrack :: r => some ([], r)
  | n+1, ts =>
    match item ts with
    | none => none
    | some (v, mid) =>
      match many item n mid with
      | none => none
      | some (vs, r) => some (v :: vs, r)

/-- the loop of `parseObject` after `{` -/
def fields (item : List Tok → P Val) : Nat → List Tok → P (List (String × Val))
  | 0, _ => none
  | _+1, .rbrace :: r => some ([], r)
  | n+1, .name k :: .colon :: ts =>
    match item ts with
    | none => none
    | some (v, mid) =>
      match fields item n mid with
      | none => none
      | some (fs, r) => some ((k, v) :: fs, r)
  | _+1, _ => none

def parseValue (c : Bool) : Nat → List Tok → P Val
  | 0, _ => none
  | n+1, .lbrack :: ts => (many (parseValue c n) (ts.length + 1) ts).map (fun (vs, r) => (.list vs, r))
  | n+1, .lbrace :: ts => (fields (parseValue c n) (ts.length + 1) ts).map (fun (fs, r) => (.obj fs, r))
  | _+1, .int s :: r => some (.int s, r)
  | _+1, .str s :: r => some (.str s, r)
  | _+1, .name s :: r =>
    if s = "true" then some (.bool true, r)
    else if s = "false" then some (.bool false, r)
    else if s = "null" then none
    else some (.enum s, r)
  | _+1, .dollar :: .name s :: r => if c then none else some (.var s, r)
  | _+1, _ => none

example : parseValue false 5 [.lbrack, .int "1", .dollar, .name "x", .rbrack, .other]
    = some (.list [.int "1", .var "x"], [.other]) := rfl

/-! ### Soundness -/
theorem many_sound {c : Bool} (item : List Tok → P Val) (hitem : ∀ ts v r, item ts = some (v, r) → DV c ts v r) :
    ∀ n ts vs r, many item n ts = some (vs, r) → DVs c ts vs r := by
  intro n
  induction n with
  | zero => intro ts vs r h; simp [many] at h
  | succ n ih =>
    intro ts vs r h
    by_cases hb : ∃ r', ts = .rbrack :: r'
    · obtain ⟨r', rfl⟩ := hb
      simp [many] at h; obtain ⟨rfl, rfl⟩ := h; exact .nil
    · have hne : ∀ r', ts ≠ .rbrack :: r' := fun r' e => hb ⟨r', e⟩
      rw [many] at h
      · cases hi : item ts with
        | none => simp [hi] at h
        | some p =>
          obtain ⟨v, mid⟩ := p
          simp only [hi] at h
          cases hm : many item n mid with
          | none => simp [hm] at h
          | some q =>
            obtain ⟨vs', r'⟩ := q
            simp [hm] at h; obtain ⟨rfl, rfl⟩ := h
            exact .cons (hitem _ _ _ hi) (ih _ _ _ hm)
      · intro r' e; exact hne r' e

theorem fields_sound {c : Bool} (item : List Tok → P Val) (hitem : ∀ ts v r, item ts = some (v, r) → DV c ts v r) :
    ∀ n ts fs r, fields item n ts = some (fs, r) → DFs c ts fs r := by
  intro n
  induction n with
  | zero => intro ts fs r h; simp [fields] at h
  | succ n ih =>
    intro ts fs r h
    match ts, h with
    | .rbrace :: r', h => simp [fields] at h; obtain ⟨rfl, rfl⟩ := h; exact .nil
    | .name k :: .colon :: ts', h =>
      simp only [fields] at h
      cases hi : item ts' with
      | none => simp [hi] at h
      | some p =>
        obtain ⟨v, mid⟩ := p
        simp only [hi] at h
        cases hm : fields item n mid with
        | none => simp [hm] at h
        | some q =>
          obtain ⟨fs', r'⟩ := q
          simp [hm] at h; obtain ⟨rfl, rfl⟩ := h
          exact .cons (hitem _ _ _ hi) (ih _ _ _ hm)

theorem parseValue_sound (c : Bool) : ∀ n ts v r, parseValue c n ts = some (v, r) → DV c ts v r := by
  intro n
  induction n with
  | zero => intro ts v r h; simp [parseValue] at h
  | succ n ih =>
    intro ts v r h
    match ts, h with
    | .lbrack :: ts', h =>
      simp only [parseValue, Option.map_eq_some_iff] at h
      obtain ⟨⟨vs, r'⟩, hm, he⟩ := h
      simp at he; obtain ⟨rfl, rfl⟩ := he
      exact .list (many_sound _ (ih) _ _ _ _ hm)
    | .lbrace :: ts', h =>
      simp only [parseValue, Option.map_eq_some_iff] at h
      obtain ⟨⟨fs, r'⟩, hm, he⟩ := h
      simp at he; obtain ⟨rfl, rfl⟩ := he
      exact .obj (fields_sound _ (ih) _ _ _ _ hm)
    | .int s :: r', h => simp [parseValue] at h; obtain ⟨rfl, rfl⟩ := h; exact .int
    | .str s :: r', h => simp [parseValue] at h; obtain ⟨rfl, rfl⟩ := h; exact .str
    | .name s :: r', h =>
      simp only [parseValue] at h
      split at h
      · simp at h; obtain ⟨rfl, rfl⟩ := h; subst_vars; exact .tru
      · split at h
        · simp at h; obtain ⟨rfl, rfl⟩ := h; subst_vars; exact .fls
        · split at h
          · simp at h
          · simp at h; obtain ⟨rfl, rfl⟩ := h; exact .enum ‹_› ‹_› ‹_›
    | .dollar :: .name s :: r', h =>
      simp only [parseValue] at h
      cases c with
      | true => simp at h
      | false => simp at h; obtain ⟨rfl, rfl⟩ := h; exact .var

/-! ### Completeness -/
mutual
theorem DV.progress : ∀ {c ts v r}, DV c ts v r → r.length < ts.length
  | _, _, _, _, .var => by simp; omega
  | _, _, _, _, .int => by simp
  | _, _, _, _, .str => by simp
  | _, _, _, _, .tru => by simp
  | _, _, _, _, .fls => by simp
  | _, _, _, _, .enum _ _ _ => by simp
  | _, _, _, _, .list h => by have := DVs.progress h; simp; omega
  | _, _, _, _, .obj h => by have := DFs.progress h; simp; omega
theorem DVs.progress : ∀ {c ts vs r}, DVs c ts vs r → vs.length + r.length < ts.length
  | _, _, _, _, .nil => by simp
  | _, _, _, _, .cons h1 h2 => by
      have := DV.progress h1; have := DVs.progress h2; simp; omega
theorem DFs.progress : ∀ {c ts fs r}, DFs c ts fs r → fs.length + r.length < ts.length
  | _, _, _, _, .nil => by simp
  | _, _, _, _, .cons h1 h2 => by
      have := DV.progress h1; have := DFs.progress h2; simp; omega
end

theorem DV.not_rbrack {c ts v r} (h : DV c ts v r) : ∀ r', ts ≠ .rbrack :: r' := by
  cases h <;> intro r' e <;> cases e

mutual
theorem DV.complete : ∀ {c ts v r}, DV c ts v r → ∃ N, ∀ n, N ≤ n → parseValue c n ts = some (v, r)
  | _, _, _, _, .var => ⟨1, fun n hn => by
      obtain ⟨m, rfl⟩ : ∃ m, n = m + 1 := ⟨n - 1, by omega⟩
      simp [parseValue]⟩
  | _, _, _, _, .int => ⟨1, fun n hn => by
      obtain ⟨m, rfl⟩ : ∃ m, n = m + 1 := ⟨n - 1, by omega⟩
      simp [parseValue]⟩
  | _, _, _, _, .str => ⟨1, fun n hn => by
      obtain ⟨m, rfl⟩ : ∃ m, n = m + 1 := ⟨n - 1, by omega⟩
      simp [parseValue]⟩
  | _, _, _, _, .tru => ⟨1, fun n hn => by
      obtain ⟨m, rfl⟩ : ∃ m, n = m + 1 := ⟨n - 1, by omega⟩
      simp [parseValue]⟩
  | _, _, _, _, .fls => ⟨1, fun n hn => by
      obtain ⟨m, rfl⟩ : ∃ m, n = m + 1 := ⟨n - 1, by omega⟩
      simp [parseValue]⟩
  | _, _, _, _, .enum h1 h2 h3 => ⟨1, fun n hn => by
      obtain ⟨m, rfl⟩ : ∃ m, n = m + 1 := ⟨n - 1, by omega⟩
      simp [parseValue, h1, h2, h3]⟩
  | _, _, _, _, .list (ts := ts) (vs := vs) h => by
      obtain ⟨N, hN⟩ := DVs.complete h
      refine ⟨N + 1, fun n hn => ?_⟩
      obtain ⟨m, rfl⟩ : ∃ m, n = m + 1 := ⟨n - 1, by omega⟩
      have hp := DVs.progress h
      simp only [parseValue]
      rw [hN m (by omega) (ts.length + 1) (by omega)]
      rfl
  | _, _, _, _, .obj (ts := ts) (fs := fs) h => by
      obtain ⟨N, hN⟩ := DFs.complete h
      refine ⟨N + 1, fun n hn => ?_⟩
      obtain ⟨m, rfl⟩ : ∃ m, n = m + 1 := ⟨n - 1, by omega⟩
      have hp := DFs.progress h
      simp only [parseValue]
      rw [hN m (by omega) (ts.length + 1) (by omega)]
      rfl
theorem DVs.complete : ∀ {c ts vs r}, DVs c ts vs r →
    ∃ N, ∀ n, N ≤ n → ∀ k, vs.length < k → many (parseValue c n) k ts = some (vs, r)
  | _, _, _, _, .nil => ⟨0, fun n _ k hk => by
      obtain ⟨k', rfl⟩ : ∃ k', k = k' + 1 := ⟨k - 1, by omega⟩
      simp [many]⟩
  | _, _, _, _, .cons (vs := vs) h1 h2 => by
      obtain ⟨N1, hN1⟩ := DV.complete h1
      obtain ⟨N2, hN2⟩ := DVs.complete h2
      refine ⟨max N1 N2, fun n hn k hk => ?_⟩
      obtain ⟨k', rfl⟩ : ∃ k', k = k' + 1 := ⟨k - 1, by simp at hk; omega⟩
      rw [many]
      · rw [hN1 n (by omega)]
        simp only []
        rw [hN2 n (by omega) k' (by simp at hk; omega)]
      · exact DV.not_rbrack h1
theorem DFs.complete : ∀ {c ts fs r}, DFs c ts fs r →
    ∃ N, ∀ n, N ≤ n → ∀ k, fs.length < k → fields (parseValue c n) k ts = some (fs, r)
  | _, _, _, _, .nil => ⟨0, fun n _ k hk => by
      obtain ⟨k', rfl⟩ : ∃ k', k = k' + 1 := ⟨k - 1, by omega⟩
      simp [fields]⟩
  | _, _, _, _, .cons (fs := fs) h1 h2 => by
      obtain ⟨N1, hN1⟩ := DV.complete h1
      obtain ⟨N2, hN2⟩ := DFs.complete h2
      refine ⟨max N1 N2, fun n hn k hk => ?_⟩
      obtain ⟨k', rfl⟩ : ∃ k', k = k' + 1 := ⟨k - 1, by simp at hk; omega⟩
      simp only [fields]
      rw [hN1 n (by omega)]
      simp only []
      rw [hN2 n (by omega) k' (by simp at hk; omega)]
end

/-- Spike theorem (C03 for the Value sub-grammar): with fuel ≥ the number of tokens, the recursive-descent
value parser accepts exactly the derivable token lists and builds exactly the derived value. -/
theorem parseValue_iff (c : Bool) (ts : List Tok) (v : Val) (r : List Tok) :
    (∃ n, parseValue c n ts = some (v, r)) ↔ DV c ts v r :=
  ⟨fun ⟨n, h⟩ => parseValue_sound c n ts v r h, fun h => let ⟨N, hN⟩ := DV.complete h; ⟨N, hN N (Nat.le_refl _)⟩⟩

end PV
