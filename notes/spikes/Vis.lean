namespace Vis

inductive Tree where
  | node (id : Nat) (kids : List Tree)
deriving Repr, Inhabited

inductive Act | cont | skip | brk deriving DecidableEq, Repr
inductive Ev | enter (id : Nat) | leave (id : Nat) deriving DecidableEq, Repr

structure Policy where
  onEnter : Nat → Act
  onLeave : Nat → Act   -- skip on leave behaves like cont

/-! Reference: plain recursion. Returns events and whether BREAK happened. -/
mutual
def walk (p : Policy) : Tree → List Ev × Bool
  | .node id kids =>
    match p.onEnter id with
    | .brk  => ([.enter id], true)
    | .skip => ([.enter id], false)
    | .cont =>
      let (es, b) := walkList p kids
      if b then (.enter id :: es, true)
      else match p.onLeave id with
        | .brk => (.enter id :: es ++ [.leave id], true)
        | _    => (.enter id :: es ++ [.leave id], false)
def walkList (p : Policy) : List Tree → List Ev × Bool
  | [] => ([], false)
  | t :: ts =>
    let (es, b) := walk p t
    if b then (es, true) else
      let (es', b') := walkList p ts
      (es ++ es', b')
end

/-! Machine: explicit stack of frames (node id being visited, remaining children). -/
structure Frame where
  id : Nat
  todo : List Tree

inductive St where
  | run (stack : List Frame)      -- top frame first
  | done
  | broken

/-- one step of the loop; emits events -/
def step (p : Policy) : St → St × List Ev
  | .done => (.done, [])
  | .broken => (.broken, [])
  | .run [] => (.done, [])
  | .run (⟨id, []⟩ :: rest) =>            -- leaving `id`
    match p.onLeave id with
    | .brk => (.broken, [.leave id])
    | _ => (.run rest, [.leave id])
  | .run (⟨id, (.node cid ckids) :: more⟩ :: rest) =>   -- entering next child
    match p.onEnter cid with
    | .brk => (.broken, [.enter cid])
    | .skip => (.run (⟨id, more⟩ :: rest), [.enter cid])
    | .cont => (.run (⟨cid, ckids⟩ :: ⟨id, more⟩ :: rest), [.enter cid])

def runN (p : Policy) : Nat → St → St × List Ev
  | 0, s => (s, [])
  | n+1, s =>
    let (s', es) := step p s
    let (s'', es') := runN p n s'
    (s'', es ++ es')

theorem runN_add (p : Policy) (m n : Nat) (s : St) :
    runN p (m + n) s = ((runN p n (runN p m s).1).1, (runN p m s).2 ++ (runN p n (runN p m s).1).2) := by
  induction m generalizing s with
  | zero => simp [runN]
  | succ m ih =>
    have : m + 1 + n = (m + n) + 1 := by omega
    rw [this]
    simp only [runN]
    rw [ih]
    simp [List.append_assoc]

/- Key simulation lemma: from a state whose top frame still has `ts` (then `more`) to do,
the machine processes `ts` exactly as `walkList` says, ending either broken or with `more` left. -/
mutual
theorem sim_tree (p : Policy) (t : Tree) (id : Nat) (more : List Tree) (rest : List Frame) :
    ∃ n, runN p n (.run (⟨id, t :: more⟩ :: rest)) =
      (if (walk p t).2 then St.broken else .run (⟨id, more⟩ :: rest), (walk p t).1) := by
  match t with
  | .node cid ckids =>
    cases h : p.onEnter cid with
    | brk => exact ⟨1, by simp [runN, step, walk, h]⟩
    | skip => exact ⟨1, by simp [runN, step, walk, h]⟩
    | cont =>
      obtain ⟨n, hn⟩ := sim_list p ckids cid [] (⟨id, more⟩ :: rest)
      by_cases hb : (walkList p ckids).2
      · refine ⟨1 + n, ?_⟩
        rw [runN_add]
        simp [runN, step, h, walk, hb]
        simp [hb] at hn
        simp [hn]
      · refine ⟨1 + (n + 1), ?_⟩
        rw [runN_add p 1 (n+1), runN_add p n 1]
        simp [hb] at hn
        simp [runN, step, h, hn, walk, hb]
        cases hl : p.onLeave cid <;> simp
theorem sim_list (p : Policy) (ts : List Tree) (id : Nat) (more : List Tree) (rest : List Frame) :
    ∃ n, runN p n (.run (⟨id, ts ++ more⟩ :: rest)) =
      (if (walkList p ts).2 then St.broken else .run (⟨id, more⟩ :: rest), (walkList p ts).1) := by
  match ts with
  | [] => exact ⟨0, by simp [runN, walkList]⟩
  | t :: ts' =>
    obtain ⟨n, hn⟩ := sim_tree p t id (ts' ++ more) rest
    by_cases hb : (walk p t).2
    · refine ⟨n, ?_⟩
      simp [hb] at hn
      simp [walkList, hb, hn]
    · obtain ⟨m, hm⟩ := sim_list p ts' id more rest
      refine ⟨n + m, ?_⟩
      rw [runN_add]
      simp [hb] at hn
      simp [hn, hm, walkList, hb]
end

end Vis
