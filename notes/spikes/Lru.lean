/-! Spike B (C06 reduced): the LRU layer of PlanCache is transparent and bounded, for every history. -/
namespace Lru

structure Entry (K S R : Type) where
  key : K
  schema : S
  res : R

structure Cache (K S R : Type) where
  cap : Nat
  items : List (Entry K S R)     -- most recently used first

variable {K S R : Type} [DecidableEq K] [DecidableEq S]

/-- `lookup`: schema-pointer guard evicts a stale entry; a hit moves the entry to the front. -/
def lookup (c : Cache K S R) (s : S) (k : K) : Cache K S R × Option R :=
  match c.items.find? (·.key = k) with
  | none => (c, none)
  | some e =>
    let others := c.items.filter (fun x => decide (x.key ≠ k))
    if e.schema = s then ({ c with items := e :: others }, some e.res)
    else ({ c with items := others }, none)

/-- `store`: update in place (and move to front) or push and evict from the tail. -/
def store (c : Cache K S R) (s : S) (k : K) (r : R) : Cache K S R :=
  let others := c.items.filter (fun x => decide (x.key ≠ k))
  { c with items := (⟨k, s, r⟩ :: others).take c.cap }

/-- `Get` in the non-normalising mode, `build` = parse+validate+plan from scratch. -/
def get (build : S → K → R) (c : Cache K S R) (s : S) (k : K) : Cache K S R × R :=
  match lookup c s k with
  | (c', some r) => (c', r)
  | (c', none) => let r := build s k; (store c' s k r, r)

inductive Op (K S : Type) | get (s : S) (k : K) | reset

def stepOp (build : S → K → R) (c : Cache K S R) : Op K S → Cache K S R × Option R
  | .get s k => let (c', r) := get build c s k; (c', some r)
  | .reset => ({ c with items := [] }, none)

def run (build : S → K → R) : Cache K S R → List (Op K S) → Cache K S R × List (Option R)
  | c, [] => (c, [])
  | c, op :: ops =>
    let (c', o) := stepOp build c op
    let (c'', os) := run build c' ops
    (c'', o :: os)

/-- invariant: bounded, and every entry is what building from scratch gives -/
def Inv (build : S → K → R) (c : Cache K S R) : Prop :=
  c.items.length ≤ c.cap ∧ ∀ e ∈ c.items, e.res = build e.schema e.key

theorem find_mem_key {l : List (Entry K S R)} {k : K} {e : Entry K S R}
    (h : l.find? (·.key = k) = some e) : e ∈ l ∧ e.key = k := by
  have h1 := List.mem_of_find?_eq_some h
  have h2 := List.find?_some h
  exact ⟨h1, by simpa using h2⟩

theorem filter_length_lt {l : List (Entry K S R)} {k : K} {e : Entry K S R} (hm : e ∈ l) (hk : e.key = k) :
    (l.filter (fun x => decide (x.key ≠ k))).length < l.length := by
  apply List.length_filter_lt_length_iff_exists.mpr
  exact ⟨e, hm, by simp [hk]⟩

theorem lookup_inv (build : S → K → R) (c : Cache K S R) (s : S) (k : K) (h : Inv build c) :
    Inv build (lookup c s k).1 ∧ (lookup c s k).1.cap = c.cap ∧
    ∀ r, (lookup c s k).2 = some r → r = build s k := by
  unfold lookup
  cases hf : c.items.find? (·.key = k) with
  | none => exact ⟨h, by simp, by simp⟩
  | some e =>
    obtain ⟨hm, hk⟩ := find_mem_key hf
    have hlt := filter_length_lt hm hk
    have hsub : ∀ x ∈ c.items.filter (fun x => decide (x.key ≠ k)), x.res = build x.schema x.key :=
      fun x hx => h.2 x ((List.mem_filter.mp hx).1)
    by_cases hs : e.schema = s
    · simp only [hs, if_true]
      refine ⟨⟨?_, ?_⟩, by simp, ?_⟩
      · show (e :: _).length ≤ c.cap
        simp only [List.length_cons]; have := h.1; omega
      · intro x hx
        rcases List.mem_cons.mp hx with rfl | hx
        · exact h.2 _ hm
        · exact hsub x hx
      · intro r hr
        have : e.res = r := by simpa using hr
        rw [← this, h.2 e hm, hs, hk]
    · simp only [hs, if_false]
      refine ⟨⟨?_, hsub⟩, by simp, by simp⟩
      show (c.items.filter _).length ≤ c.cap
      have := h.1; omega

theorem store_inv (build : S → K → R) (c : Cache K S R) (s : S) (k : K) (h : Inv build c) :
    Inv build (store c s k (build s k)) ∧ (store c s k (build s k)).cap = c.cap := by
  unfold store
  refine ⟨⟨?_, ?_⟩, rfl⟩
  · simp only [List.length_take]; omega
  · intro x hx
    have hx' := List.mem_of_mem_take hx
    rcases List.mem_cons.mp hx' with rfl | hx'
    · rfl
    · exact h.2 x ((List.mem_filter.mp hx').1)

/-- C06 (LRU layer), for every history and every capacity (including 0 and 1): each `Get` returns exactly
what building from scratch returns, and the cache never holds more than `cap` entries. -/
theorem run_transparent (build : S → K → R) :
    ∀ (ops : List (Op K S)) (c : Cache K S R), Inv build c →
      Inv build (run build c ops).1 ∧
      (run build c ops).2 = ops.map (fun op => match op with | .get s k => some (build s k) | .reset => none) := by
  intro ops
  induction ops with
  | nil => intro c h; exact ⟨h, rfl⟩
  | cons op ops ih =>
    intro c h
    cases op with
    | reset =>
      have h' : Inv build { c with items := [] } := ⟨by simp, by simp⟩
      have := ih _ h'
      simp only [run, stepOp, List.map_cons]
      exact ⟨this.1, by rw [this.2]⟩
    | get s k =>
      have hl := lookup_inv build c s k h
      simp only [run, stepOp, get, List.map_cons]
      rcases hlk : lookup c s k with ⟨c', o⟩
      rw [hlk] at hl
      cases o with
      | some r =>
        have hr := hl.2.2 r rfl
        have := ih c' hl.1
        simp only []
        exact ⟨this.1, by rw [this.2, hr]⟩
      | none =>
        have hs := store_inv build c' s k hl.1
        have := ih _ hs.1
        simp only []
        exact ⟨this.1, by rw [this.2]⟩

example : Inv (fun (s : Nat) (k : Nat) => s + k) ({ cap := 1, items := [⟨3, 4, 7⟩] } : Cache Nat Nat Nat) := by
  refine ⟨by simp, ?_⟩
  intro e he; simp at he; subst he; rfl

end Lru
