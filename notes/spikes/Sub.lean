/-! Spike G (C15 reduced): the forwarding goroutine of `ExecuteSubscription` as a transition system.
`fixed = false` is the pinned code (send without watching the context); `fixed = true` is the planned repair
(select on ctx.Done around the send). Safety holds for both; "no forwarder stuck after cancel" only for the repair. -/
namespace Sub

inductive Fwd where
  | idle                -- in `select { ctx.Done / <-sub }`
  | holding (r : Nat)   -- computed a result, blocked in `resultChannel <- r`
  | done                -- returned; `defer close(resultChannel)` ran
deriving DecidableEq, Repr

structure St where
  pending : List Nat      -- source events not yet taken by the forwarder
  srcClosed : Bool
  cancelled : Bool
  fwd : Fwd
  delivered : List Nat    -- results received by the consumer, oldest first
  consumerReads : Bool    -- false = the consumer stopped reading
deriving Repr

variable (exec : Nat → Nat) (fixed : Bool)

/-- one step of the system; `exec` maps a source event to its result -/
inductive Step : St → St → Prop
  | take {s e es} : s.fwd = .idle → s.pending = e :: es →
      Step s { s with pending := es, fwd := .holding (exec e) }
  | srcClose {s} : s.srcClosed = false → Step s { s with srcClosed := true }
  | seeClosed {s} : s.fwd = .idle → s.pending = [] → s.srcClosed = true → Step s { s with fwd := .done }
  | cancel {s} : s.cancelled = false → Step s { s with cancelled := true }
  | seeCancelIdle {s} : s.fwd = .idle → s.cancelled = true → Step s { s with fwd := .done }
  | deliver {s r} : s.fwd = .holding r → s.consumerReads = true →
      Step s { s with fwd := .idle, delivered := s.delivered ++ [r] }
  | seeCancelHolding {s r} : fixed = true → s.fwd = .holding r → s.cancelled = true → Step s { s with fwd := .done }
  | consumerStops {s} : Step s { s with consumerReads := false }

inductive Reach (init : St) : St → Prop
  | refl : Reach init init
  | step {s t} : Reach init s → Step exec fixed s t → Reach init t

def start (events : List Nat) : St :=
  { pending := events, srcClosed := false, cancelled := false, fwd := .idle, delivered := [], consumerReads := true }

def inFlight : Fwd → List Nat | .holding r => [r] | _ => []

/-- invariant: delivered ++ in-flight ++ map exec pending = map exec (all events): exactly one result per event, in order -/
def Inv (events : List Nat) (s : St) : Prop :=
  ∃ dropped : List Nat,
    s.delivered ++ dropped ++ s.pending.map exec = events.map exec ∧
    (dropped = inFlight s.fwd ∨ (s.fwd = .done ∧ dropped.length ≤ 1))

theorem inv_start (events : List Nat) : Inv exec events (start events) :=
  ⟨[], by simp [start], Or.inl (by simp [start, inFlight])⟩

theorem inv_step (events : List Nat) {s t : St} (h : Inv exec events s) (st : Step exec fixed s t) :
    Inv exec events t := by
  obtain ⟨d, hd, hcase⟩ := h
  cases st with
  | @take e es hf hp =>
    rcases hcase with hc | ⟨hdn, _⟩
    · refine ⟨[exec e], ?_, Or.inl (by simp [inFlight])⟩
      simp [hf, inFlight] at hc; subst hc
      simpa [hp] using hd
    · simp [hf] at hdn
  | srcClose _ => exact ⟨d, hd, hcase⟩
  | seeClosed hf hp _ =>
    rcases hcase with hc | ⟨hdn, _⟩
    · simp [hf, inFlight] at hc; subst hc
      exact ⟨[], hd, Or.inr ⟨rfl, by simp⟩⟩
    · simp [hf] at hdn
  | cancel _ => exact ⟨d, hd, hcase⟩
  | seeCancelIdle hf _ =>
    rcases hcase with hc | ⟨hdn, _⟩
    · simp [hf, inFlight] at hc; subst hc
      exact ⟨[], hd, Or.inr ⟨rfl, by simp⟩⟩
    · simp [hf] at hdn
  | @deliver r hf _ =>
    rcases hcase with hc | ⟨hdn, _⟩
    · simp [hf, inFlight] at hc; subst hc
      exact ⟨[], by simpa using hd, Or.inl (by simp [inFlight])⟩
    · simp [hf] at hdn
  | @seeCancelHolding r _ hf _ =>
    rcases hcase with hc | ⟨hdn, _⟩
    · simp [hf, inFlight] at hc; subst hc
      exact ⟨[r], hd, Or.inr ⟨rfl, by simp⟩⟩
    · simp [hf] at hdn
  | consumerStops => exact ⟨d, hd, hcase⟩

/-- C15 safety, every schedule: what the consumer has received is a prefix of `map exec events`. -/
theorem delivered_is_mapped_prefix (events : List Nat) {s : St} (h : Reach exec fixed (start events) s) :
    ∃ rest, s.delivered ++ rest = events.map exec := by
  have hinv : Inv exec events s := by
    induction h with
    | refl => exact inv_start exec events
    | step _ st ih => exact inv_step exec fixed events ih st
  obtain ⟨d, hd, _⟩ := hinv
  exact ⟨d ++ s.pending.map exec, by simpa [List.append_assoc] using hd⟩

/-- C15 leak freedom for the repaired forwarder: once cancelled, the forwarder can always reach `done`
without any help from the consumer. -/
theorem forwarder_not_stuck_fixed (s : St) (hc : s.cancelled = true) (hnd : s.fwd ≠ .done) :
    ∃ t, Step exec true s t ∧ t.fwd = .done := by
  cases hf : s.fwd with
  | idle => exact ⟨_, .seeCancelIdle hf hc, rfl⟩
  | holding r => exact ⟨_, .seeCancelHolding rfl hf hc, rfl⟩
  | done => exact absurd hf hnd

/-- …and the pinned code has a reachable state where it is stuck forever (D-15a): holding a result,
context cancelled, consumer gone — no step changes `fwd`. -/
theorem forwarder_stuck_pinned :
    ∃ s, Reach exec false (start [7]) s ∧ s.cancelled = true ∧ s.fwd ≠ .done ∧
      ∀ t, Step exec false s t → t.fwd = s.fwd := by
  let s1 : St := { pending := [], srcClosed := false, cancelled := false, fwd := .holding (exec 7), delivered := [], consumerReads := true }
  let s2 : St := { s1 with consumerReads := false }
  let s3 : St := { s2 with cancelled := true }
  refine ⟨s3, ?_, rfl, by simp [s3, s2, s1], ?_⟩
  · have r1 : Reach exec false (start [7]) s1 := .step .refl (.take (e := 7) (es := []) rfl rfl)
    have r2 : Reach exec false (start [7]) s2 := .step r1 .consumerStops
    exact .step r2 (.cancel rfl)
  · intro t st
    cases st <;> simp_all [s3, s2, s1]

end Sub
