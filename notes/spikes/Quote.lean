/-! Spike F (C08 reduced): GraphQL string quoting (the planned D-08a repair, byte-wise) followed by the lexer's
`readString` gives back exactly the original bytes, for every byte string. -/
namespace Quote

abbrev B := UInt8

def hexDigit (n : Nat) : B := if n < 10 then (48 + n).toUInt8 else (55 + n).toUInt8   -- 0-9, A-F

/-- escape one byte -/
def esc (b : B) : List B :=
  if b = 34 then [92, 34]            -- \"
  else if b = 92 then [92, 92]       -- \\
  else if b = 8 then [92, 98]        -- \b
  else if b = 12 then [92, 102]      -- \f
  else if b = 10 then [92, 110]      -- \n
  else if b = 13 then [92, 114]      -- \r
  else if b = 9 then [92, 116]       -- \t
  else if b < 32 ∨ b = 127 then [92, 117, 48, 48, hexDigit (b.toNat / 16), hexDigit (b.toNat % 16)]
  else [b]

def quoteBody : List B → List B
  | [] => []
  | b :: bs => esc b ++ quoteBody bs

def quote (s : List B) : List B := 34 :: quoteBody s ++ [34]

def hexVal (b : B) : Option Nat :=
  if 48 ≤ b ∧ b ≤ 57 then some (b.toNat - 48)
  else if 65 ≤ b ∧ b ≤ 70 then some (b.toNat - 55)
  else if 97 ≤ b ∧ b ≤ 102 then some (b.toNat - 87)
  else none

/-- one escape sequence after the backslash: decoded byte and remaining input -/
def unescape : List B → Option (B × List B)
  | [] => none
  | c :: rest =>
    if c = 34 then some (34, rest)
    else if c = 47 then some (47, rest)
    else if c = 92 then some (92, rest)
    else if c = 98 then some (8, rest)
    else if c = 102 then some (12, rest)
    else if c = 110 then some (10, rest)
    else if c = 114 then some (13, rest)
    else if c = 116 then some (9, rest)
    else if c = 117 then
      match rest with
      | a :: b :: c' :: d :: rest' =>
        match hexVal a, hexVal b, hexVal c', hexVal d with
        | some 0, some 0, some h, some l => some ((h * 16 + l).toUInt8, rest')   -- only code points < 0x80 arise from `quote`
        | _, _, _, _ => none
      | _ => none
    else none

/-- body of `readString` after the opening quote (byte-wise view).
Returns the decoded value and the rest after the closing quote. -/
def unquoteBody : Nat → List B → Option (List B × List B)
  | 0, _ => none
  | _+1, [] => none                                  -- unterminated
  | n+1, b :: rest =>
    if b = 34 then some ([], rest)
    else if b = 92 then
      match unescape rest with
      | none => none
      | some (x, rest') => (unquoteBody n rest').map (fun (v, r) => (x :: v, r))
    else if b = 10 ∨ b = 13 then none                -- line terminator: unterminated
    else if b < 32 ∧ b ≠ 9 then none                 -- invalid character within String
    else (unquoteBody n rest).map (fun (v, r) => (b :: v, r))

def unquote (bs : List B) : Option (List B × List B) :=
  match bs with
  | 34 :: rest => unquoteBody (rest.length + 1) rest
  | _ => none

example : unquote (quote [104, 34, 7, 127, 200, 10] ++ [32, 120]) = some ([104, 34, 7, 127, 200, 10], [32, 120]) := by decide

theorem hexVal_hexDigit (n : Nat) (h : n < 16) : hexVal (hexDigit n) = some n := by
  have : n = 0 ∨ n = 1 ∨ n = 2 ∨ n = 3 ∨ n = 4 ∨ n = 5 ∨ n = 6 ∨ n = 7 ∨ n = 8 ∨ n = 9 ∨ n = 10 ∨ n = 11 ∨ n = 12 ∨
      n = 13 ∨ n = 14 ∨ n = 15 := by omega
  rcases this with h|h|h|h|h|h|h|h|h|h|h|h|h|h|h|h <;> subst h <;> decide

theorem toUInt8_toNat (b : B) : (b.toNat).toUInt8 = b := by
  cases b; simp [Nat.toUInt8, UInt8.toNat, UInt8.ofNat]

/-- one loop iteration of `readString` undoes one `esc` -/
theorem esc_step (b : B) (n : Nat) (rest : List B) :
    unquoteBody (n + 1) (esc b ++ rest) = (unquoteBody n rest).map (fun (v, r) => (b :: v, r)) := by
  unfold esc
  split
  · subst_vars; simp [unquoteBody, unescape]
  split
  · subst_vars; simp [unquoteBody, unescape]
  split
  · subst_vars; simp [unquoteBody, unescape]
  split
  · subst_vars; simp [unquoteBody, unescape]
  split
  · subst_vars; simp [unquoteBody, unescape]
  split
  · subst_vars; simp [unquoteBody, unescape]
  split
  · subst_vars; simp [unquoteBody, unescape]
  split
  · have hlt : b.toNat / 16 < 16 := by have := b.toNat_lt; omega
    have hlt2 : b.toNat % 16 < 16 := by omega
    have h0 : hexVal 48 = some 0 := by decide
    have hb : (b.toNat / 16 * 16 + b.toNat % 16).toUInt8 = b := by
      have : b.toNat / 16 * 16 + b.toNat % 16 = b.toNat := by omega
      rw [this]; exact toUInt8_toNat b
    simp [unquoteBody, unescape, hexVal_hexDigit _ hlt, hexVal_hexDigit _ hlt2, h0, hb]
  · rename_i h1 h2 h3 h4 h5 h6 h7 h8
    have hge : ¬ (b < 32) := fun h => h8 (Or.inl h)
    simp [unquoteBody, h1, h2, h5, h6, hge]

theorem quote_roundtrip (s rest : List B) :
    ∀ n, s.length < n → unquoteBody n (quoteBody s ++ 34 :: rest) = some (s, rest) := by
  induction s with
  | nil => intro n hn; obtain ⟨m, rfl⟩ : ∃ m, n = m + 1 := ⟨n - 1, by simp at hn; omega⟩; simp [quoteBody, unquoteBody]
  | cons b bs ih =>
    intro n hn
    obtain ⟨m, rfl⟩ : ∃ m, n = m + 1 := ⟨n - 1, by simp at hn; omega⟩
    simp only [quoteBody, List.append_assoc]
    rw [esc_step, ih m (by simp at hn; omega)]
    rfl

theorem esc_length (b : B) : 1 ≤ (esc b).length := by
  unfold esc
  split <;> try simp
  split <;> try simp
  split <;> try simp
  split <;> try simp
  split <;> try simp
  split <;> try simp
  split <;> try simp
  split <;> simp

theorem quoteBody_length (s : List B) : s.length ≤ (quoteBody s).length := by
  induction s with
  | nil => simp [quoteBody]
  | cons b bs ih => simp only [quoteBody, List.length_append, List.length_cons]; have := esc_length b; omega

/-- Spike theorem (C08, string values): for every byte string `s` and every continuation `rest`,
lexing the quoted form yields exactly `s` and resumes exactly at `rest`. -/
theorem unquote_quote (s rest : List B) : unquote (quote s ++ rest) = some (s, rest) := by
  simp only [quote, unquote, List.cons_append, List.append_assoc]
  apply quote_roundtrip
  have := quoteBody_length s
  simp; omega

end Quote
