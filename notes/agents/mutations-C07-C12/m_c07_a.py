s=open('plan.go').read()
old='''	p.abstractMu.Lock()
	defer p.abstractMu.Unlock()
'''
assert s.count(old)==1
open('plan.go','w').write(s.replace(old,''))
