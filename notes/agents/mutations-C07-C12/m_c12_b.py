# directive arguments in map order again
s=open('directives.go').read()
i=s.index('sort.Strings(')
k=s.index('\n', i)
s=s[:i]+'_ = sort.Strings'+s[k:]
open('directives.go','w').write(s)
