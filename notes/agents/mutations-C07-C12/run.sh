#!/bin/bash
# usage: run.sh <name> <prop: c07|c12> <python-patch-file>
set -u
export GOFLAGS=-mod=mod GOPROXY=off GOSUMDB=off GOTOOLCHAIN=local
name=$1; prop=$2; patch=$3
rm -rf /tmp/repo-mut && cp -r /repo /tmp/repo-mut && cd /tmp/repo-mut && git checkout -q -f HEAD && git clean -fdq
python3 $patch || { echo "PATCH FAILED"; exit 1; }
go build ./... || { echo "MUTANT DOES NOT COMPILE"; exit 1; }
echo "=== $name: diff"; git diff --stat | tail -1
# 1. tables
/verif/.build/extract -repo /tmp/repo-mut -out /tmp/lean-mut/Generated/Tables.lean
cd /tmp/lean-mut && lake build Props 2>&1 | grep -E '^error|is false|Tactic' | head -6 > /tmp/mut/$name.tables.txt
echo "--- tables: $(grep -c '^error' /tmp/mut/$name.tables.txt) obligation(s) broken"; grep '^error' /tmp/mut/$name.tables.txt | sed 's/: Tactic.*//' | head -4
# 2. harness
sed 's#=> /repo#=> /tmp/repo-mut#' /verif/harness/go.mod > /tmp/mut/go.mod; : > /tmp/mut/go.sum
cd /verif/harness
race=""; [ "$prop" = c07 ] && race="-race"
go build -modfile=/tmp/mut/go.mod -tags verif $race -o /tmp/mut/h-$prop ./cmd/$prop || { echo "HARNESS BUILD FAILED"; exit 1; }
rm -rf /tmp/mut/replays-$name; /tmp/mut/h-$prop --tier quick --seed 1 --out /tmp/mut/$name.json --replaydir /tmp/mut/replays-$name 2>/dev/null
python3 - <<PY
import json
r=json.load(open('/tmp/mut/$name.json'))
print('--- harness: %d violation(s), %d evaluations' % (len(r['violations']), r['evaluations']))
for v in r['violations'][:2]: print('   ', v['note'][:260])
PY
