# suggestionList sorts on distance only (tie-break removed)
s=open('rules.go').read()
old='''	if s.Distances[i] == s.Distances[j] {
		return s.Options[i] < s.Options[j]
	}
'''
assert s.count(old)==1
open('rules.go','w').write(s.replace(old,''))
