# lazily filled possible-type table: not built at construction, filled by IsPossibleType on demand
s=open('schema.go').read()
old='''	for _, ttype := range gq.PossibleTypes(abstractType) {
		if ttype.Name() == possibleType.Name() {
			return true
		}
	}
	return false
}'''
new='''	m := map[string]bool{}
	for _, ttype := range gq.PossibleTypes(abstractType) {
		m[ttype.Name()] = true
	}
	gq.possibleTypeMap[abstractType.Name()] = m
	return m[possibleType.Name()]
}'''
assert s.count(old)==1
s=s.replace(old,new)
old='''		possibleTypeMap[name] = typeMap
	}
	gq.possibleTypeMap = possibleTypeMap'''
new='''		_ = typeMap
		_ = name
	}
	gq.possibleTypeMap = possibleTypeMap'''
assert s.count(old)==1
s=s.replace(old,new)
open('schema.go','w').write(s)
