# PlanCache.hits becomes a plain uint64
s=open('plan_cache.go').read()
s=s.replace("	hits   atomic.Uint64\n","	hits   uint64\n")
assert s.count("c.hits.Add(1)")==1
s=s.replace("c.hits.Add(1)","c.hits++")
s=s.replace("return c.hits.Load(), c.misses.Load()","return c.hits, c.misses.Load()")
open('plan_cache.go','w').write(s)
