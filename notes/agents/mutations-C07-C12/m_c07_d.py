# Reset without the lock
s=open('plan_cache.go').read()
old='''	c.mu.Lock()
	defer c.mu.Unlock()
	c.entries = make(map[string]*list.Element, c.opts.MaxEntries)'''
assert s.count(old)==1
s=s.replace(old,'''	c.entries = make(map[string]*list.Element, c.opts.MaxEntries)''')
open('plan_cache.go','w').write(s)
