# deferred values forced in map order again
s=open('executor.go').read()
i=s.index('func sortedResultKeys')
j=s.index('sort.Strings(', i)
k=s.index('\n', j)
s=s[:j]+'_ = sort.Strings'+s[k:]
open('executor.go','w').write(s)
