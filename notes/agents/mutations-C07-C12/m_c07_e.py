# enum lookup tables lazily again (revert of e96f400)
s=open('definition.go').read()
old='''	gt.getValueLookup()
	gt.getNameLookup()
'''
assert s.count(old)==1
open('definition.go','w').write(s.replace(old,''))
