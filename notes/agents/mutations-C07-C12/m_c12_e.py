# a new map range that builds an error list: unknown-argument errors reported by ranging over a set of names
s=open('values.go').read()
old='''func getArgumentValues('''
assert s.count(old)==1
new='''func verifNewRange(m map[string]bool) []string {
	out := []string{}
	for k := range m {
		out = append(out, k)
	}
	return out
}

func getArgumentValues('''
open('values.go','w').write(s.replace(old,new))
