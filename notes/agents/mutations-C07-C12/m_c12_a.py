s=open('rules.go').read()
i=s.index('func isValidLiteralValue')
j=s.index('sort.Strings(', i)
k=s.index('\n', j)
line=s[j:k]
s=s[:j]+'_ = sort.Strings'+s[k:]
open('rules.go','w').write(s)
print('removed:', line)
