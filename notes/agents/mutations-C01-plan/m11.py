# M11: sortedResultKeys no longer sorts (dethunk order follows Go map iteration)
import sys
p=sys.argv[1]+'/executor.go'; s=open(p).read()
old='''	sort.Strings(keys)
	return keys'''
assert old in s
s=s.replace(old,'''	_ = sort.Strings
	return keys''')
open(p,'w').write(s)
