# M12: dethunkMapBreadthFirst calls a closure only once again (the loop of 2cf0d14 dropped at one of the five sites)
import sys
p=sys.argv[1]+'/executor.go'; s=open(p).read()
old='''func dethunkMapBreadthFirst(m map[string]interface{}, dethunkQueue *dethunkQueue) {
	for _, k := range sortedResultKeys(m) {
		v := m[k]
		for f, ok := v.(func() interface{}); ok; f, ok = v.(func() interface{}) {
			// a deferred value may itself yield a deferred value
			v = f()
			m[k] = v
		}'''
assert old in s
s=s.replace(old,'''func dethunkMapBreadthFirst(m map[string]interface{}, dethunkQueue *dethunkQueue) {
	for _, k := range sortedResultKeys(m) {
		v := m[k]
		if f, ok := v.(func() interface{}); ok {
			v = f()
			m[k] = v
		}''')
open(p,'w').write(s)
