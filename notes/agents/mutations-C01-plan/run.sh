#!/bin/bash
# usage: run.sh mN
export GOFLAGS=-mod=mod GOPROXY=off GOSUMDB=off GOTOOLCHAIN=local
R=/tmp/repo-c01plan
git -C $R checkout -- . >/dev/null 2>&1
python3 /tmp/c01plan/mut/$1.py $R || exit 1
(cd $R && go build ./... ) || { echo "$1: does not compile"; exit 1; }
cd /verif
VERIF_REPO=$R ./check C01 > /tmp/c01plan/mut/$1.out 2>&1
echo "== $1: $(head -1 /tmp/c01plan/mut/$1.py)"
grep -E '^OK|^VIOLATION|CHECK-ERROR' /tmp/c01plan/mut/$1.out | head -3
python3 - "$1" <<'PY'
import json,glob,sys,os
# find evidence under .build/alt-*
cands=sorted(glob.glob('/verif/.build/alt-*/**/C01*.json',recursive=True),key=os.path.getmtime)
ev=[c for c in cands if c.endswith('result.json')]
if ev:
    r=json.load(open(ev[-1]))
    notes={}
    for v in r.get('violations') or []:
        n=v.get('note','')
        k='PLANMODEL' if n.startswith('real executor vs implementation model') else 'OLD'
        notes.setdefault(k,[]).append(n[:150])
    for k,v in notes.items(): print('  ',k,len(v),'e.g.',v[0])
PY
