# M5: mutation thunks are forced only at the end (seed C01-2 / D-13a regression)
import sys
p=sys.argv[1]+'/plan.go'; s=open(p).read()
old='''		if path == nil && eCtx.plan != nil && eCtx.plan.isMutation {
			resolved = dethunkValueDepthFirst(resolved)
		}
'''
assert old in s
s=s.replace(old,'')
open(p,'w').write(s)
