# M8: the thunk catcher always absorbs (typed dethunking forgotten the other way round): non-null thunk failure yields null in place
import sys
p=sys.argv[1]+'/plan.go'; s=open(p).read()
old='''func completePlannedThunkValueCatchingError(eCtx *executionContext, returnType Type, fp *fieldPlan, info ResolveInfo, path *ResponsePath, result interface{}) (completed interface{}) {
	defer func() {
		if r := recover(); r != nil {
			handleFieldError(r, FieldASTsToNodeASTs(fp.fieldASTs), path, returnType, eCtx)'''
assert old in s
s=s.replace(old,old.replace('path, returnType, eCtx)','path, nil, eCtx)'))
open(p,'w').write(s)
