# M9: a visited fragment is marked only after its type condition matched (collectInto)
import sys
p=sys.argv[1]+'/plan.go'; s=open(p).read()
old='''			visitedFragmentNames[fragName] = true
			if !planFragmentMatches(*p.schema, fragDef.TypeCondition, parentType) {
				continue
			}
'''
assert old in s
s=s.replace(old,'''			if !planFragmentMatches(*p.schema, fragDef.TypeCondition, parentType) {
				continue
			}
			visitedFragmentNames[fragName] = true
''')
open(p,'w').write(s)
