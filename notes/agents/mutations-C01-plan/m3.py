# M3: the sub-plan memo is keyed by field NAME (per plan) instead of by field plan
import sys
p=sys.argv[1]+'/plan.go'; s=open(p).read()
s=s.replace('''	abstractMu sync.Mutex
}''','''	abstractMu sync.Mutex
	byName     map[string]map[*Object]*selectionPlan
}''',1)
old=s[s.index('func (p *Plan) abstractAlternative('):s.index('// planMergedSelectionsForType collects')]
new='''func (p *Plan) abstractAlternative(fp *fieldPlan, runtimeType *Object) *selectionPlan {
	p.abstractMu.Lock()
	defer p.abstractMu.Unlock()
	if p.byName == nil {
		p.byName = map[string]map[*Object]*selectionPlan{}
	}
	alts := p.byName[fp.fieldName]
	if alts == nil {
		alts = map[*Object]*selectionPlan{}
		p.byName[fp.fieldName] = alts
	}
	if sub, ok := alts[runtimeType]; ok {
		return sub
	}
	sub := p.planMergedSelectionsForType(runtimeType, fp.fieldASTs, fp.astChains)
	alts[runtimeType] = sub
	return sub
}

'''
s=s.replace(old,new)
open(p,'w').write(s)
