# M10: documentHasDynamicDirectives no longer scans fragment definitions (seed C01-1 / C20-1)
import sys
p=sys.argv[1]+'/plan.go'; s=open(p).read()
old='''		case *ast.FragmentDefinition:
			if selectionSetHasDynamicDirectives(d.SelectionSet) {
				return true
			}
		}
	}
	return false
}'''
assert old in s
s=s.replace(old,'''		}
	}
	return false
}''')
open(p,'w').write(s)
