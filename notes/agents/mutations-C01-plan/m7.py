# M7: a merged occurrence replaces the field nodes instead of being appended (only the last occurrence's sub-selection survives)
import sys
p=sys.argv[1]+'/plan.go'; s=open(p).read()
old='''				sp.fields[idx].fieldASTs = append(sp.fields[idx].fieldASTs, sel)
				sp.fields[idx].astChains = append(sp.fields[idx].astChains, chain)'''
assert old in s
s=s.replace(old,'''				sp.fields[idx].fieldASTs = append(sp.fields[idx].fieldASTs[:0], sel)
				sp.fields[idx].astChains = append(sp.fields[idx].astChains[:0], chain)''')
open(p,'w').write(s)
