# M6: queries are dethunked depth-first like mutations
import sys
p=sys.argv[1]+'/plan.go'; s=open(p).read()
old='''			dethunkMapWithBreadthFirstTraversal(data)'''
assert old in s
s=s.replace(old,'			dethunkMapDepthFirst(data)')
open(p,'w').write(s)
