# M1: drop andPredicates(parentPred, pred) at field creation (use only the field's own predicate)
import sys
p=sys.argv[1]+'/plan.go'; s=open(p).read()
assert 'skipPredicate: andPredicates(parentPred, pred),' in s
s=s.replace('skipPredicate: andPredicates(parentPred, pred),','skipPredicate: pred,')
open(p,'w').write(s)
