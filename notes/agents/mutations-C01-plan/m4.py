# M4: arguments that contain variables are pre-coerced at plan time as well
import sys
p=sys.argv[1]+'/plan.go'; s=open(p).read()
old='''	if astHasVariables(argASTs) {
		return argPlan{
			hasVariables: true,
			fieldDefArgs: argDefs,
			argASTs:      argASTs,
		}
	}
'''
assert old in s
s=s.replace(old,'')
open(p,'w').write(s)
