# M2: specialise forgets isMutation
import sys
p=sys.argv[1]+'/plan.go'; s=open(p).read()
assert '		isMutation:        p.isMutation,\n' in s
s=s.replace('		isMutation:        p.isMutation,\n','')
open(p,'w').write(s)
