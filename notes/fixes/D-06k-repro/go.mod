module d06krepro

go 1.21

require github.com/graphql-go/graphql v0.0.0

replace github.com/graphql-go/graphql => /repo
