// D-06k: two different requests share one plan-cache entry (Normalize=true) because the cache key is the 64-bit FNV-1a
// hash of the structural fingerprint; the second request is served the first request's plan and answers with the
// first request's literal. The colliding pair was found by a 3.6-minute Pollard-rho search over a 13-character string
// literal inside a fragment definition (such literals are not extracted and are hashed by content).
//
//	cd /verif/notes/fixes/D-06k-repro && GOFLAGS=-mod=mod GOPROXY=off GOSUMDB=off go run .
package main

import (
	"encoding/json"
	"fmt"
	"os"

	"github.com/graphql-go/graphql"
)

const (
	q1 = `{ ...F } fragment F on Query { echo(s: "aajhm2hohpupn") }`
	q2 = `{ ...F } fragment F on Query { echo(s: "iqrpsqnyk2khb") }`
)

func main() {
	query := graphql.NewObject(graphql.ObjectConfig{Name: "Query", Fields: graphql.Fields{
		"echo": &graphql.Field{Type: graphql.String, Args: graphql.FieldConfigArgument{"s": &graphql.ArgumentConfig{Type: graphql.String}},
			Resolve: func(p graphql.ResolveParams) (interface{}, error) { return p.Args["s"], nil }},
	}})
	schema, err := graphql.NewSchema(graphql.SchemaConfig{Query: query})
	if err != nil {
		panic(err)
	}
	cache := graphql.NewPlanCache(graphql.PlanCacheOptions{Normalize: true})
	js := func(r *graphql.Result) string { b, _ := json.Marshal(r); return string(b) }

	pr1 := cache.Get(&schema, q1, "")
	r1 := graphql.ExecutePlan(pr1.Plan, graphql.ExecuteParams{Schema: schema, Args: pr1.SynthArgs})
	pr2 := cache.Get(&schema, q2, "")
	r2 := graphql.ExecutePlan(pr2.Plan, graphql.ExecuteParams{Schema: schema, Args: pr2.SynthArgs})
	want2 := graphql.Do(graphql.Params{Schema: schema, RequestString: q2})
	hits, misses := cache.HitsMisses()

	fmt.Println("request 1:", q1)
	fmt.Println("  response:", js(r1))
	fmt.Println("request 2:", q2)
	fmt.Println("  through the cache:", js(r2))
	fmt.Println("  graphql.Do       :", js(want2))
	fmt.Printf("hits=%d misses=%d same *Plan: %v\n", hits, misses, pr1.Plan == pr2.Plan)
	if js(r2) != js(want2) {
		fmt.Println("DEFECT REPRODUCED: the second request was served the first request's plan")
		os.Exit(1)
	}
	fmt.Println("not reproduced (the two requests have separate entries)")
}
