/-! # UTF-8 as Go's `unicode/utf8` sees it (the part `lexer.runeAt` and `bytes.Buffer.WriteRune` use)

`decodeRune` is `utf8.DecodeRune` on a byte list: first code point and its width in bytes; an invalid or
truncated encoding yields `(RuneError, 1)`, the empty input `(RuneError, 0)`. The case analysis follows the
`first`/`acceptRanges` tables of `unicode/utf8/utf8.go` (Go 1.23): lead bytes C2..DF take one continuation
byte, E0 (second byte A0..BF), E1..EC, ED (second byte 80..9F), EE..EF take two, F0 (second byte 90..BF),
F1..F3, F4 (second byte 80..8F) take three; 80..C1 and F5..FF are invalid. Overlong forms, surrogates and
values above U+10FFFF are therefore rejected exactly as in Go.

`encodeRune` is `utf8.AppendRune` (what `bytes.Buffer.WriteRune` appends): surrogates and values above
U+10FFFF are written as U+FFFD. -/
namespace GqlModel.Utf8

abbrev Bytes := List UInt8

/-- `utf8.RuneError` -/
def runeError : Nat := 0xFFFD

/-- continuation byte 80..BF -/
def isCont (b : UInt8) : Bool := 0x80 ≤ b.toNat && b.toNat ≤ 0xBF

/-- `acceptRanges` of the second byte for three- and four-byte forms -/
def lo3 (b0 : Nat) : Nat := if b0 = 0xE0 then 0xA0 else 0x80
def hi3 (b0 : Nat) : Nat := if b0 = 0xED then 0x9F else 0xBF
def lo4 (b0 : Nat) : Nat := if b0 = 0xF0 then 0x90 else 0x80
def hi4 (b0 : Nat) : Nat := if b0 = 0xF4 then 0x8F else 0xBF

/-- `utf8.DecodeRune` -/
def decodeRune : Bytes → Nat × Nat
  | [] => (runeError, 0)
  | p0 :: rest =>
    let b0 := p0.toNat
    if b0 < 0x80 then (b0, 1)
    else if b0 < 0xC2 then (runeError, 1)
    else if b0 < 0xE0 then
      match rest with
      | b1 :: _ =>
        if isCont b1 then ((b0 % 32) * 64 + b1.toNat % 64, 2) else (runeError, 1)
      | _ => (runeError, 1)
    else if b0 < 0xF0 then
      match rest with
      | b1 :: b2 :: _ =>
        if lo3 b0 ≤ b1.toNat ∧ b1.toNat ≤ hi3 b0 ∧ isCont b2 then
          ((b0 % 16) * 4096 + (b1.toNat % 64) * 64 + b2.toNat % 64, 3)
        else (runeError, 1)
      | _ => (runeError, 1)
    else if b0 < 0xF5 then
      match rest with
      | b1 :: b2 :: b3 :: _ =>
        if lo4 b0 ≤ b1.toNat ∧ b1.toNat ≤ hi4 b0 ∧ isCont b2 ∧ isCont b3 then
          ((b0 % 8) * 262144 + (b1.toNat % 64) * 4096 + (b2.toNat % 64) * 64 + b3.toNat % 64, 4)
        else (runeError, 1)
      | _ => (runeError, 1)
    else (runeError, 1)

/-- `utf8.AppendRune(nil, r)` for a non-negative rune -/
def encodeRune (r : Nat) : Bytes :=
  if r < 0x80 then [r.toUInt8]
  else if r < 0x800 then [(0xC0 + r / 64).toUInt8, (0x80 + r % 64).toUInt8]
  else if r > 0x10FFFF ∨ (0xD800 ≤ r ∧ r ≤ 0xDFFF) then [0xEF, 0xBF, 0xBD]
  else if r < 0x10000 then [(0xE0 + r / 4096).toUInt8, (0x80 + r / 64 % 64).toUInt8, (0x80 + r % 64).toUInt8]
  else [(0xF0 + r / 262144).toUInt8, (0x80 + r / 4096 % 64).toUInt8, (0x80 + r / 64 % 64).toUInt8, (0x80 + r % 64).toUInt8]

end GqlModel.Utf8
