import GqlModel.Exec
/-! # M — the implementation model of /repo/plan.go (C01; also read by C04, C13, C20)

`GqlModel/Exec.lean` is the execution ALGORITHM (S). This file models what `plan.go` DOES, function by function:

| Go (plan.go / executor.go)                         | here |
|---|---|
| `PlanQuery` (operation choice, fragment table, root type, `dynamicDirectives`) | `planQuery` (operation choice = `Exec.selectOperation`, literally the same loop) |
| `documentHasDynamicDirectives` & co.               | `docDynamic`, `setDynamic`, `dirsDynamic` |
| `Plan.specialise`                                  | `Plan.specialise` |
| `planDirectives` (literal folding, `planVars`, run-time predicate) | `planDirectives`, predicates as DATA (`DynDirs`, `Pred`) |
| `andPredicates`                                    | `andPred` (nil = `[]` = constant true) |
| `planArguments` / argument switch of `resolvePlannedField` | `Coerce.planArguments` / `Coerce.plannedArgs` (C05's model, reused) |
| `collectInto` (`keyed`, `visitedFragmentNames`, chain guard) | `collectSelP / collectSetP / collectListP`, `expandP`, `addField` |
| `planSelectionSet`, `planMergedSelectionsForType`  | `planSelectionSet`, `planMerged` |
| `Plan.abstractAlternative` (memo per (fieldPlan, runtime type)) | `abstractAlternative` on an explicit `Memo` |
| `ExecutePlan`                                      | `executePlan` |
| `executePlannedSelection`                          | `mGroups`; at the root of a mutation `mRootMut` (forces each field depth-first) |
| `resolvePlannedField`                              | `mField` |
| `completePlannedValue(CatchingError)`, `…ListValue`, `…ObjectValue`, `…AbstractValue` | `mComplete`, `mItems` |
| the closure returned for a func result             | `PVal.deferred (cl : Closure)` — a closure as data |
| `completePlannedThunkValueCatchingError`           | `force` |
| `for f, ok := v.(func() interface{}); ok; … { v = f() }` at the five dethunk sites | `forceLoop`, `forceAll` |
| `dethunkMapWithBreadthFirstTraversal` & co. (FIFO queue, sorted keys) | `bfsLoop`, `bfsEntries` on response paths as addresses |
| `dethunkValueDepthFirst`, `dethunkMapDepthFirst`, `dethunkListDepthFirst` | `dfsVal`, `dfsFields`, `dfsItems` |

Conventions of the model.

* **Identity of a field plan** (Go: the `*fieldPlan` pointer, key of `abstractAlternatives` together with the runtime type) is its
  address in the lazily unfolded plan tree: `FpId` = the list of (parent runtime type, response key) from the root. Two different field
  plans never share an id; one `(id, runtime type)` is planned at most once per plan — the number of memo misses is the Go counter
  `VerifSitePlanMergedSelectionsForType`, which the harness compares.
* **Panics and recover points.** A Go panic that is travelling towards its catcher is `Res.fail`. The error value is appended to
  `eCtx.Errors` by the `handleFieldError` that absorbs it (or by the request-level recover); nothing else is appended while the panic
  travels, and the path stored in the error is the one of the innermost catcher, which is the position that failed. So M appends
  `(path, deferred?)` where the failure happens — the resulting list is the same. The four catchers: `mField` (field level, rethrows
  iff the field type is non-null), `mComplete`'s caller in `mField` / `mItems` (`completePlannedValueCatchingError`), `force`
  (`completePlannedThunkValueCatchingError`: rethrows iff the closure's type is non-null — and then nothing is left on the Go stack
  to catch it: the failure escapes to the request level, data none, errors recorded so far ++ that one: known finding D-04c).
* **A func result is not completed but wrapped** (`completePlannedValue` tests `reflect.Func` before anything else, at the type the
  position was entered with). It is forced later: queries — breadth-first over the assembled data, maps in sorted key order;
  mutations — depth-first for every top-level field right after it resolved, then once more over the whole map. At every site a closure
  is called again and again until what it yields is no closure (`forceLoop`, commit 2cf0d14: a deferred value may yield a deferred value).
* `copyArgValue` (deep copy of pre-coerced arguments per call) has no counterpart: values here are immutable. What it protects
  (no aliasing between executions) is probed by the harness with argument-mutating resolvers (C20).
* Extensions, context cancellation, the result channel are other properties' models (C15–C17).
* Fuel: phase one (`mGroups/mField/mComplete/mItems`) consumes fuel exactly like `Exec.execGroups/…`; the dethunk loops have their own
  fuel argument. `fuelOut` is a distinguished outcome, never a response. -/
namespace GqlModel.Plan
open GqlModel.Exec GqlModel.Coerce

/-! ## Directives: `documentHasDynamicDirectives`, `planDirectives`, `andPredicates` -/

/-- `directivesAreDynamic`: some argument of some directive (ANY directive, not only @skip/@include) mentions a variable -/
def dirsDynamic (dirs : List Directive) : Bool := dirs.any (fun d => astHasVariables d.args)

mutual
/-- `selectionSetHasDynamicDirectives`, per selection -/
def selDynamic : Selection → Bool
  | .field _ _ _ dirs none _ => dirsDynamic dirs
  | .field _ _ _ dirs (some ss) _ => dirsDynamic dirs || setDynamic ss
  | .spread _ dirs _ => dirsDynamic dirs
  | .inline _ dirs ss _ => dirsDynamic dirs || setDynamic ss
def setDynamic : SelectionSet → Bool
  | .mk sels _ => selsDynamic sels
def selsDynamic : List Selection → Bool
  | [] => false
  | s :: rest => selDynamic s || selsDynamic rest
end

/-- `documentHasDynamicDirectives`: operations and fragment definitions are scanned -/
def docDynamic (doc : Document) : Bool :=
  doc.defs.any (fun
    | .operation _ _ _ _ ss _ => setDynamic ss
    | .fragment _ _ _ ss _ => setDynamic ss
    | _ => false)

/-- the directives of one occurrence that `planDirectives` left for run time -/
structure DynDirs where
  skip : Option Directive
  incl : Option Directive
deriving Inhabited

/-- a `skipPredicate` as data: the conjunction of its members; `[]` is Go's nil (constant true) -/
abbrev Pred := List DynDirs

/-- `vals["if"].(bool)` after `getArgumentValues(SkipDirective.Args, d.Arguments, vars)` -/
def ifVal (s : Schema) (vars : Vars) (d : Directive) : Option Bool :=
  match JVal.lookup (getArgumentValues s ifArg d.args vars) "if" with
  | some (.bool b) => some b
  | _ => none

/-- the directive of that name which governs: the loop of `planDirectives` overwrites, so the LAST one -/
def lastDir (n : String) (dirs : List Directive) : Option Directive :=
  (dirs.filter (fun d => d.name.value == n)).getLast?

/-- the closure `planDirectives` returns: `true` = included -/
def DynDirs.eval (s : Schema) (vars : Vars) (d : DynDirs) : Bool :=
  !((match d.skip with | some x => ifVal s vars x == some true | none => false) ||
    (match d.incl with | some x => ifVal s vars x == some false | none => false))

def Pred.eval (s : Schema) (vars : Vars) (p : Pred) : Bool := p.all (fun d => d.eval s vars)

/-- `andPredicates`: nil is the unit, otherwise the conjunction -/
def andPred (a b : Pred) : Pred := a ++ b

def predOf : Option DynDirs → Pred
  | none => []
  | some d => [d]

/-- one of the two halves of `planDirectives`: `(left for run time, decided to skip now)`. `want` is the value of `if` that
excludes (`true` for @skip, `false` for @include). With `planVars == nil` a variable-bearing directive is left for run time;
otherwise it is evaluated now (a nil variable map behaves like the empty one). -/
def planDir (s : Schema) (pv : Option Vars) (want : Bool) : Option Directive → Option Directive × Bool
  | none => (none, false)
  | some d =>
    if pv.isNone && astHasVariables d.args then (some d, false)
    else (none, ifVal s (pv.getD []) d == some want)

/-- `planDirectives(directives, planVars)` = `(pred, alwaysSkip)` -/
def planDirectives (s : Schema) (pv : Option Vars) (dirs : List Directive) : Option DynDirs × Bool :=
  let sk := planDir s pv true (lastDir "skip" dirs)
  if sk.2 then (none, true) else
  let inc := planDir s pv false (lastDir "include" dirs)
  if inc.2 then (none, true) else
  match sk.1, inc.1 with
  | none, none => (none, false)
  | a, b => (some ⟨a, b⟩, false)

/-! ## The plan tree -/

/-- `fragmentChain`: the named fragments whose bodies enclose a field node, innermost first -/
abbrev Chain := List String

instance : Inhabited ArgPlan := ⟨.empty⟩

/-- `fieldPlan`. `nodes` pairs `fieldASTs[i]` with `astChains[i]` (the two Go slices grow in lockstep). `returnType` is
`fieldDef.type`. `sub` is never set since sub-selections are planned lazily; `abstractAlternatives` lives in the `Memo`. -/
structure FieldPlan where
  key : String
  fieldName : String
  fieldDef : Option FieldDefS
  nodes : List (FieldNode × Chain)
  args : ArgPlan
  pred : Pred
deriving Inhabited

def FieldPlan.fieldNodes (fp : FieldPlan) : List FieldNode := fp.nodes.map (·.1)

/-- `Plan.fragments[name]`, a fragment definition (the LAST definition of a name wins, as in the Go map) -/
def fragOf (frags : List (String × Definition)) (n : String) : Option (TypeRef × SelectionSet) :=
  match (frags.filter (fun p => p.1 == n)).getLast? with
  | some (_, .fragment _ tc _ sel _) => some (tc, sel)
  | _ => none

/-- `sp.fields` with the `keyed` index (a response key sits at one position), and `visitedFragmentNames` -/
abbrev PAcc := List FieldPlan × List String

/-- the `*ast.Field` case of `collectInto` after the directive test: merge into the field plan of that response key
(only the node and its chain are appended: the FIRST occurrence's predicate, arguments and definition stay), or append
a new field plan -/
def addField (s : Schema) (rt : String) (fps : List FieldPlan) (f : FieldNode) (ch : Chain) (pred : Pred) : List FieldPlan :=
  if fps.any (fun fp => fp.key == f.key) then
    fps.map (fun fp => if fp.key == f.key then { fp with nodes := fp.nodes ++ [(f, ch)] } else fp)
  else
    let fd := fieldDef? s rt f.name
    fps ++ [{ key := f.key, fieldName := f.name, fieldDef := fd, nodes := [(f, ch)],
              args := (match fd with
                | some d => planArguments s d.args f.args
                | none => .empty),
              pred := pred }]

mutual
/-- `collectInto`, one selection. `pp` = `parentPred`, `ch` = `chain`; `expand` handles a named spread (open recursion). -/
def collectSelP (s : Schema) (pv : Option Vars) (rt : String) (expand : String → Pred → Chain → PAcc → PAcc) :
    Selection → Pred → Chain → PAcc → PAcc
  | .field alias name args dirs sel loc, pp, ch, (fps, vis) =>
    match planDirectives s pv dirs with
    | (_, true) => (fps, vis)
    | (pred, false) =>
      (addField s rt fps { alias := alias.map (·.value), name := name.value, args := args, sel := sel, loc := loc } ch
        (andPred pp (predOf pred)), vis)
  | .inline tc dirs sel _, pp, ch, acc =>
    match planDirectives s pv dirs with
    | (_, true) => acc
    | (pred, false) =>
      if condApplies s tc rt then collectSetP s pv rt expand sel (andPred pp (predOf pred)) ch acc else acc
  | .spread name dirs _, pp, ch, acc =>
    match planDirectives s pv dirs with
    | (_, true) => acc
    | (pred, false) => expand name.value (andPred pp (predOf pred)) ch acc
def collectSetP (s : Schema) (pv : Option Vars) (rt : String) (expand : String → Pred → Chain → PAcc → PAcc) :
    SelectionSet → Pred → Chain → PAcc → PAcc
  | .mk sels _, pp, ch, acc => collectListP s pv rt expand sels pp ch acc
def collectListP (s : Schema) (pv : Option Vars) (rt : String) (expand : String → Pred → Chain → PAcc → PAcc) :
    List Selection → Pred → Chain → PAcc → PAcc
  | [], _, _, acc => acc
  | x :: rest, pp, ch, acc => collectListP s pv rt expand rest pp ch (collectSelP s pv rt expand x pp ch acc)
end

/-- the `*ast.FragmentSpread` case after the directive test, with `fuel` levels of fragment nesting left: a fragment already
visited in this selection set, or on the chain of fragments enclosing the field whose sub-selection is being collected
(commit 8e56ec3), is not expanded; an unknown fragment is ignored and not marked; a fragment is marked BEFORE its type
condition is tested -/
def expandP (s : Schema) (frags : List (String × Definition)) (pv : Option Vars) (rt : String) :
    Nat → String → Pred → Chain → PAcc → PAcc
  | 0, _, _, _, acc => acc
  | fuel + 1, n, pp, ch, (fps, vis) =>
    if vis.contains n || ch.contains n then (fps, vis) else
    match fragOf frags n with
    | none => (fps, vis)
    | some (tc, sel) =>
      let vis := n :: vis
      if condApplies s (some tc) rt then collectSetP s pv rt (expandP s frags pv rt fuel) sel pp (n :: ch) (fps, vis)
      else (fps, vis)

/-- fragment nesting never exceeds the number of fragment definitions (each level marks a new name) — same bound as S -/
def fragFuel (frags : List (String × Definition)) : Nat := frags.length + 1

/-- `collectInto` as called by the two planners (no parent predicate) -/
def collectInto (s : Schema) (frags : List (String × Definition)) (pv : Option Vars) (rt : String) (sel : SelectionSet)
    (ch : Chain) (acc : PAcc) : PAcc :=
  collectSetP s pv rt (expandP s frags pv rt (fragFuel frags)) sel [] ch acc

/-- `planSelectionSet(rootType, operation.SelectionSet, nil)`; an empty field list stands for Go's nil plan (both execute to `{}`) -/
def planSelectionSet (s : Schema) (frags : List (String × Definition)) (pv : Option Vars) (rt : String) (sel : SelectionSet) :
    List FieldPlan :=
  (collectInto s frags pv rt sel [] ([], [])).1

/-- `planMergedSelectionsForType(parentType, fp.fieldASTs, fp.astChains)`: every node's sub-selection, one shared visited set,
each node under its own chain -/
def planMerged (s : Schema) (frags : List (String × Definition)) (pv : Option Vars) (rt : String)
    (nodes : List (FieldNode × Chain)) : List FieldPlan :=
  (nodes.foldl (fun acc n => match n.1.sel with
    | some sel => collectInto s frags pv rt sel n.2 acc
    | none => acc) (([] : List FieldPlan), ([] : List String))).1

/-- `Plan` without its mutable part (the memo, see `Memo`) -/
structure Plan where
  schema : Schema
  varDefs : List VarDef                  -- operation.GetVariableDefinitions()
  sel : SelectionSet                     -- operation.GetSelectionSet()
  frags : List (String × Definition)
  rootType : String
  isMutation : Bool
  dynamicDirectives : Bool
  planVars : Option Vars
  root : List FieldPlan
deriving Inhabited

/-- `PlanQuery` -/
def planQuery (s : Schema) (doc : Document) (opName : String) : Except OpError Plan :=
  match selectOperation doc opName with
  | .error e => .error e
  | .ok (.operation op _ varDefs _ sel _) =>
    (match s.rootFor op.toString with
    | none => .error .noRootType
    | some root =>
      let dyn := docDynamic doc
      .ok { schema := s, varDefs := varDefs, sel := sel, frags := doc.fragments, rootType := root,
            isMutation := op == .mutation, dynamicDirectives := dyn, planVars := none,
            root := if dyn then [] else planSelectionSet s doc.fragments none root sel })
  | .ok _ => .error .noOperation

/-- `Plan.specialise(vars)`: a fresh plan (fresh memo) collected with the request's coerced variables -/
def Plan.specialise (p : Plan) (vars : Vars) : Plan :=
  { schema := p.schema, varDefs := p.varDefs, sel := p.sel, frags := p.frags, rootType := p.rootType,
    isMutation := p.isMutation, dynamicDirectives := true, planVars := some vars,
    root := planSelectionSet p.schema p.frags (some vars) p.rootType p.sel }

/-! ## The memo of lazily planned sub-selections -/

/-- address of a field plan: (parent runtime type, response key) from the root -/
abbrev FpId := List (String × String)

/-- all `fieldPlan.abstractAlternatives` maps of one plan: (field plan, runtime type) ↦ planned sub-selection, in order of creation -/
abbrev Memo := List ((FpId × String) × List FieldPlan)

def Memo.find? (m : Memo) (fid : FpId) (rt : String) : Option (List FieldPlan) :=
  (List.find? (fun e => e.1.1 == fid && e.1.2 == rt) m).map (·.2)

/-- `Plan.abstractAlternative(fp, runtimeType)` -/
def abstractAlternative (s : Schema) (frags : List (String × Definition)) (pv : Option Vars) (m : Memo) (fid : FpId)
    (fp : FieldPlan) (rt : String) : List FieldPlan × Memo :=
  match m.find? fid rt with
  | some sub => (sub, m)
  | none =>
    let sub := planMerged s frags pv rt fp.nodes
    (sub, m ++ [((fid, rt), sub)])

/-- how the executor obtains the planned sub-selection of a field plan for a runtime type: `(memo, field plan id, field plan,
runtime type) ↦ (sub-selection, memo afterwards)`. The executor of M is written over this parameter so that ONE definition has two
instances: `abstractAlternative` (what plan.go does — this is M) and `recompute` (no memo; exists only so that memo transparency can
be STATED: `Props/C01Plan.memo_transparent`). -/
abbrev Alt := Memo → FpId → FieldPlan → String → List FieldPlan × Memo

/-- the memo-free reference: plan the sub-selection again at every use -/
def recompute (s : Schema) (frags : List (String × Definition)) (pv : Option Vars) : Alt :=
  fun m _ fp rt => (planMerged s frags pv rt fp.nodes, m)

/-! ## Values under construction -/

/-- what the closure `func() interface{} { return completePlannedThunkValueCatchingError(eCtx, returnType, fp, info, path, result) }`
captured. `r = none`: a func of another signature. -/
structure Closure where
  t : GType
  rt : String            -- info.ParentType
  fid : FpId
  fp : FieldPlan
  path : Path
  r : Option ThunkRes

/-- a completed value that may still contain closures -/
inductive PVal where
  | leaf (j : JVal)                       -- nil or a serialised leaf
  | list (xs : List PVal)
  | obj (fs : List (String × PVal))       -- insertion order (Go: a map; the order is only used where Go sorts the keys)
  | deferred (cl : Closure)

instance : Inhabited PVal := ⟨.leaf .null⟩

mutual
/-- the response value, `none` when a closure is left in the data (such a result cannot be serialised) -/
def PVal.toJ? : PVal → Option JVal
  | .leaf j => some j
  | .list xs => (PVal.listToJ? xs).map .list
  | .obj fs => (PVal.fieldsToJ? fs).map .obj
  | .deferred _ => none
def PVal.listToJ? : List PVal → Option (List JVal)
  | [] => some []
  | x :: xs => match x.toJ?, PVal.listToJ? xs with
    | some j, some js => some (j :: js)
    | _, _ => none
def PVal.fieldsToJ? : List (String × PVal) → Option (List (String × JVal))
  | [] => some []
  | (k, x) :: xs => match x.toJ?, PVal.fieldsToJ? xs with
    | some j, some js => some ((k, j) :: js)
    | _, _ => none
end

mutual
/-- embedding of a finished value -/
def PVal.ofJ : JVal → PVal
  | .list xs => .list (PVal.ofJList xs)
  | .obj fs => .obj (PVal.ofJFields fs)
  | j => .leaf j
def PVal.ofJList : List JVal → List PVal
  | [] => []
  | x :: xs => PVal.ofJ x :: PVal.ofJList xs
def PVal.ofJFields : List (String × JVal) → List (String × PVal)
  | [] => []
  | (k, x) :: xs => (k, PVal.ofJ x) :: PVal.ofJFields xs
end

def PVal.isContainer : PVal → Bool
  | .obj _ | .list _ => true
  | _ => false

def PVal.fields : PVal → List (String × PVal)
  | .obj fs => fs
  | _ => []

def lookupF (fs : List (String × PVal)) (k : String) : Option PVal := (fs.find? (fun p => p.1 == k)).map (·.2)

/-- the map assignment `m[k] = v` for a key that is present: the (one) entry of that key is replaced -/
def setF : List (String × PVal) → String → PVal → List (String × PVal)
  | [], _, _ => []
  | (k', x) :: rest, k, v => if k' == k then (k', v) :: rest else (k', x) :: setF rest k v

/-- the value at a response path below `v` -/
def PVal.getAt : PVal → Path → Option PVal
  | v, [] => some v
  | .obj fs, .key k :: p =>
    (match lookupF fs k with
    | some v => v.getAt p
    | none => none)
  | .list xs, .idx i :: p =>
    (match xs[i]? with
    | some v => v.getAt p
    | none => none)
  | _, _ => none

/-- in-place assignment `m[k] = nv` / `list[i] = nv` at a response path -/
def PVal.setAt : PVal → Path → PVal → PVal
  | _, [], nv => nv
  | .obj fs, .key k :: p, nv =>
    (match lookupF fs k with
    | some v => .obj (setF fs k (v.setAt p nv))
    | none => .obj fs)
  | .list xs, .idx i :: p, nv =>
    (match xs[i]? with
    | some v => .list (xs.set i (v.setAt p nv))
    | none => .list xs)
  | v, _, _ => v

def insertKey (k : String) : List String → List String
  | [] => [k]
  | x :: xs => if k < x then k :: x :: xs else x :: insertKey k xs

/-- `sortedResultKeys` -/
def sortedKeys (fs : List (String × PVal)) : List String := (fs.map (·.1)).foldr insertKey []

/-- the entries of a container in the order the dethunk loops visit them -/
def childSegs : PVal → List PathSeg
  | .obj fs => (sortedKeys fs).map .key
  | .list xs => (List.range xs.length).map .idx
  | _ => []

/-! ## State and log -/

/-- the harness's event log: resolver calls and thunk calls -/
inductive Event where
  | call (e : LogEntry)
  | force (p : Path)            -- the func() (interface{}, error) created for position `p` is called
deriving Inhabited

structure MSt where
  errs : List (Path × Bool)     -- newest first; flag: recorded while a closure is being forced
  events : List Event           -- newest first
  memo : Memo

def MSt.addErr (st : MSt) (p : Path) (dfr : Bool) : MSt := { st with errs := (p, dfr) :: st.errs }
def MSt.logEv (st : MSt) (e : Event) : MSt := { st with events := e :: st.events }

/-! ## Phase one: resolve and complete, func results wrapped -/

/-- `reflect.ValueOf(result).Kind() == reflect.Func`: `some (some r)` a `func() (interface{}, error)`, `some none` any other func -/
def funcOf : GoVal → Option (Option ThunkRes)
  | .thunk r => some (some r)
  | .badFunc => some none
  | _ => none

/-- `isIterable(result)` with its elements (the worlds return slices only) -/
def listOf : GoVal → Option (List GoVal)
  | .list xs => some xs
  | _ => none

mutual
/-- `executePlannedSelection` over `sp.fields` (not the top-level mutation forcing, see `mRootMut`). `sid` = id of the field plan
that owns this selection plan (`[]` at the root). -/
def mGroups (c : Ctx) (alt : Alt) : Nat → Bool → String → GoVal → Path → FpId → List FieldPlan →
    List (String × PVal) → MSt → Res (List (String × PVal)) × MSt
  | 0, _, _, _, _, _, _, _, st => (.fuelOut, st)
  | _ + 1, _, _, _, _, _, [], acc, st => (.ok acc, st)
  | fuel + 1, dfr, rt, src, path, sid, fp :: rest, acc, st =>
    if !(fp.pred.eval c.schema c.vars) then mGroups c alt fuel dfr rt src path sid rest acc st else   -- skipPredicate
    match fp.fieldDef with
    | none => mGroups c alt fuel dfr rt src path sid rest acc st                                      -- unknown field: key skipped
    | some fd =>
      let p := path ++ [.key fp.key]
      match mField c alt fuel dfr rt src p (sid ++ [(rt, fp.key)]) fp fd st with
      | (.ok v, st) => mGroups c alt fuel dfr rt src path sid rest (acc ++ [(fp.key, v)]) st
      | (.fail, st) => (.fail, st)
      | (.fuelOut, st) => (.fuelOut, st)

/-- `resolvePlannedField`: arguments from the arg plan, the resolver, then `completePlannedValueCatchingError`; its own recover
absorbs a failure iff the field type is nullable -/
def mField (c : Ctx) (alt : Alt) : Nat → Bool → String → GoVal → Path → FpId → FieldPlan → FieldDefS → MSt →
    Res PVal × MSt
  | 0, _, _, _, _, _, _, _, st => (.fuelOut, st)
  | fuel + 1, dfr, rt, src, p, fid, fp, fd, st =>
    if fd.name == "__typename" then (.ok (.leaf (.str rt)), st) else
    let args := plannedArgs c.schema fp.args c.vars
    let st := st.logEv (.call { path := p, parentType := rt, fieldName := fd.name, args := args, source := src,
                                occurrences := fp.nodes.length, deferred := dfr })
    let absorb (st : MSt) : Res PVal × MSt :=
      if fd.type.isNonNull then (.fail, st) else (.ok (.leaf .null), st)
    match c.world.outcome src fd.name with
    | .fail => absorb (st.addErr p dfr)
    | .value v =>
      match mComplete c alt fuel dfr fd.type rt fid fp p v st with
      | (.ok j, st) => (.ok j, st)
      | (.fail, st) => absorb st
      | (.fuelOut, st) => (.fuelOut, st)

/-- `completePlannedValue` -/
def mComplete (c : Ctx) (alt : Alt) : Nat → Bool → GType → String → FpId → FieldPlan → Path → GoVal → MSt →
    Res PVal × MSt
  | 0, _, _, _, _, _, _, _, st => (.fuelOut, st)
  | fuel + 1, dfr, t, rt, fid, fp, p, v, st =>
    match funcOf v with
    | some r => (.ok (.deferred { t := t, rt := rt, fid := fid, fp := fp, path := p, r := r }), st)
    | none =>
    match t with
    | .nonNull inner =>
      (match mComplete c alt fuel dfr inner rt fid fp p v st with
      | (.ok (.leaf .null), st) => (.fail, st.addErr p dfr)      -- "Cannot return null for non-nullable field"
      | r => r)
    | .list item =>
      if v.nullish then (.ok (.leaf .null), st) else
      (match listOf v with
      | some xs =>
        match mItems c alt fuel dfr item rt fid fp p xs 0 [] st with
        | (.ok js, st) => (.ok (.list js), st)
        | (.fail, st) => (.fail, st)
        | (.fuelOut, st) => (.fuelOut, st)
      | none => (.fail, st.addErr p dfr))                         -- "expected iterable"
    | .named n =>
      if v.nullish then (.ok (.leaf .null), st) else
      if c.schema.isLeaf n then
        (match serializeLeaf c.schema n v with
        | some j => (.ok (.leaf j), st)
        | none => (.fail, st.addErr p dfr))
      else if c.schema.isAbstract n then
        (match runtimeTypeOf c n v with
        | none => (.fail, st.addErr p dfr)
        | some ot =>
          if !(c.schema.isObject ot && c.schema.isPossibleType n ot) then (.fail, st.addErr p dfr) else
          let (sub, memo) := alt st.memo fid fp ot
          match mGroups c alt fuel dfr ot v p fid sub [] { st with memo := memo } with
          | (.ok fs, st) => (.ok (.obj fs), st)
          | (.fail, st) => (.fail, st)
          | (.fuelOut, st) => (.fuelOut, st))
      else if c.schema.isObject n then
        if objectHasIsTypeOf c.schema n && !c.world.isTypeOfAns n v then (.fail, st.addErr p dfr) else
        let (sub, memo) := alt st.memo fid fp n
        (match mGroups c alt fuel dfr n v p fid sub [] { st with memo := memo } with
        | (.ok fs, st) => (.ok (.obj fs), st)
        | (.fail, st) => (.fail, st)
        | (.fuelOut, st) => (.fuelOut, st))
      else (.fail, st.addErr p dfr)                               -- not an output type

/-- the item loop of `completePlannedListValue`: `completePlannedValueCatchingError` per item absorbs iff the item type is nullable -/
def mItems (c : Ctx) (alt : Alt) : Nat → Bool → GType → String → FpId → FieldPlan → Path → List GoVal → Nat →
    List PVal → MSt → Res (List PVal) × MSt
  | 0, _, _, _, _, _, _, _, _, _, st => (.fuelOut, st)
  | _ + 1, _, _, _, _, _, _, [], _, acc, st => (.ok acc, st)
  | fuel + 1, dfr, item, rt, fid, fp, p, x :: xs, i, acc, st =>
    match mComplete c alt fuel dfr item rt fid fp (p ++ [.idx i]) x st with
    | (.ok j, st) => mItems c alt fuel dfr item rt fid fp p xs (i + 1) (acc ++ [j]) st
    | (.fail, st) =>
      if item.isNonNull then (.fail, st)
      else mItems c alt fuel dfr item rt fid fp p xs (i + 1) (acc ++ [.leaf .null]) st
    | (.fuelOut, st) => (.fuelOut, st)
end

/-! ## Phase two: forcing -/

/-- `completePlannedThunkValueCatchingError`: ONE call of the closure. `fail` = the failure escapes (non-null type: nothing is left
to catch it). Everything done in here is flagged `deferred`. -/
def force (c : Ctx) (alt : Alt) (fuel : Nat) (cl : Closure) (st : MSt) : Res PVal × MSt :=
  let bad (st : MSt) : Res PVal × MSt :=
    if cl.t.isNonNull then (.fail, st.addErr cl.path true) else (.ok (.leaf .null), st.addErr cl.path true)
  match cl.r with
  | none => bad st                                     -- "Expected `func() (interface{}, error)` signature"
  | some r =>
    let st := st.logEv (.force cl.path)
    match r with
    | .err => bad st
    | .ok v =>
      match mComplete c alt fuel true cl.t cl.rt cl.fid cl.fp cl.path v st with
      | (.ok x, st) => (.ok x, st)
      | (.fail, st) => if cl.t.isNonNull then (.fail, st) else (.ok (.leaf .null), st)
      | (.fuelOut, st) => (.fuelOut, st)

/-- the loop at every dethunk site: `for f, ok := v.(func() interface{}); ok; f, ok = v.(func() interface{}) { v = f() }` — a deferred
value may itself yield a deferred value. (Go stores every intermediate `v` back into the map or list; only the last one is ever
read.) -/
def forceLoop (frc : Closure → MSt → Res PVal × MSt) : Nat → PVal → MSt → Res PVal × MSt
  | 0, _, st => (.fuelOut, st)
  | n + 1, .deferred cl, st =>
    (match frc cl st with
    | (.ok v, st) => forceLoop frc n v st
    | (.fail, st) => (.fail, st)
    | (.fuelOut, st) => (.fuelOut, st))
  | _ + 1, v, st => (.ok v, st)

/-- what a dethunk site does with a closure it finds: call it, and what it yields, until a value that is no closure comes out.
(The loop counter is the request's fuel + 2: a deferred value is met at least two levels below the root, so this never runs out
when the algorithm does not — `GqlProofs/PlanFuel.lean`.) -/
def forceAll (c : Ctx) (alt : Alt) (fuel : Nat) : Closure → MSt → Res PVal × MSt :=
  fun cl st => forceLoop (force c alt fuel) (fuel + 2) (.deferred cl) st

/-- one container of the breadth-first pass (`dethunkMapBreadthFirst` / `dethunkListBreadthFirst`): its entries in order; a closure
is called and replaced, then maps and lists are queued -/
def bfsEntries (frc : Closure → MSt → Res PVal × MSt) (p : Path) :
    List PathSeg → PVal → List Path → MSt → Res (PVal × List Path) × MSt
  | [], root, q, st => (.ok (root, q), st)
  | seg :: rest, root, q, st =>
    let a := p ++ [seg]
    match root.getAt a with
    | some (.deferred cl) =>
      (match frc cl st with
      | (.ok v, st) => bfsEntries frc p rest (root.setAt a v) (if v.isContainer then q ++ [a] else q) st
      | (.fail, st) => (.fail, st)
      | (.fuelOut, st) => (.fuelOut, st))
    | some v => bfsEntries frc p rest root (if v.isContainer then q ++ [a] else q) st
    | none => bfsEntries frc p rest root q st

/-- `dethunkMapWithBreadthFirstTraversal`: FIFO queue of containers, addressed by their response path -/
def bfsLoop (frc : Closure → MSt → Res PVal × MSt) : Nat → PVal → List Path → MSt → Res PVal × MSt
  | 0, _, _, st => (.fuelOut, st)
  | _ + 1, root, [], st => (.ok root, st)
  | fuel + 1, root, p :: q, st =>
    match root.getAt p with
    | some cont =>
      (match bfsEntries frc p (childSegs cont) root q st with
      | (.ok (root, q), st) => bfsLoop frc fuel root q st
      | (.fail, st) => (.fail, st)
      | (.fuelOut, st) => (.fuelOut, st))
    | none => bfsLoop frc fuel root q st

mutual
/-- `dethunkValueDepthFirst` (also the loop body of `dethunkMapDepthFirst` / `dethunkListDepthFirst`): force a closure (`frc` = `forceAll`),
then descend into a map or list -/
def dfsVal (frc : Closure → MSt → Res PVal × MSt) : Nat → PVal → MSt → Res PVal × MSt
  | 0, _, st => (.fuelOut, st)
  | fuel + 1, v, st =>
    match (match v with
      | .deferred cl => frc cl st
      | _ => (.ok v, st)) with
    | (.ok (.obj fs), st) =>
      (match dfsFields frc fuel (sortedKeys fs) fs st with
      | (.ok fs, st) => (.ok (.obj fs), st)
      | (.fail, st) => (.fail, st)
      | (.fuelOut, st) => (.fuelOut, st))
    | (.ok (.list xs), st) =>
      (match dfsItems frc fuel xs [] st with
      | (.ok xs, st) => (.ok (.list xs), st)
      | (.fail, st) => (.fail, st)
      | (.fuelOut, st) => (.fuelOut, st))
    | r => r
/-- `dethunkMapDepthFirst`: keys in sorted order -/
def dfsFields (frc : Closure → MSt → Res PVal × MSt) : Nat → List String → List (String × PVal) → MSt →
    Res (List (String × PVal)) × MSt
  | 0, _, _, st => (.fuelOut, st)
  | _ + 1, [], fs, st => (.ok fs, st)
  | fuel + 1, k :: ks, fs, st =>
    match lookupF fs k with
    | none => dfsFields frc fuel ks fs st
    | some v =>
      match dfsVal frc fuel v st with
      | (.ok v', st) => dfsFields frc fuel ks (setF fs k v') st
      | (.fail, st) => (.fail, st)
      | (.fuelOut, st) => (.fuelOut, st)
/-- `dethunkListDepthFirst` -/
def dfsItems (frc : Closure → MSt → Res PVal × MSt) : Nat → List PVal → List PVal → MSt → Res (List PVal) × MSt
  | 0, _, _, st => (.fuelOut, st)
  | _ + 1, [], acc, st => (.ok acc, st)
  | fuel + 1, x :: xs, acc, st =>
    match dfsVal frc fuel x st with
    | (.ok x', st) => dfsItems frc fuel xs (acc ++ [x']) st
    | (.fail, st) => (.fail, st)
    | (.fuelOut, st) => (.fuelOut, st)
end

/-- `executePlannedSelection` at the root of a MUTATION (`path == nil && plan.isMutation`): every field's value is forced
depth-first before the next field's resolver runs -/
def mRootMut (c : Ctx) (alt : Alt) (dfuel : Nat) : Nat → String → List FieldPlan → List (String × PVal) → MSt →
    Res (List (String × PVal)) × MSt
  | 0, _, _, _, st => (.fuelOut, st)
  | _ + 1, _, [], acc, st => (.ok acc, st)
  | fuel + 1, rt, fp :: rest, acc, st =>
    if !(fp.pred.eval c.schema c.vars) then mRootMut c alt dfuel fuel rt rest acc st else
    match fp.fieldDef with
    | none => mRootMut c alt dfuel fuel rt rest acc st
    | some fd =>
      match mField c alt fuel false rt .nil [.key fp.key] [(rt, fp.key)] fp fd st with
      | (.ok v, st) =>
        (match dfsVal (forceAll c alt dfuel) dfuel v st with
        | (.ok v', st) => mRootMut c alt dfuel fuel rt rest (acc ++ [(fp.key, v')]) st
        | (.fail, st) => (.fail, st)
        | (.fuelOut, st) => (.fuelOut, st))
      | (.fail, st) => (.fail, st)
      | (.fuelOut, st) => (.fuelOut, st)

/-! ## `ExecutePlan` -/

inductive MResponse where
  | requestError (what : String)
  | result (data : Option (List (String × PVal))) (errs : List (Path × Bool)) (events : List Event)
  | fuelOut
deriving Inhabited

/-- the result the goroutine of `ExecutePlan` sends: data (or none when a failure reached the request level) and the errors -/
def MResponse.of (out : Res (List (String × PVal)) × MSt) : MResponse :=
  match out.1 with
  | .ok fs => .result (some fs) out.2.errs.reverse out.2.events.reverse
  | .fail => .result none out.2.errs.reverse out.2.events.reverse
  | .fuelOut => .fuelOut

/-- the goroutine body of `ExecutePlan` after variable coercion and specialisation -/
def runPlan (c : Ctx) (alt : Alt) (q : Plan) (fuel : Nat) (st : MSt) : Res (List (String × PVal)) × MSt :=
  if q.isMutation then
    match mRootMut c alt fuel fuel q.rootType q.root [] st with
    | (.ok fs, st) =>
      -- dethunkMapDepthFirst(data): the final pass
      dfsFields (forceAll c alt fuel) fuel (sortedKeys fs) fs st
    | r => r
  else
    match mGroups c alt fuel false q.rootType .nil [] [] q.root [] st with
    | (.ok fs, st) =>
      (match bfsLoop (forceAll c alt fuel) fuel (.obj fs) [[]] st with
      | (.ok root, st) => (.ok root.fields, st)
      | (.fail, st) => (.fail, st)
      | (.fuelOut, st) => (.fuelOut, st))
    | r => r

/-- `ExecutePlan(plan, params)` together with the memo of the plan that was actually walked (the plan itself, or its per-request
specialisation, which starts with an empty memo) -/
def executePlanCore (p : Plan) (inputs : Vars) (w : World) (memo : Memo) (fuel : Nat) : MResponse × Memo :=
  match getVariableValues p.schema p.varDefs inputs with
  | .error e => (.requestError ("variables: " ++ e), memo)
  | .ok vars =>
    let q := if p.dynamicDirectives then p.specialise vars else p
    let c : Ctx := { schema := q.schema, frags := q.frags, vars := vars, world := w }
    let st0 : MSt := { errs := [], events := [], memo := if p.dynamicDirectives then [] else memo }
    let out := runPlan c (abstractAlternative q.schema q.frags q.planVars) q fuel st0
    (MResponse.of out, out.2.memo)

/-- `ExecutePlan(plan, params)`. `memo` = the plan's `abstractAlternatives` as left by earlier executions; the second component is
what they hold afterwards (a specialised plan is dropped together with its memo). -/
def executePlan (p : Plan) (inputs : Vars) (w : World) (memo : Memo := []) (fuel : Nat := defaultFuel) : MResponse × Memo :=
  let out := executePlanCore p inputs w memo fuel
  (out.1, if p.dynamicDirectives then memo else out.2)

/-- `Execute` / `Do` after validation: plan, then execute with a fresh memo -/
def run (s : Schema) (doc : Document) (opName : String) (inputs : Vars) (w : World) (fuel : Nat := defaultFuel) : MResponse :=
  match planQuery s doc opName with
  | .error e => .requestError (reprStr e)
  | .ok p => (executePlan p inputs w [] fuel).1

end GqlModel.Plan
