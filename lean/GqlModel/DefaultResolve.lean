/-! # Model M and specification S of `DefaultResolveFn` (executor.go 510-583)

`DefaultResolveFn` is the resolver of every field that has no `Resolve` of its own: it reads the property
named by the field out of the parent value (`p.Source`) by reflection. The model abstracts the parent value
to the facts the function can observe through `reflect` and type assertions:

* `untypedNil`                 `p.Source == nil`: `reflect.ValueOf(nil).Interface()` panics (line 513)
* `resolver out`               the value implements `FieldResolver`: `Resolve(p)` decides (line 513-515)
* `struct ptr fields`          a struct, or (`ptr`) a non-nil pointer to one (lines 518-549): the fields are
                               scanned IN DECLARATION ORDER; a field matches when its Go name equals the GraphQL
                               field name up to case (`strings.EqualFold`) or when the first comma-separated
                               segment of its `json` or of its `graphql` tag equals the name exactly;
                               `valueField.Interface()` panics on an unexported field
* `nilPtr`                     typed nil pointer: `Elem()` is the zero Value, result nil (line 521)
* `ptrOther`                   non-nil pointer to something that is not a struct (pointer to map, to pointer …):
                               after `Elem()` it is neither a struct nor — `p.Source` still being the pointer —
                               a map, result nil
* `mapIface entries`           exactly `map[string]interface{}` (lines 552-563): a property of type
                               `func() interface{}` is CALLED, any other value is returned as it is
* `mapRefl keyExact elem es`   any other map whose key KIND is string (lines 566-579), reached by reflection:
                               `MapIndex(reflect.ValueOf(name))` panics unless the key type is `string` itself
                               (`keyExact`); the property is called only when the map's static ELEMENT type is
                               `func() interface{}` (`val.Type().Kind() == reflect.Func` looks at the element
                               type, so a `func() interface{}` stored in a named `map[string]interface{}` type is
                               handed back uncalled)
* `other`                      everything else: nil

Field and property names are compared as ASCII strings (GraphQL names are ASCII; Go field names containing
U+212A or U+017F, which `EqualFold` folds onto `k` / `s`, are outside the model).

Core Lean only, total, executable. -/
namespace GqlModel.DefaultResolve

/-- a property value, as far as the function distinguishes values -/
inductive PVal where
  | nil                     -- the nil interface value
  | plain (id : Nat)        -- any value that is not a func
  | func0 (id : Nat)        -- a `func() interface{}`; calling it yields value `id`
  | funcOther (id : Nat)    -- a func of any other type (`func() (interface{}, error)`, `func() int` …)
deriving DecidableEq, Repr

structure SField where
  name : String
  exported : Bool
  json : String             -- `tag.Get("json")`, "" when the tag has no such key
  graphql : String          -- `tag.Get("graphql")`
  val : PVal
deriving DecidableEq, Repr

/-- static element type of a map reached by reflection -/
inductive ElemKind where
  | iface | func0 | other
deriving DecidableEq, Repr

inductive Source where
  | untypedNil
  | resolver (out : Nat)
  | struct (ptr : Bool) (fields : List SField)
  | nilPtr
  | ptrOther
  | mapIface (entries : List (String × PVal))
  | mapRefl (keyExact : Bool) (elem : ElemKind) (entries : List (String × PVal))
  | other
deriving DecidableEq, Repr

inductive Res where
  | value (v : PVal)        -- `return v, nil` (`PVal.nil`: `return nil, nil`)
  | called (id : Nat)       -- a `func() interface{}` property was called; its result is returned
  | resolved (out : Nat)    -- what `FieldResolver.Resolve` returned
  | panic                   -- a reflect panic (the executor recovers it into a field error)
deriving DecidableEq, Repr

/-! ## String helpers -/

def lowerAscii (c : Char) : Char :=
  if 'A' ≤ c ∧ c ≤ 'Z' then Char.ofNat (c.toNat + 32) else c

/-- `strings.EqualFold` on ASCII strings -/
def equalFold (a b : String) : Bool :=
  a.toList.map lowerAscii == b.toList.map lowerAscii

/-- `strings.Split(t, ",")[0]` -/
def tagHead (t : String) : String :=
  String.ofList (t.toList.takeWhile (· != ','))

/-! ## M: the function, branch by branch -/

/-- one iteration of the field loop (lines 527-546): does field `f` answer for `name`? -/
def fieldMatches (f : SField) (name : String) : Bool :=
  equalFold f.name name || tagHead f.json == name || tagHead f.graphql == name

/-- `valueField.Interface()` -/
def fieldValue (f : SField) : Res :=
  if f.exported then .value f.val else .panic

/-- the loop `for i := 0; i < NumField(); i++` with its two return sites, then `return nil, nil` -/
def scan : List SField → String → Res
  | [], _ => .value .nil
  | f :: fs, name =>
    if equalFold f.name name then fieldValue f
    else if tagHead f.json == name || tagHead f.graphql == name then fieldValue f
    else scan fs name

/-- Go map lookup (keys of a Go map are distinct; on a list with repeated keys the first entry counts) -/
def lookup : List (String × PVal) → String → Option PVal
  | [], _ => none
  | (k, v) :: es, name => if k == name then some v else lookup es name

/-- lines 553-562: `property := sourceMap[name]` … -/
def ifaceProperty : Option PVal → Res
  | none => .value .nil                 -- absent key: the zero value of `interface{}`
  | some (.func0 id) => .called id      -- `property.(func() interface{})` succeeds
  | some v => .value v

/-- lines 567-578 -/
def reflProperty (elem : ElemKind) : Option PVal → Res
  | none => .value .nil                 -- `val.IsValid()` is false: fall through to the last resort
  | some v =>
    match elem, v with
    | .func0, .func0 id => .called id
    | .func0, .nil => .panic            -- a nil `func() interface{}` is called
    | _, v => .value v

def defaultResolve : Source → String → Res
  | .untypedNil, _ => .panic
  | .resolver out, _ => .resolved out
  | .struct _ fs, name => scan fs name
  | .nilPtr, _ => .value .nil
  | .ptrOther, _ => .value .nil
  | .mapIface es, name => ifaceProperty (lookup es name)
  | .mapRefl keyExact elem es, name => if keyExact then reflProperty elem (lookup es name) else .panic
  | .other, _ => .value .nil

/-! ## S: what a user may rely on, stated without the loop

For a struct the property named `name` is the value of the FIRST field (declaration order) that answers
for `name`; for a map it is the entry under `name`. -/

def Spec.structProperty (fs : List SField) (name : String) : Res :=
  match fs.find? (fieldMatches · name) with
  | none => .value .nil
  | some f => fieldValue f

/-- a struct type encodes a property table unambiguously for the names `ks`: field `i` answers for `ks[i]`
and for no other listed name (`Unambiguous fs ks`), every listed field is exported -/
def Unambiguous (fs : List SField) (ks : List String) : Prop :=
  fs.length = ks.length ∧
  ∀ i j (hi : i < fs.length) (hj : j < ks.length), fieldMatches fs[i] ks[j] = true ↔ i = j

def unambiguousB (fs : List SField) (ks : List String) : Bool :=
  fs.length == ks.length &&
  (List.range fs.length).all fun i => (List.range ks.length).all fun j =>
    match fs[i]?, ks[j]? with
    | some f, some k => fieldMatches f k == (i == j)
    | _, _ => true

/-- The sources on which the function cannot panic: not the untyped nil, every struct field exported, a
reflected map keyed by `string` itself and without a nil `func() interface{}` entry. -/
def wellFormed : Source → Bool
  | .untypedNil => false
  | .struct _ fs => fs.all (·.exported)
  | .mapRefl ke el es => ke && (el != .func0 || es.all (·.2 != .nil))
  | _ => true

end GqlModel.DefaultResolve
