/-! # C07 — lock discipline: abstract traces, happens-before, lazy initialisation

Part 1: an abstract trace semantics of shared-memory programs in the vocabulary the Go memory model uses for the
constructs package graphql relies on — plain reads/writes, `sync/atomic` accesses, `sync.Mutex` Lock/Unlock, and one
*publication* of an object built by a constructing thread (thread 0: `NewSchema`, `PlanQuery`, `NewPlanCache` … return
the object, the program hands it to the request goroutines — a `go` statement, channel send or lock hand-over; every
other thread's first event is the matching `acquire`). Happens-before is the transitive closure of program order,
Unlock→Lock on the same mutex, and publish→acquire.

Part 2: the lazy initialiser under a lock (`Plan.abstractAlternative`: check and store in one critical section) and
`PlanCache.Get`'s lookup / compute-outside / store protocol as small-step machines driven by an arbitrary schedule, plus the
broken variant (critical section split, slot claimed by a placeholder) as a machine with a failing schedule.

Part 3: the hand-written classification of every write site of /repo (`Generated.lockFacts`) and every use of a field
that is declared lock-protected (`Generated.fieldAccesses`), with the decidable check that the sites respect the
discipline. Theorems: `Props/C07.lean`. -/
namespace GqlModel.Locks

abbrev Tid := Nat
abbrev Loc := Nat
abbrev Mu := Nat

inductive Ev where
  | read (t : Tid) (x : Loc)
  | write (t : Tid) (x : Loc)
  | aread (t : Tid) (x : Loc)      -- sync/atomic load
  | awrite (t : Tid) (x : Loc)     -- sync/atomic store / add
  | lock (t : Tid) (m : Mu)
  | unlock (t : Tid) (m : Mu)
  | publish (t : Tid)
  | acquire (t : Tid)
  deriving DecidableEq, Repr

def Ev.tid : Ev → Tid
  | .read t _ | .write t _ | .aread t _ | .awrite t _ | .lock t _ | .unlock t _ | .publish t | .acquire t => t

/-- (location, isWrite, isAtomic) of a memory access -/
def Ev.acc : Ev → Option (Loc × Bool × Bool)
  | .read _ x => some (x, false, false)
  | .write _ x => some (x, true, false)
  | .aread _ x => some (x, false, true)
  | .awrite _ x => some (x, true, true)
  | _ => none

abbrev Trace := List Ev

/-- Two accesses conflict (would be a data race if unordered): same location, different threads, at least one writes,
at least one is not atomic. -/
def Conflict (e₁ e₂ : Ev) : Prop :=
  ∃ x w₁ a₁ w₂ a₂, e₁.acc = some (x, w₁, a₁) ∧ e₂.acc = some (x, w₂, a₂) ∧ e₁.tid ≠ e₂.tid ∧
    (w₁ = true ∨ w₂ = true) ∧ (a₁ = false ∨ a₂ = false)

/-- happens-before between positions of a trace -/
inductive HB (tr : Trace) : Nat → Nat → Prop where
  | po {i j e₁ e₂} : i < j → tr[i]? = some e₁ → tr[j]? = some e₂ → e₁.tid = e₂.tid → HB tr i j
  | sync {i j t t' m} : i < j → tr[i]? = some (.unlock t m) → tr[j]? = some (.lock t' m) → HB tr i j
  | pub {i j t t'} : i < j → tr[i]? = some (.publish t) → tr[j]? = some (.acquire t') → HB tr i j
  | trans {i j k} : HB tr i j → HB tr j k → HB tr i k

def stepHolder (m : Mu) (h : Option Tid) : Ev → Option Tid
  | .lock t m' => if m' = m then some t else h
  | .unlock _ m' => if m' = m then none else h
  | _ => h

/-- who holds mutex `m` just before position `n` -/
def holderAt (tr : Trace) (m : Mu) : Nat → Option Tid
  | 0 => none
  | n + 1 => match tr[n]? with
    | some e => stepHolder m (holderAt tr m n) e
    | none => holderAt tr m n

/-- Well-formed traces: mutex semantics (Lock only a free mutex, Unlock only by the holder), one publication at position
`p` by the constructing thread 0, every event of another thread is preceded by that thread's `acquire`, which comes
after the publication. -/
structure WF (tr : Trace) (p : Nat) : Prop where
  lock_free : ∀ (i : Nat) t m, tr[i]? = some (.lock t m) → holderAt tr m i = none
  unlock_held : ∀ (i : Nat) t m, tr[i]? = some (.unlock t m) → holderAt tr m i = some t
  published : tr[p]? = some (.publish 0)
  acquired : ∀ (j : Nat) (e : Ev), tr[j]? = some e → e.tid ≠ 0 → ∃ a, a ≤ j ∧ tr[a]? = some (Ev.acquire e.tid)
  acquire_after : ∀ (a : Nat) t, tr[a]? = some (.acquire t) → p < a

inductive Discipline where
  | prePublication        -- written only by the constructing thread before the object is published
  | guardedBy (m : Mu)    -- every access while holding m
  | atomicOnly            -- only sync/atomic accesses
  deriving DecidableEq, Repr

def Respects (tr : Trace) (p : Nat) (x : Loc) : Discipline → Prop
  | .prePublication => ∀ (i : Nat) (e : Ev) a, tr[i]? = some e → e.acc = some (x, true, a) → e.tid = 0 ∧ i < p
  | .guardedBy m => ∀ (i : Nat) (e : Ev) w a, tr[i]? = some e → e.acc = some (x, w, a) → holderAt tr m i = some e.tid
  | .atomicOnly => ∀ (i : Nat) (e : Ev) w a, tr[i]? = some e → e.acc = some (x, w, a) → a = true

/-! ## Part 2 — lazy initialisation under a lock

```go
func (p *Plan) abstractAlternative(fp *fieldPlan, runtimeType *Object) *selectionPlan {
    p.abstractMu.Lock(); defer p.abstractMu.Unlock()          // pc 0 → 1
    if sub, ok := fp.abstractAlternatives[runtimeType]; ok {  // pc 1 → 2   (lookup into a local)
        return sub
    }
    sub := p.planMergedSelectionsForType(runtimeType, fp.fieldASTs)   // pure function of (fp, runtimeType)
    fp.abstractAlternatives[runtimeType] = sub                // pc 2 → 3   (store on miss; result in hand)
    return sub                                                // pc 3 → 4   (Unlock)
}
```
`key t` is the (field, runtime type) thread `t` asks for, `init k` the deterministic initialiser. A schedule is any list
of thread ids; a thread that is scheduled while the mutex is held by another thread does not move. -/
structure LState (κ V : Type) where
  mu : Option Tid
  cell : κ → Option V
  pc : Tid → Nat
  seen : Tid → Option V
  out : Tid → Option V

def LState.init {κ V : Type} : LState κ V :=
  { mu := none, cell := fun _ => none, pc := fun _ => 0, seen := fun _ => none, out := fun _ => none }

def upd {α : Type} (f : Tid → α) (t : Tid) (a : α) : Tid → α := fun t' => if t' = t then a else f t'

def lstep {κ V : Type} [DecidableEq κ] (key : Tid → κ) (init : κ → V) (s : LState κ V) (t : Tid) : LState κ V :=
  match s.pc t with
  | 0 => match s.mu with
    | none => { s with mu := some t, pc := upd s.pc t 1 }
    | some _ => s
  | 1 => { s with seen := upd s.seen t (s.cell (key t)), pc := upd s.pc t 2 }
  | 2 => match s.seen t with
    | some v => { s with out := upd s.out t (some v), pc := upd s.pc t 3 }
    | none => { s with cell := fun k => if k = key t then some (init (key t)) else s.cell k,
                       out := upd s.out t (some (init (key t))), pc := upd s.pc t 3 }
  | 3 => { s with mu := none, pc := upd s.pc t 4 }
  | _ => s

def lrun {κ V : Type} [DecidableEq κ] (key : Tid → κ) (init : κ → V) (sched : List Tid) : LState κ V :=
  sched.foldl (lstep key init) LState.init

/-! ## Part 3 — classification of the write sites of /repo -/

/-- Functions that only ever write to objects no other goroutine can reach yet: constructors and the functions they
call on the object under construction, the set-up API that the documentation requires to be used before the schema
serves requests (`AddFieldConfig`, `AppendType`, `AddImplementation`, `AddExtensions`), and functions that fill a
freshly allocated per-request or not-yet-stored object (`PlanQuery`, `Plan.collectInto`, `Plan.specialise`,
`normCtx.normalizeField` on the clone of the operation). -/
def constructionFuncs : List String := [
  "NewDirective", "NewEnum", "NewInputObject", "NewInterface", "NewObject", "NewScalar", "NewUnion", "NewSchema",
  "defineFieldMap", "InputObject.defineFieldMap",
  "Schema.buildPossibleTypeMap",
  -- set-up API (assumption: not called while requests are served)
  "InputObject.AddFieldConfig", "Interface.AddFieldConfig", "Object.AddFieldConfig", "Schema.AddExtensions",
  "Schema.AddImplementation", "Schema.AppendType",
  -- fresh objects: the plan under construction / the per-request specialised copy / sub-plans built under abstractMu
  -- before they are stored / the cloned operation of the normaliser
  "PlanQuery", "Plan.specialise", "Plan.collectInto", "normCtx.normalizeField"
]

/-- Lazy initialisers guarded by an "already done" test (`if gt.initialisedFields { return gt.fields }` …) whose first
run is forced while the schema is constructed: each must be reachable, in the regenerated static call graph of the
construction functions (`Generated.constructionCalls`), from `NewSchema` (which walks every reachable type through
`typeMapReducer`) or `NewEnum`. After publication they only read. -/
def lazyOnceFuncs : List String := [
  "Object.Fields", "Object.Interfaces", "Interface.Fields", "Union.Types", "InputObject.Fields",
  "Enum.getValueLookup", "Enum.getNameLookup"
]

def constructionEntryPoints : List String := ["NewSchema", "NewEnum"]

def reachStep (calls : List (String × String)) (s : List String) : List String :=
  s ++ (calls.filter (fun c => s.contains c.1 && !s.contains c.2)).map (·.2)

def reachable (calls : List (String × String)) : Nat → List String → List String
  | 0, s => s
  | n + 1, s => reachable calls n (reachStep calls s)

/-- (type, field) pairs that are protected by a mutex: every use (read or write) must hold it. The mutex is named by
the expression the code uses (`c.mu`, `p.abstractMu`). Everything not listed here and not atomic is `prePublication`. -/
def guardedFields : List ((String × String) × String) := [
  (("PlanCache", "entries"), "c.mu"),
  (("PlanCache", "order"), "c.mu"),
  (("planCacheEntry", "schema"), "c.mu"),
  (("planCacheEntry", "result"), "c.mu"),
  (("planCacheItem", "e"), "c.mu"),
  (("planCacheItem", "key"), "c.mu"),
  (("fieldPlan", "abstractAlternatives"), "p.abstractMu")
]

def expectedAtomicFields : List (String × String × String) :=
  [("PlanCache", "hits", "atomic.Uint64"), ("PlanCache", "misses", "atomic.Uint64")]

def expectedMutexFields : List (String × String) := [("Plan", "abstractMu"), ("PlanCache", "mu")]

def guardOf (ty field : String) : Option String :=
  (guardedFields.find? (fun g => g.1 == (ty, field))).map (·.2)

/-- a write site respects the discipline of its field -/
def writeOk (w : String × String × String × String) : Bool :=
  let (ty, field, fn, held) := w
  match guardOf ty field with
  | some mu => held == mu
  | none => constructionFuncs.contains fn || lazyOnceFuncs.contains fn

/-- a use (read or write) of a lock-protected field holds the lock -/
def accessOk (a : String × String × String × String) : Bool :=
  let (ty, field, _, held) := a
  match guardOf ty field with
  | some mu => held == mu
  | none => true

/-- every lazy initialiser is reached from a construction entry point -/
def lazyForced (calls : List (String × String)) : Bool :=
  let r := reachable calls 6 constructionEntryPoints
  lazyOnceFuncs.all r.contains

/-- every declared guard names a mutex field that exists on a shared type -/
def guardsExist (mutexFields : List (String × String)) : Bool :=
  guardedFields.all fun g => mutexFields.any fun m => g.2.endsWith ("." ++ m.2)

/-! ### Shape of the critical sections and of the lazy guards (premises of the theorems of Part 2 / of `prePublication`)

`lazy_init_schedule_independent` is about a machine whose check ("is there an entry?") and store happen in ONE critical
section. "Every access holds the mutex" (`accessOk`) does not imply that: a function may take the lock twice and publish
a placeholder in between (no data race, wrong answers). So the regenerated shape of every critical section is checked
too: one `Lock()`, one deferred `Unlock()` per function and mutex, and every field used under a mutex is used in exactly
one critical section of the function. -/

/-- functions that implement "check, compute, store" under one lock (the machine `lstep`) -/
def lockedLazyInits : List (String × String) := [("Plan.abstractAlternative", "p.abstractMu")]

def singleCriticalSections (crit : List (String × String × Nat × Nat × String))
    (regions : List (String × String × String × Nat)) : Bool :=
  crit.all (fun c => c.2.2.1 == 1 && c.2.2.2.1 == 1 && c.2.2.2.2 == "deferred") &&
  regions.all (fun r => r.2.2.2 == 1) &&
  lockedLazyInits.all (fun l => crit.any (fun c => c.1 == l.1 && c.2.1 == l.2)) &&
  -- every function that touches a guarded field has a critical section on that field's mutex
  guardedFields.all (fun g => regions.any (fun r => (r.1, r.2.1) == g.1))

/-- The "already initialised" test each lazy initialiser starts with, as read in /repo: a flag set together with the
value (`initialisedFields`, `initialisedInterfaces`, `initalizedTypes`, `init`), or "the table is non-empty" for the enum
lookup tables (an enum has at least one value, so a built table is never empty and is never rebuilt). A changed guard
(e.g. one that stays false for some schemas, so that the table is rebuilt and re-published at request time) breaks this. -/
def expectedLazyGuards : List (String × String × String) := [
  ("Enum.getNameLookup", "len(gt.nameLookup) > 0", "return"),
  ("Enum.getValueLookup", "len(gt.valuesLookup) > 0", "return"),
  ("InputObject.Fields", "!gt.init", "do"),
  ("Interface.Fields", "it.initialisedFields", "return"),
  ("Object.Fields", "gt.initialisedFields", "return"),
  ("Object.Interfaces", "gt.initialisedInterfaces", "return"),
  ("Union.Types", "ut.initalizedTypes", "return")
]

def lazyGuardsAsClassified (guards : List (String × String × String)) : Bool :=
  guards.filter (fun g => lazyOnceFuncs.contains g.1) == expectedLazyGuards &&
  lazyOnceFuncs.all (fun f => expectedLazyGuards.any (fun g => g.1 == f))

/-! `PlanCache.Get` (plan_cache.go) is deliberately NOT one critical section: `lookup` (Lock; defer Unlock; hit or miss),
then on a miss `planAndValidate` WITHOUT the lock, then `store` (Lock; defer Unlock; insert or overwrite). That is sound
for a different reason than `lstep`: a miss is reported as a miss (never as an entry), every thread that missed computes
the value itself, and the initialiser is deterministic, so whichever store comes last writes the same value. -/
structure CState (κ V : Type) where
  mu : Option Tid
  cell : κ → Option V
  pc : Tid → Nat
  loc : Tid → Option V
  out : Tid → Option V

def CState.init {κ V : Type} : CState κ V :=
  { mu := none, cell := fun _ => none, pc := fun _ => 0, loc := fun _ => none, out := fun _ => none }

def cstep {κ V : Type} [DecidableEq κ] (key : Tid → κ) (init : κ → V) (s : CState κ V) (t : Tid) : CState κ V :=
  match s.pc t with
  | 0 => match s.mu with                                   -- lookup: Lock
    | none => { s with mu := some t, pc := upd s.pc t 1 }
    | some _ => s
  | 1 => match s.cell (key t) with                         -- lookup: body, deferred Unlock
    | some v => { s with mu := none, out := upd s.out t (some v), pc := upd s.pc t 5 }
    | none => { s with mu := none, pc := upd s.pc t 2 }
  | 2 => { s with loc := upd s.loc t (some (init (key t))), pc := upd s.pc t 3 }   -- planAndValidate, no lock held
  | 3 => match s.mu with                                   -- store: Lock
    | none => { s with mu := some t, pc := upd s.pc t 4 }
    | some _ => s
  | 4 => { s with mu := none, cell := fun k => if k = key t then s.loc t else s.cell k,  -- store: body, deferred Unlock
                  out := upd s.out t (s.loc t), pc := upd s.pc t 5 }
  | _ => s

def crun {κ V : Type} [DecidableEq κ] (key : Tid → κ) (init : κ → V) (sched : List Tid) : CState κ V :=
  sched.foldl (cstep key init) CState.init

/-! The mutant the shape obligation is there for, as a machine: the lock is taken twice — lookup and CLAIM the slot with a
placeholder, unlock, compute outside, lock, store — and a present placeholder is read as a finished entry. -/
structure SState (V : Type) where
  mu : Option Tid
  cell : Option (Option V)         -- none = no entry; some none = placeholder / "nothing"; some (some v) = entry
  pc : Tid → Nat
  out : Tid → Option (Option V)

def SState.init {V : Type} : SState V := { mu := none, cell := none, pc := fun _ => 0, out := fun _ => none }

def sstep {V : Type} (init : V) (s : SState V) (t : Tid) : SState V :=
  match s.pc t with
  | 0 => match s.mu with                      -- Lock
    | none => { s with mu := some t, pc := upd s.pc t 1 }
    | some _ => s
  | 1 => match s.cell with                    -- lookup, claim on miss, Unlock
    | some e => { s with mu := none, out := upd s.out t (some e), pc := upd s.pc t 5 }
    | none => { s with mu := none, cell := some none, pc := upd s.pc t 2 }
  | 2 => { s with pc := upd s.pc t 3 }        -- compute without the lock
  | 3 => match s.mu with                      -- Lock again
    | none => { s with mu := some t, pc := upd s.pc t 4 }
    | some _ => s
  | 4 => { s with mu := none, cell := some (some init), out := upd s.out t (some (some init)), pc := upd s.pc t 5 }
  | _ => s

def srun {V : Type} (init : V) (sched : List Tid) : SState V := sched.foldl (sstep init) SState.init

/-- Package-level variables of map / slice type: state that every request of the process can reach without going through
a schema, plan or cache value, so none of the three disciplines covers it. The two that exist are configuration lists the
library only reads (`SpecifiedRules`, `SpecifiedDirectives`); a new one (say a shared "empty arguments" map handed to
resolvers) must be looked at. -/
def expectedPackageVars : List (String × String × String) := [
  ("directives.go", "SpecifiedDirectives", "slice"),
  ("rules.go", "SpecifiedRules", "slice")
]

/-- The warm-up premise of `prePublication` for the lazy initialisers: `NewSchema` reaches — and thereby initialises — every
type through EVERY kind of edge: initial types and directive argument types (`NewSchema`), list / non-null inner types,
members of unions and implementations of interfaces, interfaces of objects, and for objects AND interfaces both the field
types and the ARGUMENT types of every field, and the field types of input objects. An edge kind that is no longer walked
leaves types (input objects with thunk field maps, say) to be initialised by the first requests, concurrently. -/
def expectedSchemaWalk : List (String × String × String) := [
  ("NewSchema", "", "arg.Type"),
  ("NewSchema", "", "ttype"),
  ("Schema.AppendType", "", "objectType"),
  ("typeMapReducer", "*InputObject", "field.Type"),
  ("typeMapReducer", "*Interface", "arg.Type"),
  ("typeMapReducer", "*Interface", "field.Type"),
  ("typeMapReducer", "*List", "objectType.OfType"),
  ("typeMapReducer", "*NonNull", "objectType.OfType"),
  ("typeMapReducer", "*Object", "arg.Type"),
  ("typeMapReducer", "*Object", "field.Type"),
  ("typeMapReducer", "*Object", "innerObjectType"),
  ("typeMapReducer", "*Union,*Interface", "innerObjectType")
]

/-- Package functions called while a mutex is held, as read in /repo; `sync.Mutex` is not re-entrant, so none of them (nor
anything they call) may lock the same mutex again. -/
def expectedHeldCalls : List (String × String × String) := [
  ("Plan.abstractAlternative", "Plan.abstractMu", "Plan.planMergedSelectionsForType")
]

def noReentrantLocking (held reentrant : List (String × String × String)) : Bool :=
  reentrant.isEmpty && held == expectedHeldCalls

def sitesRespectDiscipline (lockFacts fieldAccesses : List (String × String × String × String))
    (atomicFields : List (String × String × String)) (mutexFields : List (String × String))
    (calls : List (String × String)) : Bool :=
  lockFacts.all writeOk && fieldAccesses.all accessOk &&
  atomicFields == expectedAtomicFields && mutexFields == expectedMutexFields &&
  guardsExist mutexFields && lazyForced calls &&
  -- no write at all to a field of atomic type shows up as a plain write
  lockFacts.all (fun w => !atomicFields.any (fun a => a.1 == w.1 && a.2.1 == w.2.1))

end GqlModel.Locks
