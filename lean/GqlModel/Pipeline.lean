/-! # C09 — the request pipeline's RESULT CLASSES (a small total model of /repo/graphql.go, executor.go `Execute`,
plan.go `ExecutePlan`, plan_cache.go `planAndValidate`)

The model abstracts every stage to what decides the SHAPE of the result: how many errors the extension hooks
report, whether the parser accepts, how many validation errors there are, and how the execution stage ends.
`Result` keeps only "is `Data` non-nil" and the number of errors.

Early returns modelled (graphql.go:36-116): extension Init errors, ParseDidStart errors, parse failure,
ParseDidFinish errors, ValidationDidStart errors, invalid document, ValidationDidFinish errors; then `Execute` =
`PlanQuery` (error → `Result{Errors}`) followed by `ExecutePlan`: nil plan, ExecutionDidStart errors, and inside the
goroutine (plan.go `ExecutePlan`): variable coercion error, a panic caught by the top-level recover, context done,
or a data map (always non-nil) with the field errors; the deferred ExecutionDidFinish hook only appends errors.

The model's only `panic` outcome is `ExecOutcome.escaped`: a panic raised where no recover is installed (inside
`PlanQuery`, before `ExecutePlan` starts its goroutine) — the class of D-09c. With `planPanics = false` (PlanQuery as
repaired) the pipeline cannot produce it: `do_never_panics`. Lean functions are total, so this says nothing about Go-level
nil dereferences in general; those are what the harness samples. -/
namespace GqlModel.Pipeline

structure Result where
  hasData : Bool
  errs : Nat
deriving DecidableEq, Repr

inductive Outcome where
  | result (r : Result)
  | panic                      -- a Go panic escapes the entry point
deriving DecidableEq, Repr

/-- how the goroutine of `ExecutePlan` ends -/
inductive Run where
  | varError                   -- getVariableValues failed: one error, no data
  | recovered                  -- a panic reached the top-level recover: errors recorded so far are kept, plus one
      (kept : Nat)
  | ctxDone                    -- the context finished first: one error, no data
  | data (fieldErrs : Nat)     -- executePlannedSelection returned its (non-nil) map
deriving DecidableEq, Repr

structure ExecOracle where
  planPanics : Bool            -- PlanQuery panics (no recover there)
  planError : Bool             -- PlanQuery returns an error (missing / ambiguous operation, type-system definition, no root)
  startErrs : Nat              -- ExecutionDidStart hook errors
  run : Run
  finishErrs : Nat             -- ExecutionDidFinish hook errors (appended by the deferred function)
deriving Repr

/-- `Execute(p)` = `PlanQuery` + `ExecutePlan` -/
def execute (o : ExecOracle) : Outcome :=
  if o.planPanics then .panic
  else if o.planError then .result ⟨false, 1⟩
  else if o.startErrs != 0 then .result ⟨false, o.startErrs⟩
  else
    match o.run with
    | .varError => .result ⟨false, 1 + o.finishErrs⟩
    | .recovered kept => .result ⟨false, kept + 1 + o.finishErrs⟩
    | .ctxDone => .result ⟨false, 1 + o.finishErrs⟩
    | .data k => .result ⟨true, k + o.finishErrs⟩

structure Oracle where
  initErrs : Nat
  parseStartErrs : Nat
  parseOk : Bool
  parseFinishErrs : Nat
  validationStartErrs : Nat
  validationErrs : Nat         -- `ValidationResult.IsValid` is `len(Errors) == 0` (validator.go:47-49)
  validationFinishErrs : Nat
  exec : ExecOracle
deriving Repr

/-- `graphql.Do` -/
def «do» (o : Oracle) : Outcome :=
  if o.initErrs != 0 then .result ⟨false, o.initErrs⟩
  else if o.parseStartErrs != 0 then .result ⟨false, o.parseStartErrs⟩
  else if !o.parseOk then .result ⟨false, o.parseFinishErrs + 1⟩
  else if o.parseFinishErrs != 0 then .result ⟨false, o.parseFinishErrs⟩
  else if o.validationStartErrs != 0 then .result ⟨false, o.validationStartErrs⟩
  else if o.validationErrs != 0 then .result ⟨false, o.validationFinishErrs + o.validationErrs⟩
  else if o.validationFinishErrs != 0 then .result ⟨false, o.validationFinishErrs⟩
  else execute o.exec

/-- `PlanCache.Get` / `planAndValidate`: a plan or errors -/
structure PlanResult where
  hasPlan : Bool
  errs : Nat
deriving DecidableEq, Repr

inductive PlanOutcome where
  | result (r : PlanResult)
  | panic
deriving DecidableEq, Repr

def planAndValidate (parseOk : Bool) (validationErrs : Nat) (planPanics planError : Bool) : PlanOutcome :=
  if !parseOk then .result ⟨false, 1⟩
  else if validationErrs != 0 then .result ⟨false, validationErrs⟩
  else if planPanics then .panic
  else if planError then .result ⟨false, 1⟩
  else .result ⟨true, 0⟩

/-- what the property demands of a result -/
def Result.wellShaped (r : Result) : Prop := r.hasData = false → 1 ≤ r.errs

end GqlModel.Pipeline
