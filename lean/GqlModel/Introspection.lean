import GqlModel.Schema
import GqlModel.IntrospectionMeta
/-! # S/M for C10: introspection as a function of the schema

Anchors in /repo:
* `typesClosure`/`visit`  = `typeMapReducer` (schema.go:289-397) folded over `initialTypes` (schema.go:82-110) and over
  the types handed to `AppendType` (schema.go:190-205);
* `describeType`, `fieldI`, `inputI`, `enumValueI`, `describeRef` = the resolvers of `__Type`, `__Field`, `__InputValue`,
  `__EnumValue` (introspection.go:187-325, 485-628);
* `introspect` = `graphql.Do(schema, testutil.IntrospectionQuery)` as a structured value (`ofType` chains are not
  truncated here; `TRef.truncate` gives what a query with a `TypeRef` fragment of finite depth shows);
* `astFromValue`, `printLit`, `printDefault` = `astFromValue` (introspection.go:692-835) followed by `printer.Print`
  on a value node (printer.go:430-500, `quoteString` printer.go:167); `astFromValuePinned` is the function as it was
  before the repair b8e02d5 (D-10a);
* `coerceLit` = `valueFromAST` (values.go:354-417) with the `ParseLiteral` functions of scalars.go / `Enum.ParseLiteral`;
* `readLit` = a small reader for the value language (stands for `parser.ParseValue`; compared with it on every reported
  default by the harness).

Go maps have no order: wherever the library ranges over a map to produce a list (`types`, interface `fields`,
`inputFields`, the `implementations` table) or sorts (object `fields`, `args`, `enumValues`), the model emits the list
sorted by name; slices (`interfaces`, union members, `directives`, `locations`) keep their order. -/
namespace GqlModel.Introspection
open GqlModel

/-! ## Sorting by a string key (insertion sort: structural, reduces under `decide`) -/

def insertOn {α : Type} (key : α → String) (x : α) : List α → List α
  | [] => [x]
  | y :: ys => if key y < key x then y :: insertOn key x ys else x :: y :: ys

def sortOn {α : Type} (key : α → String) (l : List α) : List α := l.foldr (insertOn key) []

/-! ## The introspection result -/

/-- `kind`/`name`/`ofType` chain of a type reference -/
inductive TRef where
  | named (kind name : String)
  | list (of : TRef)
  | nonNull (of : TRef)
deriving DecidableEq, Repr, Inhabited

def TRef.name : TRef → String
  | .named _ n => n
  | .list t => t.name
  | .nonNull t => t.name

structure InputValueI where
  name : String
  description : String
  type : TRef
  defaultValue : Option String
deriving DecidableEq, Repr, Inhabited

structure FieldI where
  name : String
  description : String
  args : List InputValueI
  type : TRef
  isDeprecated : Bool
  deprecationReason : Option String
deriving DecidableEq, Repr, Inhabited

structure EnumValueI where
  name : String
  description : String
  isDeprecated : Bool
  deprecationReason : Option String
deriving DecidableEq, Repr, Inhabited

structure TypeI where
  kind : String
  name : String
  description : String
  fields : Option (List FieldI)          -- includeDeprecated: true
  inputFields : Option (List InputValueI)
  interfaces : Option (List TRef)
  enumValues : Option (List EnumValueI)  -- includeDeprecated: true
  possibleTypes : Option (List TRef)
deriving DecidableEq, Repr, Inhabited

structure DirectiveI where
  name : String
  description : String
  locations : List String
  args : List InputValueI
  onOperation : Bool
  onFragment : Bool
  onField : Bool
deriving DecidableEq, Repr, Inhabited

structure IntrospectionResult where
  queryType : String
  mutationType : Option String
  subscriptionType : Option String
  types : List TypeI
  directives : List DirectiveI
deriving DecidableEq, Repr, Inhabited

/-! ## The type map: closure of roots ∪ `__Schema` ∪ supplied types under reference -/

/-- the user's named types followed by the built-in introspection types -/
def allTypes (s : Schema) : List TypeDef := s.types ++ metaTypes

def findType (all : List TypeDef) (n : String) : Option TypeDef := all.find? (fun t => t.name == n)

def fieldRefs (f : FieldDefS) : List String := f.args.map (·.type.namedName) ++ [f.type.namedName]

/-- named types `typeMapReducer` descends into from a type, in its order: union members / object interfaces first,
then per field the argument types and the field type (schema.go:320-395).  An interface does not lead to its
implementers at construction time (`schema.implementations` is still empty, schema.go:245); when types are appended
later the implementers already known are in the map, so the edge adds nothing either. -/
def typeRefs : TypeDef → List String
  | .scalar .. => []
  | .enum .. => []
  | .object _ ifaces fs _ _ => ifaces ++ fs.flatMap fieldRefs
  | .interface _ fs _ _ => fs.flatMap fieldRefs
  | .union _ ms _ _ => ms
  | .inputObject _ fs _ => fs.map (·.type.namedName)

/-- `typeMapReducer`: depth-first, `seen` is the type map so far.  The fuel bounds the nesting depth, which is at
most the number of named types (each nested call happens below a newly added name). -/
def visit (all : List TypeDef) : Nat → List String → String → List String
  | 0, seen, _ => seen
  | fuel + 1, seen, n =>
    if seen.contains n then seen else
    match findType all n with
    | none => seen
    | some td => (typeRefs td).foldl (visit all fuel) (n :: seen)

/-- what `NewSchema` feeds to `typeMapReducer` (schema.go:97-140): query, mutation, subscription, `__Schema`,
`SchemaConfig.Types`, then the argument types of every directive (commit bac4e7d); the types appended afterwards with
`AppendType` go through the same reducer (they are part of `supplied`; the order does not matter for the set). -/
def initialNames (s : Schema) (supplied : List String) : List String :=
  [s.query] ++ s.mutation.toList ++ s.subscription.toList ++ ["__Schema"] ++ supplied ++
    s.directives.flatMap (fun d => d.args.map (·.type.namedName))

/-- names in the type map, in discovery order (most recent first) -/
def reach (s : Schema) (supplied : List String) : List String :=
  (initialNames s supplied).foldl (visit (allTypes s) ((allTypes s).length + 1)) []

/-- names of `schema.TypeMap()`, sorted.  `supplied` = names of `SchemaConfig.Types` ++ appended types; by default
every declared type is supplied. -/
def typesClosure (s : Schema) (supplied : List String := s.types.map (·.name)) : List String :=
  sortOn id (reach s supplied)

/-- the definitions of the type map, sorted by name -/
def closureDefs (s : Schema) (supplied : List String) : List TypeDef :=
  (typesClosure s supplied).filterMap (findType (allTypes s))

/-! ## Describing types -/

def kindStr : TypeDef → String
  | .scalar .. => "SCALAR"
  | .object .. => "OBJECT"
  | .interface .. => "INTERFACE"
  | .union .. => "UNION"
  | .enum .. => "ENUM"
  | .inputObject .. => "INPUT_OBJECT"

def describeRef (all : List TypeDef) : GType → TRef
  | .named n => .named (match findType all n with | some td => kindStr td | none => "") n
  | .list t => .list (describeRef all t)
  | .nonNull t => .nonNull (describeRef all t)

/-! ### Default values: Go value → literal → text -/

/-- GraphQL value literals as far as defaults need them; `num` carries the printed text of an IntValue/FloatValue
(`astFromValue` builds an IntValue with text `3.0` for an int default of a Float argument). -/
inductive Lit where
  | num (text : String)
  | str (s : String)
  | bool (b : Bool)
  | enum (name : String)
  | list (xs : List Lit)
  | obj (fs : List (String × Lit))
deriving Repr, Inhabited

mutual
def Lit.beq : Lit → Lit → Bool
  | .num a, .num b => a == b
  | .str a, .str b => a == b
  | .bool a, .bool b => a == b
  | .enum a, .enum b => a == b
  | .list a, .list b => Lit.beqList a b
  | .obj a, .obj b => Lit.beqFields a b
  | _, _ => false
def Lit.beqList : List Lit → List Lit → Bool
  | [], [] => true
  | a :: as, b :: bs => Lit.beq a b && Lit.beqList as bs
  | _, _ => false
def Lit.beqFields : List (String × Lit) → List (String × Lit) → Bool
  | [], [] => true
  | (k, a) :: as, (l, b) :: bs => k == l && Lit.beq a b && Lit.beqFields as bs
  | _, _ => false
end
instance : BEq Lit := ⟨Lit.beq⟩

abbrev Chars := List Char

def digitChar (d : Nat) : Char := Char.ofNat (48 + d)

/-- decimal digits, most significant first (`strconv.Itoa` on a non-negative number) -/
def natCharsAux : Nat → Nat → Chars → Chars
  | 0, _, acc => acc
  | fuel + 1, n, acc =>
    if n < 10 then digitChar n :: acc else natCharsAux fuel (n / 10) (digitChar (n % 10) :: acc)

def natChars (n : Nat) : Chars := natCharsAux (n + 1) n []

def intChars (i : Int) : Chars :=
  if i < 0 then '-' :: natChars i.natAbs else natChars i.natAbs

/-- `fmt.Sprintf("%v", float64)` for the exact decimal `m·10^-e` in plain notation (valid for 1e-4 ≤ |x| < 1e21,
which covers the decimals the generators emit): sign, integer part, `.`, `e` fractional digits. -/
def decChars (m : Int) (e : Nat) : Chars :=
  let ds := natChars m.natAbs
  let padded := List.replicate (e + 1 - ds.length) '0' ++ ds
  let body := padded.take (padded.length - e) ++ '.' :: padded.drop (padded.length - e)
  if m < 0 then '-' :: body else body

mutual
/-- Go's `%v` of a value tree (`fmt` prints map keys sorted) — the fallback of `astFromValue` -/
def goFmt : JVal → Chars
  | .null => "<nil>".toList
  | .bool b => if b then "true".toList else "false".toList
  | .int i => intChars i
  | .dec m e => decChars m e
  | .str s => s.toList
  | .list xs => '[' :: goFmtList xs ++ [']']
  | .obj fs => "map[".toList ++ goFmtFields fs ++ [']']
def goFmtList : List JVal → Chars
  | [] => []
  | [x] => goFmt x
  | x :: y :: rest => goFmt x ++ ' ' :: goFmtList (y :: rest)
def goFmtFields : List (String × JVal) → Chars
  | [] => []
  | [(k, x)] => k.toList ++ ':' :: goFmt x
  | (k, x) :: y :: rest => k.toList ++ ':' :: goFmt x ++ ' ' :: goFmtFields (y :: rest)
end

def GType.stripNN : GType → GType
  | .nonNull t => GType.stripNN t
  | t => t

def isEnumName (all : List TypeDef) (n : String) : Bool :=
  match findType all n with | some (.enum ..) => true | _ => false

def isFloatName (all : List TypeDef) (n : String) : Bool :=
  match findType all n with | some (.scalar _ .float _) => true | _ => false

/-- the scalar tail of `astFromValue` (introspection.go:736-776), by the Go dynamic type of the value -/
def astLeaf (all : List TypeDef) (n : String) (v : JVal) : Lit :=
  match v with
  | .bool b => .bool b
  | .int i => if isFloatName all n then .num (String.ofList (intChars i ++ ['.', '0'])) else .num (String.ofList (intChars i))
  | .dec m e => .num (String.ofList (decChars m e))
  | .str x => if isEnumName all n then .enum x else .str x
  | v => .str (String.ofList (goFmt v))

/-- `EnumValueDefinition.Value`: the configured value, the name when none was configured (definition.go:1006) -/
def enumInternal (ev : EnumValueS) : JVal := if ev.internal.isNull then .str ev.name else ev.internal

def enumNameOf (vals : List EnumValueS) (v : JVal) : Option String :=
  (vals.find? (fun ev => enumInternal ev == v)).map (·.name)

def inputFieldType (decl : List InputFieldS) (k : String) : Option GType :=
  (decl.find? (fun f => f.name == k)).map (·.type)

/-- a value at a named type that is not handled structurally (introspection.go:747-835): an enum looks the value up
among its values' internal values and prints the name (no match: nil), an input object has no literal for a non-map,
scalars go to the scalar tail -/
def astNamed (all : List TypeDef) (n : String) (v : JVal) : Option Lit :=
  match findType all n with
  | some (.enum _ vals _) => (enumNameOf vals v).map .enum
  | some (.inputObject ..) => none
  | _ => some (astLeaf all n v)

mutual
/-- M: `astFromValue` (introspection.go:692-835, repaired by commit b8e02d5). `none` = Go `nil`. Non-null wrappers are
transparent; a list type with a slice value goes element-wise (nil elements dropped); a list type with any other value
falls through to the item type, i.e. to the named type; enum internal values are mapped back to the value's name,
string-keyed maps become object literals over the declared fields (names sorted — canonical objects are), scalars
are rendered by their Go dynamic type. -/
def astFromValue (all : List TypeDef) : GType → JVal → Option Lit
  | _, .null => none
  | t, .list xs =>
    match GType.stripNN t with
    | .list it => some (.list (astFromValues all it xs))
    | u => astNamed all u.namedName (.list xs)
  | t, .obj fs =>
    match findType all t.namedName with
    | some (.inputObject _ decl _) => some (.obj (astFromFields all decl fs))
    | _ => astNamed all t.namedName (.obj fs)
  | t, v => astNamed all t.namedName v
def astFromValues (all : List TypeDef) : GType → List JVal → List Lit
  | _, [] => []
  | it, x :: xs =>
    match astFromValue all it x with
    | some l => l :: astFromValues all it xs
    | none => astFromValues all it xs
def astFromFields (all : List TypeDef) (decl : List InputFieldS) : List (String × JVal) → List (String × Lit)
  | [] => []
  | (k, x) :: rest =>
    match inputFieldType decl k with
    | none => astFromFields all decl rest
    | some ft =>
      match astFromValue all ft x with
      | some l => (k, l) :: astFromFields all decl rest
      | none => astFromFields all decl rest
end

mutual
/-- `astFromValue` as it was at the pinned tree (before commit b8e02d5; kept for the record of D-10a, see
`Props/C10.lean`).  `none` = Go `nil` (nullish value). Non-null wrappers are
transparent; a list type with a slice value goes element-wise (nil elements dropped); a list type with any other value
falls through to the item type; maps and everything else end in the scalar tail. -/
def astFromValuePinned (all : List TypeDef) : GType → JVal → Option Lit
  | _, .null => none
  | t, .list xs =>
    match GType.stripNN t with
    | .list it => some (.list (astFromValuesPinned all it xs))
    | u => some (astLeaf all u.namedName (.list xs))
  | t, v => some (astLeaf all t.namedName v)
def astFromValuesPinned (all : List TypeDef) : GType → List JVal → List Lit
  | _, [] => []
  | it, x :: xs =>
    match astFromValuePinned all it x with
    | some l => l :: astFromValuesPinned all it xs
    | none => astFromValuesPinned all it xs
end

/-! ### printer for value literals -/

def hexDigit (n : Nat) : Char := if n < 10 then Char.ofNat (48 + n) else Char.ofNat (55 + n)

/-- one character of `quoteString` (printer.go:167); the Go code works on bytes, bytes ≥ 0x80 are copied unchanged, so
on valid UTF-8 the character-wise rendering is the same text -/
def escChar (c : Char) : Chars :=
  if c = '"' then ['\\', '"']
  else if c = '\\' then ['\\', '\\']
  else if c = '\x08' then ['\\', 'b']
  else if c = '\x0c' then ['\\', 'f']
  else if c = '\n' then ['\\', 'n']
  else if c = '\r' then ['\\', 'r']
  else if c = '\t' then ['\\', 't']
  else if c.toNat < 0x20 ∨ c.toNat = 0x7f then ['\\', 'u', '0', '0', hexDigit (c.toNat / 16), hexDigit (c.toNat % 16)]
  else [c]

def quoteChars (s : Chars) : Chars := '"' :: s.flatMap escChar ++ ['"']

/-- printer.go `join`: empty strings are dropped, the rest joined -/
def joinNonEmpty (sep : Chars) : List Chars → Chars
  | [] => []
  | x :: rest =>
    if x.isEmpty then joinNonEmpty sep rest
    else
      let tail := joinNonEmpty sep rest
      if tail.isEmpty then x else x ++ sep ++ tail

mutual
def printLit : Lit → Chars
  | .num t => t.toList
  | .str s => quoteChars s.toList
  | .bool b => if b then "true".toList else "false".toList
  | .enum n => n.toList
  | .list xs => '[' :: joinNonEmpty [',', ' '] (printLits xs) ++ [']']
  | .obj fs => '{' :: joinNonEmpty [',', ' '] (printFields fs) ++ ['}']
def printLits : List Lit → List Chars
  | [] => []
  | x :: xs => printLit x :: printLits xs
def printFields : List (String × Lit) → List Chars
  | [] => []
  | (k, x) :: rest => (k.toList ++ ':' :: ' ' :: printLit x) :: printFields rest
end

/-- `printer.Print(astFromValue(v, t))`; `none` when `astFromValue` yields nil (the resolver then reports null) -/
def printDefaultIn (all : List TypeDef) (t : GType) (v : JVal) : Option String :=
  (astFromValue all t v).map (fun l => String.ofList (printLit l))

def printDefault (s : Schema) (t : GType) (v : JVal) : String := (printDefaultIn (allTypes s) t v).getD ""

/-- the text the pinned tree reported (D-10a) -/
def printDefaultPinned (s : Schema) (t : GType) (v : JVal) : String :=
  match astFromValuePinned (allTypes s) t v with
  | some l => String.ofList (printLit l)
  | none => ""

/-- `defaultValue` resolver (introspection.go:253-283): `null` when no default is configured (a configured `nil` is
no default) or when the value has no literal, else the printed literal -/
def defaultText (all : List TypeDef) (t : GType) : Option JVal → Option String
  | none => none
  | some v => printDefaultIn all t v

/-! ### `__InputValue`, `__Field`, `__EnumValue`, `__Type`, `__Directive` -/

def argI (all : List TypeDef) (a : ArgDef) : InputValueI :=
  { name := a.name, description := a.description, type := describeRef all a.type,
    defaultValue := defaultText all a.type a.default }

def inputI (all : List TypeDef) (f : InputFieldS) : InputValueI :=
  { name := f.name, description := f.description, type := describeRef all f.type,
    defaultValue := defaultText all f.type f.default }

def reasonOf (dep : String) : Option String := if dep == "" then none else some dep

def fieldI (all : List TypeDef) (f : FieldDefS) : FieldI :=
  { name := f.name, description := f.description, args := sortOn (·.name) (f.args.map (argI all)),
    type := describeRef all f.type, isDeprecated := f.deprecation != "", deprecationReason := reasonOf f.deprecation }

def enumValueI (ev : EnumValueS) : EnumValueI :=
  { name := ev.name, description := ev.description, isDeprecated := ev.deprecation != "",
    deprecationReason := reasonOf ev.deprecation }

/-- object types of the type map that list the interface (`schema.implementations`, schema.go:114-131: one entry
per occurrence of the interface in `Interfaces()` of each object, objects taken in type-name order) -/
def implementers (defs : List TypeDef) (iface : String) : List String :=
  defs.flatMap (fun
    | .object n ifaces _ _ _ => (ifaces.filter (· == iface)).map (fun _ => n)
    | _ => [])

/-- `defs` = the definitions of the type map (sorted), `all` = every named type (for the kinds of references) -/
def describeType (all defs : List TypeDef) : TypeDef → TypeI
  | .scalar n _ d =>
    { kind := "SCALAR", name := n, description := d, fields := none, inputFields := none, interfaces := none,
      enumValues := none, possibleTypes := none }
  | .object n ifaces fs _ d =>
    { kind := "OBJECT", name := n, description := d, fields := some (sortOn (·.name) (fs.map (fieldI all))),
      inputFields := none, interfaces := some (ifaces.map (fun i => describeRef all (.named i))),
      enumValues := none, possibleTypes := none }
  | .interface n fs _ d =>
    { kind := "INTERFACE", name := n, description := d, fields := some (sortOn (·.name) (fs.map (fieldI all))),
      inputFields := none, interfaces := none, enumValues := none,
      possibleTypes := some ((implementers defs n).map (fun o => describeRef all (.named o))) }
  | .union n ms _ d =>
    { kind := "UNION", name := n, description := d, fields := none, inputFields := none, interfaces := none,
      enumValues := none, possibleTypes := some (ms.map (fun o => describeRef all (.named o))) }
  | .enum n vals d =>
    { kind := "ENUM", name := n, description := d, fields := none, inputFields := none, interfaces := none,
      enumValues := some (sortOn (·.name) (vals.map enumValueI)), possibleTypes := none }
  | .inputObject n fs d =>
    { kind := "INPUT_OBJECT", name := n, description := d, fields := none,
      inputFields := some (sortOn (·.name) (fs.map (inputI all))), interfaces := none, enumValues := none,
      possibleTypes := none }

def directiveI (all : List TypeDef) (d : DirectiveDefS) : DirectiveI :=
  { name := d.name, description := d.description, locations := d.locations,
    args := sortOn (·.name) (d.args.map (argI all)),
    onOperation := d.locations.any (fun l => l == "QUERY" || l == "MUTATION" || l == "SUBSCRIPTION"),
    onFragment := d.locations.any (fun l => l == "FRAGMENT_SPREAD" || l == "INLINE_FRAGMENT" || l == "FRAGMENT_DEFINITION"),
    onField := d.locations.any (fun l => l == "FIELD") }

/-- the result of the standard full introspection query -/
def introspect (s : Schema) (supplied : List String := s.types.map (·.name)) : IntrospectionResult :=
  let all := allTypes s
  let defs := closureDefs s supplied
  { queryType := s.query, mutationType := s.mutation, subscriptionType := s.subscription,
    types := defs.map (describeType all defs),
    directives := s.directives.map (directiveI all) }

/-- what a query whose `TypeRef` fragment nests `ofType` `depth` times shows of a reference: `none` below that -/
def TRef.truncate : Nat → TRef → Option TRef
  | 0, .named k n => some (.named k n)
  | 0, _ => none
  | _ + 1, .named k n => some (.named k n)
  | d + 1, .list t => (TRef.truncate d t).map .list
  | d + 1, .nonNull t => (TRef.truncate d t).map .nonNull

/-! ## Rebuilding a schema from the description -/

def rebuildRef : TRef → GType
  | .named _ n => .named n
  | .list t => .list (rebuildRef t)
  | .nonNull t => .nonNull (rebuildRef t)

/-- a description cannot show how a scalar coerces: built-in names get their kind, anything else an empty table -/
def scalarKindOfName : String → ScalarKind
  | "Int" => .int
  | "Float" => .float
  | "String" => .string
  | "Boolean" => .boolean
  | "ID" => .id
  | _ => .custom [] [] []

/-- defaults come back as the reported literal text (their meaning is the business of `default_roundtrip`) -/
def rebuildArg (i : InputValueI) : ArgDef :=
  { name := i.name, type := rebuildRef i.type, default := i.defaultValue.map JVal.str, description := i.description }

def rebuildInput (i : InputValueI) : InputFieldS :=
  { name := i.name, type := rebuildRef i.type, default := i.defaultValue.map JVal.str, description := i.description }

def deprecationOf (isDeprecated : Bool) (reason : Option String) : String :=
  if isDeprecated then reason.getD "" else ""

def rebuildField (f : FieldI) : FieldDefS :=
  { name := f.name, type := rebuildRef f.type, args := f.args.map rebuildArg, description := f.description,
    deprecation := deprecationOf f.isDeprecated f.deprecationReason }

def rebuildEnumValue (e : EnumValueI) : EnumValueS :=
  { name := e.name, internal := .str e.name, description := e.description,
    deprecation := deprecationOf e.isDeprecated e.deprecationReason }

def rebuildType (t : TypeI) : TypeDef :=
  if t.kind == "OBJECT" then
    .object t.name ((t.interfaces.getD []).map TRef.name) ((t.fields.getD []).map rebuildField) false t.description
  else if t.kind == "INTERFACE" then
    .interface t.name ((t.fields.getD []).map rebuildField) false t.description
  else if t.kind == "UNION" then
    .union t.name ((t.possibleTypes.getD []).map TRef.name) false t.description
  else if t.kind == "ENUM" then
    .enum t.name ((t.enumValues.getD []).map rebuildEnumValue) t.description
  else if t.kind == "INPUT_OBJECT" then
    .inputObject t.name ((t.inputFields.getD []).map rebuildInput) t.description
  else
    .scalar t.name (scalarKindOfName t.name) t.description

def rebuildDirective (d : DirectiveI) : DirectiveDefS :=
  { name := d.name, locations := d.locations, args := d.args.map rebuildArg, description := d.description }

def rebuild (r : IntrospectionResult) : Schema :=
  { types := r.types.map rebuildType, query := r.queryType, mutation := r.mutationType,
    subscription := r.subscriptionType, directives := r.directives.map rebuildDirective }

/-! ## Normal form of a schema: what a description can show -/

def normArg (all : List TypeDef) (a : ArgDef) : ArgDef :=
  { a with default := (defaultText all a.type a.default).map JVal.str }

def normInput (all : List TypeDef) (f : InputFieldS) : InputFieldS :=
  { f with default := (defaultText all f.type f.default).map JVal.str }

def normField (all : List TypeDef) (f : FieldDefS) : FieldDefS :=
  { f with args := sortOn (·.name) (f.args.map (normArg all)) }

def normEnumValue (ev : EnumValueS) : EnumValueS := { ev with internal := .str ev.name }

/-- sorts what Go keeps in maps (fields, arguments, enum values, input fields), erases what only the running program
knows (scalar coercion tables, `IsTypeOf`/`ResolveType`, enum internal values), renders defaults as literal text -/
def normType (all : List TypeDef) : TypeDef → TypeDef
  | .scalar n _ d => .scalar n (scalarKindOfName n) d
  | .object n ifaces fs _ d => .object n ifaces (sortOn (·.name) (fs.map (normField all))) false d
  | .interface n fs _ d => .interface n (sortOn (·.name) (fs.map (normField all))) false d
  | .union n ms _ d => .union n ms false d
  | .enum n vals d => .enum n (sortOn (·.name) (vals.map normEnumValue)) d
  | .inputObject n fs d => .inputObject n (sortOn (·.name) (fs.map (normInput all))) d

def normDirective (all : List TypeDef) (d : DirectiveDefS) : DirectiveDefS :=
  { d with args := sortOn (·.name) (d.args.map (normArg all)) }

/-- the schema restricted to its type map (plus the introspection types), in normal form, types sorted by name -/
def normalise (s : Schema) (supplied : List String := s.types.map (·.name)) : Schema :=
  { types := (closureDefs s supplied).map (normType (allTypes s)), query := s.query, mutation := s.mutation,
    subscription := s.subscription, directives := s.directives.map (normDirective (allTypes s)) }

/-! ## Reading a literal back: `valueFromAST` -/

def isDigit (c : Char) : Bool := 48 ≤ c.toNat ∧ c.toNat ≤ 57

def digitVal (c : Char) : Nat := c.toNat - 48

def natOfDigits (cs : Chars) : Nat := cs.foldl (fun acc c => acc * 10 + digitVal c) 0

/-- sign, mantissa, number of fractional digits of `-?digits(.digits)?`; `none` for anything else (exponents are
outside the modelled domain) -/
def parseNum (cs : Chars) : Option (Bool × Nat × Nat) :=
  let neg := cs.head? == some '-'
  let body := if neg then cs.tail else cs
  let ip := body.takeWhile isDigit
  let rest := body.dropWhile isDigit
  if ip.isEmpty then none else
  match rest with
  | [] => some (neg, natOfDigits ip, 0)
  | c :: fp =>
    if c = '.' then
      (if fp.isEmpty || !fp.all isDigit then none else some (neg, natOfDigits (ip ++ fp), fp.length))
    else none

/-- canonical JVal of `±m·10^-e`: trailing zeros stripped, integral values as `int` -/
def mkDec : Nat → Int → Nat → JVal
  | 0, m, e => if e = 0 then .int m else .dec m e
  | fuel + 1, m, e => if e = 0 then .int m else if m % 10 = 0 then mkDec fuel (m / 10) (e - 1) else .dec m e

def numToJVal (p : Bool × Nat × Nat) : JVal :=
  let m : Int := if p.1 then -(p.2.1 : Int) else (p.2.1 : Int)
  mkDec p.2.2 m p.2.2

/-- `literalToWire` of harness/gq (key of a custom scalar's `parseLiteral` table) -/
def litWire : Lit → JVal
  | .num t =>
    match parseNum t.toList with
    | some (neg, m, 0) => .int (if neg then -(m : Int) else m)
    | _ => .obj [("$lit", .str ("float:" ++ t))]
  | .str s => .str s
  | .bool b => .bool b
  | .enum n => .obj [("$lit", .str ("enum:" ++ n))]
  | _ => .obj [("$lit", .str "composite")]

def tableLookup (tbl : List (JVal × JVal)) (k : JVal) : JVal :=
  match tbl.find? (fun p => p.1 == k) with
  | some p => p.2
  | none => .null

/-- `ParseLiteral` of a named leaf type on a non-composite literal -/
def coerceLeaf (all : List TypeDef) (n : String) (l : Lit) : JVal :=
  match findType all n with
  | some (.scalar _ .int _) =>
    (match l with
     | .num t => (match parseNum t.toList with
        | some (neg, m, 0) =>
          let i : Int := if neg then -(m : Int) else m
          if i < -2147483648 ∨ i > 2147483647 then .null else .int i
        | _ => .null)
     | _ => .null)
  | some (.scalar _ .float _) =>
    (match l with
     | .num t => (match parseNum t.toList with | some p => numToJVal p | none => .null)
     | _ => .null)
  | some (.scalar _ .string _) => (match l with | .str x => .str x | _ => .null)
  | some (.scalar _ .boolean _) => (match l with | .bool b => .bool b | _ => .null)
  | some (.scalar _ .id _) =>
    (match l with
     | .str x => .str x
     | .num t => (match parseNum t.toList with | some (_, _, 0) => .str t | _ => .null)
     | _ => .null)
  | some (.scalar _ (.custom _ _ pl) _) => tableLookup pl (litWire l)
  | some (.enum _ vals _) =>
    (match l with
     | .enum x => (match vals.find? (fun ev => ev.name == x) with | some ev => enumInternal ev | none => .null)
     | _ => .null)
  | _ => .null

def GType.listDepth : GType → Nat
  | .named _ => 0
  | .list t => GType.listDepth t + 1
  | .nonNull t => GType.listDepth t

/-- a non-list literal in a list position is a list of one (values.go:379), at every list layer -/
def wrapSingle : Nat → JVal → JVal
  | 0, v => v
  | n + 1, v => .list [wrapSingle n v]

/-- last binding of a key (`fieldASTs[name] = of` overwrites) -/
def lookupLast (fs : List (String × JVal)) (k : String) : Option JVal :=
  (fs.reverse.find? (fun p => p.1 == k)).map (·.2)

/-- the loop over the declared fields of an input object (values.go:396-408): literal value, else the field's
default; nullish results are left out.  `decl` is taken in name order, so the result is a canonical object. -/
def assembleObj (decl : List InputFieldS) (given : List (String × JVal)) : List (String × JVal) :=
  (sortOn (·.name) decl).filterMap (fun f =>
    let v := match lookupLast given f.name with
      | some x => if x.isNull then (f.default.getD .null) else x
      | none => f.default.getD .null
    if v.isNull then none else some (f.name, v))

/-- a non-composite literal at a named type: an input object wants an object literal, leaves parse the literal -/
def coerceNamed (all : List TypeDef) (n : String) (l : Lit) : JVal :=
  match findType all n with
  | some (.inputObject ..) => .null
  | _ => coerceLeaf all n l

mutual
/-- `valueFromAST` on constant literals -/
def coerceLit (all : List TypeDef) : GType → Lit → JVal
  | t, .list xs =>
    match GType.stripNN t with
    | .list it => .list (coerceLits all it xs)
    | u => wrapSingle (GType.listDepth u) (coerceLeaf all u.namedName (.list xs))
  | t, .obj fs =>
    wrapSingle (GType.listDepth t)
      (match findType all t.namedName with
       | some (.inputObject _ decl _) => .obj (assembleObj decl (coerceFields all decl fs))
       | _ => coerceLeaf all t.namedName (.obj fs))
  | t, l => wrapSingle (GType.listDepth t) (coerceNamed all t.namedName l)
def coerceLits (all : List TypeDef) : GType → List Lit → List JVal
  | _, [] => []
  | it, x :: xs => coerceLit all it x :: coerceLits all it xs
def coerceFields (all : List TypeDef) (decl : List InputFieldS) : List (String × Lit) → List (String × JVal)
  | [] => []
  | (k, x) :: rest =>
    match inputFieldType decl k with
    | some ft => (k, coerceLit all ft x) :: coerceFields all decl rest
    | none => coerceFields all decl rest
end

/-! ## A small reader for the value language (stands for `parser.ParseValue` + end-of-input) -/

def isWs (c : Char) : Bool := c == ' ' || c == ',' || c == '\n' || c == '\t' || c == '\r'
def isNameStart (c : Char) : Bool :=
  (65 ≤ c.toNat ∧ c.toNat ≤ 90) ∨ (97 ≤ c.toNat ∧ c.toNat ≤ 122) ∨ c.toNat = 95
def isNameChar (c : Char) : Bool := isNameStart c || isDigit c
def isNumChar (c : Char) : Bool := isDigit c || c == '-' || c == '.' || c == 'e' || c == 'E' || c == '+'

def skipWs : Chars → Chars
  | [] => []
  | c :: cs => if isWs c then skipWs cs else c :: cs

def hexVal (c : Char) : Option Nat :=
  if isDigit c then some (c.toNat - 48)
  else if 97 ≤ c.toNat ∧ c.toNat ≤ 102 then some (c.toNat - 87)
  else if 65 ≤ c.toNat ∧ c.toNat ≤ 70 then some (c.toNat - 55)
  else none

/-- the body of a quoted string after the opening quote: returns the unescaped characters and the rest after the
closing quote -/
def readString : Chars → Chars → Option (Chars × Chars)
  | [], _ => none
  | c :: rest, acc =>
    if c = '"' then some (acc.reverse, rest)
    else if c = '\\' then
      match rest with
      | [] => none
      | e :: rest' =>
        if e = 'u' then
          match rest' with
          | h1 :: h2 :: h3 :: h4 :: rest'' =>
            match hexVal h1, hexVal h2, hexVal h3, hexVal h4 with
            | some a, some b, some c, some d => readString rest'' (Char.ofNat (((a * 16 + b) * 16 + c) * 16 + d) :: acc)
            | _, _, _, _ => none
          | _ => none
        else if e = '"' then readString rest' ('"' :: acc)
        else if e = '\\' then readString rest' ('\\' :: acc)
        else if e = '/' then readString rest' ('/' :: acc)
        else if e = 'b' then readString rest' ('\x08' :: acc)
        else if e = 'f' then readString rest' ('\x0c' :: acc)
        else if e = 'n' then readString rest' ('\n' :: acc)
        else if e = 'r' then readString rest' ('\r' :: acc)
        else if e = 't' then readString rest' ('\t' :: acc)
        else none
    else if c = '\n' ∨ c = '\r' then none
    else readString rest (c :: acc)

def validNumText (t : Chars) : Bool := (parseNum t).isSome

mutual
def readValue : Nat → Chars → Option (Lit × Chars)
  | 0, _ => none
  | fuel + 1, cs =>
    match skipWs cs with
    | [] => none
    | c :: r =>
      if c = '[' then (readList fuel r).map (fun p => (Lit.list p.1, p.2))
      else if c = '{' then (readFields fuel r).map (fun p => (Lit.obj p.1, p.2))
      else if c = '"' then (readString r []).map (fun p => (Lit.str (String.ofList p.1), p.2))
      else if isDigit c || c == '-' then
        (if validNumText ((c :: r).takeWhile isNumChar) then
          some (.num (String.ofList ((c :: r).takeWhile isNumChar)), (c :: r).dropWhile isNumChar) else none)
      else if isNameStart c then
        (if (c :: r).takeWhile isNameChar = "true".toList then some (.bool true, (c :: r).dropWhile isNameChar)
         else if (c :: r).takeWhile isNameChar = "false".toList then some (.bool false, (c :: r).dropWhile isNameChar)
         else if (c :: r).takeWhile isNameChar = "null".toList then none
         else some (.enum (String.ofList ((c :: r).takeWhile isNameChar)), (c :: r).dropWhile isNameChar))
      else none
def readList : Nat → Chars → Option (List Lit × Chars)
  | 0, _ => none
  | fuel + 1, cs =>
    match skipWs cs with
    | [] => none
    | c :: r =>
      if c = ']' then some ([], r)
      else (readValue fuel (c :: r)).bind (fun p => (readList fuel p.2).map (fun q => (p.1 :: q.1, q.2)))
def readFields : Nat → Chars → Option (List (String × Lit) × Chars)
  | 0, _ => none
  | fuel + 1, cs =>
    match skipWs cs with
    | [] => none
    | c :: r =>
      if c = '}' then some ([], r)
      else if isNameStart c then
        match skipWs ((c :: r).dropWhile isNameChar) with
        | [] => none
        | d :: r' =>
          if d = ':' then
            (readValue fuel r').bind (fun p => (readFields fuel p.2).map (fun q =>
              ((String.ofList ((c :: r).takeWhile isNameChar), p.1) :: q.1, q.2)))
          else none
      else none
end

/-- the whole text is one literal -/
def readLit (cs : Chars) : Option Lit :=
  match readValue (cs.length + 1) cs with
  | some (l, r) => if (skipWs r).isEmpty then some l else none
  | none => none

def parseValue (text : String) : Option Lit := readLit text.toList

/-- parse the reported text and coerce it against the argument's type; `none` = the text is not a literal -/
def reread (s : Schema) (t : GType) (text : String) : Option JVal :=
  (parseValue text).map (coerceLit (allTypes s) t)

/-! ## Conformant defaults, and the class the current tree renders correctly -/

/-- the keys of a canonical input-object value: the declared field names in name order, those present (this is
"sorted and unique" for canonical objects, stated without appeal to properties of the string order) -/
def keysInDeclOrder (decl : List InputFieldS) (fs : List (String × JVal)) : Bool :=
  fs.map (·.1) == ((sortOn (·.name) decl).map (·.name)).filter (fun k => fs.any (fun p => p.1 == k))

/-- leaf values in the image of input coercion for a named leaf type -/
def conformsLeaf (all : List TypeDef) (n : String) (v : JVal) : Bool :=
  match findType all n with
  | some (.scalar _ .int _) => (match v with | .int i => decide (-2147483648 ≤ i ∧ i ≤ 2147483647) | _ => false)
  | some (.scalar _ .float _) => (match v with | .int _ => true | .dec m e => decide (e > 0 ∧ m % 10 ≠ 0) | _ => false)
  | some (.scalar _ .string _) => (match v with | .str _ => true | _ => false)
  | some (.scalar _ .boolean _) => (match v with | .bool _ => true | _ => false)
  | some (.scalar _ .id _) => (match v with | .str _ => true | _ => false)
  | some (.scalar _ (.custom _ _ pl) _) =>
    -- a custom scalar value conforms when the scalar's own parseLiteral inverts its rendering
    (match v with
     | .int _ | .str _ | .bool _ => !v.isNull && tableLookup pl (litWire (astLeaf all n v)) == v
     | _ => false)
  | some (.enum _ vals _) => (enumNameOf vals v).isSome
  | _ => false

mutual
/-- `v` is a value input coercion can produce for type `t` at this language level (no `null` literal): lists for
list types with conformant non-null items, leaves as above, input objects as canonical objects over declared fields
that contain every field carrying a default or a non-null type. -/
def conformant (all : List TypeDef) : GType → JVal → Bool
  | _, .null => false
  | t, .list xs =>
    match GType.stripNN t with
    | .list it => conformantAll all it xs
    | u => conformsLeaf all u.namedName (.list xs)
  | t, .obj fs =>
    match GType.stripNN t with
    | .named n =>
      (match findType all n with
       | some (.inputObject _ decl _) =>
         keysInDeclOrder decl fs && conformantFields all decl fs &&
         decl.all (fun f => (fs.any (fun p => p.1 == f.name)) ||
           (!f.type.isNonNull && (match f.default with | none => true | some d => d.isNull)))
       | _ => conformsLeaf all n (.obj fs))
    | _ => false
  | t, v =>
    match GType.stripNN t with
    | .named n => conformsLeaf all n v
    | _ => false
def conformantAll (all : List TypeDef) : GType → List JVal → Bool
  | _, [] => true
  | it, x :: xs => conformant all it x && conformantAll all it xs
def conformantFields (all : List TypeDef) (decl : List InputFieldS) : List (String × JVal) → Bool
  | [] => true
  | (k, x) :: rest =>
    (match inputFieldType decl k with
     | some ft => conformant all ft x
     | none => false) && conformantFields all decl rest
end

/-- a GraphQL name: `[_A-Za-z][_0-9A-Za-z]*` (what `assertValidName` enforces) -/
def validName (n : String) : Bool :=
  match n.toList with
  | [] => false
  | c :: cs => isNameStart c && cs.all isNameChar

def literalLikeName (n : String) : Bool := n == "true" || n == "false" || n == "null"

/-- what `NewEnum` / `NewInputObject` guarantee and the round trip needs: enum value names and input field names are
valid names (`assertValidName`), pairwise distinct within their type (they are the keys of Go maps), and an enum value
is not called `true`, `false` or `null` (definition.go `defineEnumValues`, commit 9abaf54) -/
def wfInputType : TypeDef → Bool
  | .enum _ vals _ =>
    vals.all (fun ev => validName ev.name && !literalLikeName ev.name) && decide (vals.map (·.name)).Nodup
  | .inputObject _ fs _ => fs.all (fun f => validName f.name) && decide (fs.map (·.name)).Nodup
  | _ => true

def wfInputTypes (all : List TypeDef) : Bool := all.all wfInputType

/-- every object lists an interface at most once, every union a member at most once (`defineInterfaces` /
`defineUnionTypes`, commit 9abaf54) -/
def membersOnce : TypeDef → Bool
  | .object _ ifaces _ _ _ => decide ifaces.Nodup
  | .union _ ms _ _ => decide ms.Nodup
  | _ => true

def isScalarName (all : List TypeDef) (n : String) : Bool :=
  match findType all n with | some (.scalar ..) => true | _ => false

mutual
/-- the defaults the pinned `astFromValue` already rendered correctly: no enum and no input-object value anywhere
inside (the complement on conformant defaults was the defect class `defaultOfEnumOrObjectKind`, D-10a). -/
def scalarLike (all : List TypeDef) : GType → JVal → Bool
  | _, .null => true
  | t, .list xs =>
    match GType.stripNN t with
    | .list it => scalarLikeAll all it xs
    | u => isScalarName all u.namedName
  | t, _ => isScalarName all t.namedName
def scalarLikeAll (all : List TypeDef) : GType → List JVal → Bool
  | _, [] => true
  | it, x :: xs => scalarLike all it x && scalarLikeAll all it xs
end

def defaultIsScalarLike (s : Schema) (t : GType) (v : JVal) : Bool := scalarLike (allTypes s) t v

end GqlModel.Introspection
