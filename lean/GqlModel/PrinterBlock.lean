import GqlModel.LexerSpec
/-! # Byte-level view of block-string description printing (printer.go `getDescription` + `indent`)

A block-safe description `d` is printed as `"""` + d + `"""` when it has no newline, and as
`"""` + "\n" + d + "\n" + `"""` otherwise; each of the `n` enclosing blocks / argument lists then replaces every
`\n` of the result by `\n` + two spaces (`indent`).  With `k = 2·n`, the text between the triple quotes is
`blockRaw k d`:

* no newline in `d`: `d` itself;
* otherwise: every line of `d`, and the (empty) line before the closing quotes, preceded by a newline and `k` spaces.

`blockSafeB` is printer.go `blockStringSafe` on bytes (= `GqlModel.Printer.descBlockSafeC` on characters; the two are
compared on every description by the C08 harness). -/
namespace GqlModel.Printer.Block

abbrev Bytes := List UInt8

def isWs (c : UInt8) : Bool := c == 32 || c == 9

/-- `strings.Split(d, "\n")` -/
def splitLF : Bytes → List Bytes
  | [] => [[]]
  | c :: r =>
    if c = 10 then [] :: splitLF r
    else match splitLF r with
      | l :: ls => (c :: l) :: ls
      | [] => [[c]]

/-- the text starts with `"""` -/
def starts3 : Bytes → Bool
  | a :: b :: c :: _ => a == 34 && b == 34 && c == 34
  | _ => false

def hasTripleQuote : Bytes → Bool
  | [] => false
  | c :: r => starts3 (c :: r) || hasTripleQuote r

def startsInColumn0 (l : Bytes) : Bool :=
  match l with
  | [] => false
  | c :: _ => !isWs c

/-- printer.go `blockStringSafe` -/
def blockSafeB (d : Bytes) : Bool :=
  !d.isEmpty && !hasTripleQuote d && d.all (fun c => 32 ≤ c.toNat || c == 9 || c == 10) &&
  (match splitLF d with
   | [] => false
   | [l] => !l.all isWs && !(l.getLast? == some 34 || l.getLast? == some 92)
   | first :: rest =>
     !first.all isWs && !(rest.getLast?.getD []).all isWs &&
     (first :: rest).any (fun l => !l.all isWs && startsInColumn0 l))

def spaces (k : Nat) : Bytes := List.replicate k 32

/-- the lines of a multi-line description as printed: newline, `k` spaces, the line -/
def indentedLines (k : Nat) : List Bytes → Bytes
  | [] => []
  | l :: ls => 10 :: (spaces k ++ l) ++ indentedLines k ls

/-- the text between the triple quotes -/
def blockRaw (k : Nat) (d : Bytes) : Bytes :=
  if d.contains 10 then indentedLines k (splitLF d) ++ 10 :: spaces k else d

/-- the printed description: what `getDescription` and `n = k/2` applications of `indent` produce -/
def blockText (k : Nat) (d : Bytes) : Bytes := [34, 34, 34] ++ blockRaw k d ++ [34, 34, 34]

end GqlModel.Printer.Block
