/-! Decidable checks over the tables regenerated from /repo (`Generated/Tables.lean`). The definitions
live here (core-only); the obligations `… = true` are theorems in `Props/`. -/
namespace GqlModel.Tables

def lookup (tbl : List (String × α)) (k : String) : Option α :=
  (tbl.find? (fun p => p.1 == k)).map (·.2)

/-- Child fields that the traversal deliberately does not descend into: descriptions are printed from
the owning node, and `FragmentDefinition.VariableDefinitions` is never produced by the parser. -/
def notVisited (kind field : String) : Bool :=
  field == "Description" || (kind == "FragmentDefinition" && field == "VariableDefinitions")

/-- `QueryDocumentKeys[kind]` must be exactly the node-valued fields of struct `kind`, in declaration
order, except the documented exclusions; and every kind constant has an entry. -/
def keysMatchStruct (structs : List (String × List (String × String))) (entry : String × List String) : Bool :=
  match lookup structs entry.1 with
  | none => false
  | some fields =>
    let nodeFields := (fields.filter (fun f => f.2 != "scalar" && !notVisited entry.1 f.1)).map (·.1)
    nodeFields == entry.2

def childKeysCover (keys : List (String × List String)) (structs : List (String × List (String × String)))
    (kinds : List String) : Bool :=
  keys.all (keysMatchStruct structs) && kinds.all (fun k => (lookup keys k).isSome)

end GqlModel.Tables
