import GqlModel.Ast
import GqlModel.Schema
/-! # C19 / C09 — cost model of PLANNING as coded in /repo/plan.go (lazy sub-plans)

Two step counters are threaded through the model at exactly the sites where the `verif` build of the
library counts (`verifCount(VerifSiteCollectInto)` plan.go:360, `verifCount(VerifSitePlanMergedSelectionsForType)`
plan.go:324):

* `collect` — number of `(*Plan).collectInto` calls (one per selection set ENTERED: the set handed to
  `planSelectionSet` / `planMergedSelectionsForType`, every applicable inline fragment, every fragment body);
* `pms`     — number of `(*Plan).planMergedSelectionsForType` calls (one per miss of `Plan.abstractAlternative`).

What is modelled, function by function:

* `selectOp`            PlanQuery's loop over the definitions (plan.go:128-154) and `getOperationRootType`;
* `isDynamic…`          `documentHasDynamicDirectives` (plan.go:194-240): such plans are not collected by
                        `PlanQuery`; `ExecutePlan` re-collects them per request (`specialise`, plan.go:177-192);
* `skips`               `planDirectives` (plan.go:551-608) for literal `if:` and, in a specialised plan, for Boolean
                        variables (`planVars`);
* `collectSel/Sels/Set` `collectInto` (plan.go, incl. the descent-path guard `chain.has(fragName)` of repair D-09d) over an abstract per-parent-type context `Ctx`
                        (`applies` = `planFragmentMatches`, `fieldDef` = `getFieldDef`, `frags` = `Plan.fragments`);
                        `rec` is the call that enters a fragment body (open recursion: the fuel is consumed there only);
* `collectFuel`         ties the knot with an explicit fuel; `fuelFor` = number of fragment definitions + 1 suffices
                        (theorem `collectFuel_oof`, C09 `plan_total_on_cyclic_fragments`);
* `planMerged`          `planMergedSelectionsForType` (plan.go:323-344): one shared visited set over all merged field ASTs;
* `execW/execCs`        the execution-time callers of `Plan.abstractAlternative` (plan.go:305-317, 963-1020):
                        `completePlannedObjectValue` / `completePlannedAbstractValue`, driven by a `World` oracle that
                        says which runtime types are completed under which response key. The memo
                        `fieldPlan.abstractAlternatives` is the `log` (identity of a field plan = path of
                        (response key, runtime type) pairs from the root).

NOT modelled (do not influence the two counters): argument coercion (`planArguments`), resolver calls, value
completion other than "an object of runtime type T is completed here", errors, thunks. Introspection meta fields
`__schema`/`__type` are known fields whose sub-selections are not descended (`__Schema`/`__Type` are not in `Schema`). -/
namespace GqlModel.Cost

/-! ## Directives (`planDirectives`) -/

/-- coerced request variables whose Go value is a `bool` (only these can decide `@skip`/`@include`) -/
abbrev Vars := List (String × Bool)

/-- `vals["if"].(bool)` after `getArgumentValues(SkipDirective.Args, args, planVars)`: the LAST argument named `if`
(Go builds a name-keyed map), a Boolean literal or — in a specialised plan — a Boolean variable. -/
def ifArg (pv : Option Vars) (args : List Argument) : Option Bool :=
  match (args.filter (fun a => a.name.value == "if")).getLast? with
  | some a =>
    match a.value with
    | .bool b _ => some b
    | .var n _ =>
      match pv with
      | some vs => (vs.find? (fun p => p.1 == n)).map (·.2)
      | none => none
    | _ => none
  | none => none

/-- last directive of the given name (the Go loop overwrites `skipDir` / `includeDir`) -/
def lastDir (name : String) (dirs : List Directive) : Option Directive :=
  (dirs.filter (fun d => d.name.value == name)).getLast?

/-- `alwaysSkip` of `planDirectives`. (At `PlanQuery` time a document with variable-driven directives is not
collected at all, so `pv = none` only ever meets literal arguments.) -/
def skips (pv : Option Vars) (dirs : List Directive) : Bool :=
  (match lastDir "skip" dirs with
   | some d => ifArg pv d.args == some true
   | none => false) ||
  (match lastDir "include" dirs with
   | some d => ifArg pv d.args == some false
   | none => false)

/-! ## `documentHasDynamicDirectives` -/

mutual
def valueHasVars : Value → Bool
  | .var _ _ => true
  | .list vs _ => valuesHaveVars vs
  | .obj fs _ => fieldsHaveVars fs
  | _ => false
def valuesHaveVars : List Value → Bool
  | [] => false
  | v :: vs => valueHasVars v || valuesHaveVars vs
def fieldsHaveVars : List ObjField → Bool
  | [] => false
  | .mk _ v _ :: fs => valueHasVars v || fieldsHaveVars fs
end

def dirsDynamic (dirs : List Directive) : Bool :=
  dirs.any (fun d => d.args.any (fun a => valueHasVars a.value))

mutual
def selDynamic : Selection → Bool
  | .field _ _ _ dirs none _ => dirsDynamic dirs
  | .field _ _ _ dirs (some ss) _ => dirsDynamic dirs || setDynamic ss
  | .spread _ dirs _ => dirsDynamic dirs
  | .inline _ dirs ss _ => dirsDynamic dirs || setDynamic ss
def setDynamic : SelectionSet → Bool
  | .mk sels _ => selsDynamic sels
def selsDynamic : List Selection → Bool
  | [] => false
  | s :: rest => selDynamic s || selsDynamic rest
end

def docDynamic (doc : Document) : Bool :=
  doc.defs.any (fun
    | .operation _ _ _ _ ss _ => setDynamic ss
    | .fragment _ _ _ ss _ => setDynamic ss
    | _ => false)

/-! ## Plan-time collection (`collectInto`) -/

/-- `fragmentChain`: the named fragments whose bodies enclose a position, innermost first -/
abbrev Chain := List String

/-- one `fieldPlan`: `subs` = the selection sets of the merged field ASTs that have one, in merge order, each with the
chain of fragments enclosing that AST (`fieldPlan.astChains`) -/
structure FieldPlan where
  key : String
  name : String
  fdef : Option FieldDefS
  subs : List (SelectionSet × Chain)
  nAsts : Nat
deriving Inhabited

/-- state of one `planSelectionSet` / `planMergedSelectionsForType` call -/
structure St where
  visited : List String := []      -- visitedFragmentNames
  entered : List String := []      -- fragments whose BODY was handed to collectInto (⊆ visited), newest first
  fields : List FieldPlan := []    -- sp.fields (keyed = position of the response key)
  collect : Nat := 0               -- counter VerifSiteCollectInto
  oof : Bool := false              -- the model ran out of fuel (never, by `collectFuel_oof`)
deriving Inhabited

/-- what `collectInto` needs to know for one fixed parent type -/
structure Ctx where
  applies : Option String → Bool                          -- planFragmentMatches(schema, cond, parentType)
  fieldDef : String → Option FieldDefS                    -- getFieldDef(schema, parentType, name)
  skip : List Directive → Bool                            -- alwaysSkip of planDirectives
  frags : List (String × String × SelectionSet)           -- Plan.fragments: (name, type condition, body), lookup = first match

def Ctx.lookup (c : Ctx) (n : String) : Option (String × String × SelectionSet) :=
  c.frags.find? (fun f => f.1 == n)

/-- `keyed[responseKey]` hit: append the AST to the existing field plan; miss: new field plan at the end -/
def addField (c : Ctx) (key name : String) (sub : Option (SelectionSet × Chain)) : List FieldPlan → List FieldPlan
  | [] => [{ key := key, name := name, fdef := c.fieldDef name, subs := sub.toList, nAsts := 1 }]
  | fp :: rest =>
    if fp.key == key then { fp with subs := fp.subs ++ sub.toList, nAsts := fp.nAsts + 1 } :: rest
    else fp :: addField c key name sub rest

def responseKey (alias : Option Name) (name : Name) : String :=
  match alias with
  | some a => if a.value != "" then a.value else name.value
  | none => name.value

mutual
/-- one iteration of the loop over `selectionSet.Selections`; `chain` = fragments enclosing this selection set
(descent-path guard: a fragment on the chain is not expanded again below itself) -/
def collectSel (c : Ctx) (rec : Chain → SelectionSet → St → St) (chain : Chain) : Selection → St → St
  | .field alias name _ dirs sub _, st =>
    if c.skip dirs then st
    else { st with fields := addField c (responseKey alias name) name.value (sub.map (·, chain)) st.fields }
  | .inline tc dirs ss _, st =>
    if c.skip dirs then st
    else if !c.applies (tc.map TypeRef.namedName) then st
    else collectSet c rec chain ss st
  | .spread name dirs _, st =>
    if c.skip dirs then st
    else if st.visited.contains name.value || chain.contains name.value then st
    else
      match c.lookup name.value with
      | none => st
      | some (_, cond, body) =>
        let st := { st with visited := name.value :: st.visited }
        if !c.applies (some cond) then st
        else rec (name.value :: chain) body { st with entered := name.value :: st.entered }
/-- a `collectInto` call on a selection set that is part of the current syntax tree -/
def collectSet (c : Ctx) (rec : Chain → SelectionSet → St → St) (chain : Chain) : SelectionSet → St → St
  | .mk sels _, st => collectSels c rec chain sels { st with collect := st.collect + 1 }
def collectSels (c : Ctx) (rec : Chain → SelectionSet → St → St) (chain : Chain) : List Selection → St → St
  | [], st => st
  | s :: rest, st => collectSels c rec chain rest (collectSel c rec chain s st)
end

/-- `collectInto` with the recursion through fragment bodies bounded by fuel -/
def collectFuel (c : Ctx) : Nat → Chain → SelectionSet → St → St
  | 0 => fun _ _ st => { st with oof := true }
  | n + 1 => fun chain ss st => collectSet c (collectFuel c n) chain ss st

def fuelFor (c : Ctx) : Nat := c.frags.length + 1

/-- `collectInto` as called from `planSelectionSet` / `planMergedSelectionsForType` -/
def collectTop (c : Ctx) (chain : Chain) (ss : SelectionSet) (st : St) : St := collectFuel c (fuelFor c) chain ss st

/-- `planMergedSelectionsForType(parentType, fieldASTs)`: all merged ASTs share one visited set -/
def planMerged (c : Ctx) : List (SelectionSet × Chain) → St → St
  | [], st => st
  | (ss, chain) :: rest, st => planMerged c rest (collectTop c chain ss st)

/-! ## Syntactic size measures used by the bounds -/

mutual
/-- number of inline-fragment selection sets reachable WITHOUT passing through a field or a spread -/
def inlSel : Selection → Nat
  | .inline _ _ ss _ => 1 + inlSet ss
  | _ => 0
def inlSet : SelectionSet → Nat
  | .mk sels _ => inlSels sels
def inlSels : List Selection → Nat
  | [] => 0
  | s :: rest => inlSel s + inlSels rest
end

/-- weighted count of the fragment definitions not yet visited -/
def potential (w : String × String × SelectionSet → Nat) (frags : List (String × String × SelectionSet))
    (visited : List String) : Nat :=
  ((frags.filter (fun f => !visited.contains f.1)).map w).sum

/-- weight of one fragment definition: its body plus the inline fragments directly inside it -/
def fragWeight (f : String × String × SelectionSet) : Nat := 1 + inlSet f.2.2

/-- Σ over all fragment definitions of (1 + inline fragments of the body): every fragment body once -/
def fragsSize (frags : List (String × String × SelectionSet)) : Nat := potential fragWeight frags []

/-- size of one level of a merged selection: the sets themselves, their inline fragments, every fragment once -/
def levelSize (c : Ctx) (subs : List (SelectionSet × Chain)) : Nat :=
  (subs.map (fun ss => 1 + inlSet ss.1)).sum + fragsSize c.frags

/-! ## The environment of a request: schema, document, operation -/

structure Env where
  schema : Schema
  frags : List (String × String × SelectionSet)
  planVars : Option Vars

def typenameDef : FieldDefS := { name := "__typename", type := .nonNull (.named "String"), args := [] }
def schemaMetaDef : FieldDefS := { name := "__schema", type := .nonNull (.named "__Schema"), args := [] }
def typeMetaDef : FieldDefS :=
  { name := "__type", type := .named "__Type", args := [{ name := "name", type := .nonNull (.named "String"), default := none }] }

/-- `getFieldDef` (executor.go:571-589) -/
def getFieldDef (s : Schema) (parent fname : String) : Option FieldDefS :=
  if fname == "__schema" && s.query == parent then some schemaMetaDef
  else if fname == "__type" && s.query == parent then some typeMetaDef
  else if fname == "__typename" then some typenameDef
  else (s.objectFields parent).find? (fun f => f.name == fname)

def Env.ctx (e : Env) (parent : String) : Ctx where
  applies := fun cond => e.schema.typeConditionApplies cond parent
  fieldDef := getFieldDef e.schema parent
  skip := skips e.planVars
  frags := e.frags

/-- `Plan.fragments`: a later definition of the same name overwrites an earlier one, so the table is searched
from the last definition backwards. -/
def fragTable (doc : Document) : List (String × String × SelectionSet) :=
  (doc.defs.filterMap (fun
    | .fragment n tc _ ss _ => some (n.value, tc.namedName, ss)
    | _ => none)).reverse

inductive PlanErr | multipleOps | notExecutable | unknownOp | noOp | noRoot
deriving DecidableEq, Repr

/-- the loop of `PlanQuery` over the definitions -/
def selectOpLoop (opName : String) : List Definition → Option (OpType × SelectionSet) → Except PlanErr (Option (OpType × SelectionSet))
  | [], cur => .ok cur
  | .operation op name _ _ ss _ :: rest, cur =>
    if opName == "" && cur.isSome then .error .multipleOps
    else if opName == "" || (match name with | some n => n.value == opName | none => false) then
      selectOpLoop opName rest (some (op, ss))
    else selectOpLoop opName rest cur
  | .fragment .. :: rest, cur => selectOpLoop opName rest cur
  | _ :: _, _ => .error .notExecutable

/-- operation selection and root type: `(root type name, selection set)` -/
def selectOp (s : Schema) (doc : Document) (opName : String) : Except PlanErr (String × SelectionSet) :=
  match selectOpLoop opName doc.defs none with
  | .error e => .error e
  | .ok none => .error (if opName != "" then .unknownOp else .noOp)
  | .ok (some (op, ss)) =>
    match s.rootFor op.toString with
    | some r => .ok (r, ss)
    | none => .error .noRoot

structure Counts where
  collect : Nat
  pms : Nat
deriving DecidableEq, Repr, Inhabited

/-- the root `selectionPlan` as `planSelectionSet(rootType, operation.SelectionSet, nil)` builds it -/
def rootPlan (e : Env) (root : String) (ss : SelectionSet) : St := collectTop (e.ctx root) [] ss {}

/-- counters after `PlanQuery(schema, doc, opName)` -/
def planCost (s : Schema) (doc : Document) (opName : String) : Counts :=
  match selectOp s doc opName with
  | .error _ => ⟨0, 0⟩
  | .ok (root, ss) =>
    if docDynamic doc then ⟨0, 0⟩
    else ⟨(rootPlan ⟨s, fragTable doc, none⟩ root ss).collect, 0⟩

/-! ## Execution-time planning (`Plan.abstractAlternative`) against a world oracle -/

mutual
/-- an object value being completed: which completions of object values happen below it.
`cons key rt child rest`: under response key `key` a value of runtime type `rt` is completed (several entries with the
same key = list items, or several requests against the same plan). -/
inductive World where
  | node (cs : Comps)
inductive Comps where
  | nil
  | cons (key : String) (rt : String) (child : World) (rest : Comps)
end

abbrev Path := List (String × String)

/-- one entry of some `fieldPlan.abstractAlternatives`: which field plan (path), which runtime type, what was
planned (`subs`) and what it cost -/
structure Entry where
  id : Path
  subs : List (SelectionSet × Chain)
  cost : Nat
  oof : Bool

structure ESt where
  log : List Entry := []     -- all memo tables of the plan, newest first
  oof : Bool := false

/-- innermost named type of a schema type -/
def namedOf (t : GType) : String := t.namedName

/-- does completing a value of runtime type `rt` at a field of type `t` reach `abstractAlternative(fp, rt)`?
Object field: `rt` is that object; abstract field: `rt` is one of its possible types. -/
def admissible (s : Schema) (t : GType) (rt : String) : Bool :=
  let n := namedOf t
  (s.isObject n && n == rt) || (s.isAbstract n && s.isPossibleType n rt)

def ESt.has (st : ESt) (id : Path) : Bool := st.log.any (fun e => e.id == id)

mutual
def execW (e : Env) (fields : List FieldPlan) (path : Path) : World → ESt → ESt
  | .node cs, st => execCs e fields path cs st
def execCs (e : Env) (fields : List FieldPlan) (path : Path) : Comps → ESt → ESt
  | .nil, st => st
  | .cons k rt child rest, st =>
    let st :=
      match fields.find? (fun fp => fp.key == k) with
      | none => st
      | some fp =>
        match fp.fdef with
        | none => st
        | some fd =>
          if !admissible e.schema fd.type rt then st
          else
            let id := path ++ [(k, rt)]
            let sub := planMerged (e.ctx rt) fp.subs {}
            let st := if st.has id then st
                      else { log := ⟨id, fp.subs, sub.collect, sub.oof⟩ :: st.log, oof := st.oof || sub.oof }
            execW e sub.fields id child st
    execCs e fields path rest st
end

/- the (field plan, runtime type) pairs completed in a world, in traversal order, with repetitions -/
mutual
def completedW (e : Env) (fields : List FieldPlan) (path : Path) : World → List Path
  | .node cs => completedCs e fields path cs
def completedCs (e : Env) (fields : List FieldPlan) (path : Path) : Comps → List Path
  | .nil => []
  | .cons k rt child rest =>
    (match fields.find? (fun fp => fp.key == k) with
     | none => []
     | some fp =>
       match fp.fdef with
       | none => []
       | some fd =>
         if !admissible e.schema fd.type rt then []
         else
           let id := path ++ [(k, rt)]
           id :: completedW e (planMerged (e.ctx rt) fp.subs {}).fields id child)
    ++ completedCs e fields path rest
end

/- number of completions described by a world -/
mutual
def World.size : World → Nat
  | .node cs => Comps.size cs
def Comps.size : Comps → Nat
  | .nil => 0
  | .cons _ _ child rest => 1 + World.size child + Comps.size rest
end

def logCollect (log : List Entry) : Nat := (log.map (·.cost)).sum

structure ExecReport where
  counts : Counts
  log : List Entry
  oof : Bool

/-- counters after `PlanQuery` followed by executions whose completions are described by `world`
(for a plan with variable-driven directives: ONE execution with the Boolean variables `vars`, because such a plan
is re-collected by every `ExecutePlan`). -/
def execPlan (s : Schema) (doc : Document) (opName : String) (vars : Vars) (world : World) : ExecReport :=
  match selectOp s doc opName with
  | .error _ => ⟨⟨0, 0⟩, [], false⟩
  | .ok (root, ss) =>
    let e : Env := ⟨s, fragTable doc, if docDynamic doc then some vars else none⟩
    let rp := rootPlan e root ss
    let st := execW e rp.fields [] world {}
    ⟨⟨rp.collect + logCollect st.log, st.log.length⟩, st.log, rp.oof || st.oof⟩

def execPlanCost (s : Schema) (doc : Document) (opName : String) (vars : Vars) (world : World) : Counts :=
  (execPlan s doc opName vars world).counts

/-! ## syntactic size of a document: selection sets written in it -/

mutual
/-- all selection sets below a selection, also through fields -/
def setsSel : Selection → Nat
  | .field _ _ _ _ none _ => 0
  | .field _ _ _ _ (some ss) _ => setsSet ss
  | .spread _ _ _ => 0
  | .inline _ _ ss _ => setsSet ss
def setsSet : SelectionSet → Nat
  | .mk sels _ => 1 + setsSels sels
def setsSels : List Selection → Nat
  | [] => 0
  | s :: rest => setsSel s + setsSels rest
end

def opSets (defs : List Definition) : Nat :=
  (defs.map (fun | .operation _ _ _ _ ss _ => setsSet ss | _ => 0)).sum
def fragSets (defs : List Definition) : Nat :=
  (defs.map (fun | .fragment _ _ _ ss _ => setsSet ss | _ => 0)).sum
/-- number of selection sets (`{ … }`) written in the executable definitions of a document -/
def docSets (doc : Document) : Nat := opSets doc.defs + fragSets doc.defs


end GqlModel.Cost
