import GqlModel.Token
import GqlModel.Utf8
/-! # C03 (lexer half) — M: bug-faithful model of /repo/language/lexer/lexer.go

Function for function after the Go code.  The Go functions index `body []byte` by a byte `position`; the model
carries the suffix `rest = body[position:]` next to the counters, so `position < len(body)` reads `rest ≠ []`
and `runeAt(body, position+k)` reads `runeAt (rest.drop k)`.  The two cursors of the Go code are kept exactly:
`position` counts bytes, `runePosition` counts runes *from the byte offset the scan started at* (the Go code
initialises it with a byte offset, lexer.go:221, 318, 603) — the mixture is what D-03a is made of.

Loops whose step is `position += n` (n = width of the decoded rune) recurse on an explicit fuel argument;
`readToken` supplies `len(body) + 1`, and `Props/C03Lexer.lean` proves that this never runs out
(`ErrKind.fuel` is unreachable).  `readName`'s loop steps by exactly one byte and is structural.

Values are byte strings: `readString` copies raw chunks of the source (possibly invalid UTF-8) and appends
`WriteRune` of escapes; the model appends the same bytes rune by rune instead of chunk by chunk.

Deviation of the pinned code that M reproduces (see notes/agents/C03-lexer.md):
* D-03a  `readName` returns rune offsets, the next scan resumes at `Token.End` as a byte offset.
(Three block-string defects found while building this model were repaired in /repo — 79fe139, cc30f5c — and M
follows the repaired code. "Lexing does not modify `Source.Body`" is checked on the real code by the harness.) -/
namespace GqlModel.Lexer
open GqlModel GqlModel.Utf8

abbrev Bytes := List UInt8

/-- which `NewSyntaxError` call site fired (the description text is not modelled) -/
inductive ErrKind
  | invalidChar          -- readToken: "Invalid character %v"                         lexer.go:495
  | unexpectedChar       -- readToken: "Unexpected character %v."                     lexer.go:577
  | digitAfterZero       -- readNumber: "Invalid number, unexpected digit after 0"    lexer.go:153
  | expectedDigit        -- readDigits: "Invalid number, expected digit but got"      lexer.go:215
  | invalidCharInString  -- readString / readBlockString: "Invalid character within String"  lexer.go:236, 347
  | badEscape            -- readString: "Invalid character escape sequence: \\%c."    lexer.go:291
  | badUnicodeEscape     -- readString: "Invalid character escape sequence: \u…"      lexer.go:271, 282
  | unterminated         -- readString / readBlockString: "Unterminated string."      lexer.go:304, 369
  | fuel                 -- not a Go error: a fuel-bounded loop of the model ran out (proved unreachable)
deriving DecidableEq, Repr, Inhabited

structure LexErr where
  pos : Nat
  kind : ErrKind
deriving DecidableEq, Repr, Inhabited

/-- `lexer.Token` with the value as raw bytes -/
structure LTok where
  kind : TokenKind
  start : Nat
  stop : Nat
  value : Bytes
deriving DecidableEq, Repr, Inhabited

def makeToken (kind : TokenKind) (start stop : Nat) (value : Bytes) : LTok := ⟨kind, start, stop, value⟩

/-- `runeAt(body, position)` with `rest = body[position:]`; at end of input Go returns `(-1, utf8.RuneError)`,
i.e. the *width* 65533 (never used: every use of the width is guarded). lexer.go:581-594 -/
def runeAt (rest : Bytes) : Int × Nat :=
  match rest with
  | [] => (-1, 65533)
  | c :: _ =>
    if c.toNat < 128 then ((c.toNat : Int), 1)
    else ((decodeRune rest).1, (decodeRune rest).2)

/-! ## positionAfterWhitespace  (lexer.go:600-645) -/

/-- the inner comment loop, lexer.go:623-635 -/
def skipComment : Nat → Bytes → Nat → Nat → Bytes × Nat × Nat
  | 0, rest, p, rp => (rest, p, rp)
  | f+1, rest, p, rp =>
    let code := (runeAt rest).1
    let n := (runeAt rest).2
    if rest ≠ [] ∧ code ≠ 0 ∧ (code > 0x1F ∨ code = 9) ∧ code ≠ 10 ∧ code ≠ 13 then
      skipComment f (rest.drop n) (p + n) (rp + 1)
    else (rest, p, rp)

def isIgnoredCode (code : Int) : Prop :=
  code = 0xFEFF ∨ code = 9 ∨ code = 0x20 ∨ code = 10 ∨ code = 13 ∨ code = 0x2C

instance (code : Int) : Decidable (isIgnoredCode code) := by unfold isIgnoredCode; infer_instance

def positionAfterWhitespace : Nat → Bytes → Nat → Nat → Bytes × Nat × Nat
  | 0, rest, p, rp => (rest, p, rp)
  | f+1, rest, p, rp =>
    if rest ≠ [] then
      let code := (runeAt rest).1
      let n := (runeAt rest).2
      if isIgnoredCode code then positionAfterWhitespace f (rest.drop n) (p + n) (rp + 1)
      else if code = 35 then
        let r := skipComment f (rest.drop n) (p + n) (rp + 1)
        positionAfterWhitespace f r.1 r.2.1 r.2.2
      else (rest, p, rp)
    else (rest, p, rp)

/-! ## readName  (lexer.go:113-133) -/

def isNameCont (code : Int) : Prop :=
  code = 95 ∨ (48 ≤ code ∧ code ≤ 57) ∨ (65 ≤ code ∧ code ≤ 90) ∨ (97 ≤ code ∧ code ≤ 122)

instance (code : Int) : Decidable (isNameCont code) := by unfold isNameCont; infer_instance

/-- the loop: `rest = body[endByte:]`; `endByte != bodyLength` is `rest ≠ []`; one BYTE and one rune per step -/
def readNameLoop : Bytes → Nat → Nat → Nat × Nat
  | [], endByte, endRune => (endByte, endRune)
  | c :: r, endByte, endRune =>
    if isNameCont (runeAt (c :: r)).1 then readNameLoop r (endByte + 1) (endRune + 1)
    else (endByte, endRune)

/-- `rest = body[position:]`. Start/End are RUNE positions, the value is cut at BYTE positions. -/
def readName (rest : Bytes) (position runePosition : Nat) : LTok :=
  let e := readNameLoop (rest.drop 1) (position + 1) (runePosition + 1)
  makeToken .name runePosition e.2 (rest.take (e.1 - position))

/-! ## readDigits / readNumber  (lexer.go:139-216) -/

def isDigitCode (code : Int) : Prop := 48 ≤ code ∧ code ≤ 57
instance (code : Int) : Decidable (isDigitCode code) := by unfold isDigitCode; infer_instance

/-- scanner state: remaining input, byte position, current rune and its width -/
structure NumSt where
  rest : Bytes
  pos : Nat
  code : Int
  width : Nat
deriving DecidableEq, Repr

/-- `position += codeLength; code, codeLength = runeAt(body, position)` -/
def NumSt.advance (s : NumSt) : NumSt :=
  let r := s.rest.drop s.width
  ⟨r, s.pos + s.width, (runeAt r).1, (runeAt r).2⟩

def readDigitsLoop : Nat → NumSt → NumSt
  | 0, s => s
  | f+1, s => if isDigitCode s.code then readDigitsLoop f s.advance else s

/-- returns the state at the new position with the rune there re-read (the callers do that themselves) -/
def readDigits (fuel : Nat) (s : NumSt) : Except LexErr NumSt :=
  if isDigitCode s.code then .ok (readDigitsLoop fuel s)
  else .error ⟨s.pos, .expectedDigit⟩

def numSign (s : NumSt) : NumSt := if s.code = 45 then s.advance else s

def numInt (fuel : Nat) (s : NumSt) : Except LexErr NumSt :=
  if s.code = 48 then
    let s' := s.advance
    if isDigitCode s'.code then .error ⟨s'.pos, .digitAfterZero⟩ else .ok s'
  else readDigits fuel s

/-- fraction part; the Bool says whether one was read -/
def numFrac (fuel : Nat) (s : NumSt) : Except LexErr (NumSt × Bool) :=
  if s.code = 46 then
    match readDigits fuel s.advance with
    | .ok s' => .ok (s', true)
    | .error e => .error e
  else .ok (s, false)

def numExp (fuel : Nat) (s : NumSt) : Except LexErr (NumSt × Bool) :=
  if s.code = 69 ∨ s.code = 101 then
    let s1 := s.advance
    let s2 := if s1.code = 43 ∨ s1.code = 45 then s1.advance else s1
    match readDigits fuel s2 with
    | .ok s' => .ok (s', true)
    | .error e => .error e
  else .ok (s, false)

/-- `rest = body[start:]` -/
def readNumber (fuel : Nat) (rest : Bytes) (start : Nat) (firstCode : Int) (codeLength : Nat) : Except LexErr LTok :=
  match numInt fuel (numSign ⟨rest, start, firstCode, codeLength⟩) with
  | .error e => .error e
  | .ok s1 =>
    match numFrac fuel s1 with
    | .error e => .error e
    | .ok (s2, isF1) =>
      match numExp fuel s2 with
      | .error e => .error e
      | .ok (s3, isF2) =>
        .ok (makeToken (if isF1 || isF2 then .float else .int) start s3.pos (rest.take (s3.pos - start)))

/-! ## readString  (lexer.go:218-310) -/

/-- `char2hex`, `none` for -1 -/
def char2hex (a : UInt8) : Option Nat :=
  let n := a.toNat
  if 48 ≤ n ∧ n ≤ 57 then some (n - 48)
  else if 65 ≤ n ∧ n ≤ 70 then some (n - 55)
  else if 97 ≤ n ∧ n ≤ 102 then some (n - 87)
  else none

/-- `uniCharCode`; `none` when the Go result is negative (some digit invalid) -/
def uniCharCode (a b c d : UInt8) : Option Nat :=
  match char2hex a, char2hex b, char2hex c, char2hex d with
  | some x, some y, some z, some w => some (x * 4096 + y * 256 + z * 16 + w)
  | _, _, _, _ => none

/-- the one-character escapes of the `switch`, lexer.go:243-267 -/
def simpleEscape (code : Int) : Option UInt8 :=
  if code = 34 then some 34
  else if code = 47 then some 47
  else if code = 92 then some 92
  else if code = 98 then some 8
  else if code = 102 then some 12
  else if code = 110 then some 10
  else if code = 114 then some 13
  else if code = 116 then some 9
  else none

/-- prepend bytes to the value of a successful scan -/
def pre (bs : Bytes) : Except LexErr (Nat × Bytes) → Except LexErr (Nat × Bytes)
  | .ok (e, v) => .ok (e, bs ++ v)
  | .error e => .error e

/-- the loop; result: position just after the closing quote and the decoded value -/
def readStringLoop : Nat → Bytes → Nat → Nat → Except LexErr (Nat × Bytes)
  | 0, _, _, rp => .error ⟨rp, .fuel⟩
  | f+1, rest, p, rp =>
    let code := (runeAt rest).1
    let n := (runeAt rest).2
    if rest ≠ [] ∧ code ≠ 10 ∧ code ≠ 13 ∧ code ≠ 34 then
      if code < 0x20 ∧ code ≠ 9 then .error ⟨rp, .invalidCharInString⟩
      else
        let rest1 := rest.drop n
        let p1 := p + n
        let rp1 := rp + 1
        if code = 92 then
          let code2 := (runeAt rest1).1
          let n2 := (runeAt rest1).2
          match simpleEscape code2 with
          | some b => pre [b] (readStringLoop f (rest1.drop n2) (p1 + n2) (rp1 + 1))
          | none =>
            if code2 = 117 then
              match rest1 with
              | _ :: a :: b :: c :: d :: rest2 =>
                match uniCharCode a b c d with
                | some cp => pre (encodeRune cp) (readStringLoop f rest2 (p1 + 4 + n2) (rp1 + 4 + 1))
                | none => .error ⟨rp1, .badUnicodeEscape⟩
              | _ => .error ⟨rp1, .badUnicodeEscape⟩
            else .error ⟨rp1, .badEscape⟩
        else pre (rest.take n) (readStringLoop f rest1 p1 rp1)
    else if code ≠ 34 then .error ⟨rp, .unterminated⟩
    else .ok (p + 1, [])

/-- `rest = body[start:]` (starts with the opening quote) -/
def readString (fuel : Nat) (rest : Bytes) (start : Nat) : Except LexErr LTok :=
  match readStringLoop fuel (rest.drop 1) (start + 1) (start + 1) with
  | .ok (e, v) => .ok (makeToken .string start e v)
  | .error e => .error e

/-! ## blockStringValue  (lexer.go:372-438) -/

/-- `regexp.MustCompile("\r\n|[\n\r]").Split(in, -1)` (leftmost-first: CRLF is one separator).
The flag says "the previous byte was a CR" (an LF directly after it belongs to the same separator). -/
def splitLinesAux : Bool → Bytes → List Bytes
  | _, [] => [[]]
  | afterCR, c :: r =>
    if c = 10 then (if afterCR then splitLinesAux false r else [] :: splitLinesAux false r)
    else if c = 13 then [] :: splitLinesAux true r
    else
      match splitLinesAux false r with
      | l :: ls => (c :: l) :: ls
      | [] => [[c]]

def splitLines (bs : Bytes) : List Bytes := splitLinesAux false bs

def leadingWhitespaceLen : Bytes → Nat
  | [] => 0
  | c :: r => if c = 32 ∨ c = 9 then leadingWhitespaceLen r + 1 else 0

def lineIsBlank (l : Bytes) : Bool := leadingWhitespaceLen l == l.length

/-- the `commonIndent` loop over `lines[1:]`; `none` is -1 -/
def commonIndentLoop : List Bytes → Option Nat → Option Nat
  | [], ci => ci
  | line :: ls, ci =>
    let indent := leadingWhitespaceLen line
    if indent < line.length ∧ (ci = none ∨ indent < ci.getD 0) then
      if indent = 0 then some 0 else commonIndentLoop ls (some indent)
    else commonIndentLoop ls ci

/-- lexer.go:397-406: every line but the first; a line shorter than the indent becomes empty -/
def removeIndentGo (ci : Nat) (lines : List Bytes) : List Bytes :=
  match lines with
  | [] => []
  | first :: others => first :: others.map (fun line => if ci > line.length then [] else line.drop ci)

def dropLeadingBlank : List Bytes → List Bytes
  | [] => []
  | l :: ls => if lineIsBlank l then dropLeadingBlank ls else l :: ls

def dropTrailingBlank (ls : List Bytes) : List Bytes := (dropLeadingBlank ls.reverse).reverse

def joinLF : List Bytes → Bytes
  | [] => []
  | [l] => l
  | l :: ls => l ++ 10 :: joinLF ls

def blockStringValue (raw : Bytes) : Bytes :=
  let lines := splitLines raw
  let ci := (commonIndentLoop (lines.drop 1) none).getD 0
  let lines := if ci > 0 then removeIndentGo ci lines else lines
  joinLF (dropTrailingBlank (dropLeadingBlank lines))

/-! ## readBlockString  (lexer.go:315-370) -/

/-- result: position after the closing `"""` and the raw value (before `blockStringValue`) -/
def readBlockLoop : Nat → Bytes → Nat → Nat → Except LexErr (Nat × Bytes)
  | 0, _, _, rp => .error ⟨rp, .fuel⟩
  | f+1, rest, p, rp =>
    if rest = [] then .error ⟨rp, .unterminated⟩
    else
      let code := (runeAt rest).1
      let n := (runeAt rest).2
      let x := (runeAt (rest.drop 1)).1
      let y := (runeAt (rest.drop 2)).1
      let z := (runeAt (rest.drop 3)).1
      if code = 34 ∧ x = 34 ∧ y = 34 then .ok (p + 3, [])
      else if code < 0x20 ∧ code ≠ 9 ∧ code ≠ 10 ∧ code ≠ 13 then .error ⟨rp, .invalidCharInString⟩
      else if code = 92 ∧ x = 34 ∧ y = 34 ∧ z = 34 then
        pre [34, 34, 34] (readBlockLoop f (rest.drop 4) (p + 4) (rp + 4))
      else pre (rest.take n) (readBlockLoop f (rest.drop n) (p + n) (rp + 1))

def readBlockString (fuel : Nat) (rest : Bytes) (start : Nat) : Except LexErr LTok :=
  match readBlockLoop fuel (rest.drop 3) (start + 3) (start + 3) with
  | .ok (e, raw) => .ok (makeToken .blockString start e (blockStringValue raw))
  | .error e => .error e

/-! ## readToken  (lexer.go:484-578) -/

def punctuator (code : Int) : Option TokenKind :=
  if code = 33 then some .bang
  else if code = 36 then some .dollar
  else if code = 38 then some .amp
  else if code = 40 then some .parenL
  else if code = 41 then some .parenR
  else if code = 58 then some .colon
  else if code = 61 then some .equals
  else if code = 64 then some .at
  else if code = 91 then some .bracketL
  else if code = 93 then some .bracketR
  else if code = 123 then some .braceL
  else if code = 124 then some .pipe
  else if code = 125 then some .braceR
  else none

def isNameStart (code : Int) : Prop := code = 95 ∨ (65 ≤ code ∧ code ≤ 90) ∨ (97 ≤ code ∧ code ≤ 122)
instance (code : Int) : Decidable (isNameStart code) := by unfold isNameStart; infer_instance

/-- the token at `rest = body[position:]` after Ignored has been skipped (`rest ≠ []`) -/
def readTokenAt (fuel : Nat) (rest : Bytes) (position runePosition : Nat) : Except LexErr LTok :=
  let code := (runeAt rest).1
  let codeLength := (runeAt rest).2
  if code < 0x20 ∧ code ≠ 9 ∧ code ≠ 10 ∧ code ≠ 13 then .error ⟨runePosition, .invalidChar⟩
  else
    match punctuator code with
    | some k => .ok (makeToken k position (position + 1) [])
    | none =>
      if code = 46 then
        if (runeAt (rest.drop 1)).1 = 46 ∧ (runeAt (rest.drop 2)).1 = 46 then
          .ok (makeToken .spread position (position + 3) [])
        else .error ⟨runePosition, .unexpectedChar⟩
      else if isNameStart code then .ok (readName rest position runePosition)
      else if code = 45 ∨ isDigitCode code then readNumber fuel rest position code codeLength
      else if code = 34 then
        if (runeAt (rest.drop 1)).1 = 34 ∧ (runeAt (rest.drop 2)).1 = 34 then readBlockString fuel rest position
        else readString fuel rest position
      else .error ⟨runePosition, .unexpectedChar⟩

/-- `readToken(s, fromPosition)` with explicit fuel -/
def readTokenF (fuel : Nat) (body : Bytes) (fromPosition : Nat) : Except LexErr LTok :=
  let w := positionAfterWhitespace fuel (body.drop fromPosition) fromPosition fromPosition
  if w.1 = [] then .ok (makeToken .eof w.2.1 w.2.1 [])
  else readTokenAt fuel w.1 w.2.1 w.2.2

def readToken (body : Bytes) (fromPosition : Nat) : Except LexErr LTok :=
  readTokenF (body.length + 1) body fromPosition

/-! ## The `Lex` closure iterated as the parser does (lexer.go:94-107, parser.go:1493-1506)

`prevPosition = token.End`, and every call reads from there: the next scan starts at the previous token's
`End` **as a byte offset** although NAME tokens carry rune offsets. -/

structure LexResult where
  tokens : List LTok
  err : Option LexErr
deriving DecidableEq, Repr

def lexLoop : Nat → Bytes → Nat → LexResult
  | 0, _, p => ⟨[], some ⟨p, .fuel⟩⟩
  | f+1, body, p =>
    match readToken body p with
    | .error e => ⟨[], some e⟩
    | .ok t =>
      if t.kind = .eof then ⟨[t], none⟩
      else
        let r := lexLoop f body t.stop
        ⟨t :: r.tokens, r.err⟩

/-- all tokens up to and including EOF, or the tokens before the first error and that error -/
def lexAll (body : Bytes) : LexResult := lexLoop (body.length + 1) body 0

/-! ## Conversion to the shared `Token` (value as a Lean `String`; invalid UTF-8 is replaced, as Go's
`range` over a string would, by U+FFFD — the byte-exact value stays in `LTok`). -/

def bytesToStringAux : Nat → Bytes → List Char
  | 0, _ => []
  | _, [] => []
  | f+1, c :: r =>
    let d := decodeRune (c :: r)
    Char.ofNat d.1 :: bytesToStringAux f ((c :: r).drop d.2)

def bytesToString (bs : Bytes) : String := String.ofList (bytesToStringAux bs.length bs)

def LTok.toToken (t : LTok) : Token := ⟨t.kind, t.start, t.stop, bytesToString t.value⟩

end GqlModel.Lexer
