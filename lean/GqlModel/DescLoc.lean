import GqlModel.Ast
import GqlModel.Token
/-! # `Description.Loc` — the location of the description child of a described node

The shared AST (`GqlModel/Ast.lean`) keeps a description as its VALUE only (`description : Option String`); the Go AST
has a `*ast.StringValue` there, with a `Loc` of its own.  `parser.go` builds that node in `parseStringLiteral` from the
token the described node STARTS with (`token := parser.Token; advance; Loc: loc(parser, token.Start)`), so in every AST
the grammar defines the description's location is the extent of the node's first token:

    Description.Loc = [t.start, t.stop)   where `t` is the token that starts at `node.loc.start`

(`Props/C03Parser.lean`: `*_description_loc` — for every describable production, the token at the node's start IS the
description, a STRING / BLOCK_STRING token carrying its value, and its extent lies inside the node's location).  This
file computes these locations from a token list and an AST, in document order; the C03 driver does so for M's AST and the
harness compares them with the `Description.Loc`s of the real AST (collected by a walk over the Go AST in the same order). -/
namespace GqlModel

/-- the extent of the token that starts at offset `s` (`none`: no token starts there) -/
def tokenExtentAt (toks : List Token) (s : Nat) : Option Loc :=
  (toks.find? (fun t => t.start = s)).map (fun t => ⟨t.start, t.stop⟩)

/-- `Description.Loc` of a node located at `l`, if it has a description -/
def descLoc (toks : List Token) (desc : Option String) (l : Loc) : List (Option Loc) :=
  match desc with
  | none => []
  | some _ => [tokenExtentAt toks l.start]

def InputValueDef.descLocs (toks : List Token) (d : InputValueDef) : List (Option Loc) :=
  descLoc toks d.description d.loc

def FieldDef.descLocs (toks : List Token) (d : FieldDef) : List (Option Loc) :=
  descLoc toks d.description d.loc ++ d.args.flatMap (·.descLocs toks)

def EnumValueDef.descLocs (toks : List Token) (d : EnumValueDef) : List (Option Loc) :=
  descLoc toks d.description d.loc

def ObjectDef.descLocs (toks : List Token) (d : ObjectDef) : List (Option Loc) :=
  descLoc toks d.description d.loc ++ d.fields.flatMap (·.descLocs toks)

/-- the `Description.Loc`s below a definition, in document order (node first, then its children) -/
def Definition.descLocs (toks : List Token) : Definition → List (Option Loc)
  | .operation .. => []
  | .fragment .. => []
  | .schema .. => []
  | .scalar desc _ _ l => descLoc toks desc l
  | .object d => d.descLocs toks
  | .interface desc _ _ fields l => descLoc toks desc l ++ fields.flatMap (·.descLocs toks)
  | .union desc _ _ _ l => descLoc toks desc l
  | .enum desc _ _ values l => descLoc toks desc l ++ values.flatMap (·.descLocs toks)
  | .inputObject desc _ _ fields l => descLoc toks desc l ++ fields.flatMap (·.descLocs toks)
  | .extend d _ => d.descLocs toks
  | .directive desc _ args _ l => descLoc toks desc l ++ args.flatMap (·.descLocs toks)

/-- the description a definition carries ITSELF (`extend`'s belongs to the object definition inside it) -/
def Definition.ownDescription : Definition → Option String
  | .scalar d .. | .interface d .. | .union d .. | .enum d .. | .inputObject d .. | .directive d .. => d
  | .object o => o.description
  | _ => none

end GqlModel
