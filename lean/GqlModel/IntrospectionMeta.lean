import GqlModel.Schema
/-! # Built-in introspection types, built-in scalar descriptions and specified directives

Data only, copied from `/repo/introspection.go:58-676` (`__Schema`, `__Type`, `__TypeKind`, `__Field`, `__InputValue`,
`__EnumValue`, `__Directive`, `__DirectiveLocation`), `/repo/scalars.go` (descriptions of Int, Float, String, Boolean, ID)
and `/repo/directives.go` (`SpecifiedDirectives` = include, skip, deprecated, in this order).  The text was emitted by a
Go program walking the library's own type objects; it is compared with the real introspection result on every run of
the C10 harness (the meta types are part of `__schema.types` of every schema). -/
namespace GqlModel.Introspection

def metaTypes : List TypeDef := [
  .object "__Schema" [] [
    { name := "directives", type := (.nonNull (.list (.nonNull (.named "__Directive")))), args := [], description := "A list of all directives supported by this server.", deprecation := "" },
    { name := "mutationType", type := (.named "__Type"), args := [], description := "If this server supports mutation, the type that mutation operations will be rooted at.", deprecation := "" },
    { name := "queryType", type := (.nonNull (.named "__Type")), args := [], description := "The type that query operations will be rooted at.", deprecation := "" },
    { name := "subscriptionType", type := (.named "__Type"), args := [], description := "If this server support subscription, the type that subscription operations will be rooted at.", deprecation := "" },
    { name := "types", type := (.nonNull (.list (.nonNull (.named "__Type")))), args := [], description := "A list of all types supported by this server.", deprecation := "" }] false
    "A GraphQL Schema defines the capabilities of a GraphQL server. It exposes all available types and directives on the server, as well as the entry points for query, mutation, and subscription operations.",
  .object "__Type" [] [
    { name := "description", type := (.named "String"), args := [], description := "", deprecation := "" },
    { name := "enumValues", type := (.list (.nonNull (.named "__EnumValue"))), args := [{ name := "includeDeprecated", type := (.named "Boolean"), default := (some (.bool false)), description := "" }], description := "", deprecation := "" },
    { name := "fields", type := (.list (.nonNull (.named "__Field"))), args := [{ name := "includeDeprecated", type := (.named "Boolean"), default := (some (.bool false)), description := "" }], description := "", deprecation := "" },
    { name := "inputFields", type := (.list (.nonNull (.named "__InputValue"))), args := [], description := "", deprecation := "" },
    { name := "interfaces", type := (.list (.nonNull (.named "__Type"))), args := [], description := "", deprecation := "" },
    { name := "kind", type := (.nonNull (.named "__TypeKind")), args := [], description := "", deprecation := "" },
    { name := "name", type := (.named "String"), args := [], description := "", deprecation := "" },
    { name := "ofType", type := (.named "__Type"), args := [], description := "", deprecation := "" },
    { name := "possibleTypes", type := (.list (.nonNull (.named "__Type"))), args := [], description := "", deprecation := "" }] false
    "The fundamental unit of any GraphQL Schema is the type. There are many kinds of types in GraphQL as represented by the `__TypeKind` enum.\n\nDepending on the kind of a type, certain fields describe information about that type. Scalar types provide no information beyond a name and description, while Enum types provide their values. Object and Interface types provide the fields they describe. Abstract types, Union and Interface, provide the Object types possible at runtime. List and NonNull types compose other types.",
  .enum "__TypeKind" [
    { name := "ENUM", internal := .str "ENUM", description := "Indicates this type is an enum. `enumValues` is a valid field.", deprecation := "" },
    { name := "INPUT_OBJECT", internal := .str "INPUT_OBJECT", description := "Indicates this type is an input object. `inputFields` is a valid field.", deprecation := "" },
    { name := "INTERFACE", internal := .str "INTERFACE", description := "Indicates this type is an interface. `fields` and `possibleTypes` are valid fields.", deprecation := "" },
    { name := "LIST", internal := .str "LIST", description := "Indicates this type is a list. `ofType` is a valid field.", deprecation := "" },
    { name := "NON_NULL", internal := .str "NON_NULL", description := "Indicates this type is a non-null. `ofType` is a valid field.", deprecation := "" },
    { name := "OBJECT", internal := .str "OBJECT", description := "Indicates this type is an object. `fields` and `interfaces` are valid fields.", deprecation := "" },
    { name := "SCALAR", internal := .str "SCALAR", description := "Indicates this type is a scalar.", deprecation := "" },
    { name := "UNION", internal := .str "UNION", description := "Indicates this type is a union. `possibleTypes` is a valid field.", deprecation := "" }]
    "An enum describing what kind of type a given `__Type` is.",
  .object "__Field" [] [
    { name := "args", type := (.nonNull (.list (.nonNull (.named "__InputValue")))), args := [], description := "", deprecation := "" },
    { name := "deprecationReason", type := (.named "String"), args := [], description := "", deprecation := "" },
    { name := "description", type := (.named "String"), args := [], description := "", deprecation := "" },
    { name := "isDeprecated", type := (.nonNull (.named "Boolean")), args := [], description := "", deprecation := "" },
    { name := "name", type := (.nonNull (.named "String")), args := [], description := "", deprecation := "" },
    { name := "type", type := (.nonNull (.named "__Type")), args := [], description := "", deprecation := "" }] false
    "Object and Interface types are described by a list of Fields, each of which has a name, potentially a list of arguments, and a return type.",
  .object "__InputValue" [] [
    { name := "defaultValue", type := (.named "String"), args := [], description := "A GraphQL-formatted string representing the default value for this input value.", deprecation := "" },
    { name := "description", type := (.named "String"), args := [], description := "", deprecation := "" },
    { name := "name", type := (.nonNull (.named "String")), args := [], description := "", deprecation := "" },
    { name := "type", type := (.nonNull (.named "__Type")), args := [], description := "", deprecation := "" }] false
    "Arguments provided to Fields or Directives and the input fields of an InputObject are represented as Input Values which describe their type and optionally a default value.",
  .object "__EnumValue" [] [
    { name := "deprecationReason", type := (.named "String"), args := [], description := "", deprecation := "" },
    { name := "description", type := (.named "String"), args := [], description := "", deprecation := "" },
    { name := "isDeprecated", type := (.nonNull (.named "Boolean")), args := [], description := "", deprecation := "" },
    { name := "name", type := (.nonNull (.named "String")), args := [], description := "", deprecation := "" }] false
    "One possible value for a given Enum. Enum values are unique values, not a placeholder for a string or numeric value. However an Enum value is returned in a JSON response as a string.",
  .object "__Directive" [] [
    { name := "args", type := (.nonNull (.list (.nonNull (.named "__InputValue")))), args := [], description := "", deprecation := "" },
    { name := "description", type := (.named "String"), args := [], description := "", deprecation := "" },
    { name := "locations", type := (.nonNull (.list (.nonNull (.named "__DirectiveLocation")))), args := [], description := "", deprecation := "" },
    { name := "name", type := (.nonNull (.named "String")), args := [], description := "", deprecation := "" },
    { name := "onField", type := (.nonNull (.named "Boolean")), args := [], description := "", deprecation := "Use `locations`." },
    { name := "onFragment", type := (.nonNull (.named "Boolean")), args := [], description := "", deprecation := "Use `locations`." },
    { name := "onOperation", type := (.nonNull (.named "Boolean")), args := [], description := "", deprecation := "Use `locations`." }] false
    "A Directive provides a way to describe alternate runtime execution and type validation behavior in a GraphQL document.\n\nIn some cases, you need to provide options to alter GraphQL's execution behavior in ways field arguments will not suffice, such as conditionally including or skipping a field. Directives provide this by describing additional information to the executor.",
  .enum "__DirectiveLocation" [
    { name := "ARGUMENT_DEFINITION", internal := .str "ARGUMENT_DEFINITION", description := "Location adjacent to an argument definition.", deprecation := "" },
    { name := "ENUM", internal := .str "ENUM", description := "Location adjacent to an enum definition.", deprecation := "" },
    { name := "ENUM_VALUE", internal := .str "ENUM_VALUE", description := "Location adjacent to an enum value definition.", deprecation := "" },
    { name := "FIELD", internal := .str "FIELD", description := "Location adjacent to a field.", deprecation := "" },
    { name := "FIELD_DEFINITION", internal := .str "FIELD_DEFINITION", description := "Location adjacent to a field definition.", deprecation := "" },
    { name := "FRAGMENT_DEFINITION", internal := .str "FRAGMENT_DEFINITION", description := "Location adjacent to a fragment definition.", deprecation := "" },
    { name := "FRAGMENT_SPREAD", internal := .str "FRAGMENT_SPREAD", description := "Location adjacent to a fragment spread.", deprecation := "" },
    { name := "INLINE_FRAGMENT", internal := .str "INLINE_FRAGMENT", description := "Location adjacent to an inline fragment.", deprecation := "" },
    { name := "INPUT_FIELD_DEFINITION", internal := .str "INPUT_FIELD_DEFINITION", description := "Location adjacent to an input object field definition.", deprecation := "" },
    { name := "INPUT_OBJECT", internal := .str "INPUT_OBJECT", description := "Location adjacent to an input object type definition.", deprecation := "" },
    { name := "INTERFACE", internal := .str "INTERFACE", description := "Location adjacent to an interface definition.", deprecation := "" },
    { name := "MUTATION", internal := .str "MUTATION", description := "Location adjacent to a mutation operation.", deprecation := "" },
    { name := "OBJECT", internal := .str "OBJECT", description := "Location adjacent to an object type definition.", deprecation := "" },
    { name := "QUERY", internal := .str "QUERY", description := "Location adjacent to a query operation.", deprecation := "" },
    { name := "SCALAR", internal := .str "SCALAR", description := "Location adjacent to a scalar definition.", deprecation := "" },
    { name := "SCHEMA", internal := .str "SCHEMA", description := "Location adjacent to a schema definition.", deprecation := "" },
    { name := "SUBSCRIPTION", internal := .str "SUBSCRIPTION", description := "Location adjacent to a subscription operation.", deprecation := "" },
    { name := "UNION", internal := .str "UNION", description := "Location adjacent to a union definition.", deprecation := "" }]
    "A Directive can be adjacent to many parts of the GraphQL language, a __DirectiveLocation describes one such possible adjacencies."
]

/-- descriptions of the five built-in scalars (`scalars.go`) -/
def builtinScalarDescription : String → String
  | "Int" => "The `Int` scalar type represents non-fractional signed whole numeric values. Int can represent values between -(2^31) and 2^31 - 1. "
  | "Float" => "The `Float` scalar type represents signed double-precision fractional values as specified by [IEEE 754](http://en.wikipedia.org/wiki/IEEE_floating_point). "
  | "String" => "The `String` scalar type represents textual data, represented as UTF-8 character sequences. The String type is most often used by GraphQL to represent free-form human-readable text."
  | "Boolean" => "The `Boolean` scalar type represents `true` or `false`."
  | "ID" => "The `ID` scalar type represents a unique identifier, often used to refetch an object or as key for a cache. The ID type appears in a JSON response as a String; however, it is not intended to be human-readable. When expected as an input type, any string (such as `\"4\"`) or integer (such as `4`) input value will be accepted as an ID."
  | _ => ""

/-- `graphql.SpecifiedDirectives` (used when `SchemaConfig.Directives` is empty) -/
def specifiedDirectives : List DirectiveDefS := [
  { name := "include", locations := ["FIELD", "FRAGMENT_SPREAD", "INLINE_FRAGMENT"], args := [{ name := "if", type := (.nonNull (.named "Boolean")), default := none, description := "Included when true." }], description := "Directs the executor to include this field or fragment only when the `if` argument is true." },
  { name := "skip", locations := ["FIELD", "FRAGMENT_SPREAD", "INLINE_FRAGMENT"], args := [{ name := "if", type := (.nonNull (.named "Boolean")), default := none, description := "Skipped when true." }], description := "Directs the executor to skip this field or fragment when the `if` argument is true." },
  { name := "deprecated", locations := ["FIELD_DEFINITION", "ENUM_VALUE"], args := [{ name := "reason", type := (.named "String"), default := (some (.str "No longer supported")), description := "Explains why this element was deprecated, usually also including a suggestion for how to access supported similar data. Formattedin [Markdown](https://daringfireball.net/projects/markdown/)." }], description := "Marks an element of a GraphQL schema as no longer supported." }
]

end GqlModel.Introspection
