import GqlModel.Ast
import GqlModel.Schema
import GqlModel.Coerce
/-! # Execution: the GraphQL execution algorithm as an executable specification (C01, C04, C13, C20)

`execute` is the spec's ExecuteRequest as this library realises it:

* operation selection (`PlanQuery`: by name, the only one, errors otherwise), root type,
  variable coercion through `Coerce.getVariableValues` (an error ⇒ no data, no resolver runs);
* `collect` = CollectFields per runtime object type: response keys in order of first included occurrence,
  `@skip`/`@include` evaluated at EVERY occurrence under the request's variables, named fragments
  expanded once per selection set (visited set), type conditions matched against the runtime type;
* fields of a selection set run in that order; arguments through `Coerce.getArgumentValues`;
* `completeValue` by type structure: thunks forced, non-null, nullish ⇒ null, list items one by one,
  leaves serialised (legal value or null), abstract values dispatched on their runtime type (which must be
  a possible type), objects guarded by `isTypeOf`; the merged sub-selection is collected over ALL
  occurrences of the field with one shared visited set;
* a failure nulls the nearest nullable ancestor (`none` = "propagating"), recording ONE error carrying the
  path of the position that failed; errors recorded earlier are kept; after a failure the remaining
  fields / items of the enclosing non-null chain are not executed.

Resolvers are an arbitrary *world*: a function from (source value, parent type, field name) to an outcome.
Every invocation is logged (`LogEntry`) — the observable for C13/C20.

Recursion is on one `fuel` argument (every call decrements it); `Res.fuelOut` is a distinguished result that
the theorems exclude and the driver reports as a check error — it never masquerades as a response. -/
namespace GqlModel.Exec
open GqlModel.Coerce

/-! ## Resolver values and worlds -/

mutual
/-- what a resolver can hand back (the Go kinds the executor distinguishes) -/
inductive GoVal where
  | nil                      -- untyped nil
  | typedNil                 -- a nil pointer inside the interface
  | bool (b : Bool)
  | int (i : Int)
  | float (m : Int) (e : Nat)  -- m·10^-e with a fractional part (integral floats are generated as such: e = 0)
  | nan
  | inf (neg : Bool)     -- ±Inf of either float width (`%v` prints the sign)
  | str (s : String)
  | list (xs : List GoVal)
  | ref (id : Nat)           -- pointer to a world object
  | thunk (r : ThunkRes)     -- func() (interface{}, error)
  | badFunc                  -- a func of any other signature
inductive ThunkRes where
  | ok (v : GoVal)
  | err
end

instance : Inhabited GoVal := ⟨.nil⟩

inductive Outcome where
  | value (v : GoVal)
  | fail                     -- error return, value together with an error, or a panic of any kind
deriving Inhabited

structure WObj where
  typeName : String
  fields : List (String × Outcome)     -- by field NAME
deriving Inhabited

structure World where
  objects : List (Nat × WObj)
  rootFields : List (String × Outcome) -- outcomes for sources that are not world objects (the root value, wrong-kind values)
  isTypeOf : List (String × Nat × Bool)            -- (object type, object id) ↦ answer; default: the object's own type
  resolveType : List (String × Nat × Option String) -- (abstract type, object id) ↦ answer; default: the object's own type
deriving Inhabited

def World.obj? (w : World) (id : Nat) : Option WObj := (w.objects.find? (fun p => p.1 == id)).map (·.2)

def World.outcome (w : World) (src : GoVal) (field : String) : Outcome :=
  let tbl := match src with
    | .ref id => match w.obj? id with | some o => o.fields | none => []
    | _ => w.rootFields
  match tbl.find? (fun p => p.1 == field) with
  | some (_, o) => o
  | none => .value .nil

def World.isTypeOfAns (w : World) (objType : String) (v : GoVal) : Bool :=
  match v with
  | .ref id =>
    match w.isTypeOf.find? (fun (t, i, _) => t == objType && i == id) with
    | some (_, _, b) => b
    | none => match w.obj? id with | some o => o.typeName == objType | none => false
  | _ => false

def World.resolveTypeAns (w : World) (abstractType : String) (v : GoVal) : Option String :=
  match v with
  | .ref id =>
    match w.resolveType.find? (fun (t, i, _) => t == abstractType && i == id) with
    | some (_, _, ans) => ans
    | none => (w.obj? id).map (·.typeName)
  | _ => none

/-! ## Paths, log, result -/

inductive PathSeg where
  | key (k : String)
  | idx (i : Nat)
deriving DecidableEq, Repr, Inhabited

abbrev Path := List PathSeg      -- root first

/-- one resolver invocation -/
structure LogEntry where
  path : Path
  parentType : String            -- the RUNTIME object type
  fieldName : String
  args : List (String × JVal)
  source : GoVal
  occurrences : Nat              -- number of field nodes merged into this invocation (Info.FieldASTs)
  deferred : Bool                -- runs while a deferred value (thunk) is being forced
deriving Inhabited

structure St where
  errs : List (Path × Bool)      -- newest first; the flag says "recorded while forcing a deferred value"
  log : List LogEntry            -- newest first
  kfThunk : List Path            -- positions where a thunk fails / yields null under a non-null type (known finding D-04c)
deriving Inhabited

def St.empty : St := ⟨[], [], []⟩

inductive Res (α : Type) where
  | ok (a : α)
  | fail                         -- a failure is propagating to the nearest nullable ancestor
  | fuelOut
deriving Inhabited

/-! ## CollectFields -/

/-- one occurrence of a field in the document -/
structure FieldNode where
  alias : Option String
  name : String
  args : List Argument
  sel : Option SelectionSet
  loc : Loc
deriving Inhabited

def FieldNode.key (f : FieldNode) : String := f.alias.getD f.name

abbrev Groups := List (String × List FieldNode)

def Groups.add (g : Groups) (f : FieldNode) : Groups :=
  if g.any (fun p => p.1 == f.key) then g.map (fun p => if p.1 == f.key then (p.1, p.2 ++ [f]) else p)
  else g ++ [(f.key, [f])]

def ifArg : List ArgDef := [{ name := "if", type := .nonNull (.named "Boolean"), default := none }]

/-- `planDirectives` with the request's variables: the LAST @skip and the LAST @include govern -/
def included (s : Schema) (vars : Vars) (dirs : List Directive) : Bool :=
  let lastOf (n : String) : Option Directive := (dirs.filter (fun d => d.name.value == n)).getLast?
  let ifVal (d : Directive) : Option Bool :=
    match JVal.lookup (getArgumentValues s ifArg d.args vars) "if" with
    | some (.bool b) => some b
    | _ => none
  let skipped := match lastOf "skip" with
    | some d => ifVal d == some true
    | none => false
  let notIncluded := match lastOf "include" with
    | some d => ifVal d == some false
    | none => false
  !(skipped || notIncluded)

structure Ctx where
  schema : Schema
  frags : List (String × Definition)   -- name ↦ fragment definition (last definition of a name wins, as in the Go map)
  vars : Vars
  world : World

def Ctx.frag? (c : Ctx) (n : String) : Option (TypeRef × SelectionSet) :=
  match (c.frags.filter (fun p => p.1 == n)).getLast? with
  | some (_, .fragment _ tc _ sel _) => some (tc, sel)
  | _ => none

def condName : Option TypeRef → Option String
  | none => none
  | some t => some t.namedName

/-- `planFragmentMatches`: no condition, the same name, or an abstract type of which `rt` is a possible type;
an unknown condition type never matches -/
def condApplies (s : Schema) (cond : Option TypeRef) (rt : String) : Bool :=
  match cond with
  | none => true
  | some t =>
    let c := t.namedName
    (s.find? c).isSome && (c == rt || (s.isAbstract c && s.isPossibleType c rt))

mutual
/-- structural on the selection syntax; `expand` handles a named spread (open recursion) -/
def collectSel (c : Ctx) (rt : String) (expand : String → Groups × List String → Groups × List String) :
    Selection → Groups × List String → Groups × List String
  | .field alias name args dirs sel loc, (g, vis) =>
    if included c.schema c.vars dirs then
      (g.add { alias := alias.map (·.value), name := name.value, args := args, sel := sel, loc := loc }, vis)
    else (g, vis)
  | .inline tc dirs sel _, acc =>
    if included c.schema c.vars dirs && condApplies c.schema tc rt then collectSet c rt expand sel acc else acc
  | .spread name dirs _, acc =>
    if included c.schema c.vars dirs then expand name.value acc else acc
def collectSet (c : Ctx) (rt : String) (expand : String → Groups × List String → Groups × List String) :
    SelectionSet → Groups × List String → Groups × List String
  | .mk sels _, acc => collectList c rt expand sels acc
def collectList (c : Ctx) (rt : String) (expand : String → Groups × List String → Groups × List String) :
    List Selection → Groups × List String → Groups × List String
  | [], acc => acc
  | s :: rest, acc => collectList c rt expand rest (collectSel c rt expand s acc)
end

/-- named-spread expansion with `fuel` levels of fragment nesting left: a fragment already visited in this
selection set is not expanded again; an unknown fragment is ignored (and not marked) -/
def expandSpread (c : Ctx) (rt : String) : Nat → String → Groups × List String → Groups × List String
  | 0, _, acc => acc
  | fuel + 1, n, (g, vis) =>
    if vis.contains n then (g, vis) else
    match c.frag? n with
    | none => (g, vis)
    | some (tc, sel) =>
      let vis := n :: vis
      if condApplies c.schema (some tc) rt then collectSet c rt (expandSpread c rt fuel) sel (g, vis)
      else (g, vis)

/-- fragment nesting can never exceed the number of fragment definitions (each level marks a new name) -/
def Ctx.fragFuel (c : Ctx) : Nat := c.frags.length + 1

/-- CollectFields of one selection set -/
def collect (c : Ctx) (rt : String) (sel : SelectionSet) (acc : Groups × List String) : Groups × List String :=
  collectSet c rt (expandSpread c rt c.fragFuel) sel acc

/-- the merged sub-selection of a field: all occurrences, one shared visited set (`planMergedSelectionsForType`) -/
def collectMerged (c : Ctx) (rt : String) (nodes : List FieldNode) : Groups :=
  (nodes.foldl (fun acc n => match n.sel with
    | some sel => collect c rt sel acc
    | none => acc) (([] : Groups), ([] : List String))).1

/-! ## Leaf serialisation -/

/-- the JSON-like view of a resolver value that leaf coercion functions inspect (`none`: not a plain value) -/
def GoVal.toJ : GoVal → Option JVal
  | .nil | .typedNil => some .null
  | .bool b => some (.bool b)
  | .int i => some (.int i)
  | .float m e => some (if e == 0 then .int m else .dec m e)
  | .str s => some (.str s)
  | _ => none

/-- `isNullish` on a resolver value -/
def GoVal.nullish : GoVal → Bool
  | .nil | .typedNil | .nan | .inf _ => true
  | _ => false

/-- `Enum.Serialize`: the name of the value whose internal value equals the result -/
def enumSerialize (vals : List EnumValueS) (v : JVal) : JVal :=
  match vals.find? (fun ev => enumInternal ev == v) with
  | some ev => .str ev.name
  | none => .null

mutual
/-- `fmt.Sprintf("%v", v)` on a resolver value (what `coerceString` does); world objects print as `obj#id`
(the harness gives them that `String()` method); `none` when the text depends on an address (funcs) -/
def fmtGo : GoVal → Option String
  | .nil | .typedNil => some "<nil>"
  | .bool b => some (if b then "true" else "false")
  | .int i => some (intString i)
  | .float m e => some (if e == 0 then intString m else String.ofList (decChars m e))
  | .nan => some "NaN"
  | .inf neg => some (if neg then "-Inf" else "+Inf")
  | .str s => some s
  | .list xs => (fmtGoList xs).map (fun t => "[" ++ t ++ "]")
  | .ref id => some ("obj#" ++ toString id)
  | .thunk _ | .badFunc => none
def fmtGoList : List GoVal → Option String
  | [] => some ""
  | x :: xs =>
    match fmtGo x, fmtGoList xs with
    | some a, some b => some (match xs with | [] => a | _ :: _ => a ++ " " ++ b)
    | _, _ => none
end

/-- marker for a leaf whose text the model cannot predict (address of a func value inside a list) -/
def unpredictable : JVal := .str "$unpredictable"

/-- marker a custom scalar's serialise table uses for "the serialiser panics on this value" -/
def isPanicMarker : JVal → Bool
  | .obj [(k, _)] => k == "$panic"
  | _ => false

def leafPanics : ScalarKind → JVal → Bool
  | .custom ser _ _, j => isPanicMarker (tableLookup ser j)
  | _, _ => false

/-- `completeLeafValue`: `some j` = serialised (possibly null), `none` = the serialiser panics (unhashable
enum key, custom serialiser rejecting the value) ⇒ field error -/
def serializeLeaf (s : Schema) (typeName : String) (v : GoVal) : Option JVal :=
  match s.find? typeName with
  | some (.scalar _ k _) =>
    match v.toJ with
    | some j =>
      -- a custom serialiser whose table maps the value to the marker `{"$panic": …}` panics (harness/gq tableFn)
      if leafPanics k j then none else
      some (match k with
        | .int => coerceInt j
        | .float => coerceFloat j
        | .string | .id => .str (fmtV j)
        | .boolean => coerceBool j
        | .custom ser _ _ => tableLookup ser j)
    | none =>
      -- lists, world objects, funcs: only the string-like and boolean scalars give a non-null answer
      some (match k with
        | .string | .id => (match fmtGo v with | some t => .str t | none => unpredictable)
        | .boolean => .bool false
        | _ => .null)
  | some (.enum _ vals _) =>
    match v with
    | .list _ => none
    | _ => match v.toJ with
      | some j => some (enumSerialize vals j)
      | none => some .null
  | _ => some .null

/-! ## Execution -/

/-- field definition lookup of `getFieldDef` (introspection entry points `__schema` / `__type` are outside this model) -/
def fieldDef? (s : Schema) (parentType fieldName : String) : Option FieldDefS :=
  if fieldName == "__typename" then
    some { name := "__typename", type := .nonNull (.named "String"), args := [] }
  else (s.objectFields parentType).find? (fun f => f.name == fieldName)

/-- implementers in the order `defaultResolveTypeFn` tries them: union members as configured, interface
implementers by type name (NewSchema collects them in type-name order) -/
def possibleInOrder (s : Schema) (abstractName : String) : List String :=
  if s.isUnion abstractName then s.possibleTypes abstractName
  else (s.possibleTypes abstractName).mergeSort (fun a b => a ≤ b)

def objectHasIsTypeOf (s : Schema) (n : String) : Bool :=
  match s.find? n with | some (.object _ _ _ b _) => b | _ => false

def abstractHasResolveType (s : Schema) (n : String) : Bool :=
  match s.find? n with
  | some (.interface _ _ b _) => b
  | some (.union _ _ b _) => b
  | _ => false

def runtimeTypeOf (c : Ctx) (abstractName : String) (v : GoVal) : Option String :=
  if abstractHasResolveType c.schema abstractName then c.world.resolveTypeAns abstractName v
  else (possibleInOrder c.schema abstractName).find? (fun t => objectHasIsTypeOf c.schema t && c.world.isTypeOfAns t v)

def addErr (st : St) (p : Path) (dfr : Bool) : St := { st with errs := (p, dfr) :: st.errs }

mutual
/-- ExecuteSelectionSet over collected groups, in order. `ok fields` (insertion order) or a propagating failure. -/
def execGroups (c : Ctx) : Nat → Bool → String → GoVal → Path → Groups → List (String × JVal) → St →
    Res (List (String × JVal)) × St
  | 0, _, _, _, _, _, _, st => (.fuelOut, st)
  | _ + 1, _, _, _, _, [], acc, st => (.ok acc, st)
  | fuel + 1, dfr, rt, src, path, (key, nodes) :: rest, acc, st =>
    match nodes.head? with
    | none => execGroups c fuel dfr rt src path rest acc st
    | some node =>
      match fieldDef? c.schema rt node.name with
      | none => execGroups c fuel dfr rt src path rest acc st            -- unknown field: key skipped
      | some fd =>
        let p := path ++ [.key key]
        match execField c fuel dfr rt src p fd nodes st with
        | (.ok v, st) => execGroups c fuel dfr rt src path rest (acc ++ [(key, v)]) st
        | (.fail, st) => (.fail, st)
        | (.fuelOut, st) => (.fuelOut, st)

/-- resolve one field and complete its value; a failure is absorbed here when the field's type is nullable -/
def execField (c : Ctx) : Nat → Bool → String → GoVal → Path → FieldDefS → List FieldNode → St → Res JVal × St
  | 0, _, _, _, _, _, _, st => (.fuelOut, st)
  | fuel + 1, dfr, rt, src, p, fd, nodes, st =>
    if fd.name == "__typename" then (.ok (.str rt), st) else
    let args := match nodes.head? with
      | some n => getArgumentValues c.schema fd.args n.args c.vars
      | none => []
    let st := { st with log := { path := p, parentType := rt, fieldName := fd.name, args := args, source := src,
                                 occurrences := nodes.length, deferred := dfr } :: st.log }
    let absorb (st : St) : Res JVal × St :=
      if fd.type.isNonNull then (.fail, st) else (.ok .null, st)
    match c.world.outcome src fd.name with
    | .fail => absorb (addErr st p dfr)
    | .value v =>
      match complete c fuel dfr fd.type rt fd.name nodes p v st with
      | (.ok j, st) => (.ok j, st)
      | (.fail, st) => absorb st
      | (.fuelOut, st) => (.fuelOut, st)

/-- CompleteValue. The error of a failure is recorded where it happens; `fail` only signals propagation. -/
def complete (c : Ctx) : Nat → Bool → GType → String → String → List FieldNode → Path → GoVal → St → Res JVal × St
  | 0, _, _, _, _, _, _, _, st => (.fuelOut, st)
  | fuel + 1, dfr, t, rt, fname, nodes, p, v, st =>
    match v with
    | .thunk r =>
      -- deferred value: forced later by the library, in place by the specification
      let bad (st : St) : Res JVal × St :=
        (.fail, { addErr st p true with kfThunk := if t.isNonNull then p :: st.kfThunk else st.kfThunk })
      (match r with
      | .err => bad st
      | .ok v' =>
        match complete c fuel true t rt fname nodes p v' st with
        | (.fail, st') => (.fail, { st' with kfThunk := if t.isNonNull then p :: st'.kfThunk else st'.kfThunk })
        | r => r)
    | .badFunc => (.fail, { addErr st p true with kfThunk := if t.isNonNull then p :: st.kfThunk else st.kfThunk })
    | _ =>
    match t with
    | .nonNull inner =>
      (match complete c fuel dfr inner rt fname nodes p v st with
      | (.ok .null, st) => (.fail, addErr st p dfr)      -- "Cannot return null for non-nullable field"
      | r => r)
    | .list item =>
      if v.nullish then (.ok .null, st) else
      (match v with
      | .list xs =>
        match completeItems c fuel dfr item rt fname nodes p xs 0 [] st with
        | (.ok js, st) => (.ok (.list js), st)
        | (.fail, st) => (.fail, st)
        | (.fuelOut, st) => (.fuelOut, st)
      | _ => (.fail, addErr st p dfr))                    -- "expected iterable"
    | .named n =>
      if v.nullish then (.ok .null, st) else
      if c.schema.isLeaf n then
        (match serializeLeaf c.schema n v with
        | some j => (.ok j, st)
        | none => (.fail, addErr st p dfr))
      else if c.schema.isAbstract n then
        (match runtimeTypeOf c n v with
        | none => (.fail, addErr st p dfr)
        | some ot =>
          if !(c.schema.isObject ot && c.schema.isPossibleType n ot) then (.fail, addErr st p dfr) else
          match execGroups c fuel dfr ot v p (collectMerged c ot nodes) [] st with
          | (.ok fs, st) => (.ok (.obj fs), st)
          | (.fail, st) => (.fail, st)
          | (.fuelOut, st) => (.fuelOut, st))
      else if c.schema.isObject n then
        if objectHasIsTypeOf c.schema n && !c.world.isTypeOfAns n v then (.fail, addErr st p dfr) else
        (match execGroups c fuel dfr n v p (collectMerged c n nodes) [] st with
        | (.ok fs, st) => (.ok (.obj fs), st)
        | (.fail, st) => (.fail, st)
        | (.fuelOut, st) => (.fuelOut, st))
      else (.fail, addErr st p dfr)                       -- not an output type

/-- list items one by one; an item failure is absorbed when the item type is nullable -/
def completeItems (c : Ctx) : Nat → Bool → GType → String → String → List FieldNode → Path → List GoVal → Nat →
    List JVal → St → Res (List JVal) × St
  | 0, _, _, _, _, _, _, _, _, _, st => (.fuelOut, st)
  | _ + 1, _, _, _, _, _, _, [], _, acc, st => (.ok acc, st)
  | fuel + 1, dfr, item, rt, fname, nodes, p, x :: xs, i, acc, st =>
    match complete c fuel dfr item rt fname nodes (p ++ [.idx i]) x st with
    | (.ok j, st) => completeItems c fuel dfr item rt fname nodes p xs (i + 1) (acc ++ [j]) st
    | (.fail, st) =>
      if item.isNonNull then (.fail, st)
      else completeItems c fuel dfr item rt fname nodes p xs (i + 1) (acc ++ [.null]) st
    | (.fuelOut, st) => (.fuelOut, st)
end

/-! ## Request level -/

inductive OpError where
  | mustProvideName      -- several operations, no name given
  | unknownOperation     -- no operation with that name
  | noOperation          -- no operation at all
  | notExecutable        -- a type-system definition in the request
  | noRootType           -- schema has no mutation / subscription root
deriving DecidableEq, Repr

/-- `PlanQuery`'s operation choice: with a name the LAST operation of that name, without a name the only one -/
def selectOperation (doc : Document) (opName : String) : Except OpError Definition :=
  let rec go : List Definition → Option Definition → Except OpError (Option Definition)
    | [], cur => .ok cur
    | d :: rest, cur =>
      match d with
      | .operation _ name _ _ _ _ =>
        if opName == "" && cur.isSome then .error .mustProvideName
        else if opName == "" || (name.map (·.value)) == some opName then go rest (some d)
        else go rest cur
      | .fragment .. => go rest cur
      | _ => .error .notExecutable
  match go doc.defs none with
  | .error e => .error e
  | .ok (some d) => .ok d
  | .ok none => .error (if opName != "" then .unknownOperation else .noOperation)

inductive Response where
  | requestError (what : String)                       -- no data, one error, no resolver ran
  | result (data : Option (List (String × JVal))) (errs : List (Path × Bool)) (log : List LogEntry) (kfThunk : List Path)
  | fuelOut
deriving Inhabited

/-- a fuel that is ample for a request: every level of response nesting costs a bounded number of calls -/
def defaultFuel : Nat := 100000

def execute (s : Schema) (doc : Document) (opName : String) (inputs : Vars) (w : World) (fuel : Nat := defaultFuel) :
    Response :=
  match selectOperation doc opName with
  | .error e => .requestError (reprStr e)
  | .ok (.operation op _ varDefs _ sel _) =>
    (match s.rootFor op.toString with
    | none => .requestError "noRootType"
    | some root =>
      match getVariableValues s varDefs inputs with
      | .error e => .requestError ("variables: " ++ e)
      | .ok vars =>
        let c : Ctx := { schema := s, frags := doc.fragments, vars := vars, world := w }
        let groups := (collect c root sel ([], [])).1
        match execGroups c fuel false root .nil [] groups [] St.empty with
        | (.ok fs, st) => .result (some fs) st.errs.reverse st.log.reverse st.kfThunk
        | (.fail, st) => .result none st.errs.reverse st.log.reverse st.kfThunk
        | (.fuelOut, _) => .fuelOut)
  | .ok _ => .requestError "noOperation"

end GqlModel.Exec
