import GqlModel.Lexer
/-! # C03 (lexer half) — S: the lexical grammar of the GraphQL spec as a maximal-munch tokeniser

Written from the specification's "Lexical Tokens" / "Ignored Tokens" productions (June-2018 edition, the one
the library targets: `&`, block strings, no surrogate-pair escapes), on BYTES, with BYTE offsets only — no
rune cursor, no chunking, no decoder.  A byte ≥ 0x80 is (part of) a SourceCharacter above U+007F; the only
multi-byte character the lexical grammar names is the BOM U+FEFF = EF BB BF.

    Ignored        :: UnicodeBOM | WhiteSpace | LineTerminator | Comment | Comma
    Comment        :: `#` CommentChar*          CommentChar :: SourceCharacter but not LineTerminator
    Punctuator     :: one of  ! $ & ( ) ... : = @ [ ] { | }
    Name           :: /[_A-Za-z][_0-9A-Za-z]*/
    IntValue       :: IntegerPart               IntegerPart :: -? 0 | -? NonZeroDigit Digit*
    FloatValue     :: IntegerPart FractionalPart | IntegerPart ExponentPart | IntegerPart FractionalPart ExponentPart
    StringValue    :: `"` StringCharacter* `"` | `"""` BlockStringCharacter* `"""`

Number look-ahead as THIS library (and the graphql-js it was ported from) implements it: a digit after a
leading `0` is an error, `.` and `e`/`E` commit to a fraction / exponent (no digit after them is an error,
reported at that position); a letter directly after a number is NOT an error (`1a` = Int `1`, Name `a`).

Error offsets are those of the reference implementation: the offending byte. -/
namespace GqlModel.Lexer.Spec
open GqlModel GqlModel.Lexer

/-- result of scanning one lexeme at the head of the input: its length in bytes and its value;
an error carries the offset (relative to the head) of the offending byte -/
abbrev Scan := Except (Nat × ErrKind) (Nat × Bytes)

/-- the scan of `k` more bytes in front, contributing `bs` to the value -/
def adv (k : Nat) (bs : Bytes) : Scan → Scan
  | .ok (len, v) => .ok (len + k, bs ++ v)
  | .error (o, e) => .error (o + k, e)

/-! ## Ignored -/

/-- SourceCharacter (`/[\u0009\u000A\u000D -￿]/`) seen byte-wise, minus the line terminators -/
def isCommentByte (c : UInt8) : Prop := c = 9 ∨ 32 ≤ c.toNat
instance (c : UInt8) : Decidable (isCommentByte c) := by unfold isCommentByte; infer_instance

/-- length of the longest `Ignored*` prefix; the flag says "inside a comment" -/
def ignoredLen : Bool → Bytes → Nat
  | _, [] => 0
  | true, c :: r =>
    if c = 10 ∨ c = 13 then ignoredLen false r + 1
    else if isCommentByte c then ignoredLen true r + 1
    else 0
  | false, c :: r =>
    if c = 9 ∨ c = 32 ∨ c = 10 ∨ c = 13 ∨ c = 44 then ignoredLen false r + 1
    else if c = 35 then ignoredLen true r + 1
    else if c = 0xEF then
      match r with
      | b1 :: b2 :: r' => if b1 = 0xBB ∧ b2 = 0xBF then ignoredLen false r' + 3 else 0
      | _ => 0
    else 0

/-! ## Name -/

def isNameStartByte (c : UInt8) : Prop := c = 95 ∨ (65 ≤ c.toNat ∧ c.toNat ≤ 90) ∨ (97 ≤ c.toNat ∧ c.toNat ≤ 122)
instance (c : UInt8) : Decidable (isNameStartByte c) := by unfold isNameStartByte; infer_instance
def isDigitByte (c : UInt8) : Prop := 48 ≤ c.toNat ∧ c.toNat ≤ 57
instance (c : UInt8) : Decidable (isDigitByte c) := by unfold isDigitByte; infer_instance
def isNameContByte (c : UInt8) : Prop := isNameStartByte c ∨ isDigitByte c
instance (c : UInt8) : Decidable (isNameContByte c) := by unfold isNameContByte; infer_instance

/-- number of leading bytes satisfying `p` -/
def spanLen (p : UInt8 → Bool) : Bytes → Nat
  | [] => 0
  | c :: r => if p c then spanLen p r + 1 else 0

def nameLen (bs : Bytes) : Nat := spanLen (fun c => decide (isNameContByte c)) bs
def digitsLen (bs : Bytes) : Nat := spanLen (fun c => decide (isDigitByte c)) bs

/-! ## Numbers -/

/-- `-? 0 | -? NonZeroDigit Digit*` : length of the integer part -/
def integerPart (bs : Bytes) : Except (Nat × ErrKind) Nat :=
  let neg := match bs with | c :: _ => if c = 45 then 1 else 0 | [] => 0
  match bs.drop neg with
  | c :: r =>
    if c = 48 then
      match r with
      | d :: _ => if isDigitByte d then .error (neg + 1, .digitAfterZero) else .ok (neg + 1)
      | [] => .ok (neg + 1)
    else if isDigitByte c then .ok (neg + digitsLen (c :: r))
    else .error (neg, .expectedDigit)
  | [] => .error (neg, .expectedDigit)

/-- `. Digit+`, 0 when absent -/
def fractionalPart (bs : Bytes) : Except (Nat × ErrKind) Nat :=
  match bs with
  | c :: r => if c = 46 then (if digitsLen r = 0 then .error (1, .expectedDigit) else .ok (1 + digitsLen r)) else .ok 0
  | [] => .ok 0

/-- `(e|E) (+|-)? Digit+`, 0 when absent -/
def exponentPart (bs : Bytes) : Except (Nat × ErrKind) Nat :=
  match bs with
  | c :: r =>
    if c = 69 ∨ c = 101 then
      let sign := match r with | s :: _ => if s = 43 ∨ s = 45 then 1 else 0 | [] => 0
      if digitsLen (r.drop sign) = 0 then .error (1 + sign, .expectedDigit) else .ok (1 + sign + digitsLen (r.drop sign))
    else .ok 0
  | [] => .ok 0

/-- kind and length of the number at the head -/
def number (bs : Bytes) : Except (Nat × ErrKind) (TokenKind × Nat) :=
  match integerPart bs with
  | .error e => .error e
  | .ok i =>
    match fractionalPart (bs.drop i) with
    | .error (o, e) => .error (i + o, e)
    | .ok f =>
      match exponentPart (bs.drop (i + f)) with
      | .error (o, e) => .error (i + f + o, e)
      | .ok x => .ok (if f = 0 ∧ x = 0 then .int else .float, i + f + x)

/-! ## StringValue (after the opening quote): StringCharacter* `"` with the semantic value

    StringCharacter :: SourceCharacter but not `"` or `\` or LineTerminator | `\u` EscapedUnicode | `\` EscapedCharacter
    EscapedCharacter :: one of  " \ / b f n r t          -/

def escapedCharacter (c : UInt8) : Option UInt8 :=
  if c = 34 then some 34 else if c = 92 then some 92 else if c = 47 then some 47
  else if c = 98 then some 8 else if c = 102 then some 12 else if c = 110 then some 10
  else if c = 114 then some 13 else if c = 116 then some 9 else none

def hexValue (c : UInt8) : Option Nat :=
  let n := c.toNat
  if 48 ≤ n ∧ n ≤ 57 then some (n - 48) else if 65 ≤ n ∧ n ≤ 70 then some (n - 55)
  else if 97 ≤ n ∧ n ≤ 102 then some (n - 87) else none

/-- `\uXXXX` denotes the code point with that number, written in UTF-8 (a lone surrogate is not a
code point: it becomes U+FFFD, as `utf8.AppendRune` does) -/
def escapedUnicode (a b c d : UInt8) : Option Bytes :=
  match hexValue a, hexValue b, hexValue c, hexValue d with
  | some x, some y, some z, some w => some (Utf8.encodeRune (((x * 16 + y) * 16 + z) * 16 + w))
  | _, _, _, _ => none

def stringBody : Bytes → Scan
  | [] => .error (0, .unterminated)
  | c :: r =>
    if c = 34 then .ok (1, [])
    else if c = 10 ∨ c = 13 then .error (0, .unterminated)
    else if c.toNat < 32 ∧ c ≠ 9 then .error (0, .invalidCharInString)
    else if c = 92 then
      match r with
      | [] => .error (1, .badEscape)
      | e :: r1 =>
        match escapedCharacter e with
        | some b => adv 2 [b] (stringBody r1)
        | none =>
          if e = 117 then
            match r1 with
            | h1 :: h2 :: h3 :: h4 :: r2 =>
              match escapedUnicode h1 h2 h3 h4 with
              | some bs => adv 6 bs (stringBody r2)
              | none => .error (1, .badUnicodeEscape)
            | _ => .error (1, .badUnicodeEscape)
          else .error (1, .badEscape)
    else adv 1 [c] (stringBody r)

/-! ## Block strings (after the opening `"""`): raw value, then BlockStringValue()

    BlockStringCharacter :: SourceCharacter but not `"""` or `\"""` | `\"""`      -/

def blockBody : Bytes → Scan
  | [] => .error (0, .unterminated)
  | c :: q1 :: q2 :: q3 :: r3 =>
    if c = 34 ∧ q1 = 34 ∧ q2 = 34 then .ok (3, [])
    else if c.toNat < 32 ∧ c ≠ 9 ∧ c ≠ 10 ∧ c ≠ 13 then .error (0, .invalidCharInString)
    else if c = 92 ∧ q1 = 34 ∧ q2 = 34 ∧ q3 = 34 then adv 4 [34, 34, 34] (blockBody r3)
    else adv 1 [c] (blockBody (q1 :: q2 :: q3 :: r3))
  | [c, q1, q2] =>
    if c = 34 ∧ q1 = 34 ∧ q2 = 34 then .ok (3, [])
    else if c.toNat < 32 ∧ c ≠ 9 ∧ c ≠ 10 ∧ c ≠ 13 then .error (0, .invalidCharInString)
    else adv 1 [c] (blockBody [q1, q2])
  | c :: r =>
    if c.toNat < 32 ∧ c ≠ 9 ∧ c ≠ 10 ∧ c ≠ 13 then .error (0, .invalidCharInString)
    else adv 1 [c] (blockBody r)

/-- "splitting rawValue by LineTerminator": LF, CR LF (one terminator), CR -/
def lines : Bytes → List Bytes
  | [] => [[]]
  | 13 :: 10 :: r => [] :: lines r
  | 13 :: r => [] :: lines r
  | 10 :: r => [] :: lines r
  | c :: r =>
    match lines r with
    | l :: ls => (c :: l) :: ls
    | [] => [[c]]

def isWhiteSpace (c : UInt8) : Bool := c == 32 || c == 9

/-- "the number of leading consecutive WhiteSpace characters in line" -/
def indentOf (line : Bytes) : Nat := spanLen isWhiteSpace line

/-- "contains only WhiteSpace" -/
def isBlank (line : Bytes) : Bool := line.all isWhiteSpace

/-- commonIndent over the lines after the first: the least indent of a line that is not only whitespace -/
def commonIndent : List Bytes → Option Nat
  | [] => none
  | line :: ls =>
    let rest := commonIndent ls
    if indentOf line < line.length then
      match rest with
      | none => some (indentOf line)
      | some m => some (min (indentOf line) m)
    else rest

def stripLeadingBlank : List Bytes → List Bytes
  | [] => []
  | l :: ls => if isBlank l then stripLeadingBlank ls else l :: ls

def stripTrailingBlank : List Bytes → List Bytes
  | [] => []
  | l :: ls =>
    match stripTrailingBlank ls with
    | [] => if isBlank l then [] else [l]
    | ls' => l :: ls'

def joinLines : List Bytes → Bytes
  | [] => []
  | [l] => l
  | l :: ls => l ++ 10 :: joinLines ls

/-- the spec's `BlockStringValue(rawValue)` -/
def blockStringValue (raw : Bytes) : Bytes :=
  match lines raw with
  | [] => []
  | first :: others =>
    let others := match commonIndent others with
      | none => others
      | some ci => others.map (fun l => l.drop ci)
    joinLines (stripTrailingBlank (stripLeadingBlank (first :: others)))

/-! ## One token -/

def punctuatorByte (c : UInt8) : Option TokenKind :=
  if c = 33 then some .bang else if c = 36 then some .dollar else if c = 38 then some .amp
  else if c = 40 then some .parenL else if c = 41 then some .parenR else if c = 58 then some .colon
  else if c = 61 then some .equals else if c = 64 then some .at else if c = 91 then some .bracketL
  else if c = 93 then some .bracketR else if c = 123 then some .braceL else if c = 124 then some .pipe
  else if c = 125 then some .braceR else none

/-- the token at the head of a non-empty input that does not start with Ignored:
kind, length, value — or the offset and kind of the lexical error -/
def token : Bytes → Except (Nat × ErrKind) (TokenKind × Nat × Bytes)
  | [] => .error (0, .unexpectedChar)
  | c :: r =>
    if c.toNat < 32 ∧ c ≠ 9 ∧ c ≠ 10 ∧ c ≠ 13 then .error (0, .invalidChar)
    else
      match punctuatorByte c with
      | some k => .ok (k, 1, [])
      | none =>
        if c = 46 then
          match r with
          | d1 :: d2 :: _ => if d1 = 46 ∧ d2 = 46 then .ok (.spread, 3, []) else .error (0, .unexpectedChar)
          | _ => .error (0, .unexpectedChar)
        else if isNameStartByte c then .ok (.name, nameLen (c :: r), (c :: r).take (nameLen (c :: r)))
        else if c = 45 ∨ isDigitByte c then
          match number (c :: r) with
          | .ok (k, len) => .ok (k, len, (c :: r).take len)
          | .error e => .error e
        else if c = 34 then
          match r with
          | 34 :: 34 :: r3 =>
            match blockBody r3 with
            | .ok (len, raw) => .ok (.blockString, len + 3, blockStringValue raw)
            | .error (o, e) => .error (o + 3, e)
          | _ =>
            match stringBody r with
            | .ok (len, v) => .ok (.string, len + 1, v)
            | .error (o, e) => .error (o + 1, e)
        else .error (0, .unexpectedChar)

/-! ## The token stream, each token with the Ignored bytes in front of it -/

structure GapResult where
  /-- (Ignored gap before the token, token) -/
  tokens : List (Bytes × LTok)
  /-- bytes from the end of the last token to the offending byte, and the error -/
  err : Option (Bytes × LexErr)
deriving DecidableEq, Repr

def lexLoopG : Nat → Bytes → Nat → GapResult
  | 0, _, off => ⟨[], some ([], ⟨off, .fuel⟩)⟩
  | f+1, rest, off =>
    let g := ignoredLen false rest
    let rest' := rest.drop g
    let start := off + g
    match rest' with
    | [] => ⟨[(rest.take g, makeToken .eof start start [])], none⟩
    | _ :: _ =>
      match token rest' with
      | .error (o, k) => ⟨[], some (rest.take (g + o), ⟨start + o, k⟩)⟩
      | .ok (kind, len, value) =>
        let r := lexLoopG f (rest'.drop len) (start + len)
        ⟨(rest.take g, makeToken kind start (start + len) value) :: r.tokens, r.err⟩

def lexAllG (bytes : Bytes) : GapResult := lexLoopG (bytes.length + 1) bytes 0

/-- S: the token stream of the lexical grammar -/
def lexAll (bytes : Bytes) : LexResult :=
  let r := lexAllG bytes
  ⟨r.tokens.map (·.2), r.err.map (·.2)⟩

/-! ## Known-finding predicates (decidable, evaluated by the driver on every case) -/

def hasHigh (bs : Bytes) : Bool := bs.any (fun b => 128 ≤ b.toNat)

/-- D-03a: some NAME token's own Ignored gap (since the previous token's end) contains a byte ≥ 0x80 -/
def nameAfterMultibyteIgnored (bytes : Bytes) : Bool :=
  (lexAllG bytes).tokens.any (fun gt => gt.2.kind == .name && hasHigh gt.1)

/-- rune/byte mixture in error offsets: a byte ≥ 0x80 between the end of the last token and the offending byte -/
def errorAfterMultibyte (bytes : Bytes) : Bool :=
  match (lexAllG bytes).err with
  | some (g, _) => hasHigh g
  | none => false

end GqlModel.Lexer.Spec
