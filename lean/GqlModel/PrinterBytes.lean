/-! # Byte-level view of string quoting (printer) and unquoting (lexer)

`quoteB` is `quoteString` of /repo/language/printer/printer.go:167 exactly as written there: a loop over the
**bytes** of the value (`for i := 0; i < len(s); i++ { c := s[i] … }`).

`unquoteB` is an independent, small model of the loop of `readString` (/repo/language/lexer/lexer.go:218) in its
byte-wise view: after the opening quote, bytes are copied until the closing quote; a backslash introduces one of
`\" \/ \\ \b \f \n \r \t \uXXXX`; a raw line terminator ends the string without a closing quote ("Unterminated
string"), any other raw byte below 0x20 except TAB is rejected ("Invalid character within String").  The Go loop
advances rune-wise (`runeAt`), but a multi-byte UTF-8 sequence consists of bytes ≥ 0x80 only and an undecodable byte
has width 1, so no ASCII byte (quote, backslash, control) is ever skipped: copying rune-wise and copying byte-wise give
the same result.  `\uXXXX` is decoded as `valueBuffer.WriteRune(code)` does (UTF-8, surrogates → U+FFFD). -/
namespace GqlModel.Printer.Bytes

abbrev B := UInt8

/-- `%X` of a nibble -/
def hexDigitB (n : Nat) : B := if n < 10 then (48 + n).toUInt8 else (55 + n).toUInt8

/-- one iteration of the loop of `quoteString` -/
def escB (b : B) : List B :=
  if b = 34 then [92, 34]            -- \"
  else if b = 92 then [92, 92]       -- \\
  else if b = 8 then [92, 98]        -- \b
  else if b = 12 then [92, 102]      -- \f
  else if b = 10 then [92, 110]      -- \n
  else if b = 13 then [92, 114]      -- \r
  else if b = 9 then [92, 116]       -- \t
  else if b < 32 ∨ b = 127 then [92, 117, 48, 48, hexDigitB (b.toNat / 16), hexDigitB (b.toNat % 16)]
  else [b]

def quoteBodyB : List B → List B
  | [] => []
  | b :: bs => escB b ++ quoteBodyB bs

/-- printer.go `quoteString` -/
def quoteB (s : List B) : List B := 34 :: quoteBodyB s ++ [34]

/-- lexer.go `char2hex` -/
def hexVal (b : B) : Option Nat :=
  if 48 ≤ b ∧ b ≤ 57 then some (b.toNat - 48)
  else if 65 ≤ b ∧ b ≤ 70 then some (b.toNat - 55)
  else if 97 ≤ b ∧ b ≤ 102 then some (b.toNat - 87)
  else none

/-- `bytes.Buffer.WriteRune` for a code point below 0x10000 -/
def encodeRune (cp : Nat) : List B :=
  if cp < 0x80 then [cp.toUInt8]
  else if cp < 0x800 then [(0xC0 + cp / 64).toUInt8, (0x80 + cp % 64).toUInt8]
  else if 0xD800 ≤ cp ∧ cp < 0xE000 then [0xEF, 0xBF, 0xBD]
  else [(0xE0 + cp / 4096).toUInt8, (0x80 + cp / 64 % 64).toUInt8, (0x80 + cp % 64).toUInt8]

/-- the `switch code` after a backslash: decoded bytes and remaining input -/
def unescapeB : List B → Option (List B × List B)
  | [] => none
  | c :: rest =>
    if c = 34 then some ([34], rest)
    else if c = 47 then some ([47], rest)
    else if c = 92 then some ([92], rest)
    else if c = 98 then some ([8], rest)
    else if c = 102 then some ([12], rest)
    else if c = 110 then some ([10], rest)
    else if c = 114 then some ([13], rest)
    else if c = 116 then some ([9], rest)
    else if c = 117 then
      match rest with
      | a :: b :: c' :: d :: rest' =>
        match hexVal a, hexVal b, hexVal c', hexVal d with
        | some x, some y, some z, some w => some (encodeRune (x * 4096 + y * 256 + z * 16 + w), rest')
        | _, _, _, _ => none
      | _ => none
    else none

/-- body of `readString` after the opening quote; the fuel only has to exceed the input length -/
def unquoteBodyB : Nat → List B → Option (List B × List B)
  | 0, _ => none
  | _+1, [] => none                                  -- unterminated
  | n+1, b :: rest =>
    if b = 34 then some ([], rest)
    else if b = 92 then
      match unescapeB rest with
      | none => none
      | some (x, rest') => (unquoteBodyB n rest').map (fun (v, r) => (x ++ v, r))
    else if b = 10 ∨ b = 13 then none                -- line terminator: unterminated
    else if b < 32 ∧ b ≠ 9 then none                 -- invalid character within String
    else (unquoteBodyB n rest).map (fun (v, r) => (b :: v, r))

/-- `readString`: decoded value and the input after the closing quote -/
def unquoteB (bs : List B) : Option (List B × List B) :=
  match bs with
  | 34 :: rest => unquoteBodyB (rest.length + 1) rest
  | _ => none

end GqlModel.Printer.Bytes
