import GqlModel.SchemaBuild
import GqlModel.Schema
/-! # Bridge: the schema that construction built, in the shared schema vocabulary

`BuiltSchema.toSchema` renders a dump (`BuiltSchema`: what `NewSchema` returned, or a dump of the real schema) as a
`GqlModel.Schema` — the vocabulary the executor / validator / coercion / introspection models (C01, C02, C04, C05, C10,
C14) take as input. Properties of `toSchema (dump cfg s)` for a successful `newSchema cfg = .ok s` are therefore facts
those models may assume instead of carrying them as hypotheses (Props/C11.lean, section "What construction guarantees").

Not carried by a dump and therefore left empty / default: descriptions, default values, deprecation reasons, enum
internal values (set to the name, the library's default), directive locations, scalar coercion tables (a scalar is
built-in iff it has a built-in scalar's name — within one schema names are unique). The eight `__…` introspection types
are left out of `types`, as in the wire format (`Introspection.allTypes` / `Validate.introspectionTypes` add them). -/
namespace GqlModel.SchemaBuild

def metaTypeNames : List String :=
  ["__Schema", "__Type", "__TypeKind", "__Field", "__InputValue", "__EnumValue", "__Directive", "__DirectiveLocation"]

def scalarKindOf (n : String) : ScalarKind :=
  if n == "Int" then .int else if n == "Float" then .float else if n == "String" then .string
  else if n == "Boolean" then .boolean else if n == "ID" then .id else .custom [] [] []

namespace BuiltSchema

def gtype (b : BuiltSchema) : TRef → GType
  | .ref i => .named (b.get i).name
  | .list t => .list (b.gtype t)
  | .nonNull t => .nonNull (b.gtype t)
  | .nil => .named ""
  | .nilPtr _ => .named ""

def argDef (b : BuiltSchema) (a : BArg) : ArgDef := { name := a.name, type := b.gtype a.type, default := none }

def fieldDef (b : BuiltSchema) (f : BField) : FieldDefS :=
  { name := f.name, type := b.gtype f.type, args := f.args.map b.argDef }

def inputField (b : BuiltSchema) (a : BArg) : InputFieldS := { name := a.name, type := b.gtype a.type, default := none }

def nameAt (b : BuiltSchema) (i : Nat) : String := (b.get i).name

def typeDef (b : BuiltSchema) (t : BType) : TypeDef :=
  match t.kind with
  | .object => .object t.name (t.interfaces.map b.nameAt) (t.fields.map b.fieldDef) t.resolver ""
  | .interface => .interface t.name (t.fields.map b.fieldDef) t.resolver ""
  | .union => .union t.name (t.members.map b.nameAt) t.resolver ""
  | .enum => .enum t.name (t.values.map (fun v => { name := v, internal := .str v })) ""
  | .inputObject => .inputObject t.name (t.inputFields.map b.inputField) ""
  | _ => .scalar t.name (scalarKindOf t.name) ""

/-- the type map without the introspection types, in type-map order -/
def userEntries (b : BuiltSchema) : List (String × Nat) := b.typeMap.filter (fun p => !metaTypeNames.contains p.1)

def toSchema (b : BuiltSchema) : Schema :=
  { types := b.userEntries.map (fun p => b.typeDef (b.get p.2)),
    query := match b.query with | some q => b.nameAt q | none => "",
    mutation := b.mutation.map b.nameAt,
    subscription := b.subscription.map b.nameAt,
    directives := b.directives.map (fun d => { name := d.1, locations := [], args := d.2.map b.argDef }) }

end BuiltSchema

/-! ## What the executor / validator models may assume about a constructed schema -/

def fieldRefNames (f : FieldDefS) : List String := f.type.namedName :: f.args.map (·.type.namedName)

/-- the names a type definition refers to: interfaces, union members, field / argument / input-field types -/
def typeRefNames : TypeDef → List String
  | .object _ ifs fs _ _ => ifs ++ fs.flatMap fieldRefNames
  | .interface _ fs _ _ => fs.flatMap fieldRefNames
  | .union _ ms _ _ => ms
  | .inputObject _ fs _ => fs.map (·.type.namedName)
  | _ => []

/-- the name is defined: by a type of the schema or by one of the eight introspection types -/
def knownName (s : Schema) (n : String) : Prop := (s.find? n).isSome = true ∨ n ∈ metaTypeNames

structure TranslationConsistent (s : Schema) : Prop where
  /-- type names are pairwise distinct -/
  namesNodup : (s.types.map TypeDef.name).Nodup
  /-- every interface, union member, field / argument / input-field type named by a type of the schema is defined -/
  refsKnown : ∀ td ∈ s.types, ∀ n ∈ typeRefNames td, knownName s n
  /-- the root operation types are defined -/
  rootsKnown : knownName s s.query ∧ (∀ m, s.mutation = some m → knownName s m) ∧
    (∀ m, s.subscription = some m → knownName s m)
  /-- an object has every field of each interface it declares -/
  ifaceFields : ∀ o ifs fs b d, TypeDef.object o ifs fs b d ∈ s.types → ∀ iname ∈ ifs, ∀ ifs' b' d',
    TypeDef.interface iname ifs' b' d' ∈ s.types → ∀ f ∈ ifs', ∃ g ∈ fs, g.name = f.name

end GqlModel.SchemaBuild
