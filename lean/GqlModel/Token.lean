/-! # Tokens (mirrors /repo/language/lexer: `TokenKind`, `Token`)

Shared between the lexer model (bytes → tokens) and the parser model (tokens → AST).
`value` is the token's text for NAME / INT / FLOAT and the *decoded* string for STRING / BLOCK_STRING,
empty for punctuators. `start`/`stop` are the offsets the Go lexer reports (`Token.Start`, `Token.End`). -/
namespace GqlModel

inductive TokenKind
  | eof | bang | dollar | parenL | parenR | spread | colon | equals | at | bracketL | bracketR
  | braceL | pipe | braceR | name | int | float | string | blockString | amp
deriving DecidableEq, Repr, Inhabited

/-- the Go constant's numeric value (`EOF = 1`, …, `AMP = 20`), used on the wire -/
def TokenKind.toNat : TokenKind → Nat
  | .eof => 1 | .bang => 2 | .dollar => 3 | .parenL => 4 | .parenR => 5 | .spread => 6 | .colon => 7
  | .equals => 8 | .at => 9 | .bracketL => 10 | .bracketR => 11 | .braceL => 12 | .pipe => 13
  | .braceR => 14 | .name => 15 | .int => 16 | .float => 17 | .string => 18 | .blockString => 19 | .amp => 20

def TokenKind.ofNat? : Nat → Option TokenKind
  | 1 => some .eof | 2 => some .bang | 3 => some .dollar | 4 => some .parenL | 5 => some .parenR
  | 6 => some .spread | 7 => some .colon | 8 => some .equals | 9 => some .at | 10 => some .bracketL
  | 11 => some .bracketR | 12 => some .braceL | 13 => some .pipe | 14 => some .braceR | 15 => some .name
  | 16 => some .int | 17 => some .float | 18 => some .string | 19 => some .blockString | 20 => some .amp
  | _ => none

/-- names of the Go constants in declaration order (compared with `Generated.tokenKinds`) -/
def TokenKind.goNames : List String :=
  ["EOF", "BANG", "DOLLAR", "PAREN_L", "PAREN_R", "SPREAD", "COLON", "EQUALS", "AT", "BRACKET_L", "BRACKET_R",
   "BRACE_L", "PIPE", "BRACE_R", "NAME", "INT", "FLOAT", "STRING", "BLOCK_STRING", "AMP"]

structure Token where
  kind : TokenKind
  start : Nat
  stop : Nat
  value : String
deriving DecidableEq, Repr, Inhabited

end GqlModel
