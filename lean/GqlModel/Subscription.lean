/-! # Model M of `graphql.Subscribe` / `ExecuteSubscription` (subscription.go) as a transition system

Anchors (/repo/subscription.go):
* `Subscribe` 27-64: parse error / validation error → `sendOneResultAndClose` 66-71 (buffered channel of
  capacity 1, preloaded with the error result and closed; no goroutine)           → `Request.invalid`
* `ExecuteSubscription` 75-248: unbuffered `resultChannel` (91), one forwarding goroutine (100) with
  `defer close(resultChannel)`;
  - the one-shot sends `send(r)` (94-99) = `select { resultChannel <- r | <-ctx.Done() }` for: execution-context
    error, no root type, not exactly one root field (151), unknown field, no Subscribe function, Subscribe resolver error, nil result, a
    recovered panic whose value is an `error`, and the `default:` branch for a Subscribe result that is not a
    `chan interface{}` (one mapped result)                                          → `Request.oneShot`
    (a recovered panic whose value is not an `error` is wrapped with fmt.Errorf and sent the same way)
  - the streaming loop 224-239:
        for { select { case <-ctx.Done(): return                         -- `observeCancel` (idle)
                       case res, more := <-sub:
                            if !more { return }                          -- `finish`
                            r := mapSourceToResponse(res)                -- `produce`
                            select { case resultChannel <- r:            -- `deliver`
                                     case <-ctx.Done(): return } } }     -- `observeCancel` (holding)
* `mapSourceToResponse` = `Execute` with the event as root value under the request context. By C16 a call
  that starts after the context is done may return `{data: null, errors: [ctx.Err()]}` instead of the mapped
  result (`produce true`); a call that starts before cancellation returns the mapped result (`produce false`).

The source is abstracted to the list of events it will ever emit (`pending` = not yet taken by the forwarder)
and a flag `srcClosed` (the producer closed the channel; only possible after everything was emitted, which is
Go's channel semantics: buffered events are received before the close is seen). The consumer is `reading`
(blocked in a receive / will receive), `slow` (not receiving now, may come back) or `stopped` (never again).

Everything is a total, executable function: `step : St → Act → Option St` (`none` = not enabled),
`run` folds it over a schedule (list of actions). Core Lean only. -/
namespace GqlModel.Subscription

/-- state of the forwarding goroutine -/
inductive Fwd (ρ : Type) where
  | idle                -- in the outer `select { <-ctx.Done() | <-sub }`
  | holding (r : ρ)     -- stream result computed, in the inner `select { resultChannel <- r | <-ctx.Done() }`
  | final (r : ρ)       -- one-shot result, in `send(r)`; afterwards the goroutine returns
  | done                -- returned; `defer close(resultChannel)` has run (or: there never was a goroutine)
deriving DecidableEq, Repr

inductive Consumer where
  | reading | slow | stopped
deriving DecidableEq, Repr

/-- parameters: what `Execute` makes of an event, and the context-error result -/
structure Cfg (ε ρ : Type) where
  exec : ε → ρ
  ctxErr : ρ

structure St (ε ρ : Type) where
  pending : List ε        -- source events not yet taken by the forwarder, in emission order
  srcClosed : Bool
  cancelled : Bool
  fwd : Fwd ρ
  buf : List ρ            -- content of the buffered, already closed channel of `sendOneResultAndClose`
  consumer : Consumer
  delivered : List ρ      -- what the consumer has received, oldest first
deriving Repr

inductive Act where
  | produce (viaCtx : Bool)   -- forwarder takes the next event and maps it (`viaCtx`: Execute saw the done context)
  | deliver                   -- the consumer receives the pending result (rendezvous) or a buffered one
  | cancel                    -- the request context is cancelled / its deadline passes
  | closeSource               -- the producer closes the source channel (after its last event)
  | observeCancel             -- forwarder takes a `<-ctx.Done()` branch and returns
  | finish                    -- forwarder sees the closed source and returns
  | pause | resume | stop     -- consumer: stops receiving for a while / comes back / never receives again
deriving DecidableEq, Repr

variable {ε ρ : Type}

/-- One transition. `none` means the action is not enabled in `s`. -/
def step (c : Cfg ε ρ) (s : St ε ρ) : Act → Option (St ε ρ)
  | .produce viaCtx =>
    match s.fwd, s.pending with
    | .idle, e :: es =>
      if viaCtx = true ∧ s.cancelled = false then none
      else some { s with pending := es, fwd := .holding (if viaCtx then c.ctxErr else c.exec e) }
    | _, _ => none
  | .deliver =>
    match s.consumer with
    | .reading =>
      match s.buf with
      | r :: rest => some { s with buf := rest, delivered := s.delivered ++ [r] }
      | [] =>
        match s.fwd with
        | .holding r => some { s with fwd := .idle, delivered := s.delivered ++ [r] }
        | .final r => some { s with fwd := .done, delivered := s.delivered ++ [r] }
        | _ => none
    | _ => none
  | .cancel => if s.cancelled then none else some { s with cancelled := true }
  | .closeSource =>
    match s.pending, s.srcClosed with
    | [], false => some { s with srcClosed := true }
    | _, _ => none
  | .observeCancel =>
    if s.cancelled then
      match s.fwd with
      | .done => none
      | _ => some { s with fwd := .done }
    else none
  | .finish =>
    match s.fwd, s.pending, s.srcClosed with
    | .idle, [], true => some { s with fwd := .done }
    | _, _, _ => none
  | .pause => match s.consumer with
    | .reading => some { s with consumer := .slow }
    | _ => none
  | .resume => match s.consumer with
    | .slow => some { s with consumer := .reading }
    | _ => none
  | .stop => match s.consumer with
    | .stopped => none
    | _ => some { s with consumer := .stopped }

/-- run a schedule; `none` as soon as an action is not enabled -/
def run (c : Cfg ε ρ) (s : St ε ρ) : List Act → Option (St ε ρ)
  | [] => some s
  | a :: as =>
    match step c s a with
    | none => none
    | some t => run c t as

/-- the requests the property distinguishes -/
inductive Request (ε ρ : Type) where
  | stream (events : List ε)   -- valid subscription, Subscribe resolver returned a `chan interface{}`
  | oneShot (r : ρ)            -- fails inside the goroutine (or non-channel result): one result through `send`
  | invalid (r : ρ)            -- fails to parse or validate: buffered closed channel holding the error result

def blank : St ε ρ :=
  { pending := [], srcClosed := false, cancelled := false, fwd := .done, buf := [], consumer := .reading, delivered := [] }

def init : Request ε ρ → St ε ρ
  | .stream events => { (blank : St ε ρ) with pending := events, fwd := .idle }
  | .oneShot r => { (blank : St ε ρ) with fwd := .final r }
  | .invalid r => { (blank : St ε ρ) with buf := [r] }

/-- observables -/
def St.closedSeen (s : St ε ρ) : Bool :=          -- a receive now yields "closed"
  s.buf.isEmpty && (match s.fwd with | .done => true | _ => false)
def St.goroutineAlive (s : St ε ρ) : Bool :=
  match s.fwd with | .done => false | _ => true

/-- the actions of the forwarder, the consumer's receive and the producer: a state in which none of them is
enabled is terminal (cancellation and consumer mood changes are external choices, not progress) -/
def progressActs : List Act := [.produce false, .produce true, .deliver, .closeSource, .observeCancel, .finish]

def St.terminal (c : Cfg ε ρ) (s : St ε ρ) : Bool :=
  progressActs.all (fun a => (step c s a).isNone)

end GqlModel.Subscription
