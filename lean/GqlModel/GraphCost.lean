import GqlModel.Validate.Graph
/-! # C19 — step counts of the GRAPH rules of validation and of the `ValidationContext` helpers

`GqlModel.Validate.Graph` (worker c02b) models `FragmentSpreads`, `RecursivelyReferencedFragments`, `detectCycleRecursive`,
`VariableUsages`, `RecursiveVariableUsages` and the five rules built on them. This file adds, WITHOUT touching those
definitions, instrumented twins of the three loop algorithms — the same code with a step counter threaded through
(`fsLoopC`, `rrfLoopC`, `detectC`/`cycleRunC`; `GqlProofs/GraphCost.lean` proves that erasing the counter gives back the
original function) — syntactic size measures, and the work of the five rules as a function of these step counts, once
for the code as it is (with the pointer-keyed caches of `ValidationContext`) and once without the caches.

Unit of work = one iteration of a Go loop body / one visitor callback:
* `FragmentSpreads`: one per popped selection set plus one per selection scanned (validator.go:157-179);
* `RecursivelyReferencedFragments`: one per popped node, the cost of its `FragmentSpreads` call, one per spread looked at
  (validator.go:194-216);
* `detectCycleRecursive`: calls, iterations of `for _, spreadNode := range spreadNodes`, and the length of every
  `spreadPath[cycleIndex:]` copied into an error (rules.go:846-896);
* `VariableUsages`: two callbacks per AST node of the definition (`visitor.Visit`, C14 `each_node_once_in_document_order`);
* the rules' own loops over usages / variable definitions / fragment definitions. -/
namespace GqlModel.Validate.Graph
open GqlModel.Validate

/-! ## syntactic sizes -/

mutual
/-- `Selection` nodes at or below -/
def selsSel : Selection → Nat
  | .field _ _ _ _ sel _ => 1 + selsOpt sel
  | .spread .. => 1
  | .inline _ _ ss _ => 1 + selsSet ss
def selsSet : SelectionSet → Nat
  | .mk sels _ => selsSels sels
def selsOpt : Option SelectionSet → Nat
  | none => 0
  | some ss => selsSet ss
def selsSels : List Selection → Nat
  | [] => 0
  | x :: xs => selsSel x + selsSels xs
end

/-- fragment-spread nodes at or below a selection set -/
def nSpreadsSet (ss : SelectionSet) : Nat := (spreadsSet ss).length

mutual
/-- AST nodes of a value as `visitor.Visit` sees them (Variable and ObjectField carry a Name node) -/
def nodesValue : Value → Nat
  | .var _ _ => 2
  | .list vs _ => 1 + nodesValues vs
  | .obj fs _ => 1 + nodesObjFields fs
  | _ => 1
def nodesValues : List Value → Nat
  | [] => 0
  | v :: vs => nodesValue v + nodesValues vs
def nodesObjField : ObjField → Nat
  | .mk _ v _ => 2 + nodesValue v
def nodesObjFields : List ObjField → Nat
  | [] => 0
  | f :: fs => nodesObjField f + nodesObjFields fs
end

def nodesArgs (args : List Argument) : Nat := (args.map (fun a => 2 + nodesValue a.value)).sum
def nodesDirs (dirs : List Directive) : Nat := (dirs.map (fun d => 2 + nodesArgs d.args)).sum

def nodesType : TypeRef → Nat
  | .named _ _ => 2
  | .list t _ => 1 + nodesType t
  | .nonNull t _ => 1 + nodesType t

mutual
/-- AST nodes at or below a selection -/
def nodesSel : Selection → Nat
  | .field alias _ args dirs sel _ =>
    2 + (match alias with | some _ => 1 | none => 0) + nodesArgs args + nodesDirs dirs + nodesOpt sel
  | .spread _ dirs _ => 2 + nodesDirs dirs
  | .inline tc dirs ss _ => 1 + (match tc with | some t => nodesType t | none => 0) + nodesDirs dirs + nodesSet ss
def nodesSet : SelectionSet → Nat
  | .mk sels _ => 1 + nodesSels sels
def nodesOpt : Option SelectionSet → Nat
  | none => 0
  | some ss => nodesSet ss
def nodesSels : List Selection → Nat
  | [] => 0
  | x :: xs => nodesSel x + nodesSels xs
end

def nodesVarDef (v : VarDef) : Nat :=
  3 + (match v.type with | some t => nodesType t | none => 0) + (match v.default with | some x => nodesValue x | none => 0)

/-- AST nodes of an operation definition / a fragment definition -/
def nodesOp (o : Op) : Nat := 2 + (o.vars.map nodesVarDef).sum + nodesDirs o.dirs + nodesSet o.sel
def nodesFrag (f : Frag) : Nat := 2 + nodesType f.typeCond + nodesDirs f.dirs + nodesSet f.sel

/-- AST nodes of the executable definitions: the document size `N` of the bounds -/
def docNodes (d : Document) : Nat := ((opDefs d).map nodesOp).sum + ((fragDefs d).map nodesFrag).sum

def nOps (d : Document) : Nat := (opDefs d).length
def nFragDefs (d : Document) : Nat := (fragDefs d).length

/-! ## `FragmentSpreads` with a step counter -/

def fsLoopC : Nat → List SelectionSet → List Spread → Nat → (List Spread × Bool) × Nat
  | _, [], acc, n => ((acc, false), n)
  | 0, _ :: _, acc, n => ((acc, true), n)
  | fuel + 1, ss :: stk, acc, n =>
    fsLoopC fuel (fsScan ss.sels acc stk).2 (fsScan ss.sels acc stk).1 (n + 1 + ss.sels.length)

/-- steps of one uncached `FragmentSpreads(ss)` -/
def fsSteps (ss : SelectionSet) : Nat := (fsLoopC (setsSet ss) [ss] [] 0).2

/-! ## `RecursivelyReferencedFragments` with a step counter

`fsCost` = what one `FragmentSpreads(node)` call costs: `fsSteps` without the `fragmentSpreads` cache, 1 (the map lookup)
for a node whose spreads are already cached. -/

def rrfLoopC (tbl : List Frag) (fsCost : SelectionSet → Nat) :
    Nat → List SelectionSet → List String → List Frag → Nat → (List Frag × Bool) × Nat
  | _, [], _, frs, n => ((frs, false), n)
  | 0, _ :: _, _, frs, n => ((frs, true), n)
  | fuel + 1, ss :: stk, col, frs, n =>
    rrfLoopC tbl fsCost fuel (rrfScan tbl (fragmentSpreads ss) col frs stk).2.2
      (rrfScan tbl (fragmentSpreads ss) col frs stk).1 (rrfScan tbl (fragmentSpreads ss) col frs stk).2.1
      (n + 1 + fsCost ss + (fragmentSpreads ss).length)

def rrfSteps (tbl : List Frag) (fsCost : SelectionSet → Nat) (opSel : SelectionSet) : Nat :=
  (rrfLoopC tbl fsCost (tbl.length + 1) [opSel] [] [] 0).2

/-- cost of popping one node in `RecursivelyReferencedFragments` -/
def popCost (fsCost : SelectionSet → Nat) (ss : SelectionSet) : Nat := 1 + fsCost ss + nSpreadsSet ss

/-! ## NoFragmentCycles with step counters -/

structure CCnt where
  calls : Nat      -- calls of detectCycleRecursive (each also calls FragmentSpreads once)
  iters : Nat      -- iterations of the loop over spreadNodes
  errLen : Nat     -- total length of the spread paths copied into errors
deriving Repr, Inhabited, DecidableEq

def stepSpreadC (tbl : List Frag) (rec : Frag → CState × CCnt → CState × CCnt) (sc : CState × CCnt) (sp : Spread) :
    CState × CCnt :=
  let st := sc.1
  let c : CCnt := { sc.2 with iters := sc.2.iters + 1 }
  match st.index.lookup sp.name with
  | none =>
    let st1 := { st with path := st.path ++ [sp] }
    let r :=
      if sp.name ∈ st1.visited then (st1, c)
      else
        match lookupFrag tbl sp.name with
        | some g => rec g (st1, c)
        | none => (st1, c)
    ({ r.1 with path := r.1.path.dropLast }, r.2)
  | some ci =>
    ({ st with errs := st.errs ++ [⟨ruleCycles, ((st.path.drop ci) ++ [sp]).map (·.loc)⟩] },
     { c with errLen := c.errLen + ((st.path.drop ci) ++ [sp]).length })

def detectBodyC (tbl : List Frag) (rec : Frag → CState × CCnt → CState × CCnt) (f : Frag) (sc : CState × CCnt) :
    CState × CCnt :=
  let st0 := { sc.1 with visited := f.name.value :: sc.1.visited }
  let c : CCnt := { sc.2 with calls := sc.2.calls + 1 }
  if (fragmentSpreads f.sel).isEmpty then (st0, c)
  else
    let st1 := { st0 with index := (f.name.value, st0.path.length) :: st0.index }
    let r := (fragmentSpreads f.sel).foldl (stepSpreadC tbl rec) (st1, c)
    ({ r.1 with index := r.1.index.filter (fun p => p.1 != f.name.value) }, r.2)

def detectC (tbl : List Frag) : Nat → Frag → CState × CCnt → CState × CCnt
  | 0 => fun _ sc => ({ sc.1 with oof := true }, sc.2)
  | fuel + 1 => detectBodyC tbl (detectC tbl fuel)

def cycleRunC (tbl : List Frag) : CState × CCnt :=
  tbl.foldl (fun sc f => if f.name.value ∈ sc.1.visited then sc else detectC tbl (tbl.length + 1) f sc)
    (CState.init, ⟨0, 0, 0⟩)

/-- most spreads below one fragment definition -/
def maxSpreads : List Frag → Nat
  | [] => 0
  | f :: rest => max (nSpreadsSet f.sel) (maxSpreads rest)

/-! ## the work of the five graph rules as a function of the step counts

`nUsages` = number of variable usages `VariableUsages` returns for a definition; `vuCost` = its traversal. -/

def vuCostOp (o : Op) : Nat := 2 * nodesOp o
def vuCostFrag (f : Frag) : Nat := 2 * nodesFrag f

/-- largest cost of popping a fragment's selection set -/
def maxPop (fsCost : SelectionSet → Nat) : List Frag → Nat
  | [] => 0
  | f :: rest => max (popCost fsCost f.sel) (maxPop fsCost rest)

def maxFs : List Frag → Nat
  | [] => 0
  | f :: rest => max (fsSteps f.sel) (maxFs rest)

/-- NoFragmentCycles: every `detectCycleRecursive` call asks for the spreads of its fragment (`fsPerCall`), then loops -/
def cyclesWork (tbl : List Frag) (fsPerCall : Nat) : Nat :=
  let c := (cycleRunC tbl).2
  c.calls * (1 + fsPerCall) + c.iters + c.errLen + tbl.length

/-- `RecursiveVariableUsages(op)` computed from scratch: own traversal, the fragment closure, one traversal and one
append per referenced fragment -/
def recUsagesWork (s : Schema) (tbl : List Frag) (fsCost : SelectionSet → Nat) (o : Op) : Nat :=
  vuCostOp o + rrfSteps tbl fsCost o.sel +
    ((recursivelyReferenced tbl o.sel).map (fun f => vuCostFrag f + (varUsagesFrag s f).length)).sum

/-- WITHOUT the four caches of `ValidationContext`: NoFragmentCycles; NoUnusedFragments (closure per operation, then one
test per definition); NoUndefinedVariables, NoUnusedVariables, VariablesInAllowedPosition each recompute the
recursive usages of every operation and loop over them (NoUnusedVariables also over the variable definitions) -/
def graphWorkUncached (s : Schema) (d : Document) : Nat :=
  let tbl := fragDefs d
  cyclesWork tbl (maxFs tbl) +
  (((opDefs d).map (fun o => rrfSteps tbl fsSteps o.sel)).sum + tbl.length) +
  ((opDefs d).map (fun o =>
    3 * (recUsagesWork s tbl fsSteps o + (recursiveUsages s tbl o).length) + o.vars.length)).sum

/-- WITH the caches (the code as it is): `FragmentSpreads` is computed once per asked selection set (operation and
fragment bodies), `VariableUsages` once per definition, the closure and the concatenated usages once per operation;
every later request is a map lookup (1). -/
def graphWorkCached (s : Schema) (d : Document) : Nat :=
  let tbl := fragDefs d
  -- first computations
  (((opDefs d).map (fun o => fsSteps o.sel)).sum + ((tbl.map (fun f => fsSteps f.sel)).sum)) +
  (((opDefs d).map vuCostOp).sum + (tbl.map vuCostFrag).sum) +
  ((opDefs d).map (fun o => rrfSteps tbl (fun _ => 1) o.sel + (recursiveUsages s tbl o).length
      + (recursivelyReferenced tbl o.sel).length)).sum +
  -- the rules themselves: cycles (spreads by lookup), unused fragments, three loops over the cached usages
  cyclesWork tbl 1 + ((opDefs d).length + tbl.length) +
  ((opDefs d).map (fun o => 3 * (1 + (recursiveUsages s tbl o).length) + o.vars.length)).sum

/-! ## totals and the closed bounds (proved in `Props/C19.lean`) -/

/-- fragment-spread nodes of the executable definitions -/
def docSpreads (d : Document) : Nat :=
  ((opDefs d).map (fun o => nSpreadsSet o.sel)).sum + ((fragDefs d).map (fun f => nSpreadsSet f.sel)).sum

/-- variable usages of the executable definitions (Variable nodes outside variable definitions) -/
def docUsages (s : Schema) (d : Document) : Nat :=
  ((opDefs d).map (fun o => (varUsagesOp s o).length)).sum + ((fragDefs d).map (fun f => (varUsagesFrag s f).length)).sum

/-- NoFragmentCycles with `F` definitions, at most `S` spreads per definition, `X` per `FragmentSpreads` request -/
def cyclesBound (F S X : Nat) : Nat := F * (1 + X) + F * S + F * S * (F + 2) + F

/-- without the caches: every rule re-traverses, for every operation, the operation and its whole fragment closure -/
def graphBoundUncached (O F N : Nat) : Nat := cyclesBound F N N + F + O * (4 + 4 * F + 21 * N)

/-- with the caches: one pass over the document, then per operation only its closure's spread and usage lists -/
def graphBoundCached (O F N S U : Nat) : Nat := 4 * N + cyclesBound F S 1 + F + O * (6 + 3 * F + S + 4 * U)

end GqlModel.Validate.Graph
