/-! # Shared schema and value vocabulary

`JVal`   JSON-like values: request variables, coerced argument values, response data.
`GType`  type references inside a schema (`[Int!]!`).
`Schema` named types (scalar / object / interface / union / enum / input object), directives, roots.

Numbers: no floats anywhere. `JVal.int i` is an integral JSON number, `JVal.dec m e` is the exact
decimal `m × 10^(-e)` with `e > 0` and `m % 10 ≠ 0` (canonical form; the generators only emit decimals
that are exact in binary floating point so that Go's rendering and the model's coincide).
Objects are association lists; **canonical** objects have keys sorted and unique (`JVal.canon`). -/
namespace GqlModel

inductive JVal where
  | null
  | bool (b : Bool)
  | int (i : Int)
  | dec (m : Int) (e : Nat)
  | str (s : String)
  | list (xs : List JVal)
  | obj (fields : List (String × JVal))
deriving Repr, Inhabited

mutual
def JVal.beq : JVal → JVal → Bool
  | .null, .null => true
  | .bool a, .bool b => a == b
  | .int a, .int b => a == b
  | .dec a e, .dec b f => a == b && e == f
  | .str a, .str b => a == b
  | .list a, .list b => JVal.beqList a b
  | .obj a, .obj b => JVal.beqFields a b
  | _, _ => false
def JVal.beqList : List JVal → List JVal → Bool
  | [], [] => true
  | a :: as, b :: bs => JVal.beq a b && JVal.beqList as bs
  | _, _ => false
def JVal.beqFields : List (String × JVal) → List (String × JVal) → Bool
  | [], [] => true
  | (k, a) :: as, (l, b) :: bs => k == l && JVal.beq a b && JVal.beqFields as bs
  | _, _ => false
end

instance : BEq JVal := ⟨JVal.beq⟩

def JVal.isNull : JVal → Bool
  | .null => true
  | _ => false

/-- first binding of a key -/
def JVal.lookup (fields : List (String × JVal)) (k : String) : Option JVal :=
  (fields.find? (fun p => p.1 == k)).map (·.2)

/-- insertion into a key-sorted association list, replacing an existing binding (Go map assignment) -/
def JVal.insertSorted (k : String) (v : JVal) : List (String × JVal) → List (String × JVal)
  | [] => [(k, v)]
  | (k', v') :: rest =>
    if k < k' then (k, v) :: (k', v') :: rest
    else if k == k' then (k, v) :: rest
    else (k', v') :: JVal.insertSorted k v rest

/-! ## Types -/

inductive GType where
  | named (n : String)
  | list (t : GType)
  | nonNull (t : GType)
deriving DecidableEq, Repr, Inhabited

def GType.namedName : GType → String
  | .named n => n
  | .list t => t.namedName
  | .nonNull t => t.namedName

def GType.render : GType → String
  | .named n => n
  | .list t => "[" ++ t.render ++ "]"
  | .nonNull t => t.render ++ "!"

def GType.isNonNull : GType → Bool
  | .nonNull _ => true
  | _ => false

/-- strips one outer non-null wrapper -/
def GType.nullable : GType → GType
  | .nonNull t => t
  | t => t

structure ArgDef where
  name : String
  type : GType
  default : Option JVal      -- `none` = no default configured (Go: DefaultValue == nil)
  description : String := ""
deriving Repr, Inhabited

structure FieldDefS where
  name : String
  type : GType
  args : List ArgDef
  description : String := ""
  deprecation : String := ""   -- "" = not deprecated
deriving Repr, Inhabited

structure EnumValueS where
  name : String
  internal : JVal              -- the Go-side value (`EnumValueConfig.Value`), arbitrary; defaults to the name
  description : String := ""
  deprecation : String := ""
deriving Repr, Inhabited

structure InputFieldS where
  name : String
  type : GType
  default : Option JVal
  description : String := ""
deriving Repr, Inhabited

/-- Built-in scalars have fixed coercion functions; custom scalars are table-driven so that both the
Go harness and the model can run them: finite maps from (canonical) input to output, anything else ↦ null. -/
inductive ScalarKind where
  | int | float | string | boolean | id
  | custom (serialize parseValue parseLiteral : List (JVal × JVal))
deriving Repr, Inhabited

inductive TypeDef where
  | scalar (name : String) (kind : ScalarKind) (description : String)
  | object (name : String) (interfaces : List String) (fields : List FieldDefS) (hasIsTypeOf : Bool) (description : String)
  | interface (name : String) (fields : List FieldDefS) (hasResolveType : Bool) (description : String)
  | union (name : String) (members : List String) (hasResolveType : Bool) (description : String)
  | enum (name : String) (values : List EnumValueS) (description : String)
  | inputObject (name : String) (fields : List InputFieldS) (description : String)
deriving Repr, Inhabited

def TypeDef.name : TypeDef → String
  | .scalar n _ _ | .object n _ _ _ _ | .interface n _ _ _ | .union n _ _ _ | .enum n _ _ | .inputObject n _ _ => n

structure DirectiveDefS where
  name : String
  locations : List String
  args : List ArgDef
  description : String := ""
deriving Repr, Inhabited

structure Schema where
  types : List TypeDef                -- user types in declaration order (built-in scalars included when referenced)
  query : String
  mutation : Option String
  subscription : Option String
  directives : List DirectiveDefS     -- includes @skip / @include / @deprecated as configured
deriving Repr, Inhabited

namespace Schema

def find? (s : Schema) (n : String) : Option TypeDef := s.types.find? (fun t => t.name == n)

def objectFields (s : Schema) (n : String) : List FieldDefS :=
  match s.find? n with
  | some (.object _ _ fs _ _) => fs
  | some (.interface _ fs _ _) => fs
  | _ => []

def isObject (s : Schema) (n : String) : Bool :=
  match s.find? n with | some (.object ..) => true | _ => false
def isInterface (s : Schema) (n : String) : Bool :=
  match s.find? n with | some (.interface ..) => true | _ => false
def isUnion (s : Schema) (n : String) : Bool :=
  match s.find? n with | some (.union ..) => true | _ => false
def isAbstract (s : Schema) (n : String) : Bool := s.isInterface n || s.isUnion n
def isComposite (s : Schema) (n : String) : Bool := s.isObject n || s.isAbstract n
def isEnum (s : Schema) (n : String) : Bool :=
  match s.find? n with | some (.enum ..) => true | _ => false
def isScalar (s : Schema) (n : String) : Bool :=
  match s.find? n with | some (.scalar ..) => true | _ => false
def isInputObject (s : Schema) (n : String) : Bool :=
  match s.find? n with | some (.inputObject ..) => true | _ => false
def isLeaf (s : Schema) (n : String) : Bool := s.isScalar n || s.isEnum n
def isInputTypeName (s : Schema) (n : String) : Bool := s.isLeaf n || s.isInputObject n
def isOutputTypeName (s : Schema) (n : String) : Bool := s.isLeaf n || s.isComposite n

/-- object types implementing an interface / members of a union, in schema declaration order -/
def possibleTypes (s : Schema) (abstractName : String) : List String :=
  match s.find? abstractName with
  | some (.union _ members _ _) => members
  | some (.interface ..) =>
    s.types.filterMap (fun
      | .object n ifaces _ _ _ => if ifaces.contains abstractName then some n else none
      | _ => none)
  | _ => []

def isPossibleType (s : Schema) (abstractName objName : String) : Bool :=
  (s.possibleTypes abstractName).contains objName

/-- `doesFragmentConditionMatch` / `planFragmentMatches`: a type condition applies to a runtime object type
if it names that type, or an abstract type of which it is a possible type. -/
def typeConditionApplies (s : Schema) (cond : Option String) (runtime : String) : Bool :=
  match cond with
  | none => true
  | some c => c == runtime || (s.isAbstract c && s.isPossibleType c runtime)

def rootFor (s : Schema) : String → Option String
  | "query" => some s.query
  | "mutation" => s.mutation
  | "subscription" => s.subscription
  | _ => none

end Schema

end GqlModel
