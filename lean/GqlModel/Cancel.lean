import GqlModel.ChanTables
import Generated.Tables
/-! # Model M of the cancellation protocol of `ExecutePlan` (plan.go) as a transition system

Anchors (/repo/plan.go, `ExecutePlan` 647-738; channel 671, send 687, select 730-737):
* `resultChannel := make(chan *Result, 2)`                      — buffered channel, capacity `cap` (from the
  regenerated table `Generated.chanMakes`; the theorems need `1 ≤ cap`)
* `go func() { out := &Result{}; defer func() { recover…; resultChannel <- out }(); … }()`
                                                                  — the background executor: it runs variable
  coercion and then the resolvers of the operation one after the other (`resolverStep k`), assembles `out`
  (data of *all* fields, *all* field errors) and sends it exactly once (`finish`); it never looks at the
  context itself, only resolvers may
* `select { case <-ctx.Done(): return {Errors: [ctx.Err()]}     — `selectCtx`
           case r := <-resultChannel: return r }`                — `selectResult`
* the context: `ctxDone e` (cancel → `Canceled`, deadline → `DeadlineExceeded`), at any time, once.

A resolver is described by two bits: whether it returns an error of its own, and whether it watches
`ctx.Done()` while it waits (then it may come back with `ctx.Err()` once the context is done:
`resolverStep k true`). The result of the executor is abstracted to the list of per-step values, in execution
order: complete = one value for every step. What the real response looks like for such a list (data tree,
error paths) is computed by the driver and compared with the real `Result`.

The operation kind (query / mutation) does not appear: the protocol code is the same for both, and the steps of
the model are sequential in either case.

Total executable functions, core Lean only. -/
namespace GqlModel.Cancel

inductive CtxErr where
  | canceled | deadlineExceeded
deriving DecidableEq, Repr

/-- what one executor step contributed to the response -/
inductive Val where
  | value                 -- resolved normally: the field has its value
  | failed                -- the resolver returned its own error: field null + one error
  | ctxSeen (e : CtxErr)  -- the resolver saw the done context and returned ctx.Err(): field null + one error
deriving DecidableEq, Repr

structure Resolver where
  fails : Bool
  observes : Bool
deriving DecidableEq, Repr

/-- the value a resolver yields when it does not react to the context -/
def Resolver.plain (r : Resolver) : Val := if r.fails then .failed else .value

inductive Outcome where
  | normal (vals : List Val)    -- the executor's result, as received from the channel
  | ctxError (e : CtxErr)       -- `{data: nil, errors: [ctx.Err()]}`
deriving DecidableEq, Repr

inductive Exec where
  | running (acc : List Val)    -- background goroutine: values of the steps done so far
  | sent                        -- it has sent its result and returned
deriving DecidableEq, Repr

inductive Caller where
  | waiting                     -- in the `select`
  | returned (o : Outcome)
deriving DecidableEq, Repr

structure St where
  exec : Exec
  chan : List (List Val)        -- content of the buffered result channel
  ctx : Option CtxErr           -- `some e` once the context is done
  caller : Caller
deriving DecidableEq, Repr

inductive Act where
  | resolverStep (k : Nat) (saw : Bool)   -- step k completes; `saw`: it returned because it saw the done context
  | finish                                -- executor: all steps done, `resultChannel <- out`, return
  | ctxDone (e : CtxErr)                  -- cancel() / the deadline passes
  | selectCtx                             -- caller takes `<-ctx.Done()`
  | selectResult                          -- caller takes `<-resultChannel`
deriving DecidableEq, Repr

def init : St := { exec := .running [], chan := [], ctx := none, caller := .waiting }

/-- One transition of the system with resolvers `rs` and channel capacity `cap`; `none` = not enabled.
With `cap = 0` the send is a rendezvous with a caller that is still in its `select`. -/
def step (rs : List Resolver) (cap : Nat) (s : St) : Act → Option St
  | .resolverStep k saw =>
    match s.exec with
    | .running acc =>
      if k ≠ acc.length then none else
      match rs[k]? with
      | none => none
      | some r =>
        if saw then
          match s.ctx with
          | some e => if r.observes then some { s with exec := .running (acc ++ [.ctxSeen e]) } else none
          | none => none
        else some { s with exec := .running (acc ++ [r.plain]) }
    | .sent => none
  | .finish =>
    match s.exec with
    | .running acc =>
      if acc.length ≠ rs.length then none
      else if s.chan.length < cap then some { s with exec := .sent, chan := s.chan ++ [acc] }
      else if cap = 0 ∧ s.caller = .waiting then some { s with exec := .sent, caller := .returned (.normal acc) }
      else none
    | .sent => none
  | .ctxDone e =>
    match s.ctx with
    | none => some { s with ctx := some e }
    | some _ => none
  | .selectCtx =>
    match s.caller, s.ctx with
    | .waiting, some e => some { s with caller := .returned (.ctxError e) }
    | _, _ => none
  | .selectResult =>
    match s.caller, s.chan with
    | .waiting, r :: rest => some { s with caller := .returned (.normal r), chan := rest }
    | _, _ => none

def run (rs : List Resolver) (cap : Nat) (s : St) : List Act → Option St
  | [] => some s
  | a :: as =>
    match step rs cap s a with
    | none => none
    | some t => run rs cap t as

def Act.isCtxDone : Act → Bool
  | .ctxDone _ => true
  | _ => false

/-- value `v` is acceptable for step `k` given the final context state -/
def valOk (rs : List Resolver) (ctx : Option CtxErr) (k : Nat) (v : Val) : Bool :=
  match rs[k]? with
  | none => false
  | some r => v == r.plain || (r.observes && (match ctx with | some e => v == .ctxSeen e | none => false))

def valsOkFrom (rs : List Resolver) (ctx : Option CtxErr) : Nat → List Val → Bool
  | _, [] => true
  | k, v :: vs => valOk rs ctx k v && valsOkFrom rs ctx (k + 1) vs

/-- the complete normal response: one acceptable value for every step, in order -/
def complete (rs : List Resolver) (ctx : Option CtxErr) (vals : List Val) : Bool :=
  vals.length == rs.length && valsOkFrom rs ctx 0 vals

/-- capacity of `ExecutePlan`'s result channel as the code says today (regenerated table
`Generated.chanMakes`); 0 if the function does not make exactly one channel with a literal capacity -/
def codeCap : Nat :=
  match ChanTables.chanCaps Generated.chanMakes "plan.go" "ExecutePlan" with
  | [some n] => n
  | _ => 0

end GqlModel.Cancel
